package main

// Suite "comp": the composed replica. Peer A is a real crdt.Consensus with batching (size-triggered, age
// limit far away) or without, over the controllable datastore (failures hit local publishes only); peer B
// is a second real peer with batching off: an operation at B is published at once and reaches A through
// pubsub + bitswap, so the script decides between which two steps of A's worker a remote delta is merged
// — also while a batch is open (operations taken, not committed). Both datastores report the DAG nodes
// written and the heads put, so the harness sees every delta (id, priority, elements, tombstones).
//
//   C02 comp <cfg> <script> => vals=<..> tr=<step outputs> fired=<classes> fin=<view A>|<view B> ex=<0|1>
//
// cfg: N | Z<maxSize>.<queue>          script steps (';' separated):
//   P<pin token> / U<cid>     LogPin / LogUnpin at A; then wait until the worker has taken it and is quiet
//   rP<pin token> / rU<cid>   the same at B (B is in sync with A's stream first); then wait until A merged it
//   !<c..>                    arm failures of A's next publish attempts (b | t | e)
//   f                         fill A's open batch with filler pins, wait for the full exchange
//   c                         (after an f) stop A, Consensus.Clean on its datastore, start A again ON THE SAME
//                             DATASTORE, reconnect; B re-announces its heads; wait until A holds B's pinset
//                             (bounded). Output: C/<view of A>
// step outputs (';' separated):
//   L<o|r|e>/<deltas>/<hooks>/<view>   F<fillers>/<deltas>/<hooks>/<view>   R<delta|->/<hooks>/<view>   !
//   deltas: A's nodes that became heads during the step, '+' separated;
//   delta = <id>:<prio>:<k.v,...>:<k.id,...>  (A's nodes are numbered 0,2,4.. in order of creation, B's 1,3,5..)

import (
	"context"
	"fmt"
	"sort"
	"strconv"
	"strings"
	"sync"
	"time"

	cid "github.com/ipfs/go-cid"
	ds "github.com/ipfs/go-datastore"
	pb "github.com/ipfs/go-ds-crdt/pb"
	dshelp "github.com/ipfs/go-ipfs-ds-help"
	"github.com/ipfs/go-merkledag"
	"github.com/ipfs/ipfs-cluster/api"
	peerstore "github.com/libp2p/go-libp2p-core/peerstore"
	"google.golang.org/protobuf/proto"

	"verifharness/common"
)

type cblock struct {
	num   int
	prio  uint64
	elems []string
	tombs [][2]string // key index, tombstone id (ds key of the node's multihash)
}

type compWorld struct {
	mu     sync.Mutex
	blocks map[string]*cblock
	n      [2]int
	have   [2]map[string]bool
	merged [2]map[string]bool // nodes peer i has put as a head after receiving them
	heads  [2][]string
	vt     *valTable
}

func lastComp(k string) string { return k[strings.LastIndex(k, "/")+1:] }

func (w *compWorld) decode(val []byte) *cblock {
	nd, err := merkledag.DecodeProtobuf(val)
	if err != nil {
		return nil
	}
	var d pb.Delta
	if err := proto.Unmarshal(nd.Data(), &d); err != nil {
		return nil
	}
	b := &cblock{prio: d.Priority}
	for _, e := range d.Elements {
		k, v := 999, 9999
		if kb, err := dshelp.BinaryFromDsKey(dsKey(e.Key)); err == nil {
			if c, err := cid.Cast(kb); err == nil {
				k = common.CidIndex(c, common.PinUniverse)
				pin := &api.Pin{}
				if pin.ProtoUnmarshal(e.Value) == nil {
					pin.Cid = c
					v = w.vt.val(pin)
				}
			}
		}
		b.elems = append(b.elems, fmt.Sprintf("%d.%d", k, v))
	}
	for _, t := range d.Tombstones {
		k := 999
		if kb, err := dshelp.BinaryFromDsKey(dsKey(t.Key)); err == nil {
			if c, err := cid.Cast(kb); err == nil {
				k = common.CidIndex(c, common.PinUniverse)
			}
		}
		b.tombs = append(b.tombs, [2]string{strconv.Itoa(k), strings.TrimPrefix(t.Id, "/")})
	}
	return b
}

func (w *compWorld) hook(i int, st *ctlDS) {
	st.onBlock = func(key string, val []byte, local bool) {
		x := lastComp(key)
		w.mu.Lock()
		defer w.mu.Unlock()
		w.have[i][x] = true
		if local && w.blocks[x] == nil {
			if b := w.decode(val); b != nil {
				b.num = 2*w.n[i] + i
				w.n[i]++
				w.blocks[x] = b
			}
		}
	}
	st.onHeadPut = func(key string, local bool) {
		x := lastComp(key)
		w.mu.Lock()
		defer w.mu.Unlock()
		if !local {
			w.merged[i][x] = true
			return
		}
		for _, h := range w.heads[i] { // a node replacing two heads is put twice
			if h == x {
				return
			}
		}
		w.heads[i] = append(w.heads[i], x)
	}
}

func (w *compWorld) render(x string) string {
	b := w.blocks[x]
	if b == nil {
		return "unknown"
	}
	type tk struct{ k, id int }
	var tl []tk
	for _, t := range b.tombs {
		k, _ := strconv.Atoi(t[0])
		id := 999
		if o := w.blocks[t[1]]; o != nil {
			id = o.num
		}
		tl = append(tl, tk{k, id})
	}
	sort.Slice(tl, func(i, j int) bool { return tl[i].k < tl[j].k || (tl[i].k == tl[j].k && tl[i].id < tl[j].id) })
	ts := make([]string, len(tl))
	for i, t := range tl {
		ts[i] = fmt.Sprintf("%d.%d", t.k, t.id)
	}
	j := func(l []string) string {
		if len(l) == 0 {
			return "-"
		}
		return strings.Join(l, ",")
	}
	return fmt.Sprintf("%d:%d:%s:%s", b.num, b.prio, j(b.elems), j(ts))
}

// newHeads returns the renderings of peer i's heads put since position *pos.
func (w *compWorld) newHeads(i int, pos *int) string {
	w.mu.Lock()
	defer w.mu.Unlock()
	var l []string
	for ; *pos < len(w.heads[i]); *pos++ {
		l = append(l, w.render(w.heads[i][*pos]))
	}
	if len(l) == 0 {
		return "-"
	}
	return strings.Join(l, "+")
}

// syncTo waits until peer dst holds every node peer src has made a head, and is quiet.
func (w *compWorld) syncTo(src, dst int, st *ctlDS, timeout time.Duration) bool {
	deadline := time.Now().Add(timeout)
	for {
		w.mu.Lock()
		ok := true
		for i, x := range w.heads[src] {
			// (a node with identical content, height and parents made by both peers is one node)
			if !w.have[dst][x] || (i == len(w.heads[src])-1 && !w.merged[dst][x] && !w.isHeadOf(dst, x)) {
				ok = false
			}
		}
		w.mu.Unlock()
		if ok && st.quietFor(8*time.Millisecond) {
			return true
		}
		if time.Now().After(deadline) {
			return false
		}
		time.Sleep(time.Millisecond)
	}
}

func (w *compWorld) isHeadOf(i int, x string) bool {
	for _, h := range w.heads[i] {
		if h == x {
			return true
		}
	}
	return false
}

func validCompStep(st string) bool {
	switch {
	case st == "f" || st == "c":
		return true
	case strings.HasPrefix(st, "!"):
		return len(st) >= 2 && len(st) <= 4 && strings.Trim(st[1:], "bte") == ""
	case strings.HasPrefix(st, "r"):
		return len(st) > 1 && (st[1] == 'P' || st[1] == 'U') && validBatchStep(st[1:])
	case strings.HasPrefix(st, "P"), strings.HasPrefix(st, "U"):
		return validBatchStep(st)
	}
	return false
}

func runComp(emit func(string), cfgTok, script string) {
	bc, ok := parseBatchCfg(cfgTok)
	if !ok || bc.mode == 'S' {
		emit("# malformed comp case: cfg " + cfgTok)
		return
	}
	steps := strings.Split(script, ";")
	var pins []*api.Pin
	for _, st := range steps {
		if st != "" && !validCompStep(st) {
			emit("# malformed comp case: step " + st)
			return
		}
		if strings.HasPrefix(st, "P") {
			pins = append(pins, common.PinOf(st[1:]))
		} else if strings.HasPrefix(st, "rP") {
			pins = append(pins, common.PinOf(st[2:]))
		}
	}
	fill := make([]*api.Pin, 12)
	for i := range fill {
		fill[i] = api.PinCid(common.CidN(fillerBase + i))
		fill[i].Name = common.NameN(60 + i)
	}
	vt := newValTable(append(append([]*api.Pin{}, pins...), fill...))
	w := &compWorld{blocks: map[string]*cblock{}, vt: vt}
	w.have[0], w.have[1] = map[string]bool{}, map[string]bool{}
	w.merged[0], w.merged[1] = map[string]bool{}, map[string]bool{}

	tag := fmt.Sprintf("comp-%x", common.Seed()) + strconv.FormatInt(time.Now().UnixNano(), 36)
	seed := func(i int) string { return fmt.Sprintf("%s-%d", tag, i) }
	var reuse *ctlDS
	mk := func(i int) (*cpeer, error) {
		pc := peerCfg{seed: seed(i), listen: true, trustAll: true, queue: 50, rebcast: 400 * time.Millisecond, idOf: seed,
			clusterNm: "verif-" + tag}
		if i == 0 {
			pc.store = reuse
		}
		if i == 0 && bc.mode == 'Z' {
			pc.maxSize, pc.maxAge, pc.queue = bc.maxSize, longAge, bc.queue
		}
		return newPeer(pc, vt)
	}
	a, err := mk(0)
	if err != nil {
		emit(fmt.Sprintf("# inconclusive comp peer setup: %v", err))
		return
	}
	defer func() { a.close() }()
	b, err := mk(1)
	if err != nil {
		emit(fmt.Sprintf("# inconclusive comp peer setup: %v", err))
		return
	}
	defer b.close()
	a.store.localOnly, b.store.localOnly = true, true
	w.hook(0, a.store)
	w.hook(1, b.store)
	ctx := context.Background()
	a.h.Peerstore().AddAddrs(b.h.ID(), b.h.Addrs(), peerstore.PermanentAddrTTL)
	dctx, cancel := context.WithTimeout(ctx, 10*time.Second)
	_, err = a.h.Network().DialPeer(dctx, b.h.ID())
	cancel()
	if err != nil {
		emit(fmt.Sprintf("# inconclusive comp dial: %v", err))
		return
	}
	time.Sleep(400 * time.Millisecond) // gossipsub mesh

	infra := ""
	a.store.onAttempt = func() int { return 0 }
	uncommitted := 0 // operations accepted at A since its last successful commit
	// settleA(att0, heads0): the worker has taken the operation just accepted; if that filled the batch
	// (or the batch was already full: a failed size commit is retried with every next item) a publish
	// attempt must start; then wait until the store is quiet
	settleA := func(att0, heads0 int, accepted bool) {
		if bc.mode == 'Z' {
			for i := 0; i < 2000 && a.cc.VerifQueueLen() > 0; i++ {
				time.Sleep(time.Millisecond)
			}
			if accepted {
				uncommitted++
			}
			if accepted && uncommitted >= bc.maxSize {
				for i := 0; i < 3000 && a.store.attemptsCount() <= att0; i++ {
					time.Sleep(time.Millisecond)
				}
			} else {
				time.Sleep(2 * time.Millisecond)
			}
		}
		a.store.waitQuiet(6*time.Millisecond, 3*time.Second)
		w.mu.Lock()
		if len(w.heads[0]) > heads0 {
			uncommitted = 0
		}
		w.mu.Unlock()
	}
	marks := func() (int, int) {
		w.mu.Lock()
		defer w.mu.Unlock()
		return a.store.attemptsCount(), len(w.heads[0])
	}
	submit := func(p *cpeer, pin *api.Pin, isPin bool) string {
		var err error
		func() {
			defer func() {
				if r := recover(); r != nil {
					err = fmt.Errorf("panic: %v", r)
				}
			}()
			// every operation is submitted the way an API request does it: with a request-scoped context
			// that is cancelled as soon as the call has returned (round 8: accepted => committed whatever
			// happens to the caller's context afterwards; the state layer ignores the context)
			rctx, rcancel := context.WithCancel(ctx)
			defer rcancel()
			if isPin {
				err = p.cc.LogPin(rctx, pin)
			} else {
				err = p.cc.LogUnpin(rctx, pin)
			}
		}()
		switch {
		case err == nil:
			return "o"
		case strings.Contains(err.Error(), "queue"):
			return "r"
		default:
			return "e"
		}
	}
	var tr, vals []string
	posA, posB, npin, sinceFlush, nextFill := 0, 0, 0, 0, 0
	for _, st := range steps {
		if st == "" {
			continue
		}
		switch {
		case st[0] == 'P' || st[0] == 'U':
			var pin *api.Pin
			if st[0] == 'P' {
				pin = pins[npin]
				npin++
				vals = append(vals, strconv.Itoa(vt.val(pin)))
			} else {
				c, _ := strconv.Atoi(st[1:])
				pin = api.PinCid(common.CidN(c))
			}
			m1, m2 := marks()
			res := submit(a, pin, st[0] == 'P')
			if res == "o" {
				sinceFlush++
			}
			settleA(m1, m2, res == "o")
			tr = append(tr, fmt.Sprintf("L%s/%s/%s/%s", res, w.newHeads(0, &posA), a.trk.take(), a.state(vt)))
		case st[0] == 'r':
			if !w.syncTo(0, 1, b.store, 5*time.Second) {
				infra = "B did not receive A's stream"
			}
			b.trk.take()
			var pin *api.Pin
			if st[1] == 'P' {
				pin = pins[npin]
				npin++
				vals = append(vals, strconv.Itoa(vt.val(pin)))
			} else {
				c, _ := strconv.Atoi(st[2:])
				pin = api.PinCid(common.CidN(c))
			}
			if res := submit(b, pin, st[1] == 'P'); res != "o" {
				infra = "operation at B failed"
			}
			d := w.newHeads(1, &posB)
			if !w.syncTo(1, 0, a.store, 5*time.Second) {
				infra = "A did not receive B's delta"
			}
			tr = append(tr, fmt.Sprintf("R%s/%s/%s", d, a.trk.take(), a.state(vt)))
		case st[0] == '!':
			a.store.arm(classesOf(st[1:])...)
			tr = append(tr, "!")
		case st == "c":
			// stop, clean, restart on the same datastore
			a.cc.Shutdown(ctx)
			if err := a.cc.Clean(ctx); err != nil {
				infra = "Clean failed"
			}
			a.h.Close()
			a.cancel()
			w.mu.Lock()
			w.have[0], w.merged[0] = map[string]bool{}, map[string]bool{}
			w.mu.Unlock()
			reuse = a.store
			na, err := mk(0)
			if err != nil {
				emit(fmt.Sprintf("# inconclusive comp restart: %v", err))
				return
			}
			a = na
			a.store.onAttempt = func() int { return 0 }
			a.h.Peerstore().AddAddrs(b.h.ID(), b.h.Addrs(), peerstore.PermanentAddrTTL)
			dctx, cancel := context.WithTimeout(ctx, 10*time.Second)
			_, err = a.h.Network().DialPeer(dctx, b.h.ID())
			cancel()
			if err != nil {
				infra = "redial failed"
			}
			uncommitted, sinceFlush = 0, 0
			// B re-announces its heads every 400ms: A walks the DAG again
			// (wait until A has fetched every node again and is quiet, then for B's pinset, bounded)
			deadline := time.Now().Add(6 * time.Second)
			for time.Now().Before(deadline) {
				w.mu.Lock()
				all := true
				for _, hs := range w.heads {
					for _, x := range hs {
						if !w.have[0][x] {
							all = false
						}
					}
				}
				w.mu.Unlock()
				if all && a.store.quietFor(10*time.Millisecond) {
					break
				}
				time.Sleep(2 * time.Millisecond)
			}
			state, _ := waitState(a, vt, b.state(vt), 2*time.Second)
			a.store.waitQuiet(8*time.Millisecond, 2*time.Second)
			a.trk.take()
			tr = append(tr, "C/"+state)
		case st == "f":
			var fl []string
			addFiller := func() {
				if nextFill >= len(fill) {
					return
				}
				f := fill[nextFill]
				nextFill++
				m1, m2 := marks()
				res := submit(a, f, true)
				if res == "o" {
					sinceFlush++
				}
				settleA(m1, m2, res == "o")
				fl = append(fl, fmt.Sprintf("%d.%d%s", common.CidIndex(f.Cid, common.PinUniverse), vt.val(f), res))
			}
			if bc.mode == 'Z' {
				for pad := bc.maxSize - sinceFlush%bc.maxSize; pad > 0; pad-- {
					addFiller()
				}
				// failed size commits are retried with the next item only
				for i := 0; i < 4 && a.store.firedStr() != "-" && nextFill < len(fill); i++ {
					w.mu.Lock()
					done := len(w.heads[0]) > posA
					w.mu.Unlock()
					if done {
						break
					}
					addFiller()
				}
			}
			sinceFlush = 0
			if !w.syncTo(0, 1, b.store, 5*time.Second) {
				infra = "B did not receive A's stream"
			}
			j := "-"
			if len(fl) > 0 {
				j = strings.Join(fl, ",")
			}
			tr = append(tr, fmt.Sprintf("F%s/%s/%s/%s", j, w.newHeads(0, &posA), a.trk.take(), a.state(vt)))
		}
	}
	if infra != "" {
		emit("# inconclusive comp: " + infra + " :: " + cfgTok + " " + script)
		return
	}
	v := "-"
	if len(vals) > 0 {
		v = strings.Join(vals, ",")
	}
	emit(fmt.Sprintf("C02 comp %s %s => vals=%s tr=%s fired=%s fin=%s|%s ex=1", cfgTok, script, v, strings.Join(tr, ";"),
		a.store.firedStr(), a.state(vt), b.state(vt)))
}

func genCompScript(r *common.Rng) (string, string) {
	if r.Chance(1, 40) {
		return []string{"S2.50", "Q", "Z2.50"}[r.Intn(3)], []string{"rX;f", "P;f", "!x;f"}[r.Intn(3)]
	}
	cfg := "N"
	if r.Chance(4, 5) {
		cfg = fmt.Sprintf("Z%d.50", []int{1, 2, 3, 2}[r.Intn(4)])
	}
	ncid := 1 + r.Intn(3)
	var st []string
	n := r.Range(3, 9)
	failAt := -1
	if r.Chance(1, 3) {
		failAt = r.Intn(n)
	}
	for i := 0; i < n; i++ {
		if i == failAt {
			k := 1 + r.Intn(2)
			f := make([]byte, k)
			for j := range f {
				f[j] = "bte"[r.Intn(3)]
			}
			st = append(st, "!"+string(f))
		}
		c := r.Intn(ncid)
		pre := ""
		if r.Chance(2, 5) {
			pre = "r"
		}
		if r.Chance(3, 5) {
			st = append(st, pre+"P"+randPinTok(r, c))
		} else {
			st = append(st, pre+"U"+strconv.Itoa(c))
		}
		if r.Chance(1, 6) {
			st = append(st, "f")
			if r.Chance(1, 2) {
				st = append(st, "c")
			}
		}
	}
	st = append(st, "f")
	if r.Chance(1, 5) {
		st = append(st, "c", "f")
	}
	return cfg, strings.Join(st, ";")
}

func dsKey(s string) ds.Key { return ds.NewKey(s) }
