package main

// A real crdt.Consensus peer wired as consensus/crdt/consensus_test.go wires it
// (libp2p host, gossipsub with signing, dual DHT, ipfs-lite inside crdt.New),
// over a controllable datastore and with a recording PinTracker RPC service.

import (
	"context"
	"crypto/sha256"
	"fmt"
	"sort"
	"strings"
	"sync"
	"time"

	"github.com/ipfs/ipfs-cluster/api"
	ccrdt "github.com/ipfs/ipfs-cluster/consensus/crdt"
	"github.com/ipfs/ipfs-cluster/datastore/inmem"

	ipns "github.com/ipfs/go-ipns"
	libp2p "github.com/libp2p/go-libp2p"
	"github.com/libp2p/go-libp2p-core/control"
	crypto "github.com/libp2p/go-libp2p-core/crypto"
	host "github.com/libp2p/go-libp2p-core/host"
	"github.com/libp2p/go-libp2p-core/network"
	peer "github.com/libp2p/go-libp2p-core/peer"
	rpc "github.com/libp2p/go-libp2p-gorpc"
	dht "github.com/libp2p/go-libp2p-kad-dht"
	dual "github.com/libp2p/go-libp2p-kad-dht/dual"
	pubsub "github.com/libp2p/go-libp2p-pubsub"
	record "github.com/libp2p/go-libp2p-record"
	routedhost "github.com/libp2p/go-libp2p/p2p/host/routed"

	ma "github.com/multiformats/go-multiaddr"

	"verifharness/common"
)

// blockGater is a libp2p connection gater refusing every connection with the listed peers
// (a follower that cannot reach / be reached by a given peer).
type blockGater struct{ blocked map[peer.ID]bool }

func (g *blockGater) InterceptPeerDial(p peer.ID) bool                { return !g.blocked[p] }
func (g *blockGater) InterceptAddrDial(p peer.ID, _ ma.Multiaddr) bool { return !g.blocked[p] }
func (g *blockGater) InterceptAccept(network.ConnMultiaddrs) bool     { return true }
func (g *blockGater) InterceptSecured(_ network.Direction, p peer.ID, _ network.ConnMultiaddrs) bool {
	return !g.blocked[p]
}
func (g *blockGater) InterceptUpgraded(network.Conn) (bool, control.DisconnectReason) { return true, 0 }

// valTable names the stored contents of the pins of one case by small integers
// whose numeric order is the byte order of their protobuf encodings.
type valTable struct {
	byTok map[string]int // PinTok of the stored form (cid field blanked) -> val
}

func storedTok(p *api.Pin) (string, []byte) {
	b, err := p.ProtoMarshal()
	if err != nil {
		return "marshalerr", nil
	}
	q := &api.Pin{}
	if err := q.ProtoUnmarshal(b); err != nil {
		return "unmarshalerr", nil
	}
	q.Cid = p.Cid
	return common.PinTok(q), b
}

func newValTable(pins []*api.Pin) *valTable {
	type ent struct {
		tok string
		b   []byte
	}
	seen := map[string]bool{}
	var l []ent
	for _, p := range pins {
		t, b := storedTok(p)
		if !seen[t] {
			seen[t] = true
			l = append(l, ent{t, b})
		}
	}
	sort.Slice(l, func(i, j int) bool {
		if c := strings.Compare(string(l[i].b), string(l[j].b)); c != 0 {
			return c < 0
		}
		return l[i].tok < l[j].tok
	})
	vt := &valTable{byTok: map[string]int{}}
	for i, e := range l {
		vt.byTok[e.tok] = i + 1
	}
	return vt
}

func (vt *valTable) val(p *api.Pin) int {
	t, _ := storedTok(p)
	if v, ok := vt.byTok[t]; ok {
		return v
	}
	return 9999
}

// tracker records Track / Untrack.
type tracker struct {
	mu    sync.Mutex
	calls []string
	vt    *valTable
	raw   func(kind string, p *api.Pin) // hook suite: sees every call as it is
}

func (t *tracker) Track(ctx context.Context, in *api.Pin, out *struct{}) error {
	t.mu.Lock()
	if t.raw != nil {
		t.raw("T", in)
	}
	t.calls = append(t.calls, fmt.Sprintf("T%d.%d", common.CidIndex(in.Cid, common.PinUniverse), t.vt.val(in)))
	t.mu.Unlock()
	return nil
}
func (t *tracker) Untrack(ctx context.Context, in *api.Pin, out *struct{}) error {
	t.mu.Lock()
	if t.raw != nil {
		t.raw("N", in)
	}
	t.calls = append(t.calls, fmt.Sprintf("N%d", common.CidIndex(in.Cid, common.PinUniverse)))
	t.mu.Unlock()
	return nil
}
func (t *tracker) take() string {
	t.mu.Lock()
	defer t.mu.Unlock()
	c := t.calls
	t.calls = nil
	if len(c) == 0 {
		return "-"
	}
	return strings.Join(c, ",")
}

// monitor answers PeerMonitor.LatestMetrics (used by Consensus.Peers only).
type monitor struct{}

func (m *monitor) LatestMetrics(ctx context.Context, in string, out *[]*api.Metric) error {
	*out = nil
	return nil
}

type cpeer struct {
	h      host.Host
	cc     *ccrdt.Consensus
	store  *ctlDS
	trk    *tracker
	ps     *pubsub.PubSub
	cancel context.CancelFunc
}

type peerCfg struct {
	seed      string // identity seed
	listen    bool
	maxSize   int
	maxAge    time.Duration
	queue     int
	trusted   []int // indexes into the identity table; nil with trustAll
	trustAll  bool
	rebcast   time.Duration
	idOf      func(int) string // identity seed of peer i (for trusted)
	clusterNm string
	blocked   []int // peers this host refuses any connection with
	store     *ctlDS // restart on this datastore instead of a fresh one
}

func privKey(seed string) crypto.PrivKey {
	h := sha256.Sum256([]byte("verif-c02-key-" + seed))
	priv, _, err := crypto.GenerateEd25519Key(strings.NewReader(string(h[:]) + string(h[:])))
	if err != nil {
		panic(err)
	}
	return priv
}

func newPeer(pc peerCfg, vt *valTable) (*cpeer, error) {
	ctx, cancel := context.WithCancel(context.Background())
	opts := []libp2p.Option{libp2p.Identity(privKey(pc.seed))}
	if len(pc.blocked) > 0 {
		g := &blockGater{blocked: map[peer.ID]bool{}}
		for _, b := range pc.blocked {
			id, err := peerIDOf(pc.idOf(b))
			if err != nil {
				panic(err)
			}
			g.blocked[id] = true
		}
		opts = append(opts, libp2p.ConnectionGater(g))
	}
	if pc.listen {
		opts = append(opts, libp2p.ListenAddrStrings("/ip4/127.0.0.1/tcp/0"))
	} else {
		opts = append(opts, libp2p.NoListenAddrs)
	}
	h, err := libp2p.New(ctx, opts...)
	if err != nil {
		cancel()
		return nil, err
	}
	psub, err := pubsub.NewGossipSub(ctx, h, pubsub.WithMessageSigning(true), pubsub.WithStrictSignatureVerification(true))
	if err != nil {
		h.Close()
		cancel()
		return nil, err
	}
	idht, err := dual.New(ctx, h,
		dual.DHTOption(dht.NamespacedValidator("pk", record.PublicKeyValidator{})),
		dual.DHTOption(dht.NamespacedValidator("ipns", ipns.Validator{KeyBook: h.Peerstore()})),
		dual.DHTOption(dht.Concurrency(10)),
		dual.DHTOption(dht.RoutingTableRefreshPeriod(200*time.Millisecond)),
		dual.DHTOption(dht.RoutingTableRefreshQueryTimeout(100*time.Millisecond)),
	)
	if err != nil {
		h.Close()
		cancel()
		return nil, err
	}
	rh := routedhost.Wrap(h, idht)

	cfg := &ccrdt.Config{}
	cfg.Default()
	if pc.clusterNm != "" {
		cfg.ClusterName = pc.clusterNm
	}
	cfg.TrustAll = pc.trustAll
	cfg.TrustedPeers = nil
	for _, t := range pc.trusted {
		id, err := peerIDOf(pc.idOf(t))
		if err != nil {
			panic(err)
		}
		cfg.TrustedPeers = append(cfg.TrustedPeers, id)
	}
	cfg.Batching.MaxBatchSize = pc.maxSize
	cfg.Batching.MaxBatchAge = pc.maxAge
	if pc.queue > 0 {
		cfg.Batching.MaxQueueSize = pc.queue
	}
	if pc.rebcast > 0 {
		cfg.RebroadcastInterval = pc.rebcast
	}
	store := pc.store
	if store == nil {
		store = newCtlDS(inmem.New(), cfg.DatastoreNamespace)
	}
	cc, err := ccrdt.New(rh, idht, psub, cfg, store)
	if err != nil {
		h.Close()
		cancel()
		return nil, err
	}
	trk := &tracker{vt: vt}
	srv := rpc.NewServer(nil, "verif-c02")
	if err := srv.RegisterName("PinTracker", trk); err != nil {
		panic(err)
	}
	if err := srv.RegisterName("PeerMonitor", &monitor{}); err != nil {
		panic(err)
	}
	cc.SetClient(rpc.NewClientWithServer(nil, "verif-c02", srv))
	select {
	case <-cc.Ready(ctx):
	case <-time.After(20 * time.Second):
		cc.Shutdown(ctx)
		h.Close()
		cancel()
		return nil, fmt.Errorf("consensus not ready")
	}
	return &cpeer{h: rh, cc: cc, store: store, trk: trk, ps: psub, cancel: cancel}, nil
}

func (p *cpeer) close() {
	ctx, c := context.WithTimeout(context.Background(), 5*time.Second)
	defer c()
	p.cc.Shutdown(ctx)
	p.h.Close()
	p.cancel()
}

// state renders the peer's pinset as cid.val pairs sorted by cid.
func (p *cpeer) state(vt *valTable) string {
	ctx, c := context.WithTimeout(context.Background(), 10*time.Second)
	defer c()
	st, err := p.cc.State(ctx)
	if err != nil {
		return "stateerr"
	}
	pins, err := st.List(ctx)
	if err != nil {
		return "listerr"
	}
	type kv struct{ k, v int }
	l := make([]kv, len(pins))
	for i, pin := range pins {
		l[i] = kv{common.CidIndex(pin.Cid, common.PinUniverse), vt.val(pin)}
	}
	sort.Slice(l, func(i, j int) bool { return l[i].k < l[j].k })
	if len(l) == 0 {
		return "-"
	}
	s := make([]string, len(l))
	for i, e := range l {
		s[i] = fmt.Sprintf("%d.%d", e.k, e.v)
	}
	return strings.Join(s, ",")
}
