package main

// Suite "net" (a few cases in the quick tier, more in the thorough tier): 2-3 real crdt.Consensus peers on loopback, real
// gossipsub (signed messages, topic validator) and ipfs-lite block exchange.
//
//   C02 net <cfg> <script> => vals=<..> ph=<phase>|<phase>...
//
// cfg:    n<R>/<trust>/<batching>
//         trust:    A   every peer lists every other peer as trusted
//                   T   trust_all
//                   O<u> peer u is trusted by nobody (it trusts everybody)
//                   RA | RB | RT  relay topology (n3 only): peers 0 - 1 - 2 in a chain, peer 2 refuses any
//                        connection with peer 0 (connection gater), peer 1 only relays (it issues nothing and
//                        does not rebroadcast); peers 0 and 1 trust everybody; peer 2 trusts only peer 0 (RA),
//                        only peer 1 (RB), everybody (RT). What peer 2 must hold is decided by who SIGNED an
//                        update, not by who forwarded it.
//         batching: N | Z1 (size 1, age 1h) | S<size> (age 60ms)
// script: phases separated by '|', operations inside a phase by ';':
//         <r>P<pin token> | <r>U<cid>     (inside a phase a CID is written by one replica only)
// phase output:  <results o|r|e joined by ','>#<sentinels>#<state of replica 0>/<its tracker calls>#<replica 1>...
//   sentinels: at the end of a phase every replica pins one fresh CID (20 + 4*phase + replica),
//   listed as <replica>:<cid>.<val><result>; a replica has caught up with a peer when it holds that
//   peer's sentinel (so a barrier cannot be passed before anything was committed).
//   The observation is taken at the barrier: every replica has been given generous time to receive
//   what it listens to.

import (
	"context"
	"errors"
	"fmt"
	"strconv"
	"strings"
	"time"

	"github.com/ipfs/ipfs-cluster/api"
	ccrdt "github.com/ipfs/ipfs-cluster/consensus/crdt"

	peerstore "github.com/libp2p/go-libp2p-core/peerstore"

	"verifharness/common"
)

type netCfg struct {
	n       int
	trust   byte // A T O R
	outcast int
	relay   byte // A B T (with trust R)
	batch   string
}

func parseNetCfg(s string) (netCfg, bool) {
	f := strings.Split(s, "/")
	if len(f) != 3 || !strings.HasPrefix(f[0], "n") {
		return netCfg{}, false
	}
	n, err := strconv.Atoi(f[0][1:])
	if err != nil || n < 2 || n > 4 {
		return netCfg{}, false
	}
	c := netCfg{n: n, batch: f[2], outcast: -1}
	switch {
	case f[1] == "A" || f[1] == "T":
		c.trust = f[1][0]
	case f[1] == "RA" || f[1] == "RB" || f[1] == "RT":
		if n != 3 {
			return netCfg{}, false
		}
		c.trust, c.relay = 'R', f[1][1]
	case strings.HasPrefix(f[1], "O"):
		u, err := strconv.Atoi(f[1][1:])
		if err != nil || u < 0 || u >= n {
			return netCfg{}, false
		}
		c.trust, c.outcast = 'O', u
	default:
		return netCfg{}, false
	}
	if c.batch != "N" && c.batch != "Z1" {
		if !strings.HasPrefix(c.batch, "S") {
			return netCfg{}, false
		}
		if v, err := strconv.Atoi(c.batch[1:]); err != nil || v < 1 {
			return netCfg{}, false
		}
	}
	return c, true
}

type netOp struct {
	rep   int
	isPin bool
	pin   *api.Pin
	cid   int
}

func parseNetScript(script string, n int) ([][]netOp, bool) {
	var phases [][]netOp
	for _, ph := range strings.Split(script, "|") {
		var ops []netOp
		for _, st := range strings.Split(ph, ";") {
			if st == "" {
				continue
			}
			i := strings.IndexAny(st, "PU")
			if i <= 0 {
				return nil, false
			}
			r, err := strconv.Atoi(st[:i])
			if err != nil || r < 0 || r >= n {
				return nil, false
			}
			if !validBatchStep(st[i:]) {
				return nil, false
			}
			if st[i] == 'P' {
				p := common.PinOf(st[i+1:])
				ops = append(ops, netOp{rep: r, isPin: true, pin: p, cid: common.CidIndex(p.Cid, common.PinUniverse)})
			} else {
				c, _ := strconv.Atoi(st[i+1:])
				ops = append(ops, netOp{rep: r, pin: api.PinCid(common.CidN(c)), cid: c})
			}
		}
		phases = append(phases, ops)
	}
	return phases, true
}

func sentinelPin(phase, rep int) *api.Pin {
	p := api.PinCid(common.CidN(fillerBase + 4*phase + rep))
	p.Name = common.NameN(70 + 4*phase + rep)
	return p
}

func (c netCfg) listens(i, j int) bool {
	if i == j {
		return true
	}
	if c.trust == 'R' {
		if i != 2 {
			return true
		}
		return c.relay == 'T' || (c.relay == 'A' && j == 0) || (c.relay == 'B' && j == 1)
	}
	return c.trust != 'O' || j != c.outcast
}

// one attempt; ok=false: some replica did not reach what it should hold within the timeout
func netAttempt(c netCfg, phases [][]netOp, vt *valTable, tag string) (line string, ok bool, infra error) {
	seed := func(i int) string { return fmt.Sprintf("net-%s-%d", tag, i) }
	peers := make([]*cpeer, c.n)
	defer func() {
		for _, p := range peers {
			if p != nil {
				p.close()
			}
		}
	}()
	for i := 0; i < c.n; i++ {
		pc := peerCfg{seed: seed(i), listen: true, queue: 100, rebcast: 700 * time.Millisecond, idOf: seed,
			clusterNm: "verif-" + tag}
		switch {
		case c.batch == "Z1":
			pc.maxSize, pc.maxAge = 1, longAge
		case strings.HasPrefix(c.batch, "S"):
			pc.maxSize, _ = strconv.Atoi(c.batch[1:])
			pc.maxAge = shortAge
		}
		if c.trust == 'R' {
			if i == 1 {
				pc.rebcast = time.Hour // a pure relay: nothing is ever announced under its own signature
			}
			if i == 2 {
				pc.blocked = []int{0}
			}
		}
		switch c.trust {
		case 'T':
			pc.trustAll = true
		default:
			for j := 0; j < c.n; j++ {
				if j != i && c.listens(i, j) {
					pc.trusted = append(pc.trusted, j)
				}
			}
		}
		p, err := newPeer(pc, vt)
		if err != nil {
			return "", false, err
		}
		peers[i] = p
	}
	ctx := context.Background()
	for i := 0; i < c.n; i++ {
		for j := i + 1; j < c.n; j++ {
			if c.trust == 'R' && i == 0 && j == 2 {
				continue
			}
			peers[i].h.Peerstore().AddAddrs(peers[j].h.ID(), peers[j].h.Addrs(), peerstore.PermanentAddrTTL)
			dctx, cancel := context.WithTimeout(ctx, 10*time.Second)
			_, err := peers[i].h.Network().DialPeer(dctx, peers[j].h.ID())
			cancel()
			if err != nil {
				return "", false, fmt.Errorf("dial: %v", err)
			}
		}
	}
	time.Sleep(400 * time.Millisecond) // gossipsub mesh
	if c.trust == 'R' {
		time.Sleep(1100 * time.Millisecond) // the relay forwards to its mesh only: one heartbeat
	}

	heard := make([][]accOp, c.n)
	ok = true
	var outs []string
	submit := func(o netOp) string {
		var err error
		if o.isPin {
			err = peers[o.rep].cc.LogPin(ctx, o.pin)
		} else {
			err = peers[o.rep].cc.LogUnpin(ctx, o.pin)
		}
		switch {
		case err == nil:
			a := accOp{pin: o.isPin, cid: o.cid}
			if o.isPin {
				a.val = vt.val(o.pin)
			}
			for i := 0; i < c.n; i++ {
				if c.listens(i, o.rep) {
					heard[i] = append(heard[i], a)
				}
			}
			return "o"
		case errors.Is(err, ccrdt.ErrMaxQueueSizeReached):
			return "r"
		default:
			return "e"
		}
	}
	for pi, ph := range phases {
		var res, sent []string
		for _, o := range ph {
			res = append(res, submit(o))
		}
		for r := 0; r < c.n; r++ {
			if c.trust == 'R' && r == 1 {
				continue
			}
			sp := sentinelPin(pi, r)
			o := netOp{rep: r, isPin: true, pin: sp, cid: common.CidIndex(sp.Cid, common.PinUniverse)}
			sent = append(sent, fmt.Sprintf("%d:%d.%d%s", r, o.cid, vt.val(sp), submit(o)))
		}
		// barrier
		states := make([]string, c.n)
		for i := 0; i < c.n; i++ {
			var done bool
			states[i], done = waitState(peers[i], vt, oracle(heard[i]), 10*time.Second)
			if !done {
				ok = false
			}
		}
		if c.trust == 'O' || c.trust == 'R' {
			// give what must NOT arrive the time to arrive
			time.Sleep(1600 * time.Millisecond)
		} else {
			time.Sleep(50 * time.Millisecond)
		}
		part := []string{strings.Join(res, ","), strings.Join(sent, ",")}
		if len(res) == 0 {
			part[0] = "-"
		}
		for i := 0; i < c.n; i++ {
			part = append(part, fmt.Sprintf("%s/%s", peers[i].state(vt), peers[i].trk.take()))
		}
		outs = append(outs, strings.Join(part, "#"))
	}
	if c.trust == 'R' && len(peers[2].h.Network().ConnsToPeer(peers[0].h.ID())) > 0 {
		return "", false, fmt.Errorf("relay topology broken: peer 2 is connected to peer 0")
	}
	return strings.Join(outs, "|"), ok, nil
}

func runNet(emit func(string), cfgTok, script string) {
	c, okc := parseNetCfg(cfgTok)
	if !okc {
		emit("# malformed net case: cfg " + cfgTok)
		return
	}
	phases, okp := parseNetScript(script, c.n)
	if okp && c.trust == 'R' {
		for _, ph := range phases {
			for _, o := range ph {
				if o.rep == 1 {
					okp = false // the relay issues nothing
				}
			}
		}
	}
	if !okp || len(phases) > 10 {
		emit("# malformed net case: script")
		return
	}
	var pins []*api.Pin
	var vals []string
	for _, ph := range phases {
		for _, o := range ph {
			if o.isPin {
				pins = append(pins, o.pin)
			}
		}
	}
	all := append([]*api.Pin{}, pins...)
	for ph := 0; ph < len(phases) && ph < 10; ph++ {
		for r := 0; r < c.n; r++ {
			all = append(all, sentinelPin(ph, r))
		}
	}
	vt := newValTable(all)
	for _, p := range pins {
		vals = append(vals, strconv.Itoa(vt.val(p)))
	}
	v := "-"
	if len(vals) > 0 {
		v = strings.Join(vals, ",")
	}
	tag := fmt.Sprintf("%x", time.Now().UnixNano()&0xffffff)
	var last string
	for attempt := 0; attempt < 2; attempt++ {
		line, ok, infra := netAttempt(c, phases, vt, fmt.Sprintf("%s%d", tag, attempt))
		if infra != nil {
			emit(fmt.Sprintf("# inconclusive net case (infrastructure): %v", infra))
			return
		}
		last = line
		if ok {
			break
		}
		// re-run before reporting: a replica that did not catch up in time
	}
	emit(fmt.Sprintf("C02 net %s %s => vals=%s ph=%s", cfgTok, script, v, last))
}

// relay cases: peer 0 pins / unpins / pins again, peer 2 (behind the relay) sometimes writes its own CIDs
func genRelayScript(r *common.Rng) (string, string) {
	trust := []string{"RA", "RB", "RT", "RA"}[r.Intn(4)]
	batch := []string{"N", "Z1", "S99", "S2"}[r.Intn(4)]
	nph := r.Range(1, 2)
	var phs []string
	for p := 0; p < nph; p++ {
		var ops []string
		c := r.Intn(3)
		ops = append(ops, fmt.Sprintf("0P%s", randPinTok(r, c)), fmt.Sprintf("0U%d", c), fmt.Sprintf("0P%s", randPinTok(r, c)))
		for i := r.Intn(3); i > 0; i-- {
			if r.Chance(1, 2) {
				ops = append(ops, fmt.Sprintf("0P%s", randPinTok(r, r.Intn(3))))
			} else {
				ops = append(ops, fmt.Sprintf("2P%s", randPinTok(r, 6+r.Intn(2))))
			}
		}
		if r.Chance(1, 3) {
			ops = append(ops, fmt.Sprintf("0U%d", r.Intn(3)))
		}
		phs = append(phs, strings.Join(ops, ";"))
	}
	return fmt.Sprintf("n3/%s/%s", trust, batch), strings.Join(phs, "|")
}

func genNetScript(r *common.Rng) (string, string) {
	if r.Chance(1, 4) {
		return genRelayScript(r)
	}
	n := 2 + r.Intn(2)
	trust := []string{"A", "A", "T", "O"}[r.Intn(4)]
	outcast := -1
	if trust == "O" {
		outcast = r.Intn(n)
		trust = "O" + strconv.Itoa(outcast)
	}
	batch := []string{"N", "Z1", "S99", "S2", "S3"}[r.Intn(5)]
	nph := r.Range(1, 3)
	var phs []string
	for p := 0; p < nph; p++ {
		// CIDs 0..5 are shared between the trusted replicas, one owner per phase; the outcast owns 6..8
		owner := make([]int, 6)
		for c := range owner {
			for {
				owner[c] = r.Intn(n)
				if owner[c] != outcast {
					break
				}
			}
		}
		var ops []string
		nops := r.Range(2, 7)
		for i := 0; i < nops; i++ {
			c := r.Intn(6)
			rep := owner[c]
			if outcast >= 0 && r.Chance(1, 3) {
				rep = outcast
				c = 6 + r.Intn(3)
			}
			if r.Chance(2, 3) {
				ops = append(ops, fmt.Sprintf("%dP%s", rep, randPinTok(r, c)))
			} else {
				ops = append(ops, fmt.Sprintf("%dU%d", rep, c))
			}
		}
		phs = append(phs, strings.Join(ops, ";"))
	}
	return fmt.Sprintf("n%d/%s/%s", n, trust, batch), strings.Join(phs, "|")
}
