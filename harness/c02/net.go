package main

import "verifharness/common"

func runNet(emit func(string), cfg, script string) {}

func genNetScript(r *common.Rng) (string, string) { return "", "" }
