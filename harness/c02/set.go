package main

// Suite "set": R real go-ds-crdt datastores in one process over in-memory
// datastores, one shared in-memory DAG service, and a broadcaster the harness
// controls: every broadcast is captured, the script decides which replica
// receives which broadcast and when. One DAG worker per replica, so deltas are
// merged one after the other and the order is the one the logger reports.
//
//   C02 set <R> <script> => <step outputs> fin=<views> ex=<0|1>
//
// script steps (';' separated):
//   p<r>.<k>.<v>          Put(key k, value v) at replica r
//   d<r>.<k>              Delete(key k) at replica r
//   b<r>.<+k.v|-k>_...    Batch at replica r with those puts / deletes, then Commit
//   x<m>.<r>              deliver the m-th broadcast (in order of creation) to replica r
//   X                     deliver to every replica every broadcast it has not received yet
//
// step outputs (';' separated, X expands into its deliveries):
//   L<r>/<delta|->/<merged>/<hooks>/<view>       local write
//   R<r>.<id>/<merged>/<hooks>/<view>            delivery of a broadcast announcing delta id
//   (two writes with identical content, height and parents are one DAG node: one delta id)
//   delta  = <id>:<prio>:<k.v,...>:<k.id,...>:<parent ids>
//   merged = ids of the deltas merged during the step, in merge order
//   hooks  = P<k>.<v> | D<k>, in call order ;  view = <k>.<v>,... sorted by key

import (
	"context"
	"fmt"
	"sort"
	"strconv"
	"strings"
	"sync"
	"time"

	cid "github.com/ipfs/go-cid"
	ds "github.com/ipfs/go-datastore"
	query "github.com/ipfs/go-datastore/query"
	dssync "github.com/ipfs/go-datastore/sync"
	crdt "github.com/ipfs/go-ds-crdt"
	pb "github.com/ipfs/go-ds-crdt/pb"
	dshelp "github.com/ipfs/go-ipfs-ds-help"
	ipld "github.com/ipfs/go-ipld-format"
	"github.com/ipfs/go-merkledag"
	mdutils "github.com/ipfs/go-merkledag/test"
	"google.golang.org/protobuf/proto"

	"verifharness/common"
)

// ---- harness-controlled broadcaster ----

type ctlBcast struct {
	mu   sync.Mutex
	out  [][]byte
	in   chan []byte
	idle chan struct{}
	ctx  context.Context
}

func (b *ctlBcast) Broadcast(d []byte) error {
	b.mu.Lock()
	b.out = append(b.out, append([]byte{}, d...))
	b.mu.Unlock()
	return nil
}

// Next is called by the replica's handleNext loop: entering it means the
// previous payload has been processed completely.
func (b *ctlBcast) Next() ([]byte, error) {
	select {
	case b.idle <- struct{}{}:
	case <-b.ctx.Done():
		return nil, crdt.ErrNoMoreBroadcast
	}
	select {
	case d := <-b.in:
		return d, nil
	case <-b.ctx.Done():
		return nil, crdt.ErrNoMoreBroadcast
	}
}

// ---- per-replica view of a shared DAG service (as go-ds-crdt's own tests) ----

type memDAGSync struct {
	ipld.DAGService
	mu    sync.RWMutex
	known map[cid.Cid]struct{}
}

func (m *memDAGSync) HasBlock(c cid.Cid) (bool, error) {
	m.mu.RLock()
	defer m.mu.RUnlock()
	_, ok := m.known[c]
	return ok, nil
}
func (m *memDAGSync) mark(c cid.Cid) {
	m.mu.Lock()
	m.known[c] = struct{}{}
	m.mu.Unlock()
}
func (m *memDAGSync) Add(ctx context.Context, n ipld.Node) error {
	m.mark(n.Cid())
	return m.DAGService.Add(ctx, n)
}
func (m *memDAGSync) Get(ctx context.Context, c cid.Cid) (ipld.Node, error) {
	nd, err := m.DAGService.Get(ctx, c)
	if err == nil {
		m.mark(c)
	}
	return nd, err
}
func (m *memDAGSync) GetMany(ctx context.Context, cids []cid.Cid) <-chan *ipld.NodeOption {
	ch := make(chan *ipld.NodeOption)
	go func() {
		defer close(ch)
		for no := range m.DAGService.GetMany(ctx, cids) {
			if no.Err == nil {
				m.mark(no.Node.Cid())
			}
			ch <- no
		}
	}()
	return ch
}

// ---- logger that reports merge order ----

type mergeLogger struct {
	mu     sync.Mutex
	merged []string // cid strings in merge order
}

func (l *mergeLogger) note(format string, args []interface{}) {
	if strings.HasPrefix(format, "merged delta from") && len(args) > 0 {
		l.mu.Lock()
		l.merged = append(l.merged, fmt.Sprint(args[0]))
		l.mu.Unlock()
	}
}
func (l *mergeLogger) Debug(args ...interface{})                 {}
func (l *mergeLogger) Debugf(format string, args ...interface{}) { l.note(format, args) }
func (l *mergeLogger) Error(args ...interface{})                 {}
func (l *mergeLogger) Errorf(format string, args ...interface{}) {}
func (l *mergeLogger) Fatal(args ...interface{})                 {}
func (l *mergeLogger) Fatalf(format string, args ...interface{}) {}
func (l *mergeLogger) Info(args ...interface{})                  {}
func (l *mergeLogger) Infof(format string, args ...interface{})  { l.note(format, args) }
func (l *mergeLogger) Panic(args ...interface{})                 {}
func (l *mergeLogger) Panicf(format string, args ...interface{}) {}
func (l *mergeLogger) Warn(args ...interface{})                  {}
func (l *mergeLogger) Warnf(format string, args ...interface{})  {}

type setReplica struct {
	d     *crdt.Datastore
	b     *ctlBcast
	lg    *mergeLogger
	mu    sync.Mutex
	hooks []string
	got   map[int]bool // broadcasts delivered (or produced) here
}

type setWorld struct {
	rs      []*setReplica
	dag     ipld.DAGService
	cancel  context.CancelFunc
	msgs    [][]byte       // broadcast payloads in order of creation
	msgID   []int          // delta (DAG node) announced by each broadcast
	nnodes  int            // distinct DAG nodes so far
	ids     map[string]int // cid string -> delta id (identical content is one node, one id)
	tombIDs map[string]int // ds-key of the node's multihash -> delta id
}

func setKey(k int) ds.Key { return ds.NewKey(fmt.Sprintf("k%d", k)) }
func setVal(v int) []byte { return []byte(fmt.Sprintf("%03d", v)) }
func keyIdx(s string) int {
	s = strings.TrimPrefix(s, "/")
	n, err := strconv.Atoi(strings.TrimPrefix(s, "k"))
	if err != nil {
		return 999
	}
	return n
}
func valIdx(b []byte) int {
	n, err := strconv.Atoi(string(b))
	if err != nil {
		return 999
	}
	return n
}

func newSetWorld(n int) *setWorld {
	ctx, cancel := context.WithCancel(context.Background())
	w := &setWorld{cancel: cancel, ids: map[string]int{}, tombIDs: map[string]int{}}
	w.dag = merkledag.NewDAGService(mdutils.Bserv())
	for i := 0; i < n; i++ {
		r := &setReplica{got: map[int]bool{}, lg: &mergeLogger{}}
		r.b = &ctlBcast{in: make(chan []byte), idle: make(chan struct{}), ctx: ctx}
		opts := crdt.DefaultOptions()
		opts.Logger = r.lg
		opts.RebroadcastInterval = time.Hour
		opts.NumWorkers = 1
		opts.DAGSyncerTimeout = 10 * time.Second
		opts.PutHook = func(k ds.Key, v []byte) {
			r.mu.Lock()
			r.hooks = append(r.hooks, fmt.Sprintf("P%d.%d", keyIdx(k.String()), valIdx(v)))
			r.mu.Unlock()
		}
		opts.DeleteHook = func(k ds.Key) {
			r.mu.Lock()
			r.hooks = append(r.hooks, fmt.Sprintf("D%d", keyIdx(k.String())))
			r.mu.Unlock()
		}
		d, err := crdt.New(dssync.MutexWrap(ds.NewMapDatastore()), ds.NewKey("x"),
			&memDAGSync{DAGService: w.dag, known: map[cid.Cid]struct{}{}}, r.b, opts)
		if err != nil {
			panic(err)
		}
		r.d = d
		<-r.b.idle
		w.rs = append(w.rs, r)
	}
	return w
}

func (w *setWorld) close() {
	w.cancel()
	for _, r := range w.rs {
		r.d.Close()
	}
}

func (r *setReplica) takeHooks() string {
	r.mu.Lock()
	defer r.mu.Unlock()
	h := r.hooks
	r.hooks = nil
	if len(h) == 0 {
		return "-"
	}
	return strings.Join(h, ",")
}

func (w *setWorld) takeMerged(r *setReplica) string {
	r.lg.mu.Lock()
	m := r.lg.merged
	r.lg.merged = nil
	r.lg.mu.Unlock()
	if len(m) == 0 {
		return "-"
	}
	s := make([]string, len(m))
	for i, c := range m {
		id, ok := w.ids[c]
		if !ok {
			id = 999
		}
		s[i] = strconv.Itoa(id)
	}
	return strings.Join(s, ",")
}

func (r *setReplica) view() string {
	res, err := r.d.Query(query.Query{})
	if err != nil {
		return "queryerr"
	}
	defer res.Close()
	type kv struct{ k, v int }
	var l []kv
	for e := range res.Next() {
		if e.Error != nil {
			return "queryerr"
		}
		l = append(l, kv{keyIdx(e.Key), valIdx(e.Value)})
	}
	if len(l) == 0 {
		return "-"
	}
	sort.Slice(l, func(i, j int) bool { return l[i].k < l[j].k })
	s := make([]string, len(l))
	for i, e := range l {
		s[i] = fmt.Sprintf("%d.%d", e.k, e.v)
	}
	return strings.Join(s, ",")
}

// a new broadcast, if the local write produced one: registers the delta and renders it
func (w *setWorld) newDelta(r *setReplica) string {
	r.b.mu.Lock()
	out := r.b.out
	r.b.out = nil
	r.b.mu.Unlock()
	if len(out) == 0 {
		return "-"
	}
	if len(out) != 1 {
		return "multi"
	}
	var bc pb.CRDTBroadcast
	if err := proto.Unmarshal(out[0], &bc); err != nil || len(bc.Heads) != 1 {
		return "badbcast"
	}
	c, err := cid.Cast(bc.Heads[0].Cid)
	if err != nil {
		return "badcid"
	}
	nd, err := w.dag.Get(context.Background(), c)
	if err != nil {
		return "nonode"
	}
	pn, ok := nd.(*merkledag.ProtoNode)
	if !ok {
		return "notproto"
	}
	var d pb.Delta
	if err := proto.Unmarshal(pn.Data(), &d); err != nil {
		return "baddelta"
	}
	id, seen := w.ids[c.String()]
	if !seen {
		id = w.nnodes
		w.nnodes++
		w.ids[c.String()] = id
		w.tombIDs[dshelp.MultihashToDsKey(c.Hash()).String()] = id
	}
	r.got[len(w.msgs)] = true
	w.msgs = append(w.msgs, out[0])
	w.msgID = append(w.msgID, id)
	var el, tl, pl []string
	for _, e := range d.Elements {
		el = append(el, fmt.Sprintf("%d.%d", keyIdx(e.Key), valIdx(e.Value)))
	}
	// tombstones grouped by key in order of first appearance (the order of the delete hooks);
	// inside a key the order is the datastore's query order: sorted here
	var tkeys []int
	byKey := map[int][]int{}
	for _, t := range d.Tombstones {
		tid, ok := w.tombIDs[t.Id]
		if !ok {
			tid = 999
		}
		k := keyIdx(t.Key)
		if _, seen := byKey[k]; !seen {
			tkeys = append(tkeys, k)
		}
		byKey[k] = append(byKey[k], tid)
	}
	for _, k := range tkeys {
		sort.Ints(byKey[k])
		for _, tid := range byKey[k] {
			tl = append(tl, fmt.Sprintf("%d.%d", k, tid))
		}
	}
	for _, l := range nd.Links() {
		pid, ok := w.ids[l.Cid.String()]
		if !ok {
			pid = 999
		}
		pl = append(pl, strconv.Itoa(pid))
	}
	sort.Strings(pl)
	j := func(l []string) string {
		if len(l) == 0 {
			return "-"
		}
		return strings.Join(l, ",")
	}
	return fmt.Sprintf("%d:%d:%s:%s:%s", id, d.Priority, j(el), j(tl), j(pl))
}

func (w *setWorld) deliver(ri, m int) string {
	r := w.rs[ri]
	select {
	case r.b.in <- w.msgs[m]:
	case <-time.After(20 * time.Second):
		return fmt.Sprintf("R%d.%d/stuck", ri, w.msgID[m])
	}
	select {
	case <-r.b.idle:
	case <-time.After(20 * time.Second):
		return fmt.Sprintf("R%d.%d/stuck", ri, w.msgID[m])
	}
	r.got[m] = true
	return fmt.Sprintf("R%d.%d/%s/%s/%s", ri, w.msgID[m], w.takeMerged(r), r.takeHooks(), r.view())
}

func (w *setWorld) local(ri int, f func(d *crdt.Datastore) error) string {
	r := w.rs[ri]
	errs := ""
	func() {
		defer func() {
			if p := recover(); p != nil {
				errs = "panic"
			}
		}()
		if err := f(r.d); err != nil {
			errs = "err"
		}
	}()
	delta := w.newDelta(r)
	if errs != "" {
		delta = errs
	}
	return fmt.Sprintf("L%d/%s/%s/%s/%s", ri, delta, w.takeMerged(r), r.takeHooks(), r.view())
}

// runSet executes one script and prints the case line.
// validSetStep: the step is well formed for nrep replicas
func validSetStep(st string, nrep int) bool {
	var a, b, c int
	switch {
	case st == "X":
		return true
	case strings.HasPrefix(st, "p"):
		n, _ := fmt.Sscanf(st, "p%d.%d.%d", &a, &b, &c)
		return n == 3 && fmt.Sprintf("p%d.%d.%d", a, b, c) == st && a < nrep && c >= 1 && c < 1000
	case strings.HasPrefix(st, "d"):
		n, _ := fmt.Sscanf(st, "d%d.%d", &a, &b)
		return n == 2 && fmt.Sprintf("d%d.%d", a, b) == st && a < nrep
	case strings.HasPrefix(st, "x"):
		n, _ := fmt.Sscanf(st, "x%d.%d", &a, &b)
		return n == 2 && fmt.Sprintf("x%d.%d", a, b) == st && b < nrep
	case strings.HasPrefix(st, "b"):
		dot := strings.Index(st, ".")
		if dot < 0 {
			return false
		}
		r, err := strconv.Atoi(st[1:dot])
		if err != nil || r < 0 || r >= nrep || dot+1 >= len(st) {
			return false
		}
		for _, it := range strings.Split(st[dot+1:], "_") {
			if n, _ := fmt.Sscanf(it, "+%d.%d", &a, &b); n == 2 && fmt.Sprintf("+%d.%d", a, b) == it && b >= 1 && b < 1000 {
				continue
			}
			if n, _ := fmt.Sscanf(it, "-%d", &a); n == 1 && fmt.Sprintf("-%d", a) == it {
				continue
			}
			return false
		}
		return true
	}
	return false
}

func runSet(emit func(string), nrep int, script string) {
	if nrep < 1 || nrep > 6 {
		emit("# malformed set case: replicas")
		return
	}
	for _, st := range strings.Split(script, ";") {
		if st != "" && !validSetStep(st, nrep) {
			emit("# malformed set case: step " + st)
			return
		}
	}
	w := newSetWorld(nrep)
	defer w.close()
	var outs []string
	exchanged := false
	for _, st := range strings.Split(script, ";") {
		if st == "" {
			continue
		}
		exchanged = false
		switch st[0] {
		case 'p':
			var r, k, v int
			if n, _ := fmt.Sscanf(st, "p%d.%d.%d", &r, &k, &v); n != 3 || r >= nrep {
				outs = append(outs, "bad")
				continue
			}
			outs = append(outs, w.local(r, func(d *crdt.Datastore) error { return d.Put(setKey(k), setVal(v)) }))
		case 'd':
			var r, k int
			if n, _ := fmt.Sscanf(st, "d%d.%d", &r, &k); n != 2 || r >= nrep {
				outs = append(outs, "bad")
				continue
			}
			outs = append(outs, w.local(r, func(d *crdt.Datastore) error { return d.Delete(setKey(k)) }))
		case 'b':
			dot := strings.Index(st, ".")
			if dot < 0 {
				outs = append(outs, "bad")
				continue
			}
			r, err := strconv.Atoi(st[1:dot])
			if err != nil || r >= nrep {
				outs = append(outs, "bad")
				continue
			}
			items := strings.Split(st[dot+1:], "_")
			outs = append(outs, w.local(r, func(d *crdt.Datastore) error {
				bt, err := d.Batch()
				if err != nil {
					return err
				}
				for _, it := range items {
					var k, v int
					if n, _ := fmt.Sscanf(it, "+%d.%d", &k, &v); n == 2 {
						if err := bt.Put(setKey(k), setVal(v)); err != nil {
							return err
						}
					} else if n, _ := fmt.Sscanf(it, "-%d", &k); n == 1 {
						if err := bt.Delete(setKey(k)); err != nil {
							return err
						}
					}
				}
				return bt.Commit()
			}))
		case 'x':
			var m, r int
			if n, _ := fmt.Sscanf(st, "x%d.%d", &m, &r); n != 2 || r >= nrep || m >= len(w.msgs) {
				outs = append(outs, "skip")
				continue
			}
			outs = append(outs, w.deliver(r, m))
		case 'X':
			for ri := range w.rs {
				for m := range w.msgs {
					if !w.rs[ri].got[m] {
						outs = append(outs, w.deliver(ri, m))
					}
				}
			}
			exchanged = true
		default:
			outs = append(outs, "bad")
		}
	}
	fin := make([]string, nrep)
	for i, r := range w.rs {
		fin[i] = r.view()
	}
	ex := 0
	if exchanged {
		ex = 1
	}
	emit(fmt.Sprintf("C02 set %d %s => %s fin=%s ex=%d", nrep, script, strings.Join(outs, ";"), strings.Join(fin, "|"), ex))
}

// ---- generator ----

func genSetScript(r *common.Rng, thorough bool) (int, string) {
	nrep := 2 + r.Intn(2)
	nkeys := 1 + r.Intn(3)
	nvals := 2 + r.Intn(4)
	nops := r.Range(2, 7)
	if thorough {
		nops = r.Range(2, 12)
	}
	var steps []string
	ndeltas := 0 // upper bound on broadcasts so far
	for i := 0; i < nops; i++ {
		rep := r.Intn(nrep)
		k := r.Intn(nkeys)
		switch x := r.Intn(10); {
		case x < 5:
			steps = append(steps, fmt.Sprintf("p%d.%d.%d", rep, k, 1+r.Intn(nvals)))
		case x < 7:
			steps = append(steps, fmt.Sprintf("d%d.%d", rep, k))
		default:
			n := r.Range(2, 4)
			var items []string
			for j := 0; j < n; j++ {
				kk := k
				if r.Chance(1, 3) {
					kk = r.Intn(nkeys)
				}
				if r.Chance(2, 3) {
					items = append(items, fmt.Sprintf("+%d.%d", kk, 1+r.Intn(nvals)))
				} else {
					items = append(items, fmt.Sprintf("-%d", kk))
				}
			}
			steps = append(steps, fmt.Sprintf("b%d.%s", rep, strings.Join(items, "_")))
		}
		ndeltas++
		// some deliveries in between (possibly of old or repeated broadcasts)
		for r.Chance(2, 5) {
			steps = append(steps, fmt.Sprintf("x%d.%d", r.Intn(ndeltas), r.Intn(nrep)))
		}
	}
	// late, out-of-order deliveries: newest heads first to a random replica
	if r.Chance(1, 2) {
		rep := r.Intn(nrep)
		for m := ndeltas - 1; m >= 0 && r.Chance(3, 4); m-- {
			steps = append(steps, fmt.Sprintf("x%d.%d", m, rep))
		}
	}
	if r.Chance(1, 60) { // malformed stream
		steps = append(steps, []string{"p9.0.1", "x.1", "b0.", "d0", "p0.0.0", "zz"}[r.Intn(6)])
	}
	steps = append(steps, "X")
	return nrep, strings.Join(steps, ";")
}

// permutations of 0..n-1, k-th in lexicographic order
func kthPerm(n, k int) []int {
	el := make([]int, n)
	for i := range el {
		el[i] = i
	}
	fact := 1
	for i := 2; i <= n; i++ {
		fact *= i
	}
	k %= fact
	var p []int
	for i := n; i >= 1; i-- {
		fact /= i
		j := k / fact
		k %= fact
		p = append(p, el[j])
		el = append(el[:j], el[j+1:]...)
	}
	return p
}

// exhaustive delivery orders: a history of nd <= 5 writes spread over two
// replicas (with some exchange between them), then a third replica receives
// the nd broadcasts in the k-th order.
func genSetExhaustive(r *common.Rng, perm int) (int, string) {
	nd := r.Range(3, 5)
	nkeys := 1 + r.Intn(2)
	var steps []string
	for i := 0; i < nd; i++ {
		rep := r.Intn(2)
		k := r.Intn(nkeys)
		switch x := r.Intn(10); {
		case x < 5:
			steps = append(steps, fmt.Sprintf("p%d.%d.%d", rep, k, 1+r.Intn(4)))
		case x < 8:
			// a delete that certainly has something to delete: put first inside one batch is not
			// the same thing, so only emit when some put of k at rep precedes; otherwise put
			seen := false
			for _, s := range steps {
				if strings.HasPrefix(s, fmt.Sprintf("p%d.%d.", rep, k)) {
					seen = true
				}
			}
			if seen {
				steps = append(steps, fmt.Sprintf("d%d.%d", rep, k))
			} else {
				steps = append(steps, fmt.Sprintf("p%d.%d.%d", rep, k, 1+r.Intn(4)))
			}
		default:
			steps = append(steps, fmt.Sprintf("b%d.+%d.%d_+%d.%d", rep, k, 1+r.Intn(4), k, 1+r.Intn(4)))
		}
		if i > 0 && r.Chance(1, 4) {
			steps = append(steps, fmt.Sprintf("x%d.%d", r.Intn(i+1), r.Intn(2)))
		}
	}
	for _, m := range kthPerm(nd, perm) {
		steps = append(steps, fmt.Sprintf("x%d.2", m))
	}
	steps = append(steps, "X")
	return 3, strings.Join(steps, ";")
}
