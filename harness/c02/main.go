// C02 harness: CRDT consensus — batching worker and replicated set.
// Suites (flag -suite): set (real go-ds-crdt replicas, scripted delivery),
// batch (one real crdt.Consensus, controllable datastore), net (real peers
// over loopback pubsub; thorough tier). See set.go / batch.go / net.go for the
// line formats.
package main

import (
	"bufio"
	"os"
	"strconv"
	"strings"
	"sync"

	logging "github.com/ipfs/go-log/v2"
	peer "github.com/libp2p/go-libp2p-core/peer"

	"verifharness/common"
)

func peerIDOf(seed string) (peer.ID, error) { return peer.IDFromPrivateKey(privKey(seed)) }

// parallel runs n jobs on w workers and emits their lines in job order.
func parallel(out *common.Out, n, w int, job func(k int, emit func(string))) {
	res := make([][]string, n)
	var wg sync.WaitGroup
	ch := make(chan int)
	for i := 0; i < w; i++ {
		wg.Add(1)
		go func() {
			defer wg.Done()
			for k := range ch {
				job(k, func(s string) { res[k] = append(res[k], s) })
			}
		}()
	}
	for k := 0; k < n; k++ {
		ch <- k
	}
	close(ch)
	wg.Wait()
	for _, l := range res {
		for _, s := range l {
			out.Line("%s", s)
		}
	}
}

func main() {
	logging.SetLogLevel("*", "fatal")
	a := common.ParseArgs()
	out := common.NewOut()
	defer out.Flush()
	suite := a.Extra["suite"]
	thorough := a.Tier == "thorough"
	workers := 8
	if v, err := strconv.Atoi(os.Getenv("VERIF_C02_WORKERS")); err == nil && v > 0 {
		workers = v
	}

	if a.Extra["stdin"] != "" {
		sc := bufio.NewScanner(os.Stdin)
		sc.Buffer(make([]byte, 1<<20), 1<<24)
		var lines [][]string
		for sc.Scan() {
			f := strings.Fields(sc.Text())
			if len(f) < 4 || f[0] != "C02" || f[1] != suite {
				continue
			}
			lines = append(lines, f)
		}
		w := workers
		if suite == "set" {
			w = 1
		}
		parallel(out, len(lines), w, func(k int, emit func(string)) {
			f := lines[k]
			switch suite {
			case "set":
				n, _ := strconv.Atoi(f[2])
				runSet(emit, n, f[3])
			case "batch":
				runBatch(emit, f[2], f[3])
			case "net":
				runNet(emit, f[2], f[3])
			case "val":
				runVal(emit, f[2], f[3])
			case "comp":
				runComp(emit, f[2], f[3])
			case "hook":
				if f[2] == "K" || f[2] == "Q" {
					runHookNs(emit, f[2], f[3])
				} else {
					runHook(emit, f[3])
				}
			case "cfg":
				runCfg(emit, f[3])
			case "shut":
				runShut(emit, f[2], f[3])
			}
		})
		closeValWorlds()
		return
	}

	n := a.N
	root := common.NewRng(common.Seed())
	switch suite {
	case "set":
		if n < 0 {
			n = 300
		}
		emit := func(s string) { out.Line("%s", s) }
		for k := 0; k < n; k++ {
			if a.Only >= 0 && k != a.Only {
				continue
			}
			r := root.Fork(uint64(k))
			if thorough && k%3 == 0 {
				// exhaustive delivery orders: history k/360, permutation (k/3)%120
				h := root.Fork(uint64(1000000 + k/360))
				nrep, sc := genSetExhaustive(h, (k/3)%120)
				runSet(emit, nrep, sc)
				continue
			}
			nrep, sc := genSetScript(r, thorough)
			runSet(emit, nrep, sc)
		}
	case "batch":
		if n < 0 {
			n = 120
		}
		parallel(out, n, workers, func(k int, emit func(string)) {
			if a.Only >= 0 && k != a.Only {
				return
			}
			r := root.Fork(uint64(k))
			cfg, sc := genBatchScript(r, thorough)
			runBatch(emit, cfg, sc)
		})
	case "val":
		if n < 0 {
			n = 3000
		}
		parallel(out, n, 2, func(k int, emit func(string)) {
			if a.Only >= 0 && k != a.Only {
				return
			}
			mode, h := genValScript(root.Fork(uint64(k)))
			runVal(emit, mode, h)
		})
		closeValWorlds()
	case "shut":
		if n < 0 {
			n = 12
		}
		parallel(out, n, 4, func(k int, emit func(string)) {
			if a.Only >= 0 && k != a.Only {
				return
			}
			c, sc := genShutCase(root.Fork(uint64(k)))
			runShut(emit, c, sc)
		})
	case "hook", "cfg":
		if n < 0 {
			n = 400
		}
		parallel(out, n, 1, func(k int, emit func(string)) {
			if a.Only >= 0 && k != a.Only {
				return
			}
			if suite == "hook" {
				switch k % 5 {
				case 3:
					runHookNs(emit, "K", genHookNsScript(root.Fork(uint64(k)), false))
				case 4:
					runHookNs(emit, "Q", genHookNsScript(root.Fork(uint64(k)), true))
				default:
					runHook(emit, genHookScript(root.Fork(uint64(k))))
				}
			} else {
				runCfg(emit, genCfgCase(root.Fork(uint64(k))))
			}
		})
		closeValWorlds()
	case "comp":
		if n < 0 {
			n = 24
		}
		parallel(out, n, workers, func(k int, emit func(string)) {
			if a.Only >= 0 && k != a.Only {
				return
			}
			cfg, sc := genCompScript(root.Fork(uint64(k)))
			runComp(emit, cfg, sc)
		})
	case "net":
		if n < 0 {
			n = 20
		}
		parallel(out, n, 4, func(k int, emit func(string)) {
			if a.Only >= 0 && k != a.Only {
				return
			}
			r := root.Fork(uint64(k))
			cfg, sc := genNetScript(r)
			runNet(emit, cfg, sc)
		})
	}
}
