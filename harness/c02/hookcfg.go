package main

// Suites "hook" and "cfg" (round 8b).
//
// hook: one real crdt.Consensus (batching off, no network); RAW keys/values are written to the crdt datastore the
// state layer sits on (Consensus.VerifRawPut/VerifRawDelete: what a remote or foreign writer can produce) and the
// real Put/Delete hooks run. After every step: the calls the recording PinTracker got and State.List.
//
//   C02 hook R <steps> => <calls>/<list>;…
//   pK.C.V  put under the cid key of cid K the encoded pin {cid C (u = no cid), name "v<V>"}
//   gK.N    put undecodable bytes (flavour N) under the cid key of K
//   fN.C.V  put the encoded pin under a key that is not a cid key (N even: not base32; odd: base32 of non-cid bytes)
//   dK      delete the cid key of K (present or not)      eN  delete the foreign key N
//   calls: T<c|u>.<v> / N<c>, in order, or -; list: c.v sorted, or -
//
// hook, key-namespace modes (round 8 final; hookns.go): raw keys of SEVERAL components.
//   C02 hook K <steps> => <calls>/<list>/<get>/<has>;…   the real Consensus (state namespace "", crdt datastore, hooks run)
//   C02 hook Q <steps> => -/<list>/<get>/<has>;…         a real dsstate.State with namespace /s0 over an in-memory datastore
//   +<key>=<C|u>.<V>  put the encoded pin; +<key>=g<N> put undecodable bytes; -<key> delete
//   key: components joined by ':' — cN cid key of N, bN not base32, qN base32 of non-cid bytes, sN the name "s<N>"
//   get: c.v for the cids 0..3 State.Get finds (E<c> = Get error other than not-found); has: 4 bits of State.Has
//
// cfg: the real Config.LoadJSON (→ applyJSONConfig → Validate) and batchingEnabled on boundary values.
//
//   C02 cfg J <size>,<age ns | ->,<queue | -> => err=<0|1> en=<0|1> eff=<size>,<age>,<queue>

import (
	"context"
	"fmt"
	"sort"
	"strconv"
	"strings"
	"sync"
	"time"

	cid "github.com/ipfs/go-cid"
	ds "github.com/ipfs/go-datastore"
	dshelp "github.com/ipfs/go-ipfs-ds-help"
	"github.com/ipfs/ipfs-cluster/api"
	ccrdt "github.com/ipfs/ipfs-cluster/consensus/crdt"

	"verifharness/common"
)

const hookU = 4 // cids / foreign keys 0..3

var (
	hookMu    sync.Mutex
	hookCalls []string
)

func hookName(p *api.Pin) string {
	if strings.HasPrefix(p.Name, "v") {
		return p.Name[1:]
	}
	return "?" + p.Name
}

func hookCid(c cid.Cid) string {
	if !c.Defined() {
		return "u"
	}
	return strconv.Itoa(common.CidIndex(c, common.PinUniverse))
}

func hookWorld() *valWorld {
	valWorldsMu.Lock()
	defer valWorldsMu.Unlock()
	if w, ok := valWorlds["hook"]; ok {
		return w
	}
	w := &valWorld{}
	valWorlds["hook"] = w
	p, err := newPeer(peerCfg{seed: "hook-self", trustAll: true, queue: 10, idOf: func(int) string { return "hook-self" }}, newValTable(nil))
	if err != nil {
		w.err = err
		return w
	}
	p.trk.mu.Lock()
	p.trk.raw = func(kind string, in *api.Pin) {
		hookMu.Lock()
		if kind == "T" {
			hookCalls = append(hookCalls, "T"+hookCid(in.Cid)+"."+hookName(in))
		} else {
			hookCalls = append(hookCalls, "N"+hookCid(in.Cid))
		}
		hookMu.Unlock()
	}
	p.trk.mu.Unlock()
	w.p = p
	return w
}

func hookKey(k int) ds.Key { return dshelp.NewKeyFromBinary(common.CidN(k).Bytes()) }
func foreignKey(n int) ds.Key {
	if n%2 == 0 {
		return ds.NewKey(fmt.Sprintf("/not-base32!%d", n))
	}
	return dshelp.NewKeyFromBinary([]byte{0xff, 0xfe, byte(n)})
}

func hookVal(c string, v int) ([]byte, error) {
	p := api.PinCid(cid.Undef)
	if c != "u" {
		n, _ := strconv.Atoi(c)
		p = api.PinCid(common.CidN(n))
	}
	p.Name = "v" + strconv.Itoa(v)
	return p.ProtoMarshal()
}

func small(s string) (int, bool) {
	n, err := strconv.Atoi(s)
	return n, err == nil && n >= 0 && n < hookU && strconv.Itoa(n) == s
}

func runHook(emit func(string), script string) {
	w := hookWorld()
	if w.err != nil {
		emit(fmt.Sprintf("# inconclusive hook setup: %v", w.err))
		return
	}
	w.mu.Lock()
	defer w.mu.Unlock()
	cc := w.p.cc
	for i := 0; i < hookU; i++ {
		cc.VerifRawDelete(hookKey(i))
		cc.VerifRawDelete(foreignKey(i))
	}
	hookNsReset(cc)
	takeCalls := func() string {
		hookMu.Lock()
		defer hookMu.Unlock()
		c := hookCalls
		hookCalls = nil
		if len(c) == 0 {
			return "-"
		}
		return strings.Join(c, ",")
	}
	list := func() string {
		ctx, c := context.WithTimeout(context.Background(), 10*time.Second)
		defer c()
		st, err := cc.State(ctx)
		if err != nil {
			return "stateerr"
		}
		pins, err := st.List(ctx)
		if err != nil {
			return "listerr"
		}
		var l []string
		for _, p := range pins {
			l = append(l, hookCid(p.Cid)+"."+hookName(p))
		}
		sort.Strings(l)
		if len(l) == 0 {
			return "-"
		}
		return strings.Join(l, ",")
	}
	takeCalls()
	if l := list(); l != "-" {
		emit("# inconclusive hook reset left " + l)
		return
	}
	var outs []string
	for _, st := range strings.Split(script, ";") {
		if st == "" {
			continue
		}
		var err error
		bad := func() { emit("# malformed hook case: step " + st) }
		f := strings.Split(st[1:], ".")
		func() {
			defer func() {
				if r := recover(); r != nil {
					err = fmt.Errorf("panic %v", r)
				}
			}()
			switch st[0] {
			case 'p', 'f':
				if len(f) != 3 {
					err = fmt.Errorf("malformed")
					return
				}
				k, ok1 := small(f[0])
				_, ok2 := small(f[1])
				v, e3 := strconv.Atoi(f[2])
				if !ok1 || (!ok2 && f[1] != "u") || e3 != nil || v < 0 || v > 9 {
					err = fmt.Errorf("malformed")
					return
				}
				b, e := hookVal(f[1], v)
				if e != nil {
					err = fmt.Errorf("malformed")
					return
				}
				key := hookKey(k)
				if st[0] == 'f' {
					key = foreignKey(k)
				}
				if e := cc.VerifRawPut(key, b); e != nil {
					err = fmt.Errorf("puterr")
				}
			case 'g':
				k, ok1 := small(f[0])
				if len(f) != 2 || !ok1 || (f[1] != "0" && f[1] != "1") {
					err = fmt.Errorf("malformed")
					return
				}
				b := []byte{0xff, 0xff, 0xff}
				if f[1] == "1" {
					b = []byte{0x0a, 0x05, 0x01} // field 1, length 5, one byte: truncated
				}
				if e := cc.VerifRawPut(hookKey(k), b); e != nil {
					err = fmt.Errorf("puterr")
				}
			case 'd', 'e':
				k, ok1 := small(st[1:])
				if !ok1 {
					err = fmt.Errorf("malformed")
					return
				}
				key := hookKey(k)
				if st[0] == 'e' {
					key = foreignKey(k)
				}
				if e := cc.VerifRawDelete(key); e != nil {
					err = fmt.Errorf("delerr")
				}
			default:
				err = fmt.Errorf("malformed")
			}
		}()
		if err != nil && err.Error() == "malformed" {
			bad()
			return
		}
		if err != nil {
			outs = append(outs, err.Error()+"/"+list())
			continue
		}
		outs = append(outs, takeCalls()+"/"+list())
	}
	o := strings.Join(outs, ";")
	if o == "" {
		o = "-"
	}
	emit("C02 hook R " + script + " => " + o)
}

func genHookScript(r *common.Rng) string {
	n := r.Range(1, 9)
	var st []string
	for i := 0; i < n; i++ {
		k := r.Intn(hookU)
		switch x := r.Intn(20); {
		case x < 8:
			st = append(st, fmt.Sprintf("p%d.%d.%d", k, k, r.Intn(10)))
		case x < 10:
			c := []string{"u", strconv.Itoa(r.Intn(hookU))}[r.Intn(2)]
			st = append(st, fmt.Sprintf("p%d.%s.%d", k, c, r.Intn(10)))
		case x < 12:
			st = append(st, fmt.Sprintf("g%d.%d", k, r.Intn(2)))
		case x < 14:
			st = append(st, fmt.Sprintf("f%d.%d.%d", k, r.Intn(hookU), r.Intn(10)))
		case x < 18:
			st = append(st, fmt.Sprintf("d%d", k))
		default:
			st = append(st, fmt.Sprintf("e%d", k))
		}
	}
	return strings.Join(st, ";")
}

// ---- cfg ----

func runCfg(emit func(string), c string) {
	f := strings.Split(c, ",")
	if len(f) != 3 {
		emit("# malformed cfg case: " + c)
		return
	}
	size, e1 := strconv.ParseInt(f[0], 10, 32)
	if e1 != nil {
		emit("# malformed cfg case: " + c)
		return
	}
	age := ""
	if f[1] != "-" {
		a, e := strconv.ParseInt(f[1], 10, 48)
		if e != nil {
			emit("# malformed cfg case: " + c)
			return
		}
		age = fmt.Sprintf("%dns", a)
	}
	js := fmt.Sprintf(`{"cluster_name":"x","trusted_peers":["*"],"batching":{"max_batch_size":%d,"max_batch_age":"%s"`, size, age)
	if f[2] != "-" {
		q, e := strconv.ParseInt(f[2], 10, 32)
		if e != nil {
			emit("# malformed cfg case: " + c)
			return
		}
		js += fmt.Sprintf(`,"max_queue_size":%d`, q)
	}
	js += "}}"
	cfg := &ccrdt.Config{}
	err := cfg.LoadJSON([]byte(js))
	b := func(x bool) int {
		if x {
			return 1
		}
		return 0
	}
	emit(fmt.Sprintf("C02 cfg J %s => err=%d en=%d eff=%d,%d,%d", c, b(err != nil), b(cfg.VerifBatchingEnabled()),
		cfg.Batching.MaxBatchSize, int64(cfg.Batching.MaxBatchAge), cfg.Batching.MaxQueueSize))
}

func genCfgCase(r *common.Rng) string {
	pick := func(l []string) string { return l[r.Intn(len(l))] }
	return pick([]string{"-2", "-1", "0", "0", "1", "1", "2", "5", "99"}) + "," +
		pick([]string{"-", "-", "0", "-1", "-60000000", "1", "1", "60000000", "3600000000000"}) + "," +
		pick([]string{"-", "-", "0", "-1", "-7", "1", "1", "2", "50", "50000"})
}

// ---- shut: Shutdown with accepted operations still queued / in an open batch ----
//
//   C02 shut Z<size> <ops> => res=<o|r|e per op> fin=<list after Shutdown and a restart on the same datastore>
//   ops: P<k>.<v> (LogPin of cid k, name "v<v>") / U<k> (LogUnpin); age limit 1h, queue 50.
// The harness waits until the worker has taken everything (queue empty + a pause) before Shutdown, so what is
// lost is exactly the open batch.

var shutSeq int64
var shutMu sync.Mutex

func runShut(emit func(string), cfgW, script string) {
	size, err := strconv.Atoi(strings.TrimPrefix(cfgW, "Z"))
	if !strings.HasPrefix(cfgW, "Z") || err != nil || size < 1 || size > 9 {
		emit("# malformed shut case: cfg " + cfgW)
		return
	}
	shutMu.Lock()
	shutSeq++
	seed := fmt.Sprintf("shut-%d", shutSeq)
	shutMu.Unlock()
	idOf := func(int) string { return seed }
	p, err := newPeer(peerCfg{seed: seed, trustAll: true, maxSize: size, maxAge: time.Hour, queue: 50, idOf: idOf}, newValTable(nil))
	if err != nil {
		emit(fmt.Sprintf("# inconclusive shut setup: %v", err))
		return
	}
	ctx := context.Background()
	var res []byte
	for _, st := range strings.Split(script, ";") {
		if st == "" {
			continue
		}
		var e error
		switch {
		case st[0] == 'P':
			f := strings.Split(st[1:], ".")
			k, ok := 0, false
			if len(f) == 2 {
				k, ok = small(f[0])
			}
			v, e2 := strconv.Atoi(f[len(f)-1])
			if !ok || e2 != nil || v < 0 || v > 9 {
				p.close()
				emit("# malformed shut case: step " + st)
				return
			}
			pin := api.PinCid(common.CidN(k))
			pin.Name = "v" + strconv.Itoa(v)
			e = p.cc.LogPin(ctx, pin)
		case st[0] == 'U':
			k, ok := small(st[1:])
			if !ok {
				p.close()
				emit("# malformed shut case: step " + st)
				return
			}
			e = p.cc.LogUnpin(ctx, api.PinCid(common.CidN(k)))
		default:
			p.close()
			emit("# malformed shut case: step " + st)
			return
		}
		switch {
		case e == nil:
			res = append(res, 'o')
		case strings.Contains(e.Error(), ccrdt.ErrMaxQueueSizeReached.Error()):
			res = append(res, 'r')
		default:
			res = append(res, 'e')
		}
	}
	for i := 0; i < 400 && p.cc.VerifQueueLen() > 0; i++ {
		time.Sleep(5 * time.Millisecond)
	}
	time.Sleep(150 * time.Millisecond)
	store := p.store
	p.close()
	q, err := newPeer(peerCfg{seed: seed, trustAll: true, queue: 50, idOf: idOf, store: store}, newValTable(nil))
	if err != nil {
		emit(fmt.Sprintf("# inconclusive shut restart: %v", err))
		return
	}
	fin := "-"
	func() {
		c2, c := context.WithTimeout(ctx, 10*time.Second)
		defer c()
		st, err := q.cc.State(c2)
		if err != nil {
			fin = "stateerr"
			return
		}
		pins, err := st.List(c2)
		if err != nil {
			fin = "listerr"
			return
		}
		var l []string
		for _, pin := range pins {
			l = append(l, hookCid(pin.Cid)+"."+hookName(pin))
		}
		sort.Strings(l)
		if len(l) > 0 {
			fin = strings.Join(l, ",")
		}
	}()
	q.close()
	r := string(res)
	if r == "" {
		r = "-"
	}
	emit(fmt.Sprintf("C02 shut %s %s => res=%s fin=%s", cfgW, script, r, fin))
}

func genShutCase(r *common.Rng) (string, string) {
	size := []int{1, 2, 3, 5}[r.Intn(4)]
	n := r.Range(1, 7)
	var st []string
	for i := 0; i < n; i++ {
		if r.Chance(1, 3) {
			st = append(st, fmt.Sprintf("U%d", r.Intn(3)))
		} else {
			st = append(st, fmt.Sprintf("P%d.%d", r.Intn(3), r.Intn(10)))
		}
	}
	return fmt.Sprintf("Z%d", size), strings.Join(st, ";")
}
