// extract_c08: reflection-based schema extractor. Linked against the repository
// (VERIF_REPO through the go.mod replace), it walks every wire record of
// wire.Records and prints lean/ClusterVerif/Gen/C08.lean on stdout: per record
// and field the Go name, the effective json and codec (msgpack) names, the
// omitempty flags, and a descriptor of the static field type including which
// marshal/unmarshal interfaces it implements.
package main

import (
	"encoding"
	"encoding/json"
	"fmt"
	"go/ast"
	"go/parser"
	"go/token"
	"os"
	"path/filepath"
	"reflect"
	"strconv"
	"strings"

	codec "github.com/ugorji/go/codec"

	"verifharness/c08/wire"
)

var (
	tJSONM = reflect.TypeOf((*json.Marshaler)(nil)).Elem()
	tJSONU = reflect.TypeOf((*json.Unmarshaler)(nil)).Elem()
	tTextM = reflect.TypeOf((*encoding.TextMarshaler)(nil)).Elem()
	tTextU = reflect.TypeOf((*encoding.TextUnmarshaler)(nil)).Elem()
	tBinM  = reflect.TypeOf((*encoding.BinaryMarshaler)(nil)).Elem()
	tBinU  = reflect.TypeOf((*encoding.BinaryUnmarshaler)(nil)).Elem()
	tSelf  = reflect.TypeOf((*codec.Selfer)(nil)).Elem()
)

type recOut struct {
	name    string
	formats []string
	fields  []string
}

var (
	queue []reflect.Type
	seen  = map[reflect.Type]string{}
)

func b(x bool) string {
	if x {
		return "true"
	}
	return "false"
}

func q(s string) string { return strconv.Quote(s) }

func typeName(t reflect.Type) string {
	if t.PkgPath() == "" {
		return t.String()
	}
	return filepath.Base(t.PkgPath()) + "." + t.Name()
}

func kindName(t reflect.Type) string {
	switch t.Kind() {
	case reflect.Bool:
		return "bool"
	case reflect.Int, reflect.Int8, reflect.Int16, reflect.Int32, reflect.Int64:
		return "int"
	case reflect.Uint, reflect.Uint8, reflect.Uint16, reflect.Uint32, reflect.Uint64:
		return "uint"
	case reflect.Float32, reflect.Float64:
		return "float"
	case reflect.String:
		return "string"
	case reflect.Slice:
		if t.Elem().Kind() == reflect.Uint8 {
			return "bytes"
		}
		return "slice"
	case reflect.Struct:
		return "struct"
	case reflect.Interface:
		return "iface"
	}
	return t.Kind().String()
}

func structName(t reflect.Type) string {
	if r := wire.RecordOfType(t); r != nil {
		return r.Name
	}
	if n, ok := seen[t]; ok {
		return n
	}
	n := t.Name()
	seen[t] = n
	queue = append(queue, t)
	return n
}

func hasExported(t reflect.Type) bool {
	for i := 0; i < t.NumField(); i++ {
		if t.Field(i).PkgPath == "" {
			return true
		}
	}
	return false
}

// ty prints the Lean descriptor of a static type.
func ty(t reflect.Type) string {
	pt := reflect.PtrTo(t)
	if t.Kind() == reflect.Interface {
		// a decoder cannot allocate a value for a non-empty interface, whatever methods it lists
		return fmt.Sprintf("(.iface %s %d)", q(typeName(t)), t.NumMethod())
	}
	anyM := t.Implements(tJSONM) || t.Implements(tTextM) || t.Implements(tBinM) ||
		pt.Implements(tJSONM) || pt.Implements(tTextM) || pt.Implements(tBinM) ||
		pt.Implements(tJSONU) || pt.Implements(tTextU) || pt.Implements(tBinU) || pt.Implements(tSelf)
	if anyM && t.Kind() != reflect.Ptr {
		return fmt.Sprintf("(.leaf %s %s ⟨%s, %s, %s⟩ ⟨%s, %s, %s⟩ ⟨%s, %s, %s⟩ %s)", q(typeName(t)), q(kindName(t)),
			b(t.Implements(tJSONM)), b(t.Implements(tTextM)), b(t.Implements(tBinM)),
			b(pt.Implements(tJSONM)), b(pt.Implements(tTextM)), b(pt.Implements(tBinM)),
			b(pt.Implements(tJSONU)), b(pt.Implements(tTextU)), b(pt.Implements(tBinU)), b(pt.Implements(tSelf)))
	}
	switch t.Kind() {
	case reflect.Ptr:
		return "(.ptr " + ty(t.Elem()) + ")"
	case reflect.Slice:
		if t.Elem().Kind() == reflect.Uint8 {
			return "(.prim \"bytes\")"
		}
		return "(.slice " + ty(t.Elem()) + ")"
	case reflect.Array:
		if t.Elem().Kind() == reflect.Uint8 {
			return "(.prim \"bytearray\")"
		}
		return "(.array " + ty(t.Elem()) + ")"
	case reflect.Map:
		return "(.map " + ty(t.Key()) + " " + ty(t.Elem()) + ")"
	case reflect.Struct:
		if !hasExported(t) {
			return "(.opaque " + q(typeName(t)) + ")"
		}
		return "(.struct " + q(structName(t)) + ")"
	case reflect.Chan, reflect.Func, reflect.UnsafePointer:
		return "(.opaque " + q(typeName(t)) + ")"
	}
	return "(.prim " + q(kindName(t)) + ")"
}

// tagName follows encoding/json for "json" and ugorji (struct tag keys "codec" then "json") for the codec name.
func parseTag(tag string) (name string, omit bool) {
	parts := strings.Split(tag, ",")
	name = parts[0]
	for _, o := range parts[1:] {
		if o == "omitempty" {
			omit = true
		}
	}
	return
}

func fieldsOf(t reflect.Type) []string {
	var out []string
	for i := 0; i < t.NumField(); i++ {
		f := t.Field(i)
		if f.PkgPath != "" && !f.Anonymous {
			continue
		}
		jtag, hasJ := f.Tag.Lookup("json")
		ctag, hasC := f.Tag.Lookup("codec")
		if !hasC {
			ctag = jtag
		}
		jn, jo := parseTag(jtag)
		cn, co := parseTag(ctag)
		explicitJ := hasJ && jn != ""
		explicitC := (hasC || hasJ) && cn != ""
		if jn == "" {
			jn = f.Name
		}
		if cn == "" {
			cn = f.Name
		}
		out = append(out, fmt.Sprintf("    { go := %s, json := %s, codec := %s, jsonOmit := %s, codecOmit := %s, embJson := %s, embCodec := %s,\n      ty := %s }",
			q(f.Name), q(jn), q(cn), b(jo), b(co), b(f.Anonymous && !explicitJ), b(f.Anonymous && !explicitC), ty(f.Type)))
	}
	return out
}

// serialEntry is unexported in state/dsstate: read its declaration from the source.
func serialEntry(repo string) (recOut, error) {
	fset := token.NewFileSet()
	file, err := parser.ParseFile(fset, filepath.Join(repo, "state/dsstate/datastore.go"), nil, 0)
	if err != nil {
		return recOut{}, err
	}
	var out recOut
	found := false
	ast.Inspect(file, func(n ast.Node) bool {
		ts, ok := n.(*ast.TypeSpec)
		if !ok || ts.Name.Name != "serialEntry" {
			return true
		}
		st, ok := ts.Type.(*ast.StructType)
		if !ok {
			return true
		}
		found = true
		out = recOut{name: "serialEntry", formats: []string{wire.FMsgpack}}
		for _, f := range st.Fields.List {
			tag := ""
			if f.Tag != nil {
				tag, _ = strconv.Unquote(f.Tag.Value)
			}
			st := reflect.StructTag(tag)
			jtag, hasJ := st.Lookup("json")
			ctag, hasC := st.Lookup("codec")
			if !hasC {
				ctag = jtag
			}
			_ = hasJ
			var tyS string
			switch tx := f.Type.(type) {
			case *ast.Ident:
				switch tx.Name {
				case "string":
					tyS = "(.prim \"string\")"
				case "int", "int64", "int32":
					tyS = "(.prim \"int\")"
				case "uint64", "uint32", "uint":
					tyS = "(.prim \"uint\")"
				case "bool":
					tyS = "(.prim \"bool\")"
				default:
					tyS = "(.opaque " + q(tx.Name) + ")"
				}
			case *ast.ArrayType:
				if id, ok := tx.Elt.(*ast.Ident); ok && id.Name == "byte" && tx.Len == nil {
					tyS = "(.prim \"bytes\")"
				} else {
					tyS = "(.opaque \"array\")"
				}
			default:
				tyS = "(.opaque \"?\")"
			}
			for _, nm := range f.Names {
				jn, jo := parseTag(jtag)
				cn, co := parseTag(ctag)
				if jn == "" {
					jn = nm.Name
				}
				if cn == "" {
					cn = nm.Name
				}
				out.fields = append(out.fields, fmt.Sprintf("    { go := %s, json := %s, codec := %s, jsonOmit := %s, codecOmit := %s, embJson := false, embCodec := false,\n      ty := %s }",
					q(nm.Name), q(jn), q(cn), b(jo), b(co), tyS))
			}
		}
		return false
	})
	if !found {
		return out, fmt.Errorf("serialEntry not found")
	}
	return out, nil
}

func leanFmt(f string) string { return "." + f }

func main() {
	repo := os.Getenv("VERIF_REPO")
	if repo == "" {
		repo = "/repo"
	}
	var recs []recOut
	for _, r := range wire.Records {
		recs = append(recs, recOut{r.Name, r.Formats, fieldsOf(r.Type)})
	}
	for len(queue) > 0 { // struct types reached from the records but not listed (e.g. trace.SpanContext)
		t := queue[0]
		queue = queue[1:]
		recs = append(recs, recOut{seen[t], nil, fieldsOf(t)})
	}
	se, err := serialEntry(repo)
	if err != nil {
		fmt.Fprintln(os.Stderr, "extract_c08:", err)
		os.Exit(1)
	}
	recs = append(recs, se)

	fmt.Println("import ClusterVerif.Model.C08")
	fmt.Println("/-! GENERATED by harness/extract_c08 (reflection over the record types of the repository; serialEntry from the source).")
	fmt.Println("Do not edit: regenerated on every ./check C08. Core Lean only. -/")
	fmt.Println("namespace CV.C08.Gen")
	fmt.Println("open CV.C08")
	fmt.Println()
	fmt.Println("def table : List Rec := [")
	for i, r := range recs {
		fs := make([]string, len(r.formats))
		for j, f := range r.formats {
			fs[j] = leanFmt(f)
		}
		fmt.Printf("  { name := %s, formats := [%s], fields := [\n%s ] }", q(r.name), strings.Join(fs, ", "), strings.Join(r.fields, ",\n"))
		if i+1 < len(recs) {
			fmt.Println(",")
		} else {
			fmt.Println()
		}
	}
	fmt.Println("]")
	fmt.Println()
	fmt.Println("end CV.C08.Gen")
}
