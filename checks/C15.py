CHECK = {
    "suites": [
        suite("sweep", "c15", 2500, 120000, stdin=True, args=["-suite", "sweep"]),
        suite("file", "c15", 400, 12000, stdin=True, args=["-suite", "file"]),
        suite("env", "c15", 1500, 60000, stdin=True, args=["-suite", "env"]),
        suite("src", "c15", 600, 8000, stdin=True, args=["-suite", "src"]),
        suite("val", "c15", 800, 20000, stdin=True, args=["-suite", "val"]),
        suite("ident", "c15", 400, 6000, stdin=True, args=["-suite", "ident"]),
    ],
    "gen": [{"pkg": "extract_c15", "out": "lean/ClusterVerif/Gen/C15.lean"}],
    "lean_sources": ["ClusterVerif/Model/C15.lean", "ClusterVerif/Spec/C15.lean", "ClusterVerif/Gen/C15.lean"],
    "rule": "every suite first enumerates, for every JSON field of every section (15 sections, 154 fields read from the sources), "
            "the fixed boundary pool of its type (zero, small, 4095/4096/4097, negative, huge, overflow, wrong JSON types, null; durations "
            "'0s','1ns','60s','-1s', max, '', 'abc'; multiaddresses, peer lists, secrets) plus every default/omit constant of a same-typed "
            "sibling, in the suite's modes (sweep: fresh object, dirty object, malformed-neighbour pairs, TLS files, every path-valued "
            "setting with relative/absolute/dotted values under an absolute and a relative base directory with a generated key pair on disk; file: "
            "full 14-section config.Manager file + section/group/file shape variants + the same path cases through a file written to and loaded "
            "from a directory other than the cwd; env: CLUSTER_<SECTION>_<FIELD> over the default and over a loaded non-default "
            "value), src: one config.Manager against an in-process HTTP server, every single operation "
            "(plain / invalid / garbage / missing file, {source:url} via LoadJSON, LoadJSONFromFile and LoadJSONFromHTTPSource over 13 remote "
            "behaviours: valid, invalid, garbage, empty, own source, own source down, self, 404, 500, redirect, down; Default), every operation "
            "followed by 8 second operations (thorough: all pairs), some triples, then save and reload by a fresh Manager), "
            "val: for every Validate() conjunct of every section (guards, cross-field comparisons, inlined helpers) the rows it reads set to values "
            "on both sides of every boundary (all combinations for up to 3 rows, keys removed, null/empty collections) — real LoadJSON, real Validate() on "
            "the resulting object and the Config fields by reflection against the conjunct model (round 8c: hashicorp/raft's ValidateConfig is inlined from the module cache, "
            "so raft's RaftConfig.* fields are swept at constant-1 | constant | constant+1 of its 5ms / 1ms / 1024 bounds and around lease <= heartbeat <= election); "
            "val also: case kind zero - LoadJSON / Validate on a never-initialised object of every section type, also after a refused unparsable load, must not panic; file also: a Manager file with an unknown component, a "
            "null unknown component, an unknown top-level key, an undefined registered component and duplicate keys (case kind mgr), "
            "env also (round 8 final): case kind envk - the raw TEXT of a variable per envconfig decode kind of the field (ParseBool spellings, ParseInt/ParseUint base 0 with range, comma-split slices, k:v maps; well-formed and malformed) against the model EnvK.envDecode: a text envconfig must refuse gives an error and leaves the whole section unchanged, the saved value of direct rows equals the decoded one; "
            "env also (round 8): per field two well-formed, one zero and one malformed value through config.Manager with all 14 sections registered - "
            "Manager.LoadJSON then Manager.ApplyEnvVars (menv), and a file holding another accepted value written to disk then Manager.LoadJSONFileAndEnv (menvfile); "
            "ident: one config.Identity over operation sequences (LoadJSON / LoadJSONFromFile of every id x key token pair: 3 generated key pairs, "
            "unparsable id, empty, absent, non-base64, non-key bytes; garbage; ApplyEnvVars with CLUSTER_ID / CLUSTER_PRIVATEKEY set or unset), every single load, "
            "every load or environment pass after an accepted load, every environment pass after a refused (half-applied) load, then Validate, ToJSON, SaveJSON (file mode), "
            "reload by a fresh Identity, compared observation for observation with the Ident model; plus config.DisplayJSON on synthetic struct types "
            "(hidden string/int/map/slice/struct/pointer fields, omitempty, zero values, tags one level down in struct, pointer, slice and map elements), "
            "config.SetIfNotDefault per Go type over boundary values (also types without an arm), config.ParseDurations over argument lists, and restapi's "
            "libp2p identity (4 id x 5 key tokens x listen address on/off), "
            "then n seeded random cases (random field, random value of its type, 1/12 byte-mangled JSON); non-trivial = the loader "
            "accepted or refused a set value (unset/null accepted cases are trivial); distinct by case line",
    "trusted_base": ["go/ast pattern matcher harness/common/c15_schema.go (fail-closed: unmatched references become kind custom)",
                     "statement recognisers harness/common/c15_util.go for SetIfNotDefault, applyIdentityJSON, Manager.LoadJSONFileAndEnv/ApplyEnvVars (exact shapes; anything else is '?', which the model cannot interpret)",
                     "statement classifier harness/common/c15_seq.go for the per-section call sequences (a statement without return = assignment; anything unrecognised = unknown, on which the interpreter is stuck)",
                     "statement-shape recognisers harness/common/c15_codec.go (regular expressions over the normalised source of whole statement windows; no match = custom) and c15_validate.go (expression language of Validate conjuncts; no match = opaque; a library validation function is located through go.mod + the module cache, not found = opaque)",
                     "library codecs: NewMultiaddr/String, peer.Decode/Encode, hex and base64 decode/encode, crypto.UnmarshalPrivateKey/Bytes round-trip what they accept (like time.ParseDuration/String); integer casts uint <-> goleveldb.Compression/Strict preserve the value",
                     "reflection on the exported Config struct field named by the translator for eff/eff2",
                     "in-process net/http/httptest server and a closed loopback port standing for remote sources",
                     "time.ParseDuration(d.String()) = d and d.String() != \"\" (Go time package)",
                     "encoding/json: an absent key and an omitted zero value decode to the zero value",
                     "value classification of the generator (vc=zero|wf|mal|unset) and the frozen secret-name list of the Spec"],
    "assumptions": ["an empty environment variable means 'not set' (not counted as a setting)",
                    "identity.json is never displayed (config.Identity has no ToDisplayJSON), so its private_key needs no hidden tag",
                    "Identity.ApplyEnvVars / ToJSON are only called on an Identity that holds a private key (they dereference a nil key otherwise; every caller loads or Default()s first)",
                    "likewise raft.Config, observations.MetricsConfig and TracingConfig: ApplyEnvVars / ToJSON of a never-initialised object dereference nil (Validate and LoadJSON never panic in any state; notes Round 8b, proposal)",
                    "peer IDs and keys are abstracted to the index of their key pair: peer.IDFromPublicKey is injective on the generated pairs",
                    "an opaque Validate conjunct that reads no Config field a JSON key is loaded into (cluster isRPCPolicyValid(cfg.RPCPolicy)) has the same value for every file; the default case of every run observes that it does not fire",
                    "DisplayJSON masks top-level struct fields only: theorem table_no_nested_hidden keeps every hidden tag at the top level"],
}
META = {
    "text": "Kernel-checked for all values of any Go value type: for every load/save kind pair found in the sources (direct, SetIfNotDefault, "
            "ParseDurations, parse-or-zero, zero-means-default, pointer-optional, mergo override; direct, String(), omit-if-default) "
            "load(save(load j)) = load j, every non-zero value is settable, zero means default exactly for the zero-blind kinds, a boolean under a "
            "zero-blind kind is settable iff its default is false, and only a checked ParseDurations on an unparsable string refuses. A go/ast "
            "translator regenerates the table of all ~150 JSON fields of the 15 sections on every run and `decide` re-checks over it: every row is "
            "copied by a lossless kind pair or is on a reasoned allow-list, is loaded iff saved, into the field it is saved from, omits exactly its "
            "default, hides secret-named keys, has a valid default, every apply function ends in Validate(). The unchanged tree fails the full "
            "statement (theorem C15_full_fails); C15_partial holds outside an explicit, proved-exact exception list (findings K11, K12). The real "
            "LoadJSON/ToJSON/Validate/ApplyEnvVars/ToDisplayJSON and config.Manager are then swept per field and per value, alone, on a dirty "
            "object, inside a full file and through environment variables; the Lean property checker runs on every real observation and the "
            "kind model predicts accept/refuse and the saved value for every lossless row. config.Manager's remote source is modelled "
            "as a state machine (Source, sections) for any URL type and web: source_roundtrip / http_roundtrip (accepted sourced load on any prior "
            "state saves exactly {source:url} and reloads to the same configuration), plain_roundtrip, accepted_iff, nested/failed fetch refused, "
            "source_cleared_only_by_plain, accepted_load_forgets_history and reuse_full (after any operation sequence on any Manager an accepted "
            "document is exactly what is saved and reloads to the same state; false before /repo fbf34ff, finding F39); "
            "the real Manager is driven through the same operation sequences and must agree with the model observation for observation. "
            "Round 7: every parse/print setting (multiaddress, multiaddress lists, peer lists incl. crdt '*', hex secret, base64 keys, peer IDs, the disk enum, the TLS path pair, "
            "cors_max_age) has a load/save kind of its own recognised from the statement shape, with theorems for all values of any codec that round-trips "
            "(round trip, settable, refusal only for unparsable text, accepted => own Validate conjunct; the enum codec's law is proved from the regenerated switch and String() tables); "
            "the allow-list is down to the two legacy keys. Validate() of every section is read as a conjunction of (guard, condition) pairs over a small expression language "
            "(cross-field comparisons, len, String(), nil, && || !, inlined helpers): defaults validate (decide), LoadJSON accepts => no conjunct fires, and the evaluator predicts the real "
            "Validate() and LoadJSON on both sides of every boundary. A whole Manager file is modelled as maps group -> name -> entry: manager_save_load_id, unknown_sections_policy "
            "(unknown components kept verbatim, undefined registered components written with defaults, null registered component refused), display_hides_all_hidden, dup_last_wins."
            " Round 8: environment variables over a loaded value are modelled (applyEnvScalar, fileThenEnv): env_overrides_file, env_unset_keeps_file, "
            "env_zero_keeps_file (a variable cannot reset a zero-blind setting to zero), file_after_env_drops_env (refutation of the reversed order), and the real "
            "Manager.ApplyEnvVars / LoadJSONFileAndEnv are swept per field. identity.json has a model of its own (apply order ID, key, Validate; key pairs as indices): "
            "accept_iff, accepted_valid, roundtrip, mismatch_refused, malformed_refused, env_overrides, env_unset_keeps, env_half_refused, env_accepted_valid, "
            "history_roundtrip (after any operation sequence an accepted operation leaves a valid Identity whose saved form reloads to the same state), "
            "refused_load_not_inert (observation). config.DisplayJSON is modelled over leaves with tagged paths: display_hides_top, displayDeep_hides_tagged, "
            "display_eq_deep_iff (the code equals the deep walk exactly when no tag sits below the top level) and nested_hidden_leaks (refutation of the hide law for "
            "arbitrary nesting); the real DisplayJSON is driven with nested secret-bearing values and must agree leaf by leaf. Semantic go/ast tables, regenerated "
            "on every run and interpreted by the model: the arms of SetIfNotDefault's type switch (table_sind_covers: every row copied with it has an arm of its Go type that "
            "assigns exactly the non-zero values; sind_arm_is_loadScalar, sind_no_arm_drops), the statement sequence of applyIdentityJSON (gen_ident_apply: its interpretation "
            "equals the model's apply for all inputs), the call order of Manager.LoadJSONFileAndEnv and the reach of Manager.ApplyEnvVars (gen_file_env_order, "
            "table_manager_env_reach); SetIfNotDefault and ParseDurations are also driven directly per Go type / argument list, and restapi's libp2p identity "
            "(all-or-none, ID matches key: rest_accept_iff, rest_roundtrip) against the real rest.Config. "
            "Round 8b: for EVERY section the statements of LoadJSON, ApplyEnvVars and the apply function (helper load functions inlined) are regenerated as event "
            "sequences (unmarshal, Default, assignments, checked fallible steps, unchecked errors, early returns, return Validate()) and interpreted by the model under an oracle "
            "(which step fails, which guard fires, what Validate says): load_shape_sound / env_shape_sound (a well-shaped section either refuses or has started from the defaults - "
            "ApplyEnvVars: kept the loaded values - executed every assignment, dropped no error and was validated), table_section_seqs (decide: all 15 sections are well-shaped; "
            "a helper-scoped early return only in restapi's tlsOptions), gen_sections_sound, with refutations for a missing Validate, an early return in a helper (seeded C15f), "
            "a dropped error (639679f), a missing Default and a Default inside ApplyEnvVars.",
    "note": "Trusted: Lean kernel (+propext, Classical.choice, Quot.sound), the go/ast translator's pattern matcher (fail-closed), the harness "
            "(reflection on Config fields, value classification), Go's time and encoding/json. Known findings on the unchanged tree: K11 "
            "(booleans cannot be set to false under SetIfNotDefault/mergo), K12 (explicit empty string/list replaced by the default). Found by this "
            "check and since repaired in /repo: crdt dropped the ParseDurations error (639679f), Manager.LoadJSON panicked on a null section (c0fa836), Manager.Source was never cleared (fbf34ff).",
    "technique": "Lean 4 theorems per copy-kind for all values + go/ast translator with decide over the regenerated schema + differential sweeps of the real loaders",
}
