CHECK = {
    "suites": [
        suite("sweep", "c15", 1500, 30000, stdin=True, args=["-suite", "sweep"]),
        suite("file", "c15", 300, 6000, stdin=True, args=["-suite", "file"]),
        suite("env", "c15", 1000, 20000, stdin=True, args=["-suite", "env"]),
    ],
    "gen": [{"pkg": "extract_c15", "out": "lean/ClusterVerif/Gen/C15.lean"}],
    "lean_sources": ["ClusterVerif/Model/C15.lean", "ClusterVerif/Spec/C15.lean", "ClusterVerif/Gen/C15.lean"],
    "rule": "TODO",
    "trusted_base": [],
    "assumptions": [],
}
META = {"text": "TODO", "note": "TODO", "technique": "TODO"}
