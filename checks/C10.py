CHECK = {
    "suites": [suite("rounds", "c10", 2500, 150000, stdin=True), suite("dist", "c10dist", 3000, 200000, stdin=True)],
    "gen": [{"pkg": "extract_c10", "out": "lean/ClusterVerif/Gen/C10.lean"}, {"pkg": "extract_c10sem", "out": "lean/ClusterVerif/Gen/C10Sem.lean"}],
    "lean_sources": ["ClusterVerif/Model/C10Source.lean", "ClusterVerif/Gen/C10.lean", "ClusterVerif/Model/Pin.lean", "ClusterVerif/Model/C04.lean", "ClusterVerif/Model/C10.lean", "ClusterVerif/Spec/C10.lean", "ClusterVerif/Model/C10Dist.lean", "ClusterVerif/Spec/C10Dist.lean", "ClusterVerif/Lemmas/C10Dist.lean", "ClusterVerif/Model/C10Sem.lean", "ClusterVerif/Gen/C10Sem.lean",
                     "ClusterVerif/Model/C03.lean", "ClusterVerif/Spec/C03.lean", "ClusterVerif/Lemmas/C10.lean", "ClusterVerif/Props/C10.lean"],
    "rule": "one case = one round over a shared pinset of 1-6 pins and 1-8 members: a ping alert for one member delivered to the real alertsHandler of every other "
            "(trusted) member, or one member running PeerRemove (LogPin / RmPeer call order recorded, RmPeer optionally failing, metrics optionally too scarce for some "
            "re-pins), or every member running StateSync; members act in any order (schedule = order of the actor list), under the serial discipline (shared state) or the "
            "snapshot discipline (private copy of the pre-state each, commits replayed in a seeded random order); rounds may be repeated (x2), name another metric than ping, "
            "give single members a smaller view of the peerset; members carry follower / disable-repinning flags, any metric state per peer, real blake2b hashes of the peer "
            "ids and cids; every 25th case evaluates the real Pin.ExpiredAt on a concrete clock around expire == now; the arm histogram in the evidence is the input "
            "distribution (members-n, actors-n, disc-*, order-*, repeated-x2, views-disagree, metric-not-ping, rmpeer-fails, failed-holds-nothing, only-failed-no-healthy, "
            "factors-everywhere, remove-partial, two-repinners, expat-*); non-trivial = every case; distinct by case line. "
            "Suite dist: one case = 1-8 members with chosen 32-byte hashes (injected through the checker's own cache) or real ones, 1-4 cids asked in order on ONE real "
            "distanceChecker per surviving member (hook VerifDistanceChecker), optional excluded member; hash relations: common prefix of 0/1/3/4/7/8/15/16/23/24/30/31 bytes, "
            "last bits only, edge bytes 00/01/7f/80/81/fe/ff, a member on the cid (distance 0), collisions, excluded member closest; every 10th case the real xor() on edge arrays; "
            "Suite rounds additionally gives every member a PRIVATE ping view (which peers its own monitor holds a valid / expired / invalid / no ping metric for, a function of "
            "the pair (member, peer)): not part of the agreed peerset, invisible to the model, so the unchanged code must not depend on it. "
            "arms dist-prefix-*, dist-collision, dist-alone, dist-members-n, dist-cids-n, dist-{real,injected,mixed}-hashes, dist-excluded-is-closest, dist-zero-distance, xor-*",
    "trusted_base": ["FakeConsensus shared by the members of a round (a real dsstate applying LogPin/LogUnpin directly), wrapped per member (harness/c10/cons.go: own Peers() view, call record, failing RmPeer); "
                     "snapshot discipline: the harness replays the recorded LogPin/LogUnpin on a fresh dsstate in a seeded order, as a consensus layer would",
                     "alerts are delivered through the monitor's alert channel to the real alertsHandler; a second non-ping alert is used as a completion barrier",
                     "suite rounds passes hashes to the model as numbers; that bytes.Compare / xor on 32-byte arrays are the numeric order / Nat xor of the big-endian values is now a theorem "
                     "(bytes_compare_is_numeric_order, bytes_xor_is_numeric_xor, isClosestB_eq_model) and suite dist runs the real comparison on byte arrays",
                     "suite dist: chosen hashes reach the real isClosest through the checker's cache map (hook /repo/verif_export_c10.go, adds code only); hashes of non-injected members and of cids "
                     "are computed by the harness with an independent blake2b-256 (go-multihash/blake2b-simd)"],
    "semantic_tie": "harness/extract_c10sem (go/ast) -> Gen/C10Sem.lean: getTrustedPeers as a filter (source list, atoms of the continue guard, what is appended and returned), "
                    "distances() as a constructor (local id, dataflow of otherPeers back to getTrustedPeers(exclude), fresh cache, every receiver selector it reads), isClosest (what is hashed, "
                    "operands of both xors, operands/slices/operator of bytes.Compare, both return values), the two call sites (exclude argument, one checker per event in the loop's own block, "
                    "conjuncts of the test, guarded call), xor loop; Model/C10Sem.lean interprets these values; unknown shapes become `other`/`extra` and are refused",
    "assumptions": ["blake2b-256 hashes of distinct members are distinct (collision freeness)",
                    "members agree on the peerset and on who is trusted (the property's own proviso; without it `disagreement_two_repinners` / `disagreement_nobody` show the claim fails, and the first is replayed on the real code from the corpus); untrusted members do not act",
                    "pinsets of plain data pins for the expiry round theorem (sharded content is removed with its root: C04)"],
}
META = {
    "text": "Kernel-checked theorems: exactly one member is closest to any CID for every non-empty member set with pairwise distinct hashes (xor-distance uniqueness, "
            "no bound on sizes). Round composition, for every schedule of the members and for both commit disciplines (serial on the shared pinset; every member on the same "
            "pre-state with the commits applied afterwards in any order): per cid the round equals the closest member acting alone on the pre-state (round_cid), hence exactly "
            "one LogPin for a re-pinnable pin of the failed peer (round_exactly_one_repin), new allocation healthy, without the failed peer, admitted by C03, options preserved "
            "(round_result_allocs), other pins untouched, key set preserved (round_never_removes), a second round logs nothing for a re-homed pin (round_idempotent, "
            "round_rehomed_once), schedule and discipline irrelevant (round_schedule_irrelevant, snap_same_state); without agreement on the peerset the claim fails "
            "(witnesses). PeerRemove: every pin of the peer re-homed or the re-pin reports and the pin is kept, never removed, every LogPin precedes RmPeer, the removal is "
            "not aborted by a failed re-pin. Expiry: an expired pin is unpinned by exactly the closest member, an unexpired one by none, all orders, both disciplines; "
            "ExpiredAt for every clock value incl. expire == now. Byte level of util.go: xor and bytes.Compare on equal-length byte arrays are Nat xor and the numeric "
            "order of the big-endian values, the per-checker hash cache is transparent over any run of isClosest calls as long as it holds only what the checker stored "
            "(and a foreign entry changes answers), hence the code's byte-level answer equals the Nat-level isClosest of the round theorems (isClosestB_eq_model); "
            "comparing a prefix only or an xor that skips a byte make two members with distinct hashes both closest (refutations). The real distanceChecker is run on "
            "adversarial hash relations (shared prefixes up to 31 bytes, last bit, sign-boundary bytes, zero distance, collisions) with the clauses 'exactly one surviving "
            "member closest per cid when hashes are distinct' and 'somebody closest' evaluated on its answers. The round model is tied to the code by running real Cluster instances over real dsstates "
            "and comparing final pinset and per-member LogPin/LogUnpin/RmPeer calls; the Lean property clauses are evaluated on the implementation's outputs.",
    "note": "Trusted: Lean kernel, hand-written model/spec, harness (shared fake consensus, alert delivery barrier), verif_export.go; hash collision-freeness is a hypothesis.",
    "technique": "Lean 4 theorems (xor-distance uniqueness, step preservation, memoryless handler loop) + regenerated source text of the anchored functions checked against the transcribed snapshot (rfl) + go/ast semantic translation of getTrustedPeers / distances / isClosest / call sites interpreted by the model (candidate set = function of the agreed peerset) + differential correspondence per round on real Cluster instances + the real distanceChecker on injected adversarial 32-byte hashes against the byte-level model",
}
