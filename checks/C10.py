CHECK = {
    "suites": [suite("rounds", "c10", 1500, 150000, stdin=True)],
    "gen": [{"pkg": "extract_c10", "out": "lean/ClusterVerif/Gen/C10.lean"}],
    "lean_sources": ["ClusterVerif/Model/C10Source.lean", "ClusterVerif/Gen/C10.lean", "ClusterVerif/Model/Pin.lean", "ClusterVerif/Model/C04.lean", "ClusterVerif/Model/C10.lean", "ClusterVerif/Spec/C10.lean",
                     "ClusterVerif/Model/C03.lean", "ClusterVerif/Spec/C03.lean", "ClusterVerif/Lemmas/C10.lean"],
    "rule": "one case = one round over a shared pinset of 1-6 pins and 1-8 members: a ping alert for one member delivered to the real alertsHandler of every other "
            "(trusted) member in turn, or one member running PeerRemove, or every member running StateSync; members carry follower / disable-repinning flags, "
            "any metric state per peer, real blake2b hashes of the peer ids and cids; non-trivial = every case; distinct by case line",
    "trusted_base": ["FakeConsensus shared by the members of a round (a real dsstate applying LogPin/LogUnpin directly, same Peers()/IsTrustedPeer view at every member)",
                     "alerts are delivered through the monitor's alert channel to the real alertsHandler; a second non-ping alert is used as a completion barrier",
                     "hashes are passed to the model as numbers: bytes.Compare on 32-byte arrays = numeric order of their big-endian value"],
    "assumptions": ["blake2b-256 hashes of distinct members are distinct (collision freeness)",
                    "members agree on the peerset and on who is trusted; untrusted members do not act"],
}
META = {
    "text": "Kernel-checked theorems: exactly one member is closest to any CID for every non-empty member set with pairwise distinct hashes (xor-distance uniqueness, "
            "no bound on sizes); a re-pin away from a failed peer preserves every option, never erases an entry, excludes the failed peer and yields an allocation "
            "admitted by C03; followers and peers with re-pinning disabled log nothing; the expiry sweep only ever unpins expired pins. The round model "
            "(alertsHandler / vacatePeer / StateSync over C04's pin and unpin) is tied to the code by running real Cluster instances over a shared real dsstate "
            "and comparing final pinset and per-member LogPin/LogUnpin calls; the Lean property clauses are evaluated on the implementation's outputs.",
    "note": "Trusted: Lean kernel, hand-written model/spec, harness (shared fake consensus, alert delivery barrier), verif_export.go; hash collision-freeness is a hypothesis.",
    "technique": "Lean 4 theorems (xor-distance uniqueness, step preservation, memoryless handler loop) + regenerated source text of the anchored functions checked against the transcribed snapshot (rfl) + differential correspondence per round on real Cluster instances",
}
