CHECK = {
    "suites": [suite("rounds", "c10", 2500, 150000, stdin=True), suite("dist", "c10dist", 3000, 200000, stdin=True)],
    "gen": [{"pkg": "extract_c10", "out": "lean/ClusterVerif/Gen/C10.lean"}],
    "lean_sources": ["ClusterVerif/Model/C10Source.lean", "ClusterVerif/Gen/C10.lean", "ClusterVerif/Model/Pin.lean", "ClusterVerif/Model/C04.lean", "ClusterVerif/Model/C10.lean", "ClusterVerif/Spec/C10.lean", "ClusterVerif/Model/C10Dist.lean", "ClusterVerif/Spec/C10Dist.lean", "ClusterVerif/Lemmas/C10Dist.lean",
                     "ClusterVerif/Model/C03.lean", "ClusterVerif/Spec/C03.lean", "ClusterVerif/Lemmas/C10.lean", "ClusterVerif/Props/C10.lean"],
    "rule": "one case = one round over a shared pinset of 1-6 pins and 1-8 members: a ping alert for one member delivered to the real alertsHandler of every other "
            "(trusted) member, or one member running PeerRemove (LogPin / RmPeer call order recorded, RmPeer optionally failing, metrics optionally too scarce for some "
            "re-pins), or every member running StateSync; members act in any order (schedule = order of the actor list), under the serial discipline (shared state) or the "
            "snapshot discipline (private copy of the pre-state each, commits replayed in a seeded random order); rounds may be repeated (x2), name another metric than ping, "
            "give single members a smaller view of the peerset; members carry follower / disable-repinning flags, any metric state per peer, real blake2b hashes of the peer "
            "ids and cids; every 25th case evaluates the real Pin.ExpiredAt on a concrete clock around expire == now; the arm histogram in the evidence is the input "
            "distribution (members-n, actors-n, disc-*, order-*, repeated-x2, views-disagree, metric-not-ping, rmpeer-fails, failed-holds-nothing, only-failed-no-healthy, "
            "factors-everywhere, remove-partial, two-repinners, expat-*); non-trivial = every case; distinct by case line",
    "trusted_base": ["FakeConsensus shared by the members of a round (a real dsstate applying LogPin/LogUnpin directly), wrapped per member (harness/c10/cons.go: own Peers() view, call record, failing RmPeer); "
                     "snapshot discipline: the harness replays the recorded LogPin/LogUnpin on a fresh dsstate in a seeded order, as a consensus layer would",
                     "alerts are delivered through the monitor's alert channel to the real alertsHandler; a second non-ping alert is used as a completion barrier",
                     "hashes are passed to the model as numbers: bytes.Compare on 32-byte arrays = numeric order of their big-endian value"],
    "assumptions": ["blake2b-256 hashes of distinct members are distinct (collision freeness)",
                    "members agree on the peerset and on who is trusted (the property's own proviso; without it `disagreement_two_repinners` / `disagreement_nobody` show the claim fails, and the first is replayed on the real code from the corpus); untrusted members do not act",
                    "pinsets of plain data pins for the expiry round theorem (sharded content is removed with its root: C04)"],
}
META = {
    "text": "Kernel-checked theorems: exactly one member is closest to any CID for every non-empty member set with pairwise distinct hashes (xor-distance uniqueness, "
            "no bound on sizes). Round composition, for every schedule of the members and for both commit disciplines (serial on the shared pinset; every member on the same "
            "pre-state with the commits applied afterwards in any order): per cid the round equals the closest member acting alone on the pre-state (round_cid), hence exactly "
            "one LogPin for a re-pinnable pin of the failed peer (round_exactly_one_repin), new allocation healthy, without the failed peer, admitted by C03, options preserved "
            "(round_result_allocs), other pins untouched, key set preserved (round_never_removes), a second round logs nothing for a re-homed pin (round_idempotent, "
            "round_rehomed_once), schedule and discipline irrelevant (round_schedule_irrelevant, snap_same_state); without agreement on the peerset the claim fails "
            "(witnesses). PeerRemove: every pin of the peer re-homed or the re-pin reports and the pin is kept, never removed, every LogPin precedes RmPeer, the removal is "
            "not aborted by a failed re-pin. Expiry: an expired pin is unpinned by exactly the closest member, an unexpired one by none, all orders, both disciplines; "
            "ExpiredAt for every clock value incl. expire == now. The round model is tied to the code by running real Cluster instances over real dsstates "
            "and comparing final pinset and per-member LogPin/LogUnpin/RmPeer calls; the Lean property clauses are evaluated on the implementation's outputs.",
    "note": "Trusted: Lean kernel, hand-written model/spec, harness (shared fake consensus, alert delivery barrier), verif_export.go; hash collision-freeness is a hypothesis.",
    "technique": "Lean 4 theorems (xor-distance uniqueness, step preservation, memoryless handler loop) + regenerated source text of the anchored functions checked against the transcribed snapshot (rfl) + differential correspondence per round on real Cluster instances",
}
