CHECK = {
    "suites": [
        suite("pins", "c14", 400, 4000, stdin=True, args=["-suite", "pins"], timeout={"quick": 600, "thorough": 1800}),
        suite("rot", "c14", 400, 4000, stdin=True, args=["-suite", "rot"], timeout={"quick": 600, "thorough": 1800}),
        suite("ps", "c14", 800, 8000, stdin=True, args=["-suite", "ps"], timeout={"quick": 600, "thorough": 1800}),
        suite("start", "c14", 14, 400, stdin=True, args=["-suite", "start"], timeout={"quick": 600, "thorough": 1800}),
        suite("snaps", "c14", 360, 3600, stdin=True, args=["-suite", "snaps"], timeout={"quick": 600, "thorough": 1800}),
        suite("crash", "c14", 24, 240, stdin=True, args=["-suite", "crash"], timeout={"quick": 600, "thorough": 2400}),
    ],
    "search_seeds": {"quick": 3, "thorough": 2},
    "gen": [{"pkg": "extract_c14", "out": "lean/ClusterVerif/Gen/C14.lean"}],
    "lean_sources": ["ClusterVerif/Model/C14Source.lean", "ClusterVerif/Gen/C14.lean", "ClusterVerif/Model/C14.lean", "ClusterVerif/Spec/C14.lean", "ClusterVerif/Lemmas/C14.lean",
                     "ClusterVerif/Model/C14Crash.lean", "ClusterVerif/Spec/C14Crash.lean", "ClusterVerif/Lemmas/C14Crash.lean",
                     "ClusterVerif/Model/C14Start.lean", "ClusterVerif/Spec/C14Start.lean", "ClusterVerif/Lemmas/C14Start.lean",
                     "ClusterVerif/Model/C14Snaps.lean", "ClusterVerif/Spec/C14Snaps.lean", "ClusterVerif/Lemmas/C14Snaps.lean",
                     "ClusterVerif/Model/C14Damage.lean", "ClusterVerif/Spec/C14Damage.lean", "ClusterVerif/Lemmas/C14Damage.lean",
                     "ClusterVerif/Model/C14Crdt.lean", "ClusterVerif/Spec/C14Crdt.lean"],
    "rule": "pins: (pinset of 0-40 generated pins over all types/options, prior content of the target, stream damage) through "
            "Marshal/Unmarshal, SnapshotSave/OfflineState, raft and crdt state-manager export/import (and a started Raft peer on some); "
            "rot: (retention, pre-existing folder set with gaps/outside the window, 1-14 clean/save/mkdir/reconfigure operations) on real folders; "
            "ps: (peerstore content with ip/dns/multiple addresses and priorities, requested peers) saved, loaded and imported by a fresh host, "
            "and hand-written files with malformed lines in every shape (LF/CRLF/CRCRLF line ends, final newline or not, byte order mark); reshaped export streams "
            "(also concatenated exports, a record without cid, trailing garbage, duplicate cids); crdt chain over leveldb and badger; folder-name spellings; "
            "crash: (operation clean/save/import/failing import, retention, pre-existing folder set) x every kill point of the real process (killed under strace on entering its K-th "
            "mkdirat/unlinkat/renameat), directory read back, operation restarted; (old peerstore file, new peer infos) x every kill point of SavePeerstore and every byte cut of the file; "
            "start: (history of a REAL single-voter Raft peer: LogPin/LogUnpin/graceful restarts, ended by a kill = log and no newer snapshot, or by a shutdown; or no folder) "
            "then the raft state manager's ImportState of a pinset onto that data folder (or nothing), offline read, old.0, and the peer STARTED on the result (restore newest snapshot + replay of the log behind it); "
            "(the start cases run 4 at a time inside the harness; quick 11 corpus + 14 generated, thorough 400); "
            "snaps: (data folder absent / empty / holding 1-6 REAL hashicorp file snapshots with chosen (term, index) written in any creation order - terms 9/10/11 and indices 9/10/99/100/1000 so that "
            "numeric and name order differ - and leftovers: an interrupted `.tmp` snapshot, a directory with unreadable meta.json, a plain file) x (offline read | CleanupRaft | SnapshotSave): which snapshot is read, "
            "metadata of the new snapshot, what old.0 holds; "
            "round 8c: a snapshot may be DAMAGED (`T.I.Cd`: one byte of state.bin flipped, meta.json intact - the newest one half of the time) and two snapshots may share one (term, index) "
            "(created last or in between); ops also `i<C>` (the real raft state manager's ImportState onto the folder) and `b` (a REAL single-voter raft.NewConsensus peer STARTED on the folder; "
            "its snapshots name that peer as the only voter): refusal vs fall-back, what old.0 holds, what the started peer serves; "
            "one splitmix64 stream per case index; non-trivial = exercises a clause; distinct by case line",
    "trusted_base": ["byte-level codecs of the atoms (cid, peer id, multiaddress, strings, time) are abstracted to table indices: "
                     "the harness maps real values back to indices and reports anything it cannot map",
                     "go-datastore MapDatastore/leveldb/badger, hashicorp/raft FileSnapshotStore, libp2p memory peerstore behave as their APIs say",
                     "hashicorp/raft v1.1.1 FileSnapshotStore.Open's checksum test and restoreSnapshot's fall-back to the next snapshot that opens are observed (snaps suite, damaged snapshots), not regenerated; damage = one flipped byte of state.bin (a damaged meta.json is the `m` leftover); "
                     "hashicorp/raft v1.1.1 start-up (restore of the newest snapshot, replay of the log entries behind its index once the single voter leads) is observed through the started peer, not regenerated; "
                     "'killed' = the data folder copied while the peer runs idle after its last commit returned",
                     "crash = death of the process between two system calls (strace inject signal=KILL on entering the K-th call); power loss / fsync ordering is outside the model; "
                     "the step order inside hashicorp/raft v1.1.1 FileSnapshotStore (tmp directory, rename) is observed by the kills, not regenerated"],
    "assumptions": ["well-formed pin: a real pin type, factors and depth within int32, expiry not after year 9999, valid UTF-8 strings",
                    "backups_rotate >= 1 (Config.Validate rejects other values)"],
}
META = {
    "text": "Kernel-checked theorems over the model of export/import, Marshal/Unmarshal, SnapshotSave/OfflineState, makeBackup rotation and the "
            "peerstore file: round-trip identities for every pinset of well-formed pins and any prior content of the target, the rotation "
            "clauses for every pre-existing folder set and every operation sequence, the peerstore round trip and bad-line skipping; "
            "the Raft data folder as (snapshot, log): after `state import` onto ANY folder content (log only, snapshot, both, none) the started peer serves exactly the import "
            "(import_then_start_id, with the refuted alternative that leaves the backup to SnapshotSave); a killed or shut-down single-voter peer restarts with exactly what its operations give, for every "
            "history of pins/unpins/graceful restarts (restart_keeps_state_full_holds, by the index invariant of the log it writes), and its shutdown snapshot reads offline as that pinset (graceful_offline_id); "
            "a folder with SEVERAL snapshots and leftovers: the offline read is the snapshot no other is newer than by (term, index), independent of the listing order (offline_reads_newest, newest_perm), "
            "SnapshotSave onto any such folder reads back as the saved pinset and moves the whole folder to old.0 (save_offline_id_multi, save_backs_up_all, save_fresh). "
            "Damaged snapshots (state.bin fails its checksum) and equal (term, index): the offline read is the latest snapshot or - only when that one is damaged - a refusal, never an older pinset "
            "(offline_never_stale, offline_broken_iff, with the refuted fall-back alternative offline_is_not_fallback: a STARTED peer does fall back, observed on a real peer); SnapshotSave on a damaged newest is "
            "refused and touches nothing, `state import` succeeds on every folder and backs the whole folder up (save_refused_on_damaged_newest, import_onto_damaged_id); of equal keys the one created last is read "
            "(tie_latest_created_wins); retention never removes what is read (reap_keeps_newest). raftStateManager.ImportState is tied semantically: its operation list read from the syntax tree, INTERPRETED "
            "on the folder model, is the model's import for every folder (gen_sem_import_is_model). "
            "The crdt side on a SHARED datastore (entries of the crdt namespace next to others): crdtStateManager.ImportState = crdt.Clean of the namespace, one batch, Commit; offline read = the dsstate under the namespace: "
            "export -> crdt import onto ANY store content -> offline read / crdt export is the pinset (crdt_import_export_id), what is read afterwards depends on the stream only and other namespaces are untouched "
            "(crdt_import_replaces, crdt_import_is_model; refuted: an import without Clean keeps a prior pin), observed on the real crdt manager over leveldb and badger (crdt=, oth= of the pins suite). "
            "The model is tied to today's code by running the real dsstate, raft snapshot/cleanup functions, cmdutils state managers and "
            "pstoremgr, and a real single-voter Raft peer (writes the folder, is killed or shut down, is started again after the import) on seeded cases and checking model agreement and the Lean property checker on the real outputs.",
    "note": "export/import is proved for pinsets without origins; a pin with origins cannot be decoded from JSON (known finding K01c). "
            "Atoms are table indices (byte codecs are C08's subject).",
    "technique": "regenerated source text of the anchored functions checked against the transcribed snapshot (rfl) + go/ast facts and an interpreted operation list (SnapshotSave, CleanupRaft, latestSnapshot, ImportState) + Lean 4 theorems over functional/relational models + differential correspondence with the real code",
}
