CHECK = {
    "gen": [{"pkg": "extract_c18", "out": "lean/ClusterVerif/Gen/C18.lean"}],
    "suites": [suite("soak", "c18", 15, 240, stdin=True, race=True, exit_is_violation=True,
                     timeout={"quick": 600, "thorough": 1500})],
    "lean_sources": ["ClusterVerif/Model/C18.lean", "ClusterVerif/Spec/C18.lean", "ClusterVerif/Lemmas/C18.lean",
                     "ClusterVerif/Gen/C18.lean", "ClusterVerif/Model/C18Source.lean", "ClusterVerif/Model/C18Sync.lean",
                     "ClusterVerif/Model/C18SyncProgs.lean", "ClusterVerif/Lemmas/C18Sync.lean",
                     "ClusterVerif/Lemmas/C18SyncClusterA.lean", "ClusterVerif/Lemmas/C18SyncClusterB.lean",
                     "ClusterVerif/Lemmas/C18SyncClusterC.lean", "ClusterVerif/Lemmas/C18SyncClusterR.lean",
                     "ClusterVerif/Model/C18SyncProgs2.lean", "ClusterVerif/Model/C18Inventory.lean", "ClusterVerif/Lemmas/C18SyncMoreA.lean",
                     "ClusterVerif/Lemmas/C18SyncMoreB.lean", "ClusterVerif/Lemmas/C18SyncMoreR.lean", "ClusterVerif/Lemmas/C18SyncClusterS.lean", "ClusterVerif/Model/C18ChanOps.lean",
                     "ClusterVerif/Model/C18SyncOps.lean", "ClusterVerif/Model/C18Torn.lean"],
    "search_seeds": {"quick": 1, "thorough": 2},
    "rule": "n = seconds of soak per structure (alerts, window, metrics store+checker, operation tracker, stateless tracker, informers, crdt batching, "
            "tracker / crdt / Cluster life cycles: Shutdown racing the API — every other tracker / crdt generation with queues of 1 / 2 items so that the "
            "full-queue arms are taken during and after Shutdown —, metrics Checker.Watch vs CheckAll vs a slow alert consumer vs cancellation on an alert channel of 2), "
            "one -race child process per structure, all in parallel; every returned value is checked in the harness, a sample of returned lists "
            "(alert lists, window contents, StatusAll/GetAll/LatestValid/state listings) is printed as case lines and judged by the Lean clauses "
            "and, for alerts/window, compared with the sequential model; non-trivial = non-empty list / soak with operations; distinct by case line",
    "trusted_base": ["Go race detector (happens-before, reports only races that occur in the run)",
                     "harness/extract_c18: syntactic lockset extractor (go/ast, no type checker), its list of designated fields and mutexes; chanops.go (classification of channel sends / closes) and "
                     "Model/C18ChanOps.lean chanSites (hand-written map from a source site to the thread that transcribes it); syncops.go (receives, <-x.Done(), WaitGroup calls recognised by the receiver NAME containing wg, go statements) and "
                     "Model/C18SyncOps.lean syncSites (hand-written map, 21 of its 50 sites reviewed as transcribed by no program)",
                     "fake IPFSConnector/PinTracker RPC services, StoreMonitor alerts channel, verif_export.go (VerifNewCluster, VerifAlertsHandler), verif_export_c18.go (VerifC18Prepare/Start: no-op tracer, peer manager, NewCluster's ready()+run() goroutine)",
                     "Model/C18SyncProgs.lean, Model/C18SyncProgs2.lean: hand transcription of the shutdown / queueing / informer / checker protocols (tied to the source text by rfl only)",
                     "Model/C18Inventory.lean reviewedSyncFields: the review that Cluster.paMux, the two WaitGroups and crdt's sync.Map guard no field"],
    "assumptions": ["channel-, WaitGroup-, context- and go-statement ordering of the shutdown paths is covered for three hand-transcribed small-step models "
                    "(stateless tracker, crdt consensus, Cluster life cycle) and, since round 8b, for the tracker in use with both workers / Recover / full queues, the informer "
                    "protocol, metrics.Checker Watch/alert and the full crdt batching queue, all tied to the source by a text snapshot (rfl) only: that the Go functions behave like "
                    "the transcribed programs is trusted; other uses of channels are only exercised by the -race soaks",
                    "the extractor is syntactic (no type checker): it follows guarded data into same-package callees through the receiver and through "
                    "parameters that receive `x.field` (or a bound parameter) directly, and records references leaving a function (return / send / store); "
                    "not followed: guarded data reaching a callee through a local variable of non-container type, closures' parameters, RPC dispatch, "
                    "other packages; function literals passed as call arguments are assumed to run synchronously; `api.Metric` values are assumed "
                    "never to be written after they were stored into a window (payload list)",
                    "a racy state of the synchronisation models = two threads about to access one cell, one writing (conflicting accesses simultaneously enabled); "
                    "the step from 'no racy state is reachable' to 'every pair of conflicting accesses is happens-before ordered' is not proved",
                    "Cluster life-cycle model: the whole protocol at once (8033 states, passes when evaluated) is certified as three scenarios with two concurrent Shutdowns each; "
                    "Shutdown's leave-the-cluster branch is a free choice (superset of the real guard), its `return err` arms are not transcribed; watchPeers' loop is unrolled once "
                    "(an iteration that finds the peer in the peerset changes no shared state); that this loses no behaviour is argued in notes/C18.md, not proved — since round 8b the "
                    "scenario with the loop as written (progCS, 1858 states) is kernel-certified too (cluster_shutdown_safe_loop: no panic, no racy state), only its liveness reading is weaker",
                    "a soak that sees no race, panic or stall proves nothing by itself: the universal claim rests on the lockset theorems + the regenerated table",
                    "initialisation before publication is exempt: key/value initialisers inside the composite literal of the owning struct",
                    "round 8b models: loops are unrolled (Checker.Watch three ticks, the alert consumer two receptions), queues have capacity 1 or 2, the tracker in use is certified as two "
                    "scenarios (Recover + one Shutdown; two Shutdowns) — the seven-thread program (4229 states) passes when evaluated, not kernel-certified; stateless.Tracker.rpcClient is written "
                    "by SetClient without a lock: safe only because SetClient returns before the tracker is handed out (a Track before that is refuted: progT1_racy)",
                    "calls made while a component is still initialising or after it was shut down (Consensus.Shutdown before Ready, SetClient after Shutdown, a second SetClient) "
                    "are not 'in use' in the sense of the property text; the models REFUTE safety for them (witness schedules) and the soaks do not exercise them"],
}
META = {
    "text": "Kernel-checked: (1) lockset_drf: in every well-locked trace that follows a lock discipline (reads inside a hold of the location's mutex, writes inside an "
            "exclusive hold) any two conflicting accesses of different threads are separated by a release and a later acquisition of that mutex; static_disciplined / "
            "acyclic_no_deadlock: programs whose scripts pass the static lockset / lock-order check have only disciplined traces and never reach a state with every "
            "unfinished thread blocked; inline_preserves_lockOK: function summaries checked in every recorded calling context give inlined scripts that pass the flat check; "
            "(2) decide-theorems over a table regenerated from today's sources on every run: every access to a designated field (directly, or through a parameter bound to "
            "guarded data by a caller) holds its designated mutex (own locks + locks propagated along same-package call edges; writes exclusively) in EVERY calling context, "
            "the contexts are closed under the call edges, references leaving a critical section are copies or point to objects with their own lock, the nested-acquisition "
            "graph is acyclic; (3) alerts_safe: in the small-step model of Cluster.Alerts() vs alertsHandler every returned list, under every interleaving, has no empty entry, "
            "no duplicate and no index error; (4) sync_drf + exhaustive exploration (closed-set certificates, soundness proved once) of small-step models with channels, "
            "WaitGroups, cancellation and go statements: the stateless tracker and the crdt consensus component in use never send on / close a closed channel, deadlock or "
            "reach a racy state under any interleaving; the same is proved for the Cluster life cycle as repaired by /repo 87856f0 (cluster_shutdown_safe: Shutdown at any moment "
            "after NewCluster returned, racing ready()/run()/watchPeers, every branch of ready() and watchPeers, three scenarios of 2176-2752 states each, no thread able to spin), "
            "and (round 8b) for the stateless tracker in use with both workers, spt.rpcClient as a cell, Recover and queues that fill up during / after Shutdown (tracker_inuse_safe), the informers' "
            "SetClient/GetMetric/Shutdown (informer_protocol_safe), metrics.Checker Watch/CheckAll/alert with a non-blocking send inside failedPeersMu vs a consumer that leaves on cancellation "
            "(checker_watch_safe) and the full crdt batching queue after Shutdown (crdt_full_queue_safe), with eight misuse / wrong-edit refutations (more_wrong_edits_refuted: blocking sends deadlock "
            "once the workers / the consumer are gone, closing the queue panics, dropped locks are racy); gen_sync_inventory_reviewed: every struct field of a sync type in the analysed packages is a "
            "designated mutex of the lock table or individually reviewed, so a new mutex fails closed; gen_chan_ops_match_model: every channel send / close of the anchored files (go/ast: blocking, "
            "select-with-default, close) is a known site of a transcribed program whose instruction has the same shape (default branch / plain send / close present) — a semantic tie, with "
            "default_never_blocks proved for every program and state; (round 8c) gen_sync_ops_match_model: every receive, <-ctx.Done() arm, WaitGroup Add (with its argument) / Done / Wait and go statement of the anchored files (68 rows, with multiplicity per function) is a known site, and where a program transcribes it the thread has that operation in the shape of the row (arm of a select without / with default, plain statement) — a new, dropped or re-shaped one fails closed; tracker_wg_never_added (spt.wg.Wait() waits for nobody: the fact the tracker programs assume); getter_copy_under_lock_whole: in a small-step model of one mutex and a multi-field value, a getter that copies inside one critical section returns fields of ONE value, the one present at its acquisition, for every continuation in which writes hold the mutex (the table discipline), getter_without_lock_tears refutes the unlocked getter, gen_copy_getters_present ties it to the regenerated escape facts; cluster_shutdown_safe_loop: the Cluster scenario with watchPeers' loop as written is certified too; "
            "while the Cluster protocol before that commit is REFUTED (cluster_old_protocol_deadlocks: Shutdown racing ready(), the former finding K18b = what a revert reintroduces; the "
            "soak clusterearly is its run-time oracle) as are three realistic wrong edits of the repaired one; the models are tied to the source by a text snapshot (rfl). "
            "Runtime oracle: -race soaks of the real structures and life cycles with structural checks, watchdog and panic capture; a clean soak proves nothing by itself.",
    "note": "Partial by nature: channel/WaitGroup ordering is proved for three transcribed models only (text-snapshot tie); cross-package aliasing is not covered; the table is "
            "produced by a syntactic extractor (trusted), now summary-based across same-package calls (calling contexts, parameter aliasing, escapes). "
            "Races are only observed, never excluded, by the soaks.",
    "technique": "Lean 4 lockset/deadlock theorems + decide over extracted interprocedural lock facts, sync-field inventory, channel-operation and receive / Done / WaitGroup / go-statement shapes + small-step interleaving models with exhaustive-exploration certificates + race-detector soak as implementation-side oracle",
}
