CHECK = {
    "gen": [{"pkg": "extract_c18", "out": "lean/ClusterVerif/Gen/C18.lean"}],
    "suites": [suite("soak", "c18", 15, 240, stdin=True, race=True, exit_is_violation=True,
                     timeout={"quick": 600, "thorough": 1500})],
    "lean_sources": ["ClusterVerif/Model/C18.lean", "ClusterVerif/Spec/C18.lean", "ClusterVerif/Lemmas/C18.lean",
                     "ClusterVerif/Gen/C18.lean"],
    "search_seeds": {"quick": 1, "thorough": 2},
    "rule": "n = seconds of soak per structure (alerts, window, metrics store+checker, operation tracker, stateless tracker, informers, crdt batching), "
            "one -race child process per structure, all in parallel; every returned value is checked in the harness, a sample of returned lists "
            "(alert lists, window contents, StatusAll/GetAll/LatestValid/state listings) is printed as case lines and judged by the Lean clauses "
            "and, for alerts/window, compared with the sequential model; non-trivial = non-empty list / soak with operations; distinct by case line",
    "trusted_base": ["Go race detector (happens-before, reports only races that occur in the run)",
                     "harness/extract_c18: syntactic lockset extractor (go/ast, no type checker), its list of designated fields and mutexes",
                     "fake IPFSConnector/PinTracker RPC services, StoreMonitor alerts channel, verif_export.go (VerifNewCluster, VerifAlertsHandler)"],
    "assumptions": ["channel-, WaitGroup- and context-based ordering (shutdown paths, crdt batch queue, goroutine start) is outside the lockset theorems; "
                    "it is only exercised by the -race soaks",
                    "the extractor does not follow pointers to guarded data handed to other functions or packages (arguments, return values, RPC dispatch); "
                    "function literals passed as call arguments are assumed to run synchronously",
                    "a soak that sees no race, panic or stall proves nothing by itself: the universal claim rests on the lockset theorems + the regenerated table",
                    "initialisation before publication is exempt: key/value initialisers inside the composite literal of the owning struct",
                    "calls made while a component is still initialising (Consensus.Shutdown before Ready, SetClient after Shutdown) are not 'in use' and not exercised"],
}
META = {
    "text": "Kernel-checked: (1) lockset_drf: in every well-locked trace that follows a lock discipline (reads inside a hold of the location's mutex, writes inside an "
            "exclusive hold) any two conflicting accesses of different threads are separated by a release and a later acquisition of that mutex; static_disciplined / "
            "acyclic_no_deadlock: programs whose scripts pass the static lockset / lock-order check have only disciplined traces and never reach a state with every "
            "unfinished thread blocked; (2) decide-theorems over a table regenerated from today's sources on every run: every access to a designated field "
            "(alerts, shutdown flags, operation table and operation fields, metrics store/window/checker maps, informer rpcClient, crdt shutdown flag and batching fields) "
            "holds its designated mutex (writes exclusively) and the nested-acquisition graph is acyclic; (3) alerts_safe: in the small-step model of Cluster.Alerts() vs "
            "alertsHandler every returned list, under every interleaving, has no empty entry, no duplicate and no index error (the pre-fix order is refuted by example). "
            "Runtime oracle: -race soaks of the real structures with structural checks, watchdog and panic capture.",
    "note": "Partial by nature: channel/WaitGroup ordering and cross-package aliasing are not covered by the theorems; the table is produced by a syntactic extractor (trusted). "
            "Races are only observed, never excluded, by the soaks.",
    "technique": "Lean 4 lockset/deadlock theorems + decide over extracted lock facts + small-step interleaving model + race-detector soak as implementation-side oracle",
}
