def _recheck(run):
    """Real goroutine scheduling decides when a stable point is reached: a schedule that disagrees with the
    model (or fails a clause) is re-run 3x before it is reported; if it does not reproduce at least twice it
    is counted as inconclusive instead (DESIGN 2.3)."""
    suite_cfg = [s for s in run.cfg["suites"] if s["name"] == "schedules"][0]

    def reproduces(case, kind):
        inp = case.split(" => ")[0]
        hits = 0
        for _ in range(3):
            pairs = run.run_suite(suite_cfg, run.seed, stdin_lines=inp + "\n")
            if any(a.split(" ", 1)[0] == kind for _, a in pairs):
                hits += 1
        return hits >= 2

    dropped = 0
    for attr, kind in (("diffs", "diff"), ("propfails", "propfail")):
        keep = []
        for item in getattr(run, attr):
            case, answer = item[0], item[1]
            if not case.startswith("C05 ") or reproduces(case, kind):
                keep.append(item)
            else:
                dropped += 1
                run.inconclusive += 1
                run.notes.append("not reproduced in 3 re-runs (counted inconclusive): %s ## %s" % (case[:300], answer[:120]))
        setattr(run, attr, keep)
    if dropped and not run.diffs and not run.badcases:
        run.obligations = [(n, True, "disagreements did not reproduce: " + d[:200]) if n == "correspondence:schedules" and not ok
                           else (n, ok, d) for n, ok, d in run.obligations]


CHECK = {
    "suites": [suite("schedules", "c05", 800, 8000, stdin=True, timeout={"quick": 600, "thorough": 2400})],
    "extra": [_recheck],
    "gen": [{"pkg": "extract_c05", "out": "lean/ClusterVerif/Gen/C05.lean"},
            {"pkg": "extract_c05t", "out": "lean/ClusterVerif/Gen/C05T.lean"}],
    "lean_sources": ["ClusterVerif/Model/C05Source.lean", "ClusterVerif/Gen/C05.lean", "ClusterVerif/Model/C05.lean", "ClusterVerif/Model/C05R.lean", "ClusterVerif/Spec/C05.lean", "ClusterVerif/Lemmas/C05.lean", "ClusterVerif/Lemmas/C05R.lean",
                     "ClusterVerif/Model/C05T.lean", "ClusterVerif/Gen/C05T.lean", "ClusterVerif/Lemmas/C05T.lean"],
    "rule": "gated schedules on the real stateless tracker: 0-40 scripted actions (track / untrack / recover / recoverAll, daemon applies / answers nil / "
            "answers an error for a parked call — the oldest of the cid or specifically its Pin / Unpin call —, daemon loses a pin, an answer racing with an instruction) over 3-4 CIDs with local / everywhere / "
            "cluster-dag / remote / remote-without-allocations / meta pins, recursive and direct, 3 option variants; queue size 1-3, 1-3 pin workers; "
            "daemon read failures (F:1 / F:0: PinLsCid and PinLs answer an error — Status = cluster_error, StatusAll empty, RecoverAll must report it); a RecoverAll that "
            "overlaps later instructions (G = it reads the pinset now, Rs = the rest of it runs on that listing); "
            "seven generator profiles (mixed, queue pressure, churn on one cid, faulty daemon, recover rounds, noise, requeue = instructions for a cid the daemon already pins "
            "while every worker is busy, so the new operation waits in the channel and is untracked / re-tracked there) and a corpus of boundary schedules (round 8c: also a Track between the listing G and the rest Rs of an overlapping RecoverAll — re-track with another mode, of an errored cid, after an unpin_error, behind a full queue); three of four generated "
            "schedules are closed by a tail that answers every parked call until nothing is parked (a quiescent point), a RecoverAll, and the same again; "
            "one case = one schedule with the observation (Status per cid, StatusAll, daemon pin table with modes, shared pinset, parked calls, returned "
            "errors) at the stable point after every action; non-trivial = the schedule contains an instruction; distinct by case line",
    "trusted_base": ["gated fake IPFS daemon behind an in-process gorpc IPFSConnector service (harness/c05): Pin/Unpin park until scripted, PinLsCid/PinLs answer "
                     "from the pin table for the asked mode like ipfshttp does (or an error while a scripted read fault is on); a call whose context is cancelled leaves without effect",
                     "overlapping RecoverAll: the harness's getState hands the RecoverAll call the pinset listing taken at action G (as if its goroutine had been descheduled right after st.List)",
                     "shared pinset = real dsstate over an in-memory datastore, updated by the harness before Track/Untrack (as the consensus component does)",
                     "stable-point detection: every other goroutine blocked (runtime.Stack) and daemon counters unchanged for 3 polls"],
    "assumptions": ["a request cancelled by the tracker never takes effect at the daemon afterwards (the model disables the effect step of a cancelled call)",
                    "every Go action on the operation table / an operation is atomic (they are mutex-protected), so the interleavings of goroutines are the "
                    "interleavings of the model's steps; answers racing with instructions are exercised by the race actions",
                    "Track / Untrack reach the tracker one at a time, after the shared pinset was updated (consensus applies the log sequentially, synchronously since 2ba6875); "
                    "Recover / RecoverAll may overlap them: modelled (EvC, recoverAllR with arbitrary activity in between), the invariant then FAILS (concurrent_recover_untrack_breaks, "
                    "recoverAll_stale_listing_breaks; known finding K-C05-overlap); the positive theorems about RecoverAll assume only worker / daemon activity between its entries",
                    "Go scheduler fairness: a runnable worker eventually runs (stable points are reached)"],
}
META = {
    "text": "Kernel-checked theorems over a labelled transition system of the stateless pin tracker and its operation table (all interleavings of track / untrack / "
            "recover with worker steps, daemon effects, nil / error / cancelled answers and lost pins; any queue size and worker count): a 21-conjunct invariant is "
            "preserved by every step; in every reachable quiescent state every CID's daemon pin matches the shared pinset (recorded mode / absent / best-effort for "
            "moved pins) or its status is an error status; from a quiescent state a recover round with healthy IPFS ends with the daemon matching for every CID, the "
            "re-issued pin being the recorded one; an instruction refused for a full queue returns ErrFullQueue and leaves an error status. Round 7: RecoverAll / Recover as the code runs them (status listing "
            "snapshot, the switch of recoverWithPinInfo as a function of the status, worker and daemon activity between the entries, daemon read failures): every listed cid whose status calls for "
            "a repair gets a new operation of the right type carrying the recorded pin (recoverAll_covers), healthy cids get none (recover_skips_healthy), a healthy round heals "
            "(recoverAllR_heals), a failed listing recovers nothing and must be reported (recoverAll_lsErr; fixed in /repo aa42f84); for EVERY schedule of blocks of events every observation "
            "point satisfies the first clause as the driver evaluates it (model_trace_match_or_error); instructions in two steps interleaved with each other: harmless for Track/Untrack sends, "
            "but a Recover / RecoverAll acting on a status read before a concurrent Untrack re-pins a removed cid (proved witness + replay on the real tracker, known finding); Shutdown cancels every "
            "operation and no completion writes afterwards. Round 8: Untrack always leaves an Unpin operation in the table that is refused (ErrFullQueue, error status) or alive in the unpin channel / parked at the daemon, "
            "whatever the table held — also a pin still waiting in the channel (untrack_unpin_on_its_way); the shortcut 'cancel the queued pin and forget it' is refuted with a witness (unqueue_shortcut_breaks: "
            "quiescent, pinset empty, daemon pins the cid, recover finds nothing); the first sentence as a whole-history statement after ONE instruction from any reachable state "
            "(untrack_converges, track_converges: any later events that leave that cid's pinset entry alone). Round 8b: the operation tracker is tied SEMANTICALLY, not only by its text: "
            "a go/ast translator (harness/extract_c05t) regenerates the decision tables of TrackNewOperation (existing op x new type x phase), Clean (pointer test), applyPinF (cancelled / call / error / "
            "cancelled-meanwhile paths), trackerStatus (type x phase), Operation.SetPhase / SetError / Cancel / Cancelled and the switch of recoverWithPinInfo over all 13 statuses as paths "
            "(literals in short-circuit order, actions), unknown syntax = .unknown = failed obligation; Model/C05T.lean interprets them and gen_table_* prove for ALL inputs that the executed "
            "table is the model's trackNew / retOk's Clean / startCall / retOk / retErr / reap / opStatus / recAction+recPin; the wrong guard 'dedupe also against an errored operation' is refuted as a table "
            "(wrong_guard_table_refuted). Round 8c: the translator also reads the tracker's ENTRY POINTS (select with a non-blocking send, tagless switch, continue, one-level range loops, "
            "position-dependent meaning of `err == nil`, RPC method names): enqueue (nil when ongoing / channel by type / send or ErrFullQueue + SetError + Cancel) = the model's enqueue "
            "(gen_table_enqueue), Track's kind decision for every pin (meta / remote with the synchronous unpin and its two outcomes / local) = track (gen_table_track, gen_table_track_sync), "
            "Untrack, Recover (GetExists else Status) = recover, RecoverAll (failed listing returned, loop leaves at the first error) = raLoop for every listing (gen_table_recoverAll), "
            "Status's decision tree = statusR / statusOf on every state with the daemon's reads working or not (gen_table_status), addError, localStatus's per-pin switch = statusAllOf "
            "(gen_table_localStatus), statusAll (localStatus, then the operation table laid over it, then the filter) = listingR (gen_table_statusAll); two wrong tables refuted (full-queue branch without SetError, channels swapped). Other overlaps than Recover x Untrack: a Track overlapping a Recover / "
            "RecoverAll whose status read came first is harmless — the stale switch is deduplicated against the Track's operation even before its channel send (track_overlapping_recover_harmless, "
            "all states of the interleaved system) and re-issues the pin recorded NOW (stale_pin_switch_uses_current_pin); a stale unpin_error switch after a completed Track un-pins again but ends in "
            "pin_error and the next round re-pins (proved witness); a StatusAll torn between the daemon read and the table read (a worker completes in between) lists a pinned cid as unexpectedly_unpinned "
            "and RecoverAll then re-pins the recorded pin (torn_statusAll_repin_harmless, torn_listing_entry_is_track). The last clause over WHOLE histories: every instruction of every history, of every pin kind, "
            "satisfies `reported` at its return (history_full_queue_reported). The model is tied to the "
            "code by running thousands of scripted schedules on the real tracker against a gated fake daemon and comparing every stable-point observation with the "
            "model, and the Lean property clauses are evaluated on the implementation's own observations.",
    "note": "Trusted: Lean kernel, hand-written model/spec, the gated daemon and stable-point detection of the harness. The suspected defect 'a re-track with another mode "
            "is deduplicated' is real behaviour but ends in pin_error (Status asks the daemon for the recorded mode) and is repaired by recover: no finding.",
    "technique": "decision tables of the operation tracker and of the tracker's entry points (enqueue, Track, Untrack, Recover, RecoverAll, Status, statusAll, localStatus) regenerated from the Go syntax tree and interpreted by the model (theorems for all inputs) + regenerated source text of the anchored functions and the function inventory of the anchored files checked against the transcribed snapshot (rfl) + Lean 4 inductive invariant over an LTS + schedule-level differential correspondence against a gated daemon",
}
