CHECK = {
    "suites": [suite("schedules", "c05", 800, 8000, stdin=True, timeout={"quick": 600, "thorough": 1800})],
    "lean_sources": ["ClusterVerif/Model/C05.lean", "ClusterVerif/Spec/C05.lean"],
    "rule": "gated schedules",
    "trusted_base": [],
    "assumptions": [],
}
META = {"text": "", "note": "", "technique": ""}
