import os, re


def _rerun_unstable(run):
    """Networked cases: a propfail/diff must reproduce when its script is run again (2 more times) before it is
    reported; otherwise it is counted as inconclusive (infrastructure: elections, timeouts, load)."""
    suites = {s["name"]: s for s in run.cfg["suites"]}

    def reproduces(case, answer, sname, seed):
        s = suites.get(sname)
        if s is None or " => " not in case:
            return True
        kind = answer.split(" ", 1)[0]
        cl = set((re.match(r"propfail (\S+)", answer) or [None, ""])[1].split(","))
        for _ in range(2):
            pairs = run.run_suite(s, seed, stdin_lines=case.split(" => ")[0] + "\n")
            hit = False
            for c, a in pairs:
                if a.split(" ", 1)[0] != kind:
                    continue
                if kind == "propfail":
                    cl2 = set((re.match(r"propfail (\S+)", a) or [None, ""])[1].split(","))
                    if not (cl & cl2):
                        continue
                hit = True
            if not hit:
                return False
        return True

    changed = False
    for attr in ("propfails", "diffs"):
        keep = []
        for n, item in enumerate(getattr(run, attr)):
            case, answer, sname, idx, seed = item
            if n >= 6 or reproduces(case, answer, sname, seed):
                keep.append(item)
            else:
                run.inconclusive += 1
                run.notes.append("not reproduced on re-run (counted inconclusive): %s ## %s" % (case[:300], answer[:120]))
                changed = True
        setattr(run, attr, keep)
    if changed:
        # re-derive the correspondence obligations from what is left
        left = {}
        for c, a, sname, idx, seed in run.diffs + run.badcases:
            left.setdefault(sname, []).append("%s ## %s" % (c[:400], a[:200]))
        obl = []
        for n, ok, d in run.obligations:
            m = re.match(r"correspondence:([^:]+)$", n)
            if m and not ok:
                ex = left.get(m.group(1), [])
                obl.append((n, not ex, " | ".join(ex[:3])))
            else:
                obl.append((n, ok, d))
        run.obligations = obl



CHECK = {
    "suites": [
        suite("consensus", "c17", 14, 240, stdin=True, args=["-suite", "consensus"], timeout={"quick": 600, "thorough": 1500}),
        suite("fault", "c17", 10, 80, stdin=True, args=["-suite", "fault"], timeout={"quick": 600, "thorough": 1500}),
        suite("conc", "c17", 7, 90, stdin=True, args=["-suite", "conc"], timeout={"quick": 600, "thorough": 1500}),
        suite("join", "c17", 4, 120, stdin=True, args=["-suite", "join"], timeout={"quick": 600, "thorough": 1500}),
        suite("depart", "c17", 4, 60, stdin=True, args=["-suite", "depart", "-par", "9"], timeout={"quick": 600, "thorough": 1500}),
        suite("cluster", "c17", 5, 100, stdin=True, args=["-suite", "cluster"], timeout={"quick": 600, "thorough": 2400}),
    ],
    "gen": [{"pkg": "extract_c17", "out": "lean/ClusterVerif/Gen/C17.lean"}],
    "extra": [_rerun_unstable],
    "search_seeds": {"quick": 1, "thorough": 2},
    "lean_sources": ["ClusterVerif/Model/C17.lean", "ClusterVerif/Spec/C17.lean", "ClusterVerif/Lemmas/C17.lean", "ClusterVerif/Lemmas/C17Step.lean",
                     "ClusterVerif/Model/C17Fault.lean", "ClusterVerif/Spec/C17Fault.lean", "ClusterVerif/Lemmas/C17Fault.lean",
                     "ClusterVerif/Model/C17Depart.lean", "ClusterVerif/Lemmas/C17Depart.lean",
                     "ClusterVerif/Model/C17Shutdown.lean", "ClusterVerif/Spec/C17Depart.lean",
                     "ClusterVerif/Gen/C17.lean", "ClusterVerif/Model/Pin.lean"],
    "rule": "consensus suite: scripts of 4-14 steps over 1-4 real raft.Consensus peers on loopback (bootstrap of 1-3 peers; pin/unpin, "
            "start+add+ready of a staging peer, add of a present peer, removal of an absent / other / own / leader / last peer, restart, "
            "shutdown+Clean of a removed peer, a non-voting server through the hook with WaitForSync, the same peer re-added and re-removed "
            "on the same data folder more often than backups_rotate (1-2) with snapshots forced), issued at leaders and followers; "
            "cluster suite (5 scripts quick, 100 thorough): full Cluster peers (Join, PeerAdd, PeerRemove with and without re-pinning, leave on shutdown, restart). "
            "fault suite (10 scripts quick + corpus, 80 thorough): AddPeer / RmPeer on 2-3 real peers while the first k forwarded requests are refused "
            "or executed-and-answered-with-an-error by the leader's endpoint, or the leader loses the leadership between the leader check and its "
            "Raft call, or the leader is partitioned away (connection gaters) right before the call and the network heals after the others elected, "
            "or Raft refuses the request (empty peer ID); k in {0, 1, commit_retries, commit_retries+1, all}, commit_retries in {0,1,2}, "
            "issued at leaders and followers; result, forwards seen, own Raft calls and every member's peerset compared with the traced retry loops "
            "under the oracle the plan stands for. conc suite (7 scripts quick, 90 thorough): phases of 2-4 calls (one membership change + pins/unpins) "
            "started together from different members, observed at sync points; admitted iff some order of each phase explains it. join suite "
            "(4 scripts quick, 120 thorough): a staging peer is added and waited for while a burst of 16-40 pins is logged. "
            "depart suite (4 generated histories + 9 corpus lines quick, 60 thorough): ONE observed full Cluster peer of a three-peer cluster is taken "
            "through a history of the events of the Lean departure machine (write, removed by another member, removes itself, watchPeers round, "
            "operator Shutdown with/without leave_on_shutdown, restart on its folders; peer_watch_interval 3 s, removals placed early in the watch "
            "period so that what follows is before the next round); observed: Done(), listed by a remaining member, raft.db/snapshots present, "
            "RmPeer(self) seen; compared with depRun over Gen.shutdownSites and the INTERPRETED Gen.shutdownEffects, and judged by the text clauses "
            "removed_discards / removed_stops. Generated histories include removed-by-another-then-stopped-before-the-watch-round again (was K17a, repaired by "
            "/repo 3277283: a revert fails there as an ordinary propfail) and avoid only K17b (removed while down, restarted: corpus only). "
            "One case per observation point (script so far => what every running peer reports once all caught up); non-trivial = the script "
            "contains a membership step; distinct by case line",
    "trusted_base": ["hashicorp/raft 1.1.1 and go-libp2p-raft: log agreement, configuration changes, snapshots (the model assumes one log whose prefixes members hold)",
                     "consensus/raft/verif_export_c17.go, verif_export_c17x.go (build tag verif): read access to Raft indexes/configuration, AddNonvoter, LeadershipTransfer",
                     "fault injection of suite fault: the harness' Consensus RPC endpoint (refuse / execute-then-fail the caller's forwards), OpenCensus span names "
                     "consensus/redirectToLeader, consensus/raft/AddPeer, consensus/RemovePeer used to count leader-side attempts and to time the leadership transfer",
                     "harness RPC services standing in for the Cluster RPC API at consensus level; StoreMonitor / FakeIPFS at cluster level",
                     "go/ast skeleton extractor (harness/extract_c17) for the statement order of the anchored functions and for the "
                     "Shutdown start sites of cluster.go (enclosing conditions, domination by `c.removed = true` / `c.readyB = true`) and for the tracked "
                     "effects of (*Cluster).Shutdown with the atoms of their guards (Gen.shutdownEffects; `err` qualified by the call it comes from; guards "
                     "are evaluated when the effect is reached, components other than consensus are assumed to stop without error)",
                     "known findings K17b (known) and K17a (fixed by /repo 3277283) are entries of known_findings.json like all others"],
    "assumptions": ["consensus / cluster / fault scripts are sequential: a step starts after the previous one returned and all members caught up; "
                    "conc phases and the join burst are concurrent, observed at sync points",
                    "fault plans: one fault kind per attempt, the forwarded call's own retry loop on the leader is healthy; one partition shape (the leader alone, "
                    "call issued at the leader, healed once the others elected); no SIGKILL of the leader",
                    "C17_conc_full (what the concurrent model admits meets the clauses) is PROVED for the sync-point clauses agree / ack_in_all / pinset_agree "
                    "(conc_allowed_membership_holds, every concurrent case); pinset_kept and the per-call clauses add_present_noop / rm_absent_noop / "
                    "last_peer_kept of concurrent phases are validated by suite conc only",
                    "steps are issued only while a quorum of voters is running (otherwise the harness reports the script inconclusive)",
                    "the Raft data folder is observed after Clean: no raft.db, no snapshot; rotated copies are counted next to it",
                    "departure theorems on today's code (departure_cleans_today: Shutdown consults consensus.Peers, /repo 3277283) exclude only histories "
                    "in which consensus.Peers does not answer an operator stop of a removed peer, and a peer removed while it is down (known finding K17b, "
                    "REPRODUCED on real peers by suite depart; departure_text_refuted_today); removed-by-another-then-stopped (was K17a) is inside the statement",
                    "a ghost peer (removed while down, started again) is given ReadyTimeout = 15 s in suite depart",
                    "pins in scripts carry no origins (not decodable from the Raft log: recorded finding K01 of C08/C01)"],
}
META = {
    "text": "Kernel-checked theorems over a Lean model of raftWrapper.AddPeer/RemovePeer, Consensus.AddPeer/RmPeer/commit (leader redirect and retry "
            "loops under an arbitrary leader/failure oracle), WaitForSync and the Cluster PeerRemove/watchPeers/Shutdown decisions, on top of a single "
            "replicated log with configuration entries: members at the same index report the same peerset, a successful add/remove puts/removes exactly "
            "that peer, present-add and absent-remove append nothing (even under lost replies and retries), the last peer and the last voter are never "
            "removed, a peer that WaitForSync calls ready has applied every entry logged before its own addition, a removed peer shuts down and cleans "
            "after stopping consensus, a peer that could not leave keeps its data, Clean empties the data folder after every removal in any history of re-adding the same peer "
            "(backup rotation, with or without a trailing slash in data_folder), re-pins precede RmPeer; and (allowed_holds, no proviso): every script "
            "outcome the model allows satisfies every clause of the property written from its text. Failure arms: the retry loops with the trace of their attempts "
            "(error <-> no attempt seen to succeed; acknowledged -> committed, the log untouched or one entry longer; a failed call without a lost reply changes nothing; "
            "a retried AddPeer whose first attempt committed with its answer lost is acknowledged and adds once), fault_allowed_holds for every fault plan, "
            "interleaved_log_agree for any interleaving of configuration and pin entries, concurrent phases (cLogs_inv: an invariant principle through every order "
            "`perms` tries and `dedupLogs`; conc_phase_acked_change_lands: in ANY order of a phase with ANY admitted outcomes a peer named only by acknowledged "
            "adds/rms is in/out of the configuration; conc_sure_peers_in_every_log over whole histories; conc_allowed_membership_holds: every observation "
            "the concurrent model admits meets agree, ack_in_all and pinset_agree), join_allowed_holds for a joiner during a burst of pins. "
            "Departure (round 8): every place of cluster.go that starts Cluster.Shutdown is regenerated as a structure (function, enclosing conditions, "
            "whether `c.removed = true` dominates it) and interpreted by a one-peer state machine over histories of removals by others, self-removals, "
            "watchPeers rounds, operator stops and writes: for ANY safe site list (today's is, by decide) a stopped non-member holds no consensus data "
            "(departure_cleans), a removed running peer stops and cleans at its next answered watch round, and every self-removal site that starts "
            "Shutdown without the flag is refuted with the history 'the peer removes itself' (unflagged_self_removal_refuted, early_shutdown_keeps_data = seeded C17f). Round 8b: (*Cluster).Shutdown itself is regenerated as a list of tracked effects with guard atoms and INTERPRETED "
            "(gen_shutdown_effects_agree: for all 128 flag/oracle values the interpretation equals the closed form the departure machine uses; "
            "shutdown_guard_edits_refuted: five realistic guard edits each change it on a concrete input); the departure machine has a restart event and a "
            "`consult` form (Shutdown looks at consensus.Peers itself, read off the regenerated structure), its own case kind `d` on real peers and its own text "
            "clauses. Round 8c (K17a repaired by /repo 3277283): gen_shutdown_consults reads off the regenerated structure that Shutdown looks at the peerset "
            "itself; departure_cleans_today / model_meets_text_today: ANY history whose operator stops are answered by consensus.Peers and that never removes the "
            "peer while it is down ends with a clean stopped non-member (no `outside` marker in the statement: removed by another member and stopped before "
            "the watch round is covered, k17a_history_cleans_today); no_consult_keeps_data is the refuted alternative (= a revert of 3277283: the same history "
            "keeps raft.db); departure_text_refuted_today states what is still open (K17b: removed while down and restarted). The model is tied to the code by running seeded scripts on real Raft peers (and full clusters) and comparing outcomes, peersets "
            "and pinsets of every member with the model, by evaluating the Lean property clauses on the implementation's own outputs, and by a go/ast "
            "skeleton of the anchored functions over which the guard/ordering facts are re-checked by `decide`.",
    "note": "Partial by nature: agreement is hashicorp/raft's (trusted). Trusted: Lean kernel, hand-written model/spec, harness, hook file "
            "consensus/raft/verif_export_c17.go.",
    "technique": "Lean 4 theorems over a log/wrapper model + differential correspondence on real Raft peers + go/ast skeleton facts",
}
