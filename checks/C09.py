CHECK = {
    "gen": [{"pkg": "extract_c09", "out": "lean/ClusterVerif/Gen/C09.lean"}],
    "suites": [
        suite("history", "c09", 8000, 80000, stdin=True),
        suite("monitor", "c09", 2000, 12000, stdin=True, args=["-suite", "monitor"]),
        suite("cadence", "c09", 0, 60, stdin=True, args=["-suite", "cadence"],
              timeout={"quick": 300, "thorough": 800}),
    ],
    "lean_sources": ["ClusterVerif/Gen/C09.lean", "ClusterVerif/Model/C09.lean", "ClusterVerif/Spec/C09.lean", "ClusterVerif/Lemmas/C09.lean"],
    "rule": "history cases = (window capacity, accrual oracle forced true/false through the checker threshold or left to the real phi, "
            "initial peerset, 0-320 operations: arrivals with validity/expiry flags, RemovePeer, RemovePeerMetrics, peerset changes "
            "(known/none/failing), LatestMetrics queries, Watch ticks, CheckPeers calls with arbitrary lists) drawn from one splitmix64 "
            "stream per case index; non-trivial = the history contains a query or a failure check; distinct by case line",
    "trusted_base": ["harness copies of two dispatches: Watch's tick (CheckPeers(peerset) / CheckAll / nothing) and, in the history suite only, "
                     "LatestMetrics = LatestValid + PeersetFilter (the monitor suite runs the real pubsubmon.Monitor.LatestMetrics)",
                     "expiry instants are hours away from the wall clock (or 0 / MaxInt64), so `expired` is a constant of each metric",
                     "verif_export.go wrappers (VerifNewCluster, VerifPushInformerMetrics, VerifPushPingMetrics) and common.StoreMonitor as recording monitor"],
    "assumptions": ["the float decision phi(v, d) >= threshold of the accrual detector is an oracle Boolean of the model (not modelled); "
                    "within one CheckPeers call it is the same for repeated visits of one (name, peer)",
                    "Window.Add stamps every arrival with a distinct, increasing ReceivedAt (modelled as arrival position + 1)",
                    "cadence: every step of a publish iteration happens within delay < TTL/4 of the timer firing (TTL/10 for the one-error theorem)"],
}
META = {
    "text": "Kernel-checked theorems over an executable model of metrics.Window/Store/Checker and LatestMetrics: for every history of arrivals, "
            "removals, peerset changes, queries and failure checks (any window capacity > 0, any accrual oracle) the model's observations satisfy "
            "the safety clauses of the property (at most one metric per peer, the most recent, valid, unexpired, member; fresh never alerted; "
            "never alerted twice without renewal; only reported stale metrics forgotten); and the exactly-once clauses (a covered stale metric is alerted by the check that finds it, forgotten by the next; across renewals, removals, both check kinds) with no hypothesis on the history; "
            "the alert threshold and accrual constants are regenerated from the source (Gen/C09.lean); window wrap-around; publish-loop recurrences overlap for every TTL > 0. "
            "Tied to today's code by running the real Store/Checker/pubsubmon.Monitor on seeded histories and comparing every observation with the model "
            "and with the Lean property checker; cadence measured on the real loops with millisecond TTLs (corpus cases in quick, random cases in thorough).",
    "note": "Trusted: Lean kernel (+propext, Classical.choice, Quot.sound), the hand-written model/spec, the Go harness. The phi float arithmetic is an oracle.",
    "technique": "Lean 4 invariants over histories + differential correspondence with the real monitor code",
}
