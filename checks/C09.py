CHECK = {
    "gen": [{"pkg": "extract_c09", "out": "lean/ClusterVerif/Gen/C09.lean"}],
    "suites": [
        suite("history", "c09", 8000, 80000, stdin=True),
        suite("monitor", "c09", 2000, 12000, stdin=True, args=["-suite", "monitor"]),
        suite("cadence", "c09", 0, 60, stdin=True, args=["-suite", "cadence"],
              timeout={"quick": 300, "thorough": 800}),
        # round 7: real clock inside a case (millisecond TTLs, real sleeps), the real Checker.Watch loop,
        # and the receive path of pubsubmon through real pubsub messages
        suite("timed", "c09", 100, 1500, stdin=True, args=["-suite", "timed"],
              timeout={"quick": 300, "thorough": 1500}),
        suite("watch", "c09", 40, 600, stdin=True, args=["-suite", "watch"],
              timeout={"quick": 300, "thorough": 1500}),
        suite("recv", "c09", 150, 1500, stdin=True, args=["-suite", "recv"],
              timeout={"quick": 300, "thorough": 1500}),
        # round 8: the buffered alert channel seen by a consumer that does not receive after every check
        suite("chan", "c09", 400, 6000, stdin=True, args=["-suite", "chan"]),
        # round 8b: the code that builds and publishes a metric (real informers behind a fake IPFSConnector, api.Metric time
        # functions, the real PublishMetric observed on the monitor's own subscription)
        suite("glue", "c09", 160, 2500, stdin=True, args=["-suite", "glue"]),
    ],
    "lean_sources": ["ClusterVerif/Gen/C09.lean", "ClusterVerif/Model/C09.lean", "ClusterVerif/Model/C09Source.lean", "ClusterVerif/Spec/C09.lean",
                     "ClusterVerif/Lemmas/C09.lean", "ClusterVerif/Lemmas/C09Time.lean",
                     "ClusterVerif/Model/C09Chan.lean", "ClusterVerif/Spec/C09Chan.lean", "ClusterVerif/Lemmas/C09Chan.lean",
                     "ClusterVerif/Model/C09Glue.lean", "ClusterVerif/Spec/C09Glue.lean"],
    "rule": "history cases = (window capacity, accrual oracle forced true/false through the checker threshold or left to the real phi, "
            "initial peerset, 0-320 operations: arrivals with validity/expiry flags, RemovePeer, RemovePeerMetrics, peerset changes "
            "(known/none/failing), LatestMetrics queries, Watch ticks, CheckPeers calls with arbitrary lists) drawn from one splitmix64 "
            "stream per case index; non-trivial = the history contains a query or a failure check; distinct by case line. "
            "timed cases: 5-14 operations with real sleeps between them, metric TTLs of 150-400 ms, every query/check scheduled >= 60 ms away from "
            "every expiry instant; watch cases: the real Checker.Watch with a 40/50 ms interval, operations and expiries at mid-interval instants; "
            "recv cases: 4-20 operations whose arrivals are real pubsub messages of 21 encodings (well-formed, odd but accepted, zero value, malformed); "
            "chan cases: channel capacity 1-4 (AlertChannelCap is a package variable; two corpus lines use the shipped 256 with 257 and 300 expired peers), "
            "1-6 peers, 4-16 operations: expired/fresh arrivals (< 6 per peer), CheckPeers with arbitrary lists and visiting orders WITHOUT receiving, "
            "a consumer that receives 0-3 alerts at arbitrary points; the case ends with a full drain; "
            "glue cases: informer kind (disk freespace / reposize, numpin) x RPC outcome (no client, failing IPFSConnector, answer with sizes 0, "
            "2^63, 2^64-1, equal, size > max) x TTL, or an api.Metric with an expiry 1 ms - 1 h before / after now, SetTTL of a negative duration, Expire 0 / MaxInt64 / MinInt64; "
            "cadence lines: loop kind x TTL x error pattern (none, every k-th publish fails, a burst, i<k> = the informer's k-th RPC fails once); "
            "a timed run whose real timestamps do not confirm the nominal order with 5 ms to spare is re-run (3x) and then counted inconclusive",
    "trusted_base": ["harness copies of two dispatches: Watch's tick (CheckPeers(peerset) / CheckAll / nothing) and, in the history suite only, "
                     "LatestMetrics = LatestValid + PeersetFilter (the monitor suite runs the real pubsubmon.Monitor.LatestMetrics)",
                     "history/monitor suites: expiry instants are hours away from the wall clock (or 0 / MaxInt64); timed/watch suites: the nominal "
                     "millisecond schedule of a case is the model's clock, accepted only when the real timestamps confirm every (observation, expiry) order",
                     "the payload classes of the receive path (well-formed / zero value / malformed) are a hand-written classification of 21 concrete "
                     "encodings; the correspondence run sends each through real pubsub into the real msgpack decoder",
                     "harness/extract_c09 statement translators (round 8b): each body statement of Window.Add / Window.Latest / Monitor.LatestMetrics / "
                     "Monitor.PublishMetric is printed, white space removed and matched against a fixed list of shapes (locking, tracing, logging skipped); "
                     "anything else is the token \"?\" which the Lean interpreter refuses; Window.All by its single append shape",
                     "glue suite: `exp=in` (Expire within [call start + TTL, call end + TTL]) is computed by the harness; delivery of a published metric is "
                     "decided by a later valid marker message on the same topic plus a 400 ms grace period (pubsub validates messages concurrently, the marker may overtake)",
                     "/repo/monitor/pubsubmon/verif_export_c09.go (build tag verif): VerifStore / VerifChecker accessors",
                     "harness/extract_c09.rearmProg (round 8c): the loop of pushInformerMetrics by statement shape (exact text of the select and the send, one Reset per branch, `continue` last); "
                     "cadence i<k>: harness/c09/cadinf.go wraps the real pubsubmon.Monitor only to record call instants, Discard() at the call and the returned error; the nominal schedule assumes the timer fires exactly after its delay",
                     "verif_export.go wrappers (VerifNewCluster, VerifPushInformerMetrics, VerifPushPingMetrics) and common.StoreMonitor as recording monitor"],
    "assumptions": ["history / monitor / timed / watch / recv suites and C09_holds: the consumer of Alerts() receives every alert of a check before the next "
                    "check (the channel never fills up); the chan suite and the Chan theorems drop this assumption for one metric name and CheckPeers",
                    "the float decision phi(v, d) >= threshold of the accrual detector is an oracle Boolean of the model (not modelled); "
                    "within one CheckPeers call it is the same for repeated visits of one (name, peer)",
                    "Window.Add stamps every arrival with a distinct, increasing ReceivedAt (modelled as arrival position + 1)",
                    "Metric.Expired is strict (`time.Now().After`): at the expiry instant itself the metric is still fresh; no timed run can observe the "
                    "boundary, it is tied by the regenerated source text of Expired/Discard (theorems gen_source_*)",
                    "the identity of the pubsub sender is not compared with metric.Peer by the code (nor by the model): `member` means the peer named in the metric",
                    "cadence: every step of a publish iteration happens within delay < TTL/4 of the timer firing (TTL/10 for the one-error theorem)"],
}
META = {
    "text": "Kernel-checked theorems over an executable model of metrics.Window/Store/Checker, LatestMetrics, the receive loop of pubsubmon and the Watch loop: "
            "for every history of arrivals with arbitrary expiry instants, clock advances (a metric fresh at one check is expired at a later one), received pubsub payloads, "
            "removals, peerset changes, queries and failure checks (any window capacity > 0, any accrual oracle) the model's observations satisfy "
            "the safety clauses of the property (at most one metric per peer, the most recent, valid, unexpired, member; fresh never alerted; "
            "never alerted twice without renewal; only reported stale metrics forgotten); and the exactly-once clauses (a covered stale metric is alerted by the check that finds it, forgotten by the next; across renewals, removals, both check kinds) with no hypothesis on the history; "
            "the alert threshold and accrual constants are regenerated from the source (Gen/C09.lean); window wrap-around; publish-loop recurrences overlap for every TTL > 0. "
            "Tied to today's code by running the real Store/Checker/pubsubmon.Monitor on seeded histories and comparing every observation with the model "
            "and with the Lean property checker; time inside a case is tied with millisecond TTLs and real sleeps (timed suite), the real Checker.Watch ticker (watch suite) "
            "and real pubsub messages including malformed ones (recv suite); between two renewals of a (peer, metric) at most one alert, exactly one once a covering check finds it expired; "
            "the buffered alert channel (round 8): model of alert/CheckPeers with channel occupancy, count-before-send order regenerated from the go/ast of Checker.alert; "
            "theorem: with the count raised only after a successful send (today's order since the repair F44, regenerated as alertCountsBeforeSend = false) no history "
            "(any capacity, any consumer) forgets an unreported metric; refutation for the PRE-FIX order, which is what a revert reintroduces "
            "(a full channel drops the alert, keeps the count, the next check forgets the stale metric silently; suite chan runs the real Checker with capacities 1-4 and 256); "
            "round 8b: Window.Add / Latest / All, Monitor.LatestMetrics and Monitor.PublishMetric are translated statement by statement (go/ast) into programs the model INTERPRETS: "
            "theorems for every ring / state that the interpreted programs are the model's functions (the peerset of LatestMetrics is asked for at the query), refutations for "
            "store-after-advance, read-at-cursor and a remembered peerset; api.Metric time functions (strict expiry, negative TTL, zero Expire); the informers' metric construction "
            "(no client / RPC error never valid and never on the wire, answered RPC valid for exactly one TTL, free space never underflows), driven through the real informers and the real PublishMetric (suite glue); "
            "a malformed message changes nothing; a failing peerset function skips the round and keeps the pending alert; cadence measured on the real loops with millisecond TTLs (corpus cases in quick, random cases in thorough); "
            "round 8c: the loop body of Cluster.pushInformerMetrics is translated (go/ast) into a program the model interprets (which condition takes the retry-sooner branch, both divisors); "
            "today's body (since the repair F45 in /repo 1189798, regenerated as [send, discard=err, err?retry/4, rearm/2]) treats a metric that PublishMetric would drop as an error and retries at TTL/4: "
            "theorem repaired_retries_in_time — after ONE failed informer RPC the next attempt is strictly before the expiry of the last delivered metric (every TTL > 0); the PRE-FIX body "
            "[send, err?retry/4, rearm/2] (what a revert reintroduces) re-armed at TTL/2 after the dropped metric: refutation shipped_retries_late; gen_rearm_known accepts only these two bodies (fail closed); "
            "cadence lines i<k> drive the real disk.Informer (k-th RepoStat fails), the real loop and the real PublishMetric (late=0 on today's tree, late=1 before the repair), "
            "and the driver compares every informer cadence line with the nominal schedule of the regenerated body; "
            "round 8 final: ONE history over the receive path, the store, the clock, the checker and the channel (namespace Hist: payloads decoded, malformed / other names ignored, latest per peer with its expiry instant, "
            "clock advances, peerset changes and Watch ticks (CheckPeers(peerset), round skipped when the peerset function fails), CheckPeers with any lists deciding expiry at the clock of the check, alert with today's count-after-send order, drains of any size): theorem history_reported_once_holds for every such history and capacity "
            "— no alert is enqueued twice, only reported metrics are forgotten (forgotten => enqueued exactly once, before), every enqueued alert names the peer's latest metric at a check / tick whose list (the peerset of that tick) names the peer, with its expiry instant passed — "
            "plus the liveness step history_expired_visited_enqueued (expired + room => enqueued); the join with the multi-name model (windows, accrual oracle, CheckAll, removals, the query-side peerset filter) is still missing (notes, Round 8 final).",
    "note": "Trusted: Lean kernel (+propext, Classical.choice, Quot.sound), the hand-written model/spec, the Go harness. The phi float arithmetic is an oracle.",
    "technique": "Lean 4 invariants over histories + differential correspondence with the real monitor code",
}
