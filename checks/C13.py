CHECK = {
    "suites": [suite("stream", "c13", 150, 1500, stdin=True, args=["-suite", "stream"], timeout={"quick": 300, "thorough": 1500}),
               suite("trees", "c13", 120, 1500, stdin=True, args=["-suite", "trees"], timeout={"quick": 300, "thorough": 1500})],
    "gen": [{"pkg": "extract_c13", "out": "lean/ClusterVerif/Gen/C13.lean"}],
    "lean_sources": ["ClusterVerif/Model/Pin.lean", "ClusterVerif/Gen/C13.lean", "ClusterVerif/Model/C13.lean",
                     "ClusterVerif/Spec/C13.lean", "ClusterVerif/Lemmas/C13.lean"],
    "rule": "TODO",
    "trusted_base": [],
    "assumptions": [],
}
META = {"text": "TODO", "note": "TODO", "technique": "TODO"}
