CHECK = {
    "suites": [suite("stream", "c13", 250, 1200, stdin=True, args=["-suite", "stream"], timeout={"quick": 600, "thorough": 2400}),
               suite("trees", "c13", 200, 2000, stdin=True, args=["-suite", "trees"], timeout={"quick": 600, "thorough": 2400})],
    "gen": [{"pkg": "extract_c13", "out": "lean/ClusterVerif/Gen/C13.lean"},
            {"pkg": "extract_c13flow", "out": "lean/ClusterVerif/Gen/C13Flow.lean"},
            {"pkg": "extract_c13par", "out": "lean/ClusterVerif/Gen/C13Par.lean"}],
    "lean_sources": ["ClusterVerif/Model/Pin.lean", "ClusterVerif/Gen/C13.lean", "ClusterVerif/Model/C13.lean",
                     "ClusterVerif/Spec/C13.lean", "ClusterVerif/Lemmas/C13.lean", "ClusterVerif/Lemmas/C13Log.lean", "ClusterVerif/Lemmas/C13Deliv.lean",
                     "ClusterVerif/Model/C13Import.lean", "ClusterVerif/Lemmas/C13Import.lean",
                     "ClusterVerif/Model/C13FlowOps.lean", "ClusterVerif/Gen/C13Flow.lean", "ClusterVerif/Model/C13Flow.lean",
                     "ClusterVerif/Model/C13Par.lean", "ClusterVerif/Gen/C13Par.lean", "ClusterVerif/Lemmas/C13Par.lean"],
    "rule": "stream: synthetic raw-block streams (1-6 runs of equal-sized blocks, repeats, early/foreign roots; 5983..11969 four-byte blocks in the "
            "thorough tier) into single.New / sharding.New with shard limits at, one under and one over sums of block runs, 1-4 scripted allocations "
            "over 5 destinations, BlockPut faults (IPFS / RPC error, from the j-th put of a destination), BlockAllocate and Pin failures; "
            "trees: generated file trees (empty files, sizes around chunk and shard limits, >174 chunks, nested/empty directories, symlinks, hidden "
            "entries, equal and zero-filled files, many tiny files, 6000 files in the thorough tier) x chunker x layout x raw-leaves x CID version x "
            "hash x wrap x hidden x input source (memory, multipart, disk) x format (unixfs, car, bad) x entry point (adder, Cluster.AddFile, HTTP "
            "handler) with the same scripted cluster side; for every successful add the harness dumps the structure of the delivered DAG under the "
            "returned root (per node: kind, links in encoded order, data length, recorded block sizes, stream id) and the driver compares it with "
            "the tree the Lean importer model builds for the case (whole DAG for the size splitter, every file DAG over its own leaf lengths for any "
            "chunker) and the stream order with the model's post-order emission; about one tree case in six on the direct route injects a "
            "front-end fault: the request's context cancelled when the k-th top-level entry is asked for (k = number of entries: before Finalize) "
            "or when the k-th block reaches the DAG service, or the multipart body cut at a random offset (closing boundary always damaged; not "
            "with the rabin splitter, which spins on such input): an aborted add must show no Finalize, no success and no root pin, one that "
            "was not aborted must agree with the model in full (a context cancelled inside an entry: Spec only, without the two allocation-equality "
            "clauses, because BlockPuts that die on the caller's side are invisible to the recording services); a cut body that mime/multipart alone "
            "reports as broken must be refused, one that reads as a clean shorter upload is held to closure and bookkeeping only; every unixfs case's request is run through the interpreted parameter plumbing; non-trivial = at least one block reached the DAG service; distinct by case line",
    "trusted_base": ["five libp2p hosts on loopback with recording IPFSConnector.BlockPut / Cluster.BlockAllocate / Cluster.Pin services; an RPC-type put "
                     "failure is produced by dropping the connection under the call (remote) or returning a gorpc client error (local)",
                     "a recording wrapper around the ClusterDAGService under test (Add stream, Finalize); verif_export.go (VerifNewCluster) for Cluster.AddFile",
                     "content checks computed in Go: go-merkledag / go-unixfs readers over the delivered blocks (hash-verified), a reference importer "
                     "assembled from go-unixfs chunker / balanced / trickle / basic-directory primitives, go-car for CAR inputs",
                     "harness/c13/dump.go: protobuf / unixfs decoding of the delivered blocks into the structure token compared with the Lean importer model; "
                     "file contents are not on the case line: the driver runs the model on lists of the file's length (structure depends on lengths only)",
                     "Obs.view (the decoder of implementation output into the Spec's view) agrees with the model's structural view: proved for the accepted pins (decoded_pins), checked per case for shard contents, depths and destinations"],
    "assumptions": ["PARTIAL: closure, read-back, directory linking and independence of the root from the DAG service are proved over the Lean importer model "
                    "(size splitter, balanced / trickle layout, directories, hidden filter, wrap, emitted stream) with CIDs abstracted to structural identity; "
                    "that model is tied to the code by exact structure comparison on generated inputs. Hash computation, protobuf / unixfs / cbor encodings, "
                    "link Tsize, CAR decoding and rabin / buzhash boundaries are not modelled: for them the four content clauses rest on the Go oracles",
                    "importer width 174 (go-unixfs DefaultLinksPerBlock), trickle depthRepeat 4 and the default chunk size 262144 are constants of the model; "
                    "their values in the linked libraries are regenerated and a theorem (gen_importer_constants) states they are the model's",
                    "NoCopy / Progress are covered by the interpreted plumbing (theorems) only: the harness never sets them; hash-name table = multihash.Names of the linked library",
                    "a cancelled context is only noticed between top-level entries (select in FromFiles): BlockPut / Pin calls issued with the cancelled context still "
                    "go through in this setting, so an add cancelled inside its last entry or just before Finalize completes and pins (observed, agrees with the model)",
                    "the importer reaches Finalize only when no Add failed (CallerStops); refuted for go-unixfs balanced.Layout: known finding K33",
                    "added content is pinned recursively whatever pin mode was requested; negative replication factors are written as empty allocations",
                    "adds with the local flag are outside the allocation clause; several top-level entries without wrapping are outside the property",
                    "go-mfs flushes directories in map order: the observed block order of multi-directory trees may differ between runs of one input"],
}
META = {
    "text": "Kernel-checked theorems over a Lean model of the adders' DAG services (BlockAdder success rule, single allocate-put-pin, sharding "
            "ingest/flush/makeDAG/Finalize) for every block stream, allocation script and BlockPut/BlockAllocate/Pin fault script: an add that does not "
            "report success has no data or meta pin accepted (unconditionally); if the caller stops at the first failed Add, the accepted pins are exactly "
            "the root pin with the block destinations (not sharded) or shard pins + cluster-DAG + meta entry whose links partition the stream in order, "
            "every shard strictly under the limit, depth 2 exactly when makeDAG built an indirect node (> MaxLinks links, constants regenerated from the "
            "source). Without that hypothesis the statement is refuted by a witness, which the harness reproduces on the implementation: go-unixfs "
            "balanced.Layout drops the error of the first child's Add, the root is pinned although a block was never stored (known finding K33). "
            "Content: a Lean model of the importer front-end (size-N chunker, balanced and trickle layout builders with their Add order, unixfs directories "
            "with sorted links, hidden filter, wrap, the stream offered to the DAG service incl. MFS re-adds) with theorems for every file length, chunk size "
            "and tree: chunks concatenate to the file, in-order leaves read back the bytes, recorded sizes are true sizes, fan-out <= width, balanced depth "
            "minimal, blocks are added in post-order, the stream is closed under links and contains nothing but the root's DAG (+ MFS scaffold / empty dir), "
            "the seen-set keeps every CID once, every visible entry is linked under its name in name order, root is a directory iff wrap or tree, and stream "
            "and root do not depend on the DAG service. The delivered DAG's structure is compared with the model's tree per case; hashing / encoding / "
            "non-size chunkers stay with the Go read-back oracles. "
            "Round 8: the statements of adder/single/dag_service.go (New, Add, Finalize) are regenerated as an operation list that a Lean interpreter "
            "executes against the same scripted cluster side; theorem single_flow_refines: the program read from the source IS the model's runSingle "
            "for every stream / allocation / fault script (so no_pin_on_failure, pins_on_success_single, bookkeeping_partial speak about that program), "
            "and the reordered programs (dests reset before the pin takes them, allocations not assigned, recursive mode not forced) are refuted against "
            "the Spec by a concrete add; an unrecognised statement fails the obligation. shard.go (AddLink size accounting, Flush: makeDAG - AddMany - pin "
            "fields - Pin, Size / Limit) and Adder.FromFiles (format switch, construction error, wrap, entry loop with cancellation test, CAR break, "
            "iterator error, Finalize) are regenerated as operation orders and compared; FromFiles is modelled over abstract entries with theorems: a "
            "failing entry, a cancelled context, a broken entry iterator or refused parameters mean Finalize is not called, and then no data / meta pin "
            "is accepted (front_failure_no_pin); all entries fine means every entry is added in order and Finalize gets the last root. "
            "Round 8b: the parameter plumbing is regenerated and interpreted: newIpfsAdder (adder/adder.go) as a statement list whose right-hand sides are "
            "expression trees, (*ipfsadd.Adder).add as the DagBuilderParams literal + chunker argument + layout switch; theorem params_reach_importer: for "
            "every request (layout, chunker string, raw-leaves, no-copy, progress, CID version, hash name) the program read from the source configures the "
            "importer exactly as requested or refuses (unknown version / hash, CIDv0 with another hash), explicit_values_unchanged field by field, "
            "plumb_end_to_end through both functions (all proved by symbolic execution of the generated program, so a meaning-preserving rewrite still checks), "
            "harmless_reorder_same, refutations of the "
            "edited programs (raw leaves forced for CIDv1 = seeded change C13f, raw-leaves dropped, hash dropped), unknown statement never yields an importer; "
            "importer constants of the linked go-unixfs / go-ipfs-chunker / go-multihash regenerated (gen_importer_constants); chunker.FromString modelled "
            "(chunker_string_sound: an accepted size is > 0 and <= the limit). The driver runs every case's request through the interpreted plumbing, and "
            "cancellation (between entries, at a block) and truncated multipart uploads are injected by the harness and held to the FromFiles model.",
    "note": "Partial: bookkeeping proved; content proved over the importer model up to hashing and byte encodings, which are validated. Trusted: Lean kernel, hand-written model/spec and view decoder, harness fakes over real libp2p "
            "streams, Go content oracles (go-unixfs / go-merkledag / go-car).",
    "technique": "Lean 4 theorems over a step model and an importer model + generated constants + interpreted statement flow of the single DAG service and of the parameter plumbing + differential correspondence on recorded BlockPut / Pin logs and DAG structure dumps + read-back oracle",
}
