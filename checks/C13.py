CHECK = {
    "suites": [suite("stream", "c13", 250, 1200, stdin=True, args=["-suite", "stream"], timeout={"quick": 600, "thorough": 2400}),
               suite("trees", "c13", 200, 2000, stdin=True, args=["-suite", "trees"], timeout={"quick": 600, "thorough": 2400})],
    "gen": [{"pkg": "extract_c13", "out": "lean/ClusterVerif/Gen/C13.lean"}],
    "lean_sources": ["ClusterVerif/Model/Pin.lean", "ClusterVerif/Gen/C13.lean", "ClusterVerif/Model/C13.lean",
                     "ClusterVerif/Spec/C13.lean", "ClusterVerif/Lemmas/C13.lean", "ClusterVerif/Lemmas/C13Log.lean", "ClusterVerif/Lemmas/C13Deliv.lean",
                     "ClusterVerif/Model/C13Import.lean", "ClusterVerif/Lemmas/C13Import.lean"],
    "rule": "stream: synthetic raw-block streams (1-6 runs of equal-sized blocks, repeats, early/foreign roots; 5983..11969 four-byte blocks in the "
            "thorough tier) into single.New / sharding.New with shard limits at, one under and one over sums of block runs, 1-4 scripted allocations "
            "over 5 destinations, BlockPut faults (IPFS / RPC error, from the j-th put of a destination), BlockAllocate and Pin failures; "
            "trees: generated file trees (empty files, sizes around chunk and shard limits, >174 chunks, nested/empty directories, symlinks, hidden "
            "entries, equal and zero-filled files, many tiny files, 6000 files in the thorough tier) x chunker x layout x raw-leaves x CID version x "
            "hash x wrap x hidden x input source (memory, multipart, disk) x format (unixfs, car, bad) x entry point (adder, Cluster.AddFile, HTTP "
            "handler) with the same scripted cluster side; non-trivial = at least one block reached the DAG service; distinct by case line",
    "trusted_base": ["five libp2p hosts on loopback with recording IPFSConnector.BlockPut / Cluster.BlockAllocate / Cluster.Pin services; an RPC-type put "
                     "failure is produced by dropping the connection under the call (remote) or returning a gorpc client error (local)",
                     "a recording wrapper around the ClusterDAGService under test (Add stream, Finalize); verif_export.go (VerifNewCluster) for Cluster.AddFile",
                     "content checks computed in Go: go-merkledag / go-unixfs readers over the delivered blocks (hash-verified), a reference importer "
                     "assembled from go-unixfs chunker / balanced / trickle / basic-directory primitives, go-car for CAR inputs",
                     "Obs.view (the decoder of implementation output into the Spec's view) agrees with the model's structural view: proved for the accepted pins (decoded_pins), checked per case for shard contents, depths and destinations"],
    "assumptions": ["PARTIAL: closure under links, byte-exact read-back and the two root equalities are validated on generated inputs, not proved (no Lean model of "
                    "chunking / hashing / protobuf)",
                    "the importer reaches Finalize only when no Add failed (CallerStops); refuted for go-unixfs balanced.Layout: known finding K33",
                    "added content is pinned recursively whatever pin mode was requested; negative replication factors are written as empty allocations",
                    "adds with the local flag are outside the allocation clause; several top-level entries without wrapping are outside the property",
                    "go-mfs flushes directories in map order: the observed block order of multi-directory trees may differ between runs of one input"],
}
META = {
    "text": "Kernel-checked theorems over a Lean model of the adders' DAG services (BlockAdder success rule, single allocate-put-pin, sharding "
            "ingest/flush/makeDAG/Finalize) for every block stream, allocation script and BlockPut/BlockAllocate/Pin fault script: an add that does not "
            "report success has no data or meta pin accepted (unconditionally); if the caller stops at the first failed Add, the accepted pins are exactly "
            "the root pin with the block destinations (not sharded) or shard pins + cluster-DAG + meta entry whose links partition the stream in order, "
            "every shard strictly under the limit, depth 2 exactly when makeDAG built an indirect node (> MaxLinks links, constants regenerated from the "
            "source). Without that hypothesis the statement is refuted by a witness, which the harness reproduces on the implementation: go-unixfs "
            "balanced.Layout drops the error of the first child's Add, the root is pinned although a block was never stored (known finding K33). "
            "Content (closure, read-back, root equal with/without sharding and to the library importer) is validated by reading the delivered blocks back.",
    "note": "Partial: bookkeeping proved, content validated. Trusted: Lean kernel, hand-written model/spec and view decoder, harness fakes over real libp2p "
            "streams, Go content oracles (go-unixfs / go-merkledag / go-car).",
    "technique": "Lean 4 theorems over a step model + generated constants + differential correspondence on recorded BlockPut / Pin logs + read-back oracle",
}
