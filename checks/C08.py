CHECK = {
    "gen": [{"pkg": "extract_c08", "out": "lean/ClusterVerif/Gen/C08.lean"}],
    "suites": [
        suite("roundtrip", "c08", 6000, 60000, stdin=True, args=["-suite", "rt"]),
        suite("equals", "c08", 1500, 15000, stdin=True, args=["-suite", "eq"]),
        suite("strings", "c08", 1500, 12000, stdin=True, args=["-suite", "str"]),
        suite("decoders", "c08", 6000, 80000, stdin=True, args=["-suite", "fuzz"]),
    ],
    "lean_sources": ["ClusterVerif/Model/C08.lean", "ClusterVerif/Spec/C08.lean", "ClusterVerif/Lemmas/C08.lean",
                     "ClusterVerif/Gen/C08.lean"],
    "rule": "todo",
    "trusted_base": [],
    "assumptions": [],
}
META = {"text": "todo", "note": "todo", "technique": "todo"}
