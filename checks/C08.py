CHECK = {
    # translator: reflection over the record types of the repository -> schema table for the `decide` theorems
    "gen": [{"pkg": "extract_c08", "out": "lean/ClusterVerif/Gen/C08.lean"},
            # field numbers / wire kinds of pb.Pin and pb.PinOptions from the generated api/pb/types.pb.go (go/ast)
            {"pkg": "extract_c08pb", "out": "lean/ClusterVerif/Gen/C08Pb.lean"},
            # every construction / mutation site of the wire record types in non-test code (go/ast), fields classified
            {"pkg": "extract_c08prod", "out": "lean/ClusterVerif/Gen/C08Prod.lean"},
            # the parameter tables of api/add.go (go/ast): steps of AddParamsFromQuery / ToQueryString in source order, defaults, Equals, fields
            {"pkg": "extract_c08add", "out": "lean/ClusterVerif/Gen/C08Add.lean"}],
    "suites": [
        # real encode -> real decode of every record x format, own field-by-field dump on both sides
        suite("roundtrip", "c08", 8000, 150000, stdin=True, args=["-suite", "rt"]),
        # the repository's Pin.Equals / PinOptions.Equals on triples of related pins
        suite("equals", "c08", 2000, 30000, stdin=True, args=["-suite", "eq"]),
        # String/FromString/JSON forms of TrackerStatus, PinMode, PinType; the parsers on arbitrary words
        suite("strings", "c08", 2000, 20000, stdin=True, args=["-suite", "str"]),
        # byte level: real ProtoMarshal bytes = the model's bytes exactly; real proto.Unmarshal/ProtoUnmarshal = the model decoder on
        # permuted / duplicated / unknown-field / mistyped / damaged encodings; url.QueryEscape/QueryUnescape/ParseQuery = the model
        suite("wire", "c08", 6000, 120000, stdin=True, args=["-suite", "wire"]),
        # SEARCH (not proof): mutated valid encodings and random bytes into every decoder entry point, under recover()
        suite("decoders", "c08", 10000, 250000, stdin=True, args=["-suite", "fuzz"], timeout={"quick": 600, "thorough": 2400}),
    ],
    "lean_sources": ["ClusterVerif/Model/C08.lean", "ClusterVerif/Spec/C08.lean", "ClusterVerif/Lemmas/C08.lean",
                     "ClusterVerif/Gen/C08.lean", "ClusterVerif/Model/C08Wire.lean", "ClusterVerif/Lemmas/C08Wire.lean",
                     "ClusterVerif/Lemmas/C08Query.lean", "ClusterVerif/Lemmas/C08Total.lean", "ClusterVerif/Lemmas/C08Eq.lean",
                     "ClusterVerif/Model/C08Prod.lean", "ClusterVerif/Lemmas/C08Prod.lean", "ClusterVerif/Gen/C08Pb.lean",
                     "ClusterVerif/Gen/C08Prod.lean", "ClusterVerif/Model/C08Add.lean", "ClusterVerif/Lemmas/C08Add.lean",
                     "ClusterVerif/Gen/C08Add.lean", "ClusterVerif/Lemmas/C08AddDec.lean", "ClusterVerif/Model/C08Util.lean",
                     "ClusterVerif/Lemmas/C08Util.lean", "ClusterVerif/Model/C08Mp.lean", "ClusterVerif/Lemmas/C08Mp.lean"],
    "rule": "roundtrip: 1/16 q cases (PinOptions.FromQuery on typed parameter sets), 1/8 aq cases (the real AddParamsFromQuery on typed parameter sets: pin-option parameters as in q, made acceptable in 3 of 4 cases; "
            "each of the 14 add parameters absent 40% / a value ToQueryString writes / another accepted spelling (all twelve ParseBool spellings, +1, -0, 01, int64 boundaries, empty value, upper-case hash names) / "
            "in a third of the cases an unacceptable one (tRUE, yes, 1_0, 0x1, overflow, unknown layout/format); keys shuffled, a repeated key in 1/6, an unknown key in 1/10; an accepted set is re-encoded and decoded again), else a record type (Pin 40%, PinOptions 10%, AddParams in its query form 10%, state dump 4%, the other 20 records uniformly) x one of the formats the system "
            "uses for it x a value drawn by a reflection-based generator with field-aware pools (all pin types, depths -1/0/1/2 and odd ones, "
            "0-4 allocations (elements may be the empty peer ID), references nil / defined / pointing to cid.Undef, cid.Undef in every CID field,  0-3 origins with and without /p2p/, metadata incl. empty key/value, reference/update CIDs of both CID versions, "
            "expiry zero/unix-zero/first-second/past/future/pre-epoch with and without nanoseconds and in three time zones, names needing "
            "escaping, int32/int64/uint64 boundaries, the sharding adder's mode/depth shapes); equals: a pin, a variant (0-3 of 22 edits) and a "
            "variant of the variant; wire: 20% msgpack envelope of dsstate (1/3 mpenc: 0-5 raw key/values - keys of 1-8/31/32/59/300 characters, values nil / empty / 31 / 32 / 255-257 / 65535-65537 bytes - put under the state's namespace, real State.Marshal bytes vs the byte-level model, exact; "
            "2/3 mpdec: real State.Unmarshal over a store that already holds 0-2 entries, on the real stream or on the same entries written by the harness's own msgpack writer in other forms: map16/map32 heads, str8/str16/str32/bin8/bin16/bin32 heads for names and values, v before k, "
            "unknown fields with nested junk values of every msgpack type, repeated / missing / nil fields, keys of another type, nil entries; a quarter cut at a random byte; status and the store afterwards compared with the model), of the rest: pbenc 25% (generated pins incl. invalid UTF-8 in name/metadata and nil origins -> real ProtoMarshal bytes vs the byte-level model, exact), "
            "pbdec 50% (real bytes with fields shuffled, duplicated, renumbered, retyped, unknown fields of all six wire types incl. nested groups, nested Options/map entries edited, "
            "and damaged: truncation, lengths past the end, huge lengths, overlong varints, stray groups, reserved wire types, number 0 / >2^29, invalid UTF-8; random bytes -> real "
            "proto.Unmarshal + ProtoUnmarshal vs the model decoder), qesc 15%, qparse 10%; strings: named statuses, filters, a sweep of 0..8300, modes, types, parser words, 3/23 peer-ID lists through api.PeersToStrings/StringsToPeers (empty IDs, base58 and CID text forms, junk); decoders: byte/structure "
            "mutations (bit flips, splices, truncation, length blow-ups, msgpack value replacement, JSON value replacement, query parameter "
            "injection, cross-record confusion) of valid encodings with byte-identical seeds, random bytes, empty input. One splitmix64 stream "
            "per case index. non-trivial = the input is well-formed (Spec.wfRt) resp. within the string form's domain; distinct by case line",
    "trusted_base": [
        "harness/c08/wire: the harness's own dumper/comparator input (Flatten), its inverse and the generators; the naming tables for CIDs, peers, multiaddresses",
        "harness/extract_c08 (reflection over the linked repository types; serialEntry read from the source with go/ast) and the hand-written list "
        "wire.Records of records and of the formats each is used in",
        "the decodability/path/omitempty rules of Model/C08 are assumptions about encoding/json and ugorji/go/codec v1.2.6, validated by the roundtrip suite",
        "wire-level msgpack and JSON, integer/time/CID/peer/multiaddress byte and text forms are library behaviour: modelled as identity on opaque "
        "tokens, validated by the roundtrip suite; the protobuf wire format of pb.Pin/pb.PinOptions and URL query escaping/parsing ARE modelled at the byte "
        "level (Model/C08Wire) and tied to the real code by suite wire (per-case dictionary token -> bytes, per-leaf oracle of cid.Cast/IDFromBytes/NewMultiaddrBytes)",
        "harness/extract_c08add (go/ast over api/add.go: statements recognised from their printed text by anchored patterns, anything else is an 'unknown' step no theorem accepts); "
        "Model/C08Add's text forms rely on core Lean's Int.repr/String.toInt? being Go's %d/Atoi on 64-bit ints and on ASCII-only lower-casing of the hash name - tied by the AddParams query cases of suite roundtrip",
        "harness/extract_c08pb (go/ast over api/pb/types.pb.go) and harness/extract_c08prod (go/ast over all non-test files: syntactic, no type checker; "
        "allow-lists modeKnownRecursive, referenceKnownDefined, fieldAssignAllowed in Model/C08Prod.lean are read judgements)",
    ],
    "assumptions": [
        "decoder robustness ('decoding arbitrary bytes never crashes') of the LIBRARY decoders is SEARCH, claimed partial: a mutation-based byte stream "
        "(byte-level and structure-derived) into every decoder entry point under recover(); the theorem decode_total_wf covers the Lean model of the protobuf "
        "decoding of pb.Pin (tied to the real decoder by suite wire), not the Go code. A fatal runtime error (stack exhaustion, out of memory) would abort the harness "
        "and be reported as a broken run, not recovered",
        "strings are valid UTF-8 in the json/msgpack round trips (JSON replaces others); for protobuf the rejection of invalid UTF-8 at encode and decode time is modelled and tied; time stamps lie in years 1..9999",
        "decoding targets are fresh values (dsstate, gorpc, the REST API and go-libp2p-raft all decode into new values)",
        "an acceptable expire-in without expire-at gives a wall-clock dependent expiry: exercised by the decoder search only (its validation is modelled)",
        "nil and empty slices/maps are one value; a timestamp is its instant (time zone not compared)",
    ],
}
META = {
    "text": "Kernel-checked: (L1) over a schema table regenerated from the repository's struct types on every run - tags unique per struct and format, "
            "encoder and decoder take the same code path for every leaf type, every field decodable by encoding/json and ugorji msgpack except "
            "PinOptions.Origins (refutation of the full statement proved, known finding) and an opaque tracing field; (L2) for every pin, "
            "ProtoUnmarshal(ProtoMarshal(p)) is exactly an explicit lossy projection, and that projection is accepted by the property's comparison "
            "when mode and depth agree (refuted otherwise: finding); same for FromQuery(ToQuery(po)); string forms of every status/mode/type and of "
            "every filter of known statuses (in full, general proof); Pin.Equals/PinOptions.Equals are reflexive, symmetric, "
            "transitive and never overlook a difference, for distinct pointers (not reflexive for one pointer). Byte level (round 7): the protobuf wire form of pb.Pin/pb.PinOptions (varint, zigzag, tokens, groups, "
            "UTF-8, merge semantics) with decode(encode m) = m, independence of field order, unknown-field skipping and a totality theorem (any byte string is rejected or "
            "decodes to an in-range message), URL query escaping/Encode/ParseQuery/Get for arbitrary bytes, Equals characterised exactly and proved complete, and decide-theorems "
            "over a regenerated table of every producer site (mode/depth agreement, no Reference to cid.Undef, all shapes recognised). Round 8: the add endpoint's query form (api/add.go) field by field at the text level of the values (%t/ParseBool, %d/Atoi for all 64-bit ints, Values.Get, defaults, layout/format validation, "
            "CIDv0-needs-sha2-256 rule, raw-leaves default and the ORDER of the steps): ToQueryString -> AddParamsFromQuery is the identity on all accepted parameters and, with the pin options, the lossy projection with PinUpdate cleared; "
            "refutations for an empty chunker and for a reordered raw-leaves step; decide-theorems over the regenerated parameter table (every field written, read with the same key and a matching kind, defaulted, compared by Equals except Progress; "
            "no unrecognised statement; rule order) and equality of that table with the one the model transcribes. Round 8b: the DECODER AddParamsFromQuery on ARBITRARY parameter sets - it depends on Values.Get of its fourteen keys only "
            "(order, unknown keys, later values of a repeated key irrelevant), all absent or empty gives the defaults, ParseBool accepts exactly twelve spellings, Atoi refuses any underscore and only yields 64-bit values, everything accepted is well-formed and is a fixed point of "
            "ToQueryString -> AddParamsFromQuery (decoded_reencodes for the model, all inputs); tied to the real function by typed `aq` cases (accepted sets are re-encoded and decoded again by the real code). api/util.go PeersToStrings/StringsToPeers: round trip = the list without empty IDs "
            "(identity on defined IDs, full statement refuted), re-encoding of any decoded list is stable; tied by `str p2s/s2p` cases. Round 8c: the msgpack envelope of the state dump (dsstate serialEntry stream, ugorji legacy-raw forms) at the byte level - a token reader for every msgpack head byte, the entry decoder (k/v by name, later wins, unknown fields skipped with nested values, nil entry) and State.Unmarshal over a store "
            "(first entry decoded before the store is touched: a key-less first entry keeps the store, proved for all stores and streams; an empty stream empties it; a stream that ends inside its first entry empties it WITHOUT error and one cut later restores a prefix without error - the wanted statement 'a cut stream is refused' is refuted with a witness); "
            "fixraw, raw16 and raw32 token round trips for all byte strings below 2^32 bytes, the entry round trip for all entries and continuations, and the whole-snapshot round trip (`mp_snapshot_roundtrip_full`: Unmarshal(Marshal es) = putAll [] es for every entry list with non-empty keys, any old store) PROVED by induction over the entry list (the variant without the non-empty-key hypothesis refuted with a witness); also evaluated on every mpenc case; tied byte for byte to the real Marshal and, on structure-aware variants and cuts, to the real Unmarshal (`mpenc`/`mpdec`). (L3) every run drives the real "
            "encoders and decoders on all 23 record types x formats and compares, field by field with the harness's own dumper, against the model's "
            "prediction and against the property's comparison.",
    "note": "Decoder robustness of the library decoders is search only (mutated encodings + random bytes under recover; per-type distribution in the arm histogram); "
            "real ProtoMarshal bytes equal the model's bytes exactly and the real protobuf decoder equals the model decoder on structure-aware mutations (suite wire); the same for the msgpack envelope of dsstate (real Marshal bytes = model bytes; real Unmarshal = model on variant and cut streams; observation: a cut dump is accepted without error). Known findings on the unchanged tree: K01 origins not "
            "decodable (msgpack, JSON), K13 stored form loses Mode when it disagrees with MaxDepth, "
            "K37/K38 a Reference pointing to cid.Undef is rejected by msgpack and read back as nil by JSON/protobuf, K39 zero-valued records with a required CID cannot be decoded from msgpack, K40 the empty peer ID is written and then rejected in every format, "
            "K16 msgpack nil in an address list decodes to a value that cannot be re-encoded (an error since f2e567e, no panic). "
            "K15 (JSON decoding of an invalid multiaddress panicked) is fixed by f2e567e, K14 (status filters widened by their string form) by d6bd794.",
    "technique": "Lean 4 decide-theorems over reflection/ast-generated tables (schema, protobuf field numbers, producer sites, add-parameter steps) + theorems over hand models of the converters and byte-level models of the protobuf, query-string and dsstate msgpack-envelope wire forms + differential correspondence (byte-exact) + mutation-based decoder search",
}
