CHECK = {
    "gen": [{"pkg": "extract_c08", "out": "lean/ClusterVerif/Gen/C08.lean"}],
    "suites": [
        suite("roundtrip", "c08", 8000, 150000, stdin=True, args=["-suite", "rt"]),
        suite("equals", "c08", 2000, 30000, stdin=True, args=["-suite", "eq"]),
        suite("strings", "c08", 2000, 20000, stdin=True, args=["-suite", "str"]),
        suite("decoders", "c08", 10000, 300000, stdin=True, args=["-suite", "fuzz"]),
    ],
    "lean_sources": ["ClusterVerif/Model/C08.lean", "ClusterVerif/Spec/C08.lean", "ClusterVerif/Lemmas/C08.lean",
                     "ClusterVerif/Gen/C08.lean"],
    "rule": "todo",
    "trusted_base": [],
    "assumptions": [],
}
META = {"text": "todo", "note": "todo", "technique": "todo"}
