def _rerun_before_report(run):
    """Time-dependent suites (real worker goroutine, timers, pubsub): a case that fails the property or leaves the
    model is executed again (same script) twice; it is reported only if it fails again, otherwise it is counted
    as inconclusive (DESIGN 2.3)."""
    suites = {s["name"]: s for s in run.cfg["suites"]}

    def retry(items):
        keep = []
        for item in items:
            case, answer, sname, idx, sd = item
            if sname not in ("batch", "net") or " => " not in case:
                keep.append(item)
                continue
            inp = case.split(" => ")[0]
            bad = 0
            for _ in range(2):
                pairs = [p for p in run.run_suite(suites[sname], sd, stdin_lines=inp + "\n") if not p[0].startswith("#")]
                if not pairs or not pairs[0][1].startswith("ok"):
                    bad += 1
            if bad:
                keep.append(item)
            else:
                run.inconclusive += 1
                run.notes.append("not reproduced on re-run (inconclusive): %s ## %s" % (case[:200], answer[:120]))
        return keep

    run.propfails = retry(run.propfails)
    run.diffs = retry(run.diffs)
    for i, (n, ok, d) in enumerate(run.obligations):
        if not ok and n in ("correspondence:batch", "correspondence:net"):
            sname = n.split(":")[1]
            if not [x for x in run.diffs + run.badcases if x[2] == sname]:
                run.obligations[i] = (n, True, "differences not reproduced on re-run (counted inconclusive)")


CHECK = {
    "suites": [
        suite("set", "c02", 300, 6000, stdin=True, args=["-suite", "set"], timeout={"quick": 300, "thorough": 900}),
        suite("batch", "c02", 120, 900, stdin=True, args=["-suite", "batch"], timeout={"quick": 300, "thorough": 900}),
        suite("net", "c02", 0, 60, stdin=True, args=["-suite", "net"], tiers=["thorough"], timeout={"thorough": 1200}),
    ],
    "lean_sources": ["ClusterVerif/Model/C02.lean", "ClusterVerif/Spec/C02.lean", "ClusterVerif/Lemmas/C02.lean"],
    "rule": "set: 2-3 real go-ds-crdt replicas, 2-12 puts/deletes/batches over 1-3 keys with scripted deliveries (old, repeated, newest-first) "
            "and a final full exchange; batch: one real crdt.Consensus with batching disabled / size 1,2,3,5 / age 60ms, queue 1-4 or 50, "
            "bursts against a worker held inside Commit, one injected datastore write failure per case; non-trivial = at least one delta / one "
            "operation and one observation; distinct by case line",
    "trusted_base": ["in-memory DAG service shared by the replicas and harness-controlled broadcaster (set suite)",
                     "datastore wrapper classifying the writes of a publish by key prefix; recording PinTracker RPC service"],
    "extra": [_rerun_before_report],
    "assumptions": [],
}
META = {
    "text": "",
    "note": "",
    "technique": "Lean 4 theorems over a replicated-set model and a batching-worker step model + differential correspondence on real go-ds-crdt replicas and a real crdt.Consensus",
}
