def _rerun_before_report(run):
    """Time-dependent suites (real worker goroutine, timers, pubsub): a case that fails the property or leaves the
    model is executed again (same script) twice; it is reported only if it fails again, otherwise it is counted
    as inconclusive (DESIGN 2.3)."""
    suites = {s["name"]: s for s in run.cfg["suites"]}

    def retry(items):
        keep = []
        reproduced = 0
        for item in items:
            case, answer, sname, idx, sd = item
            if sname not in ("batch", "net", "comp", "shut") or " => " not in case or reproduced >= 3:
                # (once three cases have failed again the rest is reported as is)
                keep.append(item)
                continue
            inp = case.split(" => ")[0]
            bad = 0
            for _ in range(2):
                pairs = [p for p in run.run_suite(suites[sname], sd, stdin_lines=inp + "\n") if not p[0].startswith("#")]
                if not pairs or not pairs[0][1].startswith("ok"):
                    bad += 1
            if bad:
                keep.append(item)
                reproduced += 1
            else:
                run.inconclusive += 1
                run.notes.append("not reproduced on re-run (inconclusive): %s ## %s" % (case[:200], answer[:120]))
        return keep

    run.propfails = retry(run.propfails)
    run.diffs = retry(run.diffs)
    for i, (n, ok, d) in enumerate(run.obligations):
        if not ok and n in ("correspondence:batch", "correspondence:net", "correspondence:comp", "correspondence:shut"):
            sname = n.split(":")[1]
            if not [x for x in run.diffs + run.badcases if x[2] == sname]:
                run.obligations[i] = (n, True, "differences not reproduced on re-run (counted inconclusive)")


CHECK = {
    "suites": [
        suite("set", "c02", 300, 9000, stdin=True, args=["-suite", "set"], timeout={"quick": 300, "thorough": 900}),
        suite("batch", "c02", 120, 1500, stdin=True, args=["-suite", "batch"], timeout={"quick": 300, "thorough": 900}),
        suite("net", "c02", 8, 80, stdin=True, args=["-suite", "net"], timeout={"quick": 300, "thorough": 1200}),
        suite("comp", "c02", 60, 600, stdin=True, args=["-suite", "comp"], timeout={"quick": 300, "thorough": 1200}),
        suite("val", "c02", 3000, 60000, stdin=True, args=["-suite", "val"], timeout={"quick": 300, "thorough": 900}),
        suite("hook", "c02", 400, 8000, stdin=True, args=["-suite", "hook"], timeout={"quick": 300, "thorough": 900}),
        suite("shut", "c02", 10, 200, stdin=True, args=["-suite", "shut"], timeout={"quick": 300, "thorough": 900}),
        suite("cfg", "c02", 300, 3000, stdin=True, args=["-suite", "cfg"], timeout={"quick": 300, "thorough": 900}),
    ],
    "gen": [{"pkg": "extract_c02", "out": "lean/ClusterVerif/Gen/C02.lean"}],
    "lean_sources": ["ClusterVerif/Model/C02Source.lean", "ClusterVerif/Gen/C02.lean", "ClusterVerif/Model/C02.lean", "ClusterVerif/Spec/C02.lean", "ClusterVerif/Lemmas/C02.lean", "ClusterVerif/Lemmas/C02Compose.lean", "ClusterVerif/Model/C02Ctx.lean", "ClusterVerif/Lemmas/C02Ctx.lean", "ClusterVerif/Model/C02Hooks.lean", "ClusterVerif/Model/C02Keys.lean", "ClusterVerif/Lemmas/C02Keys.lean"],
    "rule": "set: 2-3 real go-ds-crdt replicas, 2-12 puts/deletes/batches over 1-3 keys, scripted deliveries (old, repeated, newest-first), "
            "final full exchange; thorough: every third case delivers a <=5-delta history to a third replica in the k-th of all permutations. "
            "batch: one real crdt.Consensus, batching off / size 1,2,3,5 / age 60ms, queue 50 or size..size+2, bursts against a worker held inside "
            "Commit, any number of injected datastore write failures (DAG node / tombstone batch / element batch / head; one per publish attempt, 1-3 per "
            "failure script, several scripts per case); age mode is run in the model under the observed batch boundaries; half of the cases submit "
            "operations with a request-scoped context cancelled as soon as LogPin/LogUnpin returned (also while the worker is held inside Commit), with "
            "a context that is already done, or with one whose deadline passes right after the call (cP/kP/xP steps). comp: every operation of A is "
            "submitted with a request-scoped context cancelled after the call; real crdt.Consensus A "
            "(batching off / size 1,2,3) + real peer B (batching off) whose operations are merged at A between scripted steps of A's worker, also while a "
            "batch is open, 0-2 failed publish attempts; every delta (elements, tombstones, priority), hook call and view compared. val: the real topic "
            "validator closure called in-process with every (signer, forwarder) pair over 2-6 peers after random Trust/Distrust histories. net: 2-3 real peers over "
            "loopback pubsub, trust all / trust_all / one peer trusted by nobody / relay chain 0-1-2 with a connection gater (peer 2 trusts the signer only, the "
            "forwarder only, everybody), phases with one writer per CID. non-trivial = at least one delta "
            "(set) or one operation and one observation (batch, net); distinct by case line",
    "trusted_base": ["in-memory DAG service shared by the replicas and harness-controlled broadcaster (set suite)",
                     "datastore wrapper classifying the writes of a publish by key prefix, gate and one-shot failure; recording PinTracker RPC service",
                     "value numbering: numeric order of value ids = bytes.Compare of the real ProtoMarshal encodings (pins with <= 1 metadata key)",
                     "libp2p/gossipsub delivery and signature checking, ipfs-lite block exchange (net and comp suites)",
                     "local-publish detection by call stack (addDAGNode), DAG-node capture and head-put capture in the datastore wrapper (comp suite)",
                     "reading the registered validator out of go-libp2p-pubsub v0.4.1 by reflection; pubsub's own signature check is not exercised (val suite)",
                     "State.Add writes Put(key(pin.Cid), ProtoMarshal(pin)) with the cid inside the value (read; observed by every batch/comp/net case through Track vs List)",
                     "hook suite: raw writes through Consensus.VerifRawPut/VerifRawDelete (/repo/consensus/crdt/verif_export_c02b.go), pin content identified by its Name"],
    "extra": [_rerun_before_report],
    "assumptions": ["value convergence is claimed under (H1) no delta puts a key twice and (H2) the greatest (priority,value) of a member key "
                    "belongs to a never-tombstoned element; outside them go-ds-crdt v0.1.21 diverges (K05, K05b) - proved and replayed",
                    "order per CID excludes a publish that fails at the head write after the merge landed (K05d) and failed batchingState.Add/Rm "
                    "(proved impossible through the caller's context as the state layer is: ctx_irrelevant_as_is + regenerated context uses)",
                    "net suite: inside a phase a CID is written by one replica; the peer trusted by nobody writes its own CIDs"],
}
META = {
    "text": "Kernel-checked theorems over a Lean model of go-ds-crdt v0.1.21's set (elements, tombstones, one stored (priority,value) per key, hooks) "
            "and of consensus/crdt's batching worker: replicas that processed the same deltas in any order, grouping, repetition or phase interleaving "
            "hold the same CIDs, and the same contents under two explicit hypotheses (the unrestricted statement is proved false, with the witness "
            "replayed on real replicas); every change of a replica's view comes with its Put/Delete hook except one characterised revival case; in every "
            "run of the worker (any schedule, any commit failures short of a head-write failure) refused operations change nothing, accepted ones are "
            "the taken ones followed by the queued ones, and the committed pinset is the replay of the accepted operations in submission order; while "
            "anything is pending the age timer is armed or the age commit is under way; a full batch and a fired timer lead straight to Commit. The model "
            "is tied to the code by replaying thousands of scripted histories on real go-ds-crdt replicas (every delta, merge order, hook and view "
            "compared) and on a real crdt.Consensus with a controllable datastore (results, pinset, Track/Untrack sequence compared), plus networked peers. "
            "Round 7: the two models are composed into one LTS (local submissions, worker steps, commits failing any number of times, remote walks merged "
            "between any two of them, a validator gate in front of the merge): the accepted operations reach the replica's delta stream in submission order "
            "at strictly increasing priorities; a remote merge leaves the pending batch untouched and only raises the priority the next commit reads; two "
            "composed replicas that received each other's stream hold the same CIDs (and contents under H1/H2); the tracker calls are a function of the "
            "batch boundaries while the committed pinset is not; the state is a function of what trusted signers authored. Tied by the comp suite (real "
            "Consensus + second real peer, scripted deliveries) and the val suite (real validator closure, thousands of in-process cases). "
            "Round 8: the caller's context. LogPin/LogUnpin store the caller's context in the queued item and the worker hands it to the state layer "
            "later; the model now carries a context per accepted operation that may be cancelled at any point of the schedule. Proved: with the state "
            "layer as it is (regenerated from state/dsstate/datastore.go by a go/ast translator: no use of the context other than the trace span) every "
            "run with contexts equals the run with them erased, so an accepted operation is committed whatever happens to the caller's context "
            "afterwards and the worker never reaches the nil-delta publish; for a state layer that returns ctx.Err() the statement is refuted (accepted "
            "pin dropped; a dropped first item crashes the worker at the age commit). The batch and comp suites submit operations with request-scoped, "
            "already-done and expiring contexts against the real Consensus and compare the committed pinset and tracker calls. "
            "Round 8b: the hand-off to the tracker, the batching configuration and Shutdown. The bodies of the Put/Delete hooks of setup() are regenerated "
            "by a go/ast translator as a small statement language that the Lean model INTERPRETS; proved for every raw key and value: the interpreted "
            "PutHook tracks the pin decoded from the value (nothing for an undecodable value), the DeleteHook untracks the cid of the key (nothing for a "
            "key that is not a cid key); every hook of any merge that concerns an entry as State.Add/Rm write it yields exactly the tracker call the "
            "property asks for, so every change of the view is handed to the tracker (or is the characterised revival case); the unrestricted reading "
            "(tracker told about the cid the pinset lists, for ANY listed entry) is refuted: Track carries the cid stored in the value, List the cid of "
            "the key. Config.batchingEnabled and the batching arm of Validate are regenerated (fields, operators, constants) and proved equal to the "
            "model for every configuration; every configuration is either 'batching off' or a worker configuration with size >= 1 and, when valid, queue "
            ">= 1 (an operation submitted to an empty queue is accepted in every valid configuration). Shutdown: the worker leaves without a final flush; "
            "'accepted => committed across Shutdown' is refuted, and what is lost is proved to be a suffix of the accepted operations (no hole, no "
            "reordering). New suites on the real code: hook (raw puts/deletes incl. undecodable values, values carrying another or no cid, foreign keys, "
            "deletes of absent keys: tracker calls and State.List after every step), cfg (Config.LoadJSON + batchingEnabled on boundary values), shut "
            "(Shutdown with an open batch, restart on the same datastore). "
            "Round 8c: who can write an inconsistent entry. Proved for every history of local batches of LogPin/LogUnpin operations and merges of "
            "deltas written by peers running this code (any order, ids, priorities, batch boundaries): every stored (key,value) is a State.Add pair "
            "(cid key, value carrying the key's cid), and every hook fired is well-formed, which discharges the hypothesis of the hook theorems for "
            "the quantifier of the property; one foreign delta refutes it for arbitrary writers. The dsstate key namespace is modelled (key = "
            "namespace + cid key, unkey looks at the last component only, List filters by prefix and skips bad keys/values, Get reads key(c) "
            "only): round trip and injectivity proved for every namespace; 'List shows only what Get can read' is refuted by a nested foreign key "
            "(round 8 final: now DRIVEN on the real code — hook suite modes K (the real Consensus, state namespace \"\", raw multi-component keys through "
            "VerifRawPut/VerifRawDelete, hooks run) and Q (a real dsstate.State with namespace /s0 over an in-memory datastore): keys nested under "
            "the prefix, keys outside it, keys whose last component is not a cid, undecodable values; State.List, State.Get, State.Has and the "
            "tracker calls are compared step by step with stList/stGet/stKey/underPrefix/unkey/delHookK; a nested /x/<cid> is listed under the "
            "cid, is not readable by Get/Has, and its deletion un-lists it without Untrack — model and code agree). The batch driver now RUNS the context model: the state layer it uses is derived from the "
            "regenerated context uses, the worker's take is Ctx.addOk of the queued item's context, so a context-honouring layer is a model arm "
            "(dropped items predicted) instead of only a decide fact. After a failed commit the worker keeps the batch and commits it with the next "
            "item; the driver cuts an observation at the worker's open batch (the former K05d2 shape was an observation of a batch that was "
            "neither full nor old — a false alarm of the driver, never a finding; no tag is kept for it).",
    "note": "Trusted: Lean kernel, hand-written model/spec, harness (datastore wrapper, broadcaster, value numbering), pubsub in the net suite. "
            "Known findings K05/K05b/K05c/K05d are dependency defects (go-ds-crdt v0.1.21), each with a proved witness and a narrow signature.",
    "technique": "driver-interpreted context layer derived from the regenerated context uses + go/ast translators (hook bodies as an interpreted statement language; batchingEnabled/Validate as comparison tables; context uses of the state layer and the worker's context wiring) related to the model by theorems for all inputs / decide / rfl + regenerated source text of the anchored functions checked against the transcribed snapshot (rfl) + Lean 4 theorems over a replicated-set model and a batching-worker step model + differential correspondence on real go-ds-crdt replicas and a real crdt.Consensus",
}
