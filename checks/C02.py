CHECK = {
    "suites": [
        suite("set", "c02", 300, 6000, stdin=True, args=["-suite", "set"], timeout={"quick": 300, "thorough": 900}),
        suite("batch", "c02", 120, 900, stdin=True, args=["-suite", "batch"], timeout={"quick": 300, "thorough": 900}),
    ],
    "lean_sources": ["ClusterVerif/Model/C02.lean", "ClusterVerif/Spec/C02.lean", "ClusterVerif/Lemmas/C02.lean"],
    "rule": "set: 2-3 real go-ds-crdt replicas, 2-12 puts/deletes/batches over 1-3 keys with scripted deliveries (old, repeated, newest-first) "
            "and a final full exchange; batch: one real crdt.Consensus with batching disabled / size 1,2,3,5 / age 60ms, queue 1-4 or 50, "
            "bursts against a worker held inside Commit, one injected datastore write failure per case; non-trivial = at least one delta / one "
            "operation and one observation; distinct by case line",
    "trusted_base": ["in-memory DAG service shared by the replicas and harness-controlled broadcaster (set suite)",
                     "datastore wrapper classifying the writes of a publish by key prefix; recording PinTracker RPC service"],
    "assumptions": [],
}
META = {
    "text": "",
    "note": "",
    "technique": "Lean 4 theorems over a replicated-set model and a batching-worker step model + differential correspondence on real go-ds-crdt replicas and a real crdt.Consensus",
}
