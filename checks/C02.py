def _rerun_before_report(run):
    """Time-dependent suites (real worker goroutine, timers, pubsub): a case that fails the property or leaves the
    model is executed again (same script) twice; it is reported only if it fails again, otherwise it is counted
    as inconclusive (DESIGN 2.3)."""
    suites = {s["name"]: s for s in run.cfg["suites"]}

    def retry(items):
        keep = []
        reproduced = 0
        for item in items:
            case, answer, sname, idx, sd = item
            if sname not in ("batch", "net") or " => " not in case or reproduced >= 3:
                # (once three cases have failed again the rest is reported as is)
                keep.append(item)
                continue
            inp = case.split(" => ")[0]
            bad = 0
            for _ in range(2):
                pairs = [p for p in run.run_suite(suites[sname], sd, stdin_lines=inp + "\n") if not p[0].startswith("#")]
                if not pairs or not pairs[0][1].startswith("ok"):
                    bad += 1
            if bad:
                keep.append(item)
                reproduced += 1
            else:
                run.inconclusive += 1
                run.notes.append("not reproduced on re-run (inconclusive): %s ## %s" % (case[:200], answer[:120]))
        return keep

    run.propfails = retry(run.propfails)
    run.diffs = retry(run.diffs)
    for i, (n, ok, d) in enumerate(run.obligations):
        if not ok and n in ("correspondence:batch", "correspondence:net"):
            sname = n.split(":")[1]
            if not [x for x in run.diffs + run.badcases if x[2] == sname]:
                run.obligations[i] = (n, True, "differences not reproduced on re-run (counted inconclusive)")


CHECK = {
    "suites": [
        suite("set", "c02", 300, 9000, stdin=True, args=["-suite", "set"], timeout={"quick": 300, "thorough": 900}),
        suite("batch", "c02", 120, 1500, stdin=True, args=["-suite", "batch"], timeout={"quick": 300, "thorough": 900}),
        suite("net", "c02", 8, 80, stdin=True, args=["-suite", "net"], timeout={"quick": 300, "thorough": 1200}),
    ],
    "gen": [{"pkg": "extract_c02", "out": "lean/ClusterVerif/Gen/C02.lean"}],
    "lean_sources": ["ClusterVerif/Model/C02Source.lean", "ClusterVerif/Gen/C02.lean", "ClusterVerif/Model/C02.lean", "ClusterVerif/Spec/C02.lean", "ClusterVerif/Lemmas/C02.lean", "ClusterVerif/Lemmas/C02Compose.lean"],
    "rule": "set: 2-3 real go-ds-crdt replicas, 2-12 puts/deletes/batches over 1-3 keys, scripted deliveries (old, repeated, newest-first), "
            "final full exchange; thorough: every third case delivers a <=5-delta history to a third replica in the k-th of all permutations. "
            "batch: one real crdt.Consensus, batching off / size 1,2,3,5 / age 60ms, queue 50 or size..size+2, bursts against a worker held inside "
            "Commit, one injected datastore write failure (DAG node / tombstone batch / element batch / head) per case. net: 2-3 real peers over "
            "loopback pubsub, trust all / trust_all / one peer trusted by nobody / relay chain 0-1-2 with a connection gater (peer 2 trusts the signer only, the "
            "forwarder only, everybody), phases with one writer per CID. non-trivial = at least one delta "
            "(set) or one operation and one observation (batch, net); distinct by case line",
    "trusted_base": ["in-memory DAG service shared by the replicas and harness-controlled broadcaster (set suite)",
                     "datastore wrapper classifying the writes of a publish by key prefix, gate and one-shot failure; recording PinTracker RPC service",
                     "value numbering: numeric order of value ids = bytes.Compare of the real ProtoMarshal encodings (pins with <= 1 metadata key)",
                     "libp2p/gossipsub delivery and signature checking, ipfs-lite block exchange (net suite)"],
    "extra": [_rerun_before_report],
    "assumptions": ["value convergence is claimed under (H1) no delta puts a key twice and (H2) the greatest (priority,value) of a member key "
                    "belongs to a never-tombstoned element; outside them go-ds-crdt v0.1.21 diverges (K05, K05b) - proved and replayed",
                    "order per CID excludes a publish that fails at the head write after the merge landed (K05d) and failed batchingState.Add/Rm",
                    "net suite: inside a phase a CID is written by one replica; the peer trusted by nobody writes its own CIDs"],
}
META = {
    "text": "Kernel-checked theorems over a Lean model of go-ds-crdt v0.1.21's set (elements, tombstones, one stored (priority,value) per key, hooks) "
            "and of consensus/crdt's batching worker: replicas that processed the same deltas in any order, grouping, repetition or phase interleaving "
            "hold the same CIDs, and the same contents under two explicit hypotheses (the unrestricted statement is proved false, with the witness "
            "replayed on real replicas); every change of a replica's view comes with its Put/Delete hook except one characterised revival case; in every "
            "run of the worker (any schedule, any commit failures short of a head-write failure) refused operations change nothing, accepted ones are "
            "the taken ones followed by the queued ones, and the committed pinset is the replay of the accepted operations in submission order; while "
            "anything is pending the age timer is armed or the age commit is under way; a full batch and a fired timer lead straight to Commit. The model "
            "is tied to the code by replaying thousands of scripted histories on real go-ds-crdt replicas (every delta, merge order, hook and view "
            "compared) and on a real crdt.Consensus with a controllable datastore (results, pinset, Track/Untrack sequence compared), plus networked peers.",
    "note": "Trusted: Lean kernel, hand-written model/spec, harness (datastore wrapper, broadcaster, value numbering), pubsub in the net suite. "
            "Known findings K05/K05b/K05c/K05d are dependency defects (go-ds-crdt v0.1.21), each with a proved witness and a narrow signature.",
    "technique": "regenerated source text of the anchored functions checked against the transcribed snapshot (rfl) + Lean 4 theorems over a replicated-set model and a batching-worker step model + differential correspondence on real go-ds-crdt replicas and a real crdt.Consensus",
}
