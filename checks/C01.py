def _conclusive(run):
    """networked cases are re-run by the harness before they are given up: a run in which more than a
    quarter of them stay inconclusive says nothing and must not pass silently"""
    net = sum(run.arms.get(k, 0) for k in ("raft1", "kill", "net", "redir", "shut", "fold"))
    bad = run.inconclusive
    run.oblig("networked-cases-conclusive", bad <= max(2, (net + bad) // 4),
              "%d inconclusive of %d networked cases" % (bad, net + bad))


CHECK = {
    "suites": [
        suite("fsm", "c01", 400, 6000, stdin=True),
        suite("redir", "c01", 3, 18, stdin=True, args=["-kind", "redir"], timeout={"quick": 600, "thorough": 1500}),
        suite("shut", "c01", 4, 16, stdin=True, args=["-kind", "shut"], timeout={"quick": 600, "thorough": 1200}),
        suite("fold", "c01", 4, 16, stdin=True, args=["-kind", "fold"], timeout={"quick": 600, "thorough": 1200}),
        suite("raft1", "c01", 0, 30, stdin=True, tiers=["thorough"], args=["-kind", "raft1"], timeout={"thorough": 1200}),
        suite("kill", "c01", 0, 16, stdin=True, tiers=["thorough"], args=["-kind", "kill"], timeout={"thorough": 1200}),
        suite("net", "c01", 0, 32, stdin=True, tiers=["thorough"], args=["-kind", "net"], timeout={"thorough": 1200}),
    ],
    "gen": [{"pkg": "extract_c01", "out": "lean/ClusterVerif/Gen/C01Commit.lean"},
            {"pkg": "extract_c01shut", "out": "lean/ClusterVerif/Gen/C01Shutdown.lean"}],
    "extra": [_conclusive],
    "search_seeds": {"quick": 3, "thorough": 1},
    "lean_sources": ["ClusterVerif/Model/Pin.lean", "ClusterVerif/Model/C01.lean", "ClusterVerif/Spec/C01.lean",
                     "ClusterVerif/Lemmas/C01.lean", "ClusterVerif/Lemmas/PinMap.lean",
                     "ClusterVerif/Model/C01Commit.lean", "ClusterVerif/Lemmas/C01Commit.lean", "ClusterVerif/Gen/C01Commit.lean",
                     "ClusterVerif/Model/C01Gate.lean", "ClusterVerif/Model/C01Shutdown.lean", "ClusterVerif/Lemmas/C01Shutdown.lean",
                     "ClusterVerif/Gen/C01Shutdown.lean", "ClusterVerif/Model/C01Folder.lean", "ClusterVerif/Spec/C01Folder.lean",
                     "ClusterVerif/Model/C01FolderTerm.lean"],
    "rule": "one case = one history: a SUBMITTED sequence of 0-60 pin/unpin operations, each run through the real commit() up to its first attempt "
            "(token G: refused operations - origins, Reference=cid.Undef, undefined Cid - are answered with an error and are not committed; the model's "
            "Op.decodable must agree with every bit), the committed sequence being the LogOps over 6 CIDs (all pin types, modes/depths incl. disagreeing ones, "
            "allocation lists 0-4, metadata incl. empty key/value, expiry zero/unix-zero/past/future, reference and update cids of both CID versions, "
            "user allocations, tracing on/off) and a script of events on 1-3 replicas (apply next entry, Snapshot(), Persist(), install the newest "
            "snapshot of another replica onto the live state, shutdown, kill, restart, offline read), with the observation after every event. "
            "Families per case index: random walks with catch-up epilogue, systematic placement of one disruption at every position of a 3-6 op history, "
            "late-Persist scripts (K09 stream), histories with 1-3 refused submissions anywhere, back-to-back batches behind a slow Track handler (hand-off order), "
            "and kind fsmraw: raw log entries the FSM cannot decode fed past commit() (robustness, not reachable through LogPin/LogUnpin: judged up to that entry, then only compared with the model). Thorough adds real Raft: one node "
            "(commit/snapshot/shutdown/OfflineState/restart), a node in a child process SIGKILLed with an op in flight, three nodes with TrailingLogs=1 "
            "where a stopped follower is brought back by InstallSnapshot onto its restored state, and histories in which the LEADER is shut down or stopped without a snapshot between commits, "
            "a new leader continues, and the old leader comes back (clauses judged on the survivors and on the restarted old leader). Suite redir (both tiers): three real nodes, CommitRetries 0-2, "
            "LogPin/LogUnpin/AddPeer/RmPeer submitted at a follower or the leader while the leader's RPC endpoint fails the next N forwarded requests "
            "(N = 0, retries, retries+1, retries+2), plus LogPin/LogUnpin of operations that cannot be decoded (refused before anything is forwarded, followed by an unpin that must be visible everywhere). "
            "Suite shut (both tiers): one real Raft node on disk; acknowledged operations (optionally a forced snapshot in between), Consensus.Shutdown called with a live, a deadline-bound, "
            "an already expired or an ALREADY CANCELLED context (tokens dl/dt/de/dc; cases k and k+1 cover all four), raft.OfflineState of the data folder compared with what the peer served when it "
            "was shut down (clause shutdown_durable), restart on the folder, more operations, Shutdown with another context, offline read; the model event of a Shutdown is computed from the shape "
            "extract_c01shut reads from raft.go. "
            "Suite fold (both tiers, round 8b): the offline tools on the data folder of one real Raft node - start, LogPin/LogUnpin, forced snapshot, Shutdown, raft.OfflineState, "
            "raft.SnapshotSave (state import: over an existing snapshot, into a folder that never held a node, after a cleanup; cids added in unsorted order; the empty state), "
            "Consensus.Clean on the live node (must be refused) and on the stopped one, restart and more operations on top; after EVERY step what a reader sees (State() when up, OfflineState "
            "when down) must be exactly the acknowledged state (clause folder_exact; an import replaces it, a cleanup empties it), no cleanup may be acknowledged under a running node (clean_guard), "
            "and result + observation + snapshot metadata taken over (k) or fresh (f) are compared with the TERM-AWARE model Model/C01FolderTerm (round 8c: snapshots ordered by (term, index) as "
            "FileSnapshotStore.List does, CurrentTerm restarting after CleanupRaft, the log suffix behind the restored snapshot replayed at start), so the K01e cases agree with the model (agree=1, arm fold+shutdown-snapshot-not-newest) and fail folder_exact only. "
            "The undecodable stream draws origins, Reference=cid.Undef and undefined Cid. non-trivial = at least one entry applied; distinct by case line",
    "trusted_base": [
        "Raft (hashicorp/raft + raft-boltdb) delivers one committed sequence to every member, keeps every entry after a member's newest snapshot, "
        "and fsyncs entries before acknowledging: the committed sequence `ops` is a parameter of the model",
        "the FSM-level harness plays Raft's role (which entry is next, which snapshot is newest) as hashicorp/raft v1.1.1 does; its 'applied' counter mirrors raft.lastApplied",
        "hook file /repo/consensus/raft/verif_export_c01gate.go (VerifCommitGate = the real commit() on a Consensus whose CommitRetries is -1: everything commit() does "
        "before its retry loop, no attempt; does not name checkDecodable, so it compiles against a tree without it)",
        "hook file /repo/consensus/raft/verif_export_c01.go (VerifNewFSM = first half of NewConsensus without a Raft instance, VerifEncodeOp/VerifEncodeTracedOp = "
        "the LogOp as commit() builds it, encoded like go-libp2p-raft encodeOp; VerifRaft, VerifLogCommands read-only accessors)",
        "extract_c01 (go/ast) reads the statement skeleton of redirectToLeader/commit/AddPeer/RmPeer and of the decodability gate (call of checkDecodable on commit's op, "
        "top-level and unconditional, before the retry loop, error returned; LogPin/LogUnpin return commit's error); the fault injector of suite redir stands for an unreachable or abdicating leader",
        "extract_c01shut (go/ast) reads raftWrapper.Shutdown / snapshotOnShutdown / Snapshot / latestSnapshot / LastStateRaw and OfflineState / Consensus.Shutdown: snapshotOnShutdown called "
        "unconditionally before rw.raft.Shutdown(), the wait context derived from context.Background(), which errors of the wait take the snapshot-anyway arm, the snapshot after the wait, "
        "the newest snapshot opened by the offline read and nothing replayed; unknown statement shapes give recognised := false (the model then never snapshots)",
        "suite fold: the state is compared as the set of pinned cids (default pin options); only clean shutdowns, so the log suffix behind the newest snapshot is empty whenever the tools run; "
        "Model/C01Folder is the INTENDED behaviour of SnapshotSave/CleanupRaft, Model/C01FolderTerm what the code does with Raft terms and indexes (both hand-written, no translator; indexes are "
        "monotone stand-ins, only their order matters; snapshot retention is left out: it reaps from the end of the (term, index) order and never changes the newest one)",
        "recording PinTracker behind a real in-process gorpc server (calls recorded in arrival order; a slow Track handler stands for a busy tracker); in-memory datastore as cmdutils.raftStateManager.GetStore provides",
    ],
    "assumptions": [
        "well-formed pins have agreeing mode and depth (the mode clause of tracker_handoff is only required of those)",
        "the entry stored for a pin is its protobuf form (Pin.stored): user allocations are transient, mode is carried by the depth, unix-zero expiry means none",
        "an installed snapshot is never older than what the follower has applied (hashicorp/raft sends snapshots only to followers that are behind)",
    ],
}
META = {
    "text": "Kernel-checked theorems over a model of the Raft replicas of the pinset (LogOp decode + ApplyTo, two-phase FSM snapshots, Restore onto the live "
            "state, shutdown/kill/restart, offline read) joined to a model of the commit path: commit() refuses an operation that cannot be decoded before any attempt "
            "(undecodable_refused_no_attempt, ack_implies_decodable), so the log left by ANY history of LogPin/LogUnpin calls holds only decodable entries (gated_log_decodable) and no FSM is "
            "ever inconsistent or poisoned (gated_never_inconsistent); for every such history and EVERY schedule, each key a peer serves holds a "
            "committed value of a present-or-future prefix, a caught-up peer serves exactly the replay of the whole sequence, and every peer can always catch up "
            "again (future_inv, caught_up_exact, ack_applied_everywhere, ack_visible_durable); the tracker is called synchronously and receives exactly the calls of the applied entries in log order "
            "(handoff_order; the asynchronous dispatch the code had before 2ba6875 is refuted: async_handoff_order_fails); for schedules with point-in-time snapshots a peer serves exactly "
            "replay(ops.take applied) (prefix_inv_partial) and the model's observations satisfy every clause of the property as written from its text "
            "(model_holds_partial); the commit path (commit/AddPeer/RmPeer over redirectToLeader), as a function of an oracle of attempt outcomes with the statement "
            "skeleton regenerated from the source by a go/ast translator, acknowledges only what some attempt committed, reports an error exactly when none did, and "
            "consumes at most (CommitRetries+1)^2 attempts (ack_implies_some_attempt_committed, all_fail_reports_error, retry_bound); "
            "the shutdown snapshot of raft.go as a function of the context Shutdown is called with and of a shape regenerated from the source (extracted_shutdown): it is taken for every context, "
            "caught up or not (shutdown_snapshots_every_ctx), so for every schedule the offline read of a cleanly shut down peer is exactly what it served (shutdown_offline_exact, over the invariant "
            "reachable_snapBound) and, for a caught-up peer of any LogPin/LogUnpin history, exactly the replay of the whole sequence (clean_shutdown_offline_caught_up); the context-bound variant is refuted "
            "(ctx_bound_shutdown_loses_acknowledged; it needs both of its sites and a cancelled context: ctx_bound_needs_both_sites_and_a_cancelled_ctx); an applied entry hands exactly its pin to the tracker (tracker_handoff); "
            "the data-folder tools SnapshotSave / CleanupRaft / Consensus.Clean / OfflineState over one node's folder: for every history of starts, operations, snapshots, clean shutdowns, imports and cleanups "
            "every reader sees exactly the acknowledged state and no cleanup is acknowledged under a running node (folder_model_meets_spec, import_restart_op_shutdown, clean_guarded; refuted: unguarded_clean_fails, stale_import_fails); with Raft terms and indexes in the folder model "
            "(Model/C01FolderTerm) the shutdown snapshot is the folder's newest one iff its (term, index) is at or above the newest one there, i.e. iff its term is at least the imported one's "
            "(shutdown_snapshot_newest_iff, shutdown_snapshot_newest_iff_term), so for EVERY folder whose newest snapshot has term >= 2 an import over it hides every operation acknowledged afterwards from the offline read "
            "(kept_import_hides_later_ops = K01e; k01e_predicted_by_term_model: the model yields exactly the real observations), and the repair that writes term 1 / index 2 does not (fixed_import_shutdown_exact); on EVERY history without a metadata-keeping import the term-aware folder yields exactly the observations of the intended one and no clean shutdown leaves a stale snapshot (term_model_refines_intended, no_stale_shutdown_without_kept_import: simulation relation Sim, induction over the step list). The full-strength statements are refuted by "
            "kernel-checked witnesses where the code really breaks them (prefix_inv_fails / some_prefix_fails: go-libp2p-raft snapshots are not point-in-time, K09; "
            "decode_total_fails / caught_up_exact_fails: raw log entries with origins, no longer reachable through commit). The model is tied to the code by driving the real FSM (and, thorough, real Raft "
            "nodes incl. SIGKILL and InstallSnapshot) with seeded event scripts and, in both tiers, one real Raft node shut down with live / deadline-bound / expired / cancelled contexts whose data folder is then read offline) plus the data-folder tools on a real node's folder (suite fold) and comparing every observation with the model, and the Spec clauses are evaluated on the implementation's observations.",
    "note": "Trusted: Lean kernel, hand-written model/spec, Raft's log replication and durability (hashicorp/raft, boltdb), the harness playing Raft's role at FSM level, "
            "the hook files consensus/raft/verif_export_c01.go and verif_export_c01gate.go. Known finding K09 (snapshot not point-in-time) is reproduced and reported, not hidden; "
            "K01a/K01b (undecodable operations acknowledged) and K29 (hand-off order) are fixed in /repo (3d753d4, 2ba6875) and suppress nothing. Round 8b finding (proposal K01e, notes/C01.md): after SnapshotSave over an existing snapshot the Raft term restarts below the imported snapshot's term, so the "
            "shutdown snapshot sorts below the imported one and OfflineState misses the operations acknowledged since - reported by suite fold (folder_exact) as KNOWN-FINDING K01e; since round 8c the term-aware folder model predicts it (the cases agree with the model).",
    "technique": "Lean 4 invariants by induction over event sequences + refutation witnesses + differential correspondence (FSM-level deterministic, real Raft thorough)",
}
