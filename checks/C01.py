CHECK = {
    "suites": [suite("fsm", "c01", 300, 3000, stdin=True)],
    "lean_sources": ["ClusterVerif/Model/Pin.lean", "ClusterVerif/Model/C01.lean", "ClusterVerif/Spec/C01.lean"],
    "rule": "TBD",
    "trusted_base": [],
    "assumptions": [],
}
META = {"text": "TBD", "note": "TBD", "technique": "TBD"}
