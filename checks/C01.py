CHECK = {
    "suites": [
        suite("fsm", "c01", 400, 6000, stdin=True),
        suite("raft1", "c01", 0, 30, stdin=True, tiers=["thorough"], args=["-kind", "raft1"], timeout={"thorough": 900}),
        suite("kill", "c01", 0, 16, stdin=True, tiers=["thorough"], args=["-kind", "kill"], timeout={"thorough": 900}),
        suite("net", "c01", 0, 24, stdin=True, tiers=["thorough"], args=["-kind", "net"], timeout={"thorough": 900}),
    ],
    "lean_sources": ["ClusterVerif/Model/Pin.lean", "ClusterVerif/Model/C01.lean", "ClusterVerif/Spec/C01.lean",
                     "ClusterVerif/Lemmas/C01.lean", "ClusterVerif/Lemmas/PinMap.lean"],
    "rule": "TBD",
    "trusted_base": [],
    "assumptions": [],
}
META = {"text": "TBD", "note": "TBD", "technique": "TBD"}
