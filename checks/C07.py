def _note_inconclusive(run):
    # time-dependent cases whose updates did not travel are skipped, never reported: say how many
    if run.inconclusive:
        run.notes.append("%d case(s) were inconclusive (infrastructure: updates did not travel / setup failed) and carry no verdict" % run.inconclusive)

CHECK = {
    "extra": [_note_inconclusive],
    "gen": [{"pkg": "extract_c07", "out": "lean/ClusterVerif/Gen/C07.lean"}],
    "suites": [
        suite("auth", "c07", 160, 1600, stdin=True, args=["-suite", "auth"], timeout={"quick": 600, "thorough": 1800}),
        suite("pol", "c07", 60, 600, stdin=True, args=["-suite", "pol"], timeout={"quick": 300, "thorough": 900}),
        suite("dmn", "c07", 24, 24, stdin=True, args=["-suite", "dmn"], timeout={"quick": 300, "thorough": 600}),
        suite("rep", "c07", 10, 160, stdin=True, args=["-suite", "rep"], timeout={"quick": 600, "thorough": 2400}),
    ],
    "lean_sources": ["ClusterVerif/Model/C07.lean", "ClusterVerif/Model/C07Sys.lean", "ClusterVerif/Spec/C07.lean", "ClusterVerif/Gen/C07.lean",
                     "ClusterVerif/Lemmas/C07.lean", "Driver/C07.lean"],
    "rule": "auth: one configuration = (Config.Tracing off/on) x (policy table shipped/follower/custom overrides) x (raft | crdt trusted_peers from one file or, 2 in 5, from a sequence of Default/LoadJSON/ApplyEnvVars sources; lists with '*', repeats, "
            "id-only peers) x (0-5 Trust/Distrust calls); per configuration IsTrustedPeer of the real consensus for 7 peers, and for one "
            "configuration in four every caller (self + 3 remote hosts) calls every registered endpoint and 5 unregistered names over real "
            "libp2p streams (plus a hand-rolled client every 7th call). rep: observer trust configuration x calls x 1-4 non-conflicting "
            "updates by 3 publishers. Non-trivial = a remote caller on a registered endpoint under a shipped table / IsTrustedPeer of a "
            "remote peer / an update by a peer the observer does not trust; distinct by case line. pol: a zero cluster Config taken through "
            "1-6 steps of Default / LoadJSON (valid file + policy entries under three key spellings) / ApplyEnvVars (CLUSTER_RPCPOLICY-like "
            "variables set) / the follower's assignment; Config.RPCPolicy against the shipped table, Validate(), and r1 (trusted) / r2 (untrusted) "
            "calling the named + 13 sample endpoints on the real server built from that Config. Every served Config goes through Validate() first, as in NewCluster. "
            "Step H (1 in 7 + 5 boundary cases) is the daemon's path: a fresh Config loaded by the real cmdutils.NewLoadedConfigHelper from a service.json written to a scratch "
            "directory (cluster section extended by the injected policy objects), then SetupTracing; the case continues with Configs().Cluster. dmn: (service | follower daemon) x consensus x libp2p_listen_multiaddress set? x basic_auth_credentials set? x caller listed as trusted? (24 cases, exhaustive): the real rest.API "
            "built with the constructor and host that cmd/*'s source dictates today for that consensus (read by go/ast), a real libp2p host as cluster host, a fresh swarm peer without "
            "credentials POSTs /pins/<cid> over a libp2p stream to the cluster host; non-trivial = caller not trusted. hs lines (suite auth): for every join handshake by a remote host the "
            "consensus does not trust, Cluster.Version + Cluster.ID + Cluster.PeerAdd run with decodable arguments against a peer whose tracker / IPFS connector / allocator / consensus "
            "record every call",
    "trusted_base": ["extract_c07 pattern matcher (fails closed) and go/ast, reflect",
                     "gorpc applies the authorization function to every remote stream and to no local call (go-libp2p-gorpc v0.1.3 server.go:240)",
                     "verif_export.go wrappers (VerifNewCluster, VerifNewRPCServer)",
                     "frozen intent table Spec/C07.lean (which endpoints are meant for local use)",
                     "the key spellings the pol suite injects (rpc_policy, rpcpolicy, RPCPolicy; CLUSTER_RPCPOLICY, CLUSTER_RPC_POLICY); the follower's assignment is copied by hand in the harness (the model's copy is regenerated)",
                     "harness/common/c07_daemon.go (go/ast reader of cmd/* and api/rest/restapi.go, shared by translator and harness; fails closed); the dmn harness follows the constructor choice it reads instead of running package main",
                     "the allow-list handshakeMayCall (what identity/version/join handlers may touch) and the go/ast reach walker of extract_c07/reach.go (selector chains through one receiver)"],
    "assumptions": ["a remote call that gets a non-authorization error has passed authorization (calls carry an undecodable argument so that no handler runs)",
                    "go-libp2p-pubsub drops a message whose topic validator returns false; go-ds-crdt learns remote heads only from pubsub",
                    "Distrust only edits the listed set: under '*' and in Raft every peer stays trusted"],
}
META = {
    "text": "Translator + theorems: the policy table, the reflected endpoint list, the authorization closure of newRPCServer and IsTrustedPeer/Trust/Distrust/"
            "topic validator of both consensus packages are regenerated from today's source into Lean terms; kernel-checked theorems (decide over the whole "
            "table, lifted to every endpoint name by lemmas about the closure semantics; induction over Trust/Distrust call lists and over delivered messages) "
            "show every clause of the property for the model. The model is tied to the running code by calling every endpoint from self/trusted/untrusted "
            "callers over real libp2p streams against the real newRPCServer with real crdt/raft consensus components, and by real crdt replicas where an "
            "untrusted replica publishes pinset updates. The configuration path of the policy table is in the model too: the translator reads "
            "cluster_config.go (Default/LoadJSON/ApplyEnvVars/applyConfigJSON/setDefaults/configJSON) and every non-test write of RPCPolicy / "
            "DefaultRPCPolicy in the repository into a PolShape the model interprets; theorems: no sequence of configuration sources widens any "
            "endpoint (config_sources_cannot_widen), file/environment entries never reach the table (policy_not_configurable), the configured "
            "class of an endpoint is respected for every table (configured_class_respected), every entry of the table in effect reads no wider than "
            "intended (pol_table_meets_spec); suite pol drives the real Config loader, the daemon's cmdutils ConfigHelper path (daemon_path_installs_shipped) and a real "
            "server built from the loaded Config. The handlers behind the endpoints are regenerated too (calls of all 50 handlers; for the open endpoints the calls followed "
            "through the methods of *Cluster and the RPC calls made with the serving peer's credentials): no open handler reaches a pinset-mutating / IPFS-driving call "
            "(open_handlers_never_drive) or forwards to a non-open endpoint (open_handlers_forward_only_open); dynamically, recording components behind the real server see what the "
            "three open handlers drive for an untrusted caller (hs lines, open_reach_passes_hs). How the daemons assemble the peer is regenerated too (Gen.daemonShape: every rest.NewAPI / "
            "NewAPIWithHost and raft.NewConsensus / crdt.New call in cmd/ with its consensus guard, what api/rest does with the host): the REST API shares the cluster's libp2p host only under "
            "the Raft guard (rest_shares_cluster_host_only_in_raft), so no untrusted swarm peer reaches a pinset-mutating REST route through the cluster host for any daemon / consensus / "
            "REST configuration (rest_closed_to_untrusted_swarm_peers; suite dmn drives the real rest.API), each daemon builds the configured consensus component "
            "(daemon_builds_configured_consensus), and unauthenticated metrics never change an authorization decision (metrics_never_authorize).",
    "note": "Trusted: Lean kernel, the extractor's pattern matcher, gorpc's use of the authorization function, the frozen intent table, the harness.",
    "technique": "Lean 4 theorems over regenerated tables/decision trees (translator) + correspondence run over real libp2p RPC and real CRDT replicas",
}
