CHECK = {
    "suites": [suite("requests", "c12", 4000, 40000, stdin=True, timeout={"quick": 600, "thorough": 2400})],
    "gen": [{"pkg": "extract_c12", "out": "lean/ClusterVerif/Gen/C12.lean"}],
    "lean_sources": ["ClusterVerif/Model/C12.lean", "ClusterVerif/Spec/C12.lean", "ClusterVerif/Lemmas/C12.lean",
                     "ClusterVerif/Gen/C12.lean", "ClusterVerif/Model/C12Flow.lean", "ClusterVerif/Lemmas/C12Flow.lean"],
    "rule": "one case = one HTTP request written byte-for-byte to a fresh default-configured proxy: 42% hijacked endpoints (pin add/rm/ls in both "
            "argument styles, pin update with 0-3 args, add with multipart bodies and ~25 options, repo stat/gc; valid and invalid paths/CIDs in "
            "several spellings and escapings; scripted RPC failures), 36% arbitrary other requests (7+5 methods, random segments around the API "
            "vocabulary, raw queries, binary bodies), 14% near misses of the hijacked endpoints, 8% malformed targets/queries; about 1 case in 150 (and 11 "
            "corpus lines) is run against a proxy configured with small timeouts (read_header_timeout 200-300 ms, idle_timeout 50 ms-60 s) and a daemon "
            "that starts answering later than every one of them and/or pauses in the middle of its body (tokens cf= dl=); half of the repo/stat cases "
            "with peers let a random subset of the per-peer RepoStat calls fail (token sb=), half of the repo/gc cases (any stream-errors value) let the collection "
            "report a failed peer and/or a key error (token ge=; without stream-errors=true that is the known finding K12d, which the model follows); "
            "non-trivial = the request target decodes (the property constrains it); distinct by case line",
    "trusted_base": ["recording fake IPFS daemon (net/http server recording RequestURI, headers, body) and recording fake Cluster/IPFSConnector/Consensus "
                     "gorpc services with scripted answers and failures",
                     "oracle tokens computed by third-party dependencies on the request's own arguments: go-path ParsePath, go-cid Decode, "
                     "net/http MultipartReader, go-ipfs-files/go-ipfs-chunker/go-merkledag/go-multihash acceptance of the add body and options",
                     "gorilla/mux regexp matching, net/http request parsing and httputil.ReverseProxy are modelled (segment matching, url.unescape/"
                     "EscapedPath/ParseQuery) and tied by the correspondence run only",
                     "translator harness/extract_c12 (go/ast over ipfsproxy.go: hijack table; relay set-up of New = transport of the reverse proxy "
                     "resolved through one local / one constructor function / a clone of the default transport, its fields as duration sources, "
                     "http.Server fields, handler chain; flow.go: bodies of the six hijack handlers as flat lists of guarded steps — checks, RPC calls "
                     "with service/method/argument expression and their error arm (status, number of answers, X-Stream-Error, return), assignments "
                     "to request structures, response writes; single-assignment locals substituted; `if c {…; continue}; rest` read as if/else; a "
                     "`range` body read once per element; unknown shapes fail closed)",
                     "net/http semantics of the transport fields: only ResponseHeaderTimeout (non-zero) bounds the wait for an accepted request; "
                     "http.DefaultTransport sets none"],
    "assumptions": ["default proxy configuration (ExtractHeadersPath=/api/v0/version, no tracing) except read_header_timeout/idle_timeout in the slow-daemon "
                    "cases; read_timeout = write_timeout = 0 (their defaults); one fresh proxy per request",
                    "request targets are origin-form; CONNECT, OPTIONS * and absolute-form targets are not generated",
                    "add options expire-at/expire-in/pin-update/origins and shard=true are outside the model (sharded adding is C13's)",
                    "boolean options are constrained by the Spec only in their documented spellings true/false"],
}
META = {
    "text": "The hijack table of ipfsproxy.New is regenerated from the source on every run and proved (decide) to be exactly the frozen expectation; "
            "kernel-checked theorems show that the model's gorilla/mux router over that table classifies every (method, path) exactly as the property's "
            "definition of a hijacked request, that every non-hijacked request with a clean path is relayed with identical method, path, query, headers "
            "and body and answered with the daemon's response, that a hijacked request is never forwarded as the call it replaces, and that every handler "
            "model meets every clause of the property except in four corners that the unchanged code really has (recorded as known findings with "
            "witnesses proved in Lean). The relay set-up of New (which round tripper the reverse proxy gets, which of its fields are set from which "
            "configuration field or constant, the client-facing server's timeouts and handler chain) is translated semantically and INTERPRETED by "
            "the model: it is proved that today's set-up puts no bound on the daemon's time to first byte under any configuration, hence a relayed call "
            "is answered with the daemon's answer however slow the daemon is, and that the alternative 'ResponseHeaderTimeout = read_header_timeout' "
            "breaks the relay clause on every slow call (refutation for all inputs). The bodies of the six hijack handlers (pinOp, pinLs, pinUpdate, add, repoStat, "
            "repoGC) are translated (go/ast) into decision structures — argument checks, RPC calls with their argument expressions and error arms, "
            "assignments, response writes, under the conditions of the source — that a Lean interpreter executes for any valuation of the conditions and "
            "any failure script: it is proved for EVERY well-formed structure (induction, not enumeration) that once an error is detected or answered "
            "nothing is issued any more and an error status is the last thing a handler does, that today's six structures are well formed, answer exactly "
            "once, issue on success exactly the intended RPCs with the intended argument expressions (Unpin iff unpin is not false / pin=false, PinGet vs "
            "Pins, only-hash=true adds nothing, repo/stat sums a peer iff its call succeeded), that error-means-no-operation holds at full strength for "
            "pin add/rm/ls and repo/stat and fails for pin/update, add and repo/gc exactly through the trailing Unpin resp. the final X-Stream-Error, "
            "that a dropped return, an arm answering 200 or an ignored error break these statements (refutations), and that the hand-written handler "
            "models agree with the interpreted structures (status and RPC outcomes; repo/gc also the X-Stream-Error trailer; repo/stat one RepoStat "
            "outcome per peer; add: the trailing-Unpin outcomes, the plain 500 of the arms before the adder, status and X-Stream-Error after a "
            "successful adder — all six handlers are now tied; pin/ls lists the whole pinset or the one decoded CID and reads nothing of the query but arg, no type filter) on every environment. The repo/gc model takes the query: a collection that reported a peer or key error is answered "
            "200 + X-Stream-Error unless stream-errors=true (literal spelling) — the fourth corner (known finding K12d), proved to be exactly that "
            "condition, witnessed in Lean, generated for every stream-errors value and matched on the real proxy. The model is tied to the code by sending thousands of seeded raw HTTP requests through the real proxy between a "
            "recording daemon and recording cluster RPC services, comparing with the model and evaluating the Lean property clauses on the real observations.",
    "note": "Trusted: Lean kernel, hand-written model/spec, harness fakes and dependency oracles (go-path, go-cid, multipart/DAG-builder acceptance), "
            "translator. net/http, httputil.ReverseProxy and gorilla/mux are modelled, not verified.",
    "technique": "Lean 4 theorems over a request-routing/handler model + generated route table, relay set-up and handler decision structures "
                 "(go/ast translators; interpreted by the model; induction over all well-formed structures + finite tables lifted to all valuations) + "
                 "differential correspondence per HTTP request incl. slow-daemon cases",
}
