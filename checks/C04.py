CHECK = {
    "suites": [suite("calls", "c04", 250, 20000, stdin=True),
               suite("conc", "c04", 400, 20000, stdin=True, args=["-suite", "conc"])],
    "gen": [{"pkg": "extract_c04", "out": "lean/ClusterVerif/Gen/C04.lean"},
            {"pkg": "extract_c04sem", "out": "lean/ClusterVerif/Gen/C04Sem.lean"}],
    "lean_sources": ["ClusterVerif/Model/C04Source.lean", "ClusterVerif/Gen/C04.lean", "ClusterVerif/Model/Pin.lean", "ClusterVerif/Model/C04.lean", "ClusterVerif/Spec/C04.lean",
                     "ClusterVerif/Model/C03.lean", "ClusterVerif/Spec/C03.lean", "ClusterVerif/Lemmas/C04.lean",
                     "ClusterVerif/Model/C04Faults.lean", "ClusterVerif/Spec/C04Conc.lean", "ClusterVerif/Lemmas/C04Faults.lean",
                     "ClusterVerif/Model/C04Rpc.lean", "ClusterVerif/Lemmas/C04Rpc.lean",
                     "ClusterVerif/Model/C04Sem.lean", "ClusterVerif/Gen/C04Sem.lean", "ClusterVerif/Lemmas/C04Sem.lean", "ClusterVerif/Lemmas/C04Typed.lean"],
    "rule": "histories of 4-25 Pin/PinPath/PinUpdate/Unpin/UnpinPath/rpc-pin calls over 12 CIDs (6 data, a sharded group), options drawn or derived "
            "from the stored pin with one field changed/added/removed, 5 default-factor settings, follower on/off, preloaded pinsets; every call is one case "
            "with its explicit pre-state; a trailing !k makes the k-th consensus call of the API call fail; paths to meta / cluster-DAG / shard pins and unresolved paths; "
            "cluster-DAG blocks complete / listing an absent shard / empty / unreachable; suite conc: two calls on one cid interleaved between read and consensus call (write order x stale/fresh read); "
            "round 8: ~30% of the calls enter through the real ClusterRPCAPI (in-process gorpc client of newRPCServer): rpc.pin (plain PinWithOpts pins as REST/proxy/ctl send them, and the adders' typed pins), "
            "rpc.unpin with a decorated pin object, rpc.pinpath / rpc.unpinpath with options, rpc.pinget; 8 default-factor settings incl. max above the peer count; "
            "round 8c: ~2% of the calls are pin objects without a cid (cid.Undef; plain or typed with preset allocations, direct and through the RPC Pin); arms of the adders' pins split by new/existing, type, preset allocations; "
            "non-trivial = every case (each call is constrained by the generic clauses); distinct by case line",
    "trusted_base": ["FakeConsensus = real dsstate over an in-memory datastore applying LogPin/LogUnpin directly",
                     "table-driven IPFS connector for Resolve/BlockGet; metrics.Store monitor; verif_export.go (VerifNewCluster, VerifPin)",
                     "gorpc in-process call path (destination \"\": no serialisation, no authorisation) in front of the real ClusterRPCAPI; extract_c04's go/ast reader of rpc_api.go (fail-closed: unknown shape = table entry '?')",
                     "extract_c04sem's statement recogniser for cluster.go (go/ast shapes + canonical local names; a statement of no known shape = .unknown = the interpreter answers none = diff + failed obligation gen_sem_programs)",
                     "FaultConsensus: a failing LogPin/LogUnpin is not applied (fail-then-commit is not modelled); the gate interleaves at the granularity read-phase / consensus calls"],
    "assumptions": ["the empty metadata key is not a real option (never serialised in requests)",
                    "user allocations are transient (never stored), so a re-pin that carries them is not 'identical'"],
}
META = {
    "text": "Kernel-checked theorem step_holds: for every configuration, every well-formed pinset, every call (Pin, PinPath, PinUpdate, Unpin, UnpinPath, rpc pin) "
            "and every allocation admitted by the C03 relation, the result and pinset produced by the Lean model of cluster.go's pin/unpin/update logic satisfy "
            "every clause of the property (written from its text), and pinset well-formedness is preserved over any call sequence. The model is tied to the code "
            "by replaying thousands of seeded calls on the real Cluster (over a real dsstate) and comparing result, whole pinset and consensus log with the model, "
            "and by evaluating the Lean property clauses on the implementation's own outputs. "
            "Round 7: path operations proved equal to the cid operations on the resolved cid; consensus faults at every call position (stepF): every single-call operation is proved all-or-nothing, "
            "the sharded Unpin is characterised at every fault position (sharded_unpin_fault_positions, unpin_retry_heals, unpin_fault_strands_meta) and the full all-or-nothing statement is refuted "
            "(failed_call_is_noop_full_fails: known finding K41, replayed on the implementation); two overlapping calls as read/write phases under all six interleavings: last_writer_wins_wellformed."
            " Round 8: the RPC layer of rpc_api.go (Pin, Unpin, PinPath, UnpinPath, PinGet, Pins) is regenerated from go/ast into a table (callee, argument expressions, returned value, error propagation) that the Lean model INTERPRETS; "
            "rpc_layer_is_passthrough / rpc_step_holds / rpc_run_holds: every writing RPC call performs exactly the Cluster operation the request means (a plain data pin sent to Cluster.Pin is the user-facing Pin and is held to the option clauses; Unpin uses the cid only; PinPath hands on path and options) and satisfies every clause along any call sequence; "
            "two wrong layers refuted with witnesses (options dropped by PinPath; Pin routed through the public Pin); the harness sends the same requests through the real ClusterRPCAPI."
            " Round 8b: the statement SEQUENCES of Cluster.Pin, PinPath, UnpinPath, pin(), setupPin(), Unpin() and PinUpdate() are regenerated from go/ast (which constructor builds the pin - api.PinWithOpts or api.PinCid -, "
            "what is assigned to it, every guard with its conjuncts and every early return in source order, the case order of Unpin's switch; logging/tracing/message text dropped, local names canonical) and RUN by the Lean model (Sem.stepSem): "
            "sem_is_model proves for ALL inputs that the regenerated sequences compute exactly the hand-written model plus pin()'s cid.Undef guard (sem_undef_cid_refused), sem_step_holds that every clause holds for what they compute; "
            "the driver's model side of every fault-free call is this interpretation, so a dropped / reordered guard or another pin constructor changes the model. Refuted with witnesses: seeded C04g's PinPath (PinCid + options: a direct request stored recursive), "
            "setupPin without the recursive->direct guard, Unpin without the follower guard; proved harmless: C04g's edit with the depth set from the mode."
            " Round 8c: the adders' typed pins through the RPC Pin are held to the new clause rpc_pin_stored_as_sent (a pin object new at its cid is stored with the type, reference and depth it was sent with, and with its preset "
            "allocations unless it carried none or asks for 'everywhere'): proved for the model for ALL inputs (step_holds now includes it; Prop reading rpc_pin_stored_as_sent), the two wrong RPC layers of the first pass refuted against the SPEC "
            "(rpc_pin_via_public_pin_fails, rpc_pin_clearing_allocations_fails); pin objects WITHOUT a cid (cid.Undef) are sent by the harness and judged by the clause pin_without_cid_refused (sem_step_holds_all: every clause for ALL requests, "
            "defined cid or not); unpin_done_retry_is_noop (a completed Unpin re-run is refused and changes nothing) and mixed_factor_with_everywhere_default_refused (min>0 with max left to a default of -1 is refused). "
            "The source-text snapshots of the seven semantically tied functions (Pin, PinPath, UnpinPath, pin, setupPin, Unpin, PinUpdate) were removed: a harmless rewrite of them is now silent; text snapshots remain for "
            "setupReplicationFactor, unpinClusterDag, cidsFromMetaPin, checkPinType, PinOptions.Equals, Pin.Equals, PinWithOpts, IsRemotePin, ExpiredAt."
            " Round 8d: calls with a consensus fault (!k) are now ALSO compared with the regenerated statement sequences: Sem.stepSemF lets the k-th consensus call the interpreted sequences issue fail "
            "(semF_is_model / semF_is_stepF: for ALL inputs and every fault position this is the faulted model stepF; semF_failed_call_is_noop_partial: the all-or-nothing statement for single-call operations re-proved over the interpreted code, all requests); "
            "the clock of the expiry check as an input (Clock.refusedAt / takenAt / expiredAt over nanosecond instants, Go's zero time included): expired_refused_iff (refused iff an expiry is set and strictly before now, EVERY clock value), "
            "expiry_boundary (now-1ns refused; now, now+1ns, zero time, any later instant accepted), clock_abstraction (the model's abstract instants zero/unix-zero/past/future are a sound reading of every (now, expiry) pair; exp = now is the one value afterNow cannot express), "
            "expiry_guard_iff_clock (the .expiry statement of the regenerated setupPin), clock_past_pin_refused, expiredAt_is_refused_except_unix_zero (api.Pin.ExpiredAt vs the pin-time check differ exactly at time.Unix(0,0)); the real clock is NOT frozen by the harness (time.Now() is called directly; instants stay the tokens z/u/p/f<k>) - the boundary is proved, not driven; "
            "update_field_table (exactly which fields PinUpdate takes from the call / the request / the source pin) with the refutation update_does_not_take_request_metadata; setup_replication_factor_table + factors_valid_iff (every (request, default) combination) and checkPinType_iff.",
    "note": "Trusted: Lean kernel, hand-written model/spec, harness fakes (consensus = dsstate applying ops directly, table IPFS connector), verif_export.go. "
            "Allocation validity is delegated to C03.",
    "technique": "Lean 4 theorem over a step model + semantic go/ast translation of the RPC layer and of the statement sequences (constructors, guards, early returns) of cluster.go's pin/unpin/update functions, both interpreted by the model + regenerated source text of the anchored functions that have no semantic tie checked against the transcribed snapshot (rfl) + differential correspondence per API call with explicit pre-state",
}
