CHECK = {
    "suites": [suite("calls", "c04", 250, 20000, stdin=True),
               suite("conc", "c04", 400, 20000, stdin=True, args=["-suite", "conc"])],
    "gen": [{"pkg": "extract_c04", "out": "lean/ClusterVerif/Gen/C04.lean"}],
    "lean_sources": ["ClusterVerif/Model/C04Source.lean", "ClusterVerif/Gen/C04.lean", "ClusterVerif/Model/Pin.lean", "ClusterVerif/Model/C04.lean", "ClusterVerif/Spec/C04.lean",
                     "ClusterVerif/Model/C03.lean", "ClusterVerif/Spec/C03.lean", "ClusterVerif/Lemmas/C04.lean",
                     "ClusterVerif/Model/C04Faults.lean", "ClusterVerif/Spec/C04Conc.lean", "ClusterVerif/Lemmas/C04Faults.lean"],
    "rule": "histories of 4-25 Pin/PinPath/PinUpdate/Unpin/UnpinPath/rpc-pin calls over 12 CIDs (6 data, a sharded group), options drawn or derived "
            "from the stored pin with one field changed/added/removed, 5 default-factor settings, follower on/off, preloaded pinsets; every call is one case "
            "with its explicit pre-state; non-trivial = every case (each call is constrained by the generic clauses); distinct by case line",
    "trusted_base": ["FakeConsensus = real dsstate over an in-memory datastore applying LogPin/LogUnpin directly",
                     "table-driven IPFS connector for Resolve/BlockGet; metrics.Store monitor; verif_export.go (VerifNewCluster, VerifPin)"],
    "assumptions": ["the empty metadata key is not a real option (never serialised in requests)",
                    "user allocations are transient (never stored), so a re-pin that carries them is not 'identical'"],
}
META = {
    "text": "Kernel-checked theorem step_holds: for every configuration, every well-formed pinset, every call (Pin, PinPath, PinUpdate, Unpin, UnpinPath, rpc pin) "
            "and every allocation admitted by the C03 relation, the result and pinset produced by the Lean model of cluster.go's pin/unpin/update logic satisfy "
            "every clause of the property (written from its text), and pinset well-formedness is preserved over any call sequence. The model is tied to the code "
            "by replaying thousands of seeded calls on the real Cluster (over a real dsstate) and comparing result, whole pinset and consensus log with the model, "
            "and by evaluating the Lean property clauses on the implementation's own outputs.",
    "note": "Trusted: Lean kernel, hand-written model/spec, harness fakes (consensus = dsstate applying ops directly, table IPFS connector), verif_export.go. "
            "Allocation validity is delegated to C03.",
    "technique": "Lean 4 theorem over a step model + regenerated source text of the anchored functions checked against the transcribed snapshot (rfl) + differential correspondence per API call with explicit pre-state",
}
