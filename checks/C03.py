CHECK = {
    "suites": [suite("allocate", "c03", 6000, 600000, stdin=True),
               suite("raw", "c03", 2500, 120000, stdin=True, args=["-suite", "raw"]),
               suite("block", "c03", 2000, 80000, stdin=True, args=["-suite", "block"]),
               suite("seq", "c03", 2500, 100000, stdin=True, args=["-suite", "seq"]),
               suite("hist", "c03", 2000, 80000, stdin=True, args=["-suite", "hist"])],
    "gen": [{"pkg": "extract_c03", "out": "lean/ClusterVerif/Gen/C03.lean"}],
    "lean_sources": ["ClusterVerif/Model/C03Skeleton.lean", "ClusterVerif/Gen/C03.lean", "ClusterVerif/Model/C03.lean", "ClusterVerif/Spec/C03.lean", "ClusterVerif/Lemmas/C03.lean", "ClusterVerif/Lemmas/C03Sort.lean",
                     "ClusterVerif/Model/C03Pipeline.lean", "ClusterVerif/Lemmas/C03Pipeline.lean", "ClusterVerif/Model/C03Block.lean",
                     "ClusterVerif/Lemmas/C03Block.lean", "ClusterVerif/Spec/C03Block.lean", "ClusterVerif/Model/C03Alloc.lean", "ClusterVerif/Lemmas/C03Alloc.lean", "ClusterVerif/Model/C03Wiring.lean", "ClusterVerif/Model/C04.lean", "ClusterVerif/Model/Pin.lean"],
    "rule": "cases = (strategy, factor pair, 0-8 peers each in one of 5 metric states, current/exclusion/priority lists) "
            "drawn from one splitmix64 stream per case index; suite raw: 0-14 raw metric arrivals (3 names, members and non-members, invalid/expired/non-numeric, repeats in any order) "
            "+ peerset view (none / failing / members) through the real pubsubmon.Monitor; suite block: BlockAllocate requests (cid.Undef via adder.BlockAllocate, stored entry, factors, expiry, "
            "user allocations, follower, ping states); suite seq: three-step histories on one CID through the real Cluster.pin and vacatePeer->repinFromPeer "
            "(pin; pin again under another name = re-allocation from the stored pin; a peer's metric replaced by valid/expired/invalid/non-numeric and the peer vacated); "
            "suite hist: whole histories (4-25 ops) over up to 3 CIDs and 2-7 peers through the real Cluster.pin / vacatePeer / unpin with any number of metrics changing, expiring or appearing between the steps "
            "and a decoy second informer (reversed ranking, valid for everybody) in the informer list, replayed step by step on the Lean history model (hstep); non-trivial = positive factors or everywhere (-1,-1); distinct by case line",
    "trusted_base": ["suites allocate/block: metrics.Store-backed monitor stands in for pubsubmon (LatestValid is the real code); suite raw: the real pubsubmon.Monitor fed through LogMetric",
                     "verif_export.go wrappers (VerifNewCluster, VerifAllocate)"],
    "assumptions": ["time does not advance between LatestMetrics and the second Discard() test in SortNumeric",
                    "a non-numeric metric makes a peer unusable for new allocations under the shipped strategies"],
}
META = {
    "text": "Kernel-checked theorem allowed_holds: for every input (any peers, metric states, lists, factor pair, both strategies) and every "
            "output the model relation of allocate() admits under any map-iteration order and any tie-break of Go's unstable sort, all clauses "
            "of the property hold (no size bound). The relation is tied to today's code by running the real allocate()/allocators/metrics.Store "
            "on thousands of seeded cases per run and checking (a) the real output is in the relation and (b) the Lean property checker on the real output; "
            "and by a go/ast translator that regenerates the decision skeleton of allocate(), obtainAllocations(), isReplicationFactorValid() and the shipped "
            "allocators on every run, compared by `decide` with the skeleton the model was transcribed from (gen_* theorems). "
            "Round 7: the abstract metric-state input is derived, not assumed: pipeline_yields_states proves the composition of the transcribed Store/Window/LatestValid/peerset-filter steps "
            "over RAW metric arrivals equal to it (allowed_holds_raw), suite raw ties that transcription to the real pubsubmon.Monitor; classification_precedence is a theorem about the regenerated "
            "classifier structure for all overlaps of the three lists; sort_shape_sound about the regenerated discard/parse/comparison structure of SortNumeric; BlockAllocate (suite block) and Cluster.pin "
            "are proved to consult the same relation with the inputs the property names. "
            "Round 8: the shipped allocators, the argument order of the allocator call and repinFromPeer/vacatePeer are go/ast-regenerated STRUCTURES that the model interprets "
            "(allocate_interprets_gen for all inputs; swapped concatenation / direction / call arguments / a forgotten group refuted with witnesses; repin_input: the failed peer is the exclusion list, "
            "the stored holders the current ones); stable_of_count / allocate_idempotent (any admitted allocation is a fixed point of re-allocation under the same metrics, whatever the priority list); "
            "blacklisted_only_kept_verbatim (an excluded peer survives only in the verbatim stored list with min other healthy holders); holds_ok_iff / holds_err_iff / holds_everywhere_iff give the "
            "Prop-level reading of the Bool checker; suite seq drives pin -> re-pin -> vacatePeer histories through the real callers and checks every step (incl. stability and 'a failed re-pin changes nothing'). "
            "Round 8b: ClusterRPCAPI.BlockAllocate is a regenerated STRUCTURE too (prologue, which field the everywhere guard tests, which metric the everywhere arm reads, which expression goes to which parameter of allocate()) "
            "interpreted by the model (block_allocate_interprets_gen for all inputs; block_allocate_is_allocate: its answer is allocate()'s answer on the property's input; nil current pin / dropped user allocations / swapped factors / "
            "allocation metric instead of ping refuted with witnesses; an unexpected statement such as a short-cut makes the interpretation undefined); the daemon's wiring (cmd/ipfs-cluster-service/daemon.go: informer and allocator built and "
            "handed to NewCluster, the index of the informer whose metric allocate() asks for, the disk informer's default metric and its arithmetic) is regenerated and daemon_pairing_least_loaded_first / least_loaded_first_reading prove the shipped "
            "pair ranks less loaded peers first (swapped allocator, numpin+descend, a reordered informer list refuted); history_all_decisions_hold: by induction over ANY history of metric/peerset changes, strategy switches, pins, "
            "re-pins away from a failed peer and unpins over any number of CIDs, every decision satisfies every clause for the input at the time it was made and every stored allocation is the answer of such a decision; suite hist drives "
            "such histories through the real callers.",
    "note": "Trusted: Lean kernel (+propext, Classical.choice, Quot.sound), the hand-written model/spec, the Go harness and its store-backed monitor, "
            "verif_export.go wrappers. A non-numeric metric is treated as unusable for new allocations.",
    "technique": "Lean 4 theorem over relational model + regenerated source skeleton checked by decide + differential correspondence with the real allocate()",
}
