CHECK = {
    "suites": [suite("allocate", "c03", 6000, 600000, stdin=True),
               suite("raw", "c03", 2500, 120000, stdin=True, args=["-suite", "raw"]),
               suite("block", "c03", 2000, 80000, stdin=True, args=["-suite", "block"]),
               suite("seq", "c03", 2500, 100000, stdin=True, args=["-suite", "seq"]),
               suite("hist", "c03", 2000, 80000, stdin=True, args=["-suite", "hist"])],
    "gen": [{"pkg": "extract_c03", "out": "lean/ClusterVerif/Gen/C03.lean"}],
    "lean_sources": ["ClusterVerif/Model/C03Skeleton.lean", "ClusterVerif/Gen/C03.lean", "ClusterVerif/Model/C03.lean", "ClusterVerif/Spec/C03.lean", "ClusterVerif/Lemmas/C03.lean", "ClusterVerif/Lemmas/C03Sort.lean",
                     "ClusterVerif/Model/C03Pipeline.lean", "ClusterVerif/Lemmas/C03Pipeline.lean", "ClusterVerif/Model/C03Block.lean",
                     "ClusterVerif/Lemmas/C03Block.lean", "ClusterVerif/Spec/C03Block.lean", "ClusterVerif/Model/C03Alloc.lean", "ClusterVerif/Lemmas/C03Alloc.lean", "ClusterVerif/Model/C03Wiring.lean", "ClusterVerif/Model/C04.lean", "ClusterVerif/Model/Pin.lean"],
    "rule": "cases = (strategy, factor pair, 0-8 peers each in one of 5 metric states, current/exclusion/priority lists) "
            "drawn from one splitmix64 stream per case index; suite raw: 0-14 raw metric arrivals (3 names, members and non-members, invalid/expired/non-numeric, repeats in any order) "
            "+ peerset view (none / failing / members) through the real pubsubmon.Monitor; suite block: BlockAllocate requests (cid.Undef via adder.BlockAllocate, stored entry, factors, expiry, "
            "user allocations, follower, ping states); suite seq: three-step histories on one CID through the real Cluster.pin and vacatePeer->repinFromPeer "
            "(pin; pin again under another name = re-allocation from the stored pin; a peer's metric replaced by valid/expired/invalid/non-numeric and the peer vacated); non-trivial = positive factors or everywhere (-1,-1); distinct by case line",
    "trusted_base": ["suites allocate/block: metrics.Store-backed monitor stands in for pubsubmon (LatestValid is the real code); suite raw: the real pubsubmon.Monitor fed through LogMetric",
                     "verif_export.go wrappers (VerifNewCluster, VerifAllocate)"],
    "assumptions": ["time does not advance between LatestMetrics and the second Discard() test in SortNumeric",
                    "a non-numeric metric makes a peer unusable for new allocations under the shipped strategies"],
}
META = {
    "text": "Kernel-checked theorem allowed_holds: for every input (any peers, metric states, lists, factor pair, both strategies) and every "
            "output the model relation of allocate() admits under any map-iteration order and any tie-break of Go's unstable sort, all clauses "
            "of the property hold (no size bound). The relation is tied to today's code by running the real allocate()/allocators/metrics.Store "
            "on thousands of seeded cases per run and checking (a) the real output is in the relation and (b) the Lean property checker on the real output; "
            "and by a go/ast translator that regenerates the decision skeleton of allocate(), obtainAllocations(), isReplicationFactorValid() and the shipped "
            "allocators on every run, compared by `decide` with the skeleton the model was transcribed from (gen_* theorems). "
            "Round 7: the abstract metric-state input is derived, not assumed: pipeline_yields_states proves the composition of the transcribed Store/Window/LatestValid/peerset-filter steps "
            "over RAW metric arrivals equal to it (allowed_holds_raw), suite raw ties that transcription to the real pubsubmon.Monitor; classification_precedence is a theorem about the regenerated "
            "classifier structure for all overlaps of the three lists; sort_shape_sound about the regenerated discard/parse/comparison structure of SortNumeric; BlockAllocate (suite block) and Cluster.pin "
            "are proved to consult the same relation with the inputs the property names. "
            "Round 8: the shipped allocators, the argument order of the allocator call and repinFromPeer/vacatePeer are go/ast-regenerated STRUCTURES that the model interprets "
            "(allocate_interprets_gen for all inputs; swapped concatenation / direction / call arguments / a forgotten group refuted with witnesses; repin_input: the failed peer is the exclusion list, "
            "the stored holders the current ones); stable_of_count / allocate_idempotent (any admitted allocation is a fixed point of re-allocation under the same metrics, whatever the priority list); "
            "blacklisted_only_kept_verbatim (an excluded peer survives only in the verbatim stored list with min other healthy holders); holds_ok_iff / holds_err_iff / holds_everywhere_iff give the "
            "Prop-level reading of the Bool checker; suite seq drives pin -> re-pin -> vacatePeer histories through the real callers and checks every step (incl. stability and 'a failed re-pin changes nothing').",
    "note": "Trusted: Lean kernel (+propext, Classical.choice, Quot.sound), the hand-written model/spec, the Go harness and its store-backed monitor, "
            "verif_export.go wrappers. A non-numeric metric is treated as unusable for new allocations.",
    "technique": "Lean 4 theorem over relational model + regenerated source skeleton checked by decide + differential correspondence with the real allocate()",
}
