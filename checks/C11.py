CHECK = {
    "gen": [{"pkg": "extract_c11", "out": "lean/ClusterVerif/Gen/C11.lean"},
            {"pkg": "extract_c11b", "out": "lean/ClusterVerif/Gen/C11Send.lean"},
            {"pkg": "extract_c11c", "out": "lean/ClusterVerif/Gen/C11Client.lean"}],
    "suites": [suite("routes", "c11", 6000, 250000, stdin=True),
               suite("client", "c11", 2500, 60000, stdin=True, args=["-suite", "client"]),
               suite("add", "c11", 1500, 40000, stdin=True, args=["-suite", "add"])],
    "lean_sources": ["ClusterVerif/Model/Pin.lean", "ClusterVerif/Model/C11.lean", "ClusterVerif/Spec/C11.lean",
                     "ClusterVerif/Gen/C11.lean", "ClusterVerif/Lemmas/C11.lean",
                     "ClusterVerif/Model/C11Send.lean", "ClusterVerif/Gen/C11Send.lean",
                     "ClusterVerif/Model/C11Client.lean", "ClusterVerif/Gen/C11Client.lean"],
    "rule": "every case carries the server configuration sv=<Tracing><HTTPLogFile><TLS> (8 configurations, servers built on demand; a systematic sweep per non-default configuration, 1/3 of the random cases); routes suite: a fixed systematic sweep of 14.8k requests (every route template and 14 unknown paths x 7 methods x each path part valid/invalid x 47 credential situations = no credentials configured / two users / one user x the header grid {none, not base64, other scheme, no colon, known user x right|wrong|empty|other user's password, unknown user x configured|arbitrary|empty password, empty user x empty|right password, user name equal to a password, lower-case scheme}; "
            "every pin option valid / empty / each invalid variant and shadowing combinations on the 7 routes that parse pin options; local/filter values; "
            "JSON bodies; trailing-slash, unclean paths, CORS preflights; the three cluster answers) followed by seeded random requests "
            "(mostly-valid structured requests: route drawn with weights, 1/4 one path part invalid, 1/8 wrong method, options present w.p. ~0.2 of which 1/9 invalid, "
            "repeated keys, malformed escapes, metadata, credentials); client suite: every client method x credentials x cluster answer (1611 systematic, 13 client credential settings x 3 configurations) + random calls with generated "
            "options, paths (namespaced, bare, invalid, with URL-significant characters) and filters; add suite: multipart ok/none/junk x every add option valid/empty/invalid x pin options, "
            "buffered and streamed (556 systematic, full header grid) + the CID-builder grid hash {absent, sha2-256, sha3-512, blake2b-256} x cid-version {absent, 0, 1} x raw-leaves {absent, false, true} streamed and buffered and with wrap / chunker / trickle / progress (the same group drawn together in 1/4 of the random cases) + random; "
            "after every add case an addp case: the real api.AddParamsFromQuery on the same query, its AddParams printed field by field and compared with the Lean model addParams, clause options_exact (every add option carried by name arrives unchanged, absent ones have the documented defaults); the add case also reports the leaf form (raw/pb) of the blocks the recording IPFSConnector received and the root CID's version and codec are compared too; non-trivial = every case (each is constrained by the gate / refusal / faithfulness clauses); distinct by case line",
    "trusted_base": ["recording RPC services behind the real rest.API on loopback listeners (in-process gorpc, no authorization layer); the bundled client against the same servers",
                     "net/http error log as panic detector",
                     "the harness's classification of each request part with cid.Decode / peer.Decode and its naming tables",
                     "go/ast extractor extract_c11 (route table, handler chain per value of cfg.Tracing by symbolic execution of NewAPIWithHost, RPC names per handler, decision logic of basicAuthHandler)",
                     "go/ast extractor extract_c11b (body of sendResponse as a decision table, every api.sendResponse call site with status / error / value arguments and its guard on err)",
                     "go/ast extractor extract_c11c (every method of the bundled client that sends a request: verb, path template pieces with the escaping class of each hole, query pieces, body, pre-send refusals; the switch of handleResponse)"],
    "assumptions": ["a repeated query parameter counts with its first occurrence; an empty value counts as absent",
                    "HTTP-defined bodiless responses (204, HEAD), CORS preflights and the 3xx redirect of a non-canonical path are exempt from the single-JSON-document clause",
                    "options that mean nothing to the addressed route (pin options on status/recover/unpin routes, local other than true/false, unknown filter) may be ignored or refused"],
}
META = {
    "text": "Kernel-checked theorems over a Lean model of the REST request path (handler chain extracted from NewAPIWithHost, gorilla/mux routing over the "
            "route table extracted from routes(), one arm per handler): with credentials configured and no valid pair nothing is performed on any path and method; "
            "a request malformed for the route it addresses is refused 4xx with no operation; a well-formed one yields exactly the one RPC its route names with "
            "exactly the CID/path/options carried; responses are single JSON documents. On /add, AddParamsFromQuery is modelled field by field in the order the code applies "
            "the cid-version / hash / raw-leaves interplay (add_seen_exact: every accepted query yields AddParams carrying each add option exactly, an explicit raw-leaves or "
            "cid-version always wins; the reordered alternative is refuted with a witness) and compared with the real function and with the leaf form of the blocks put. "
            "sendResponse is translated statement by statement into a decision table that Lean interprets: for every status, error and value exactly one WriteHeader, at most one document, an error always answered >= 400 (the variant without the status<400 floor is refuted), and every handler's extracted sendResponse call sites (status argument, error argument, guard on err, return after a conditional answer) give exactly the status and document count of the model arm for each cluster answer. Every method of the bundled client (api/rest/client/methods.go) is translated into a table row (verb, path pieces with the escaping applied to each hole, query keys, body) that Lean interprets: the model's client request builder equals the interpretation of the regenerated table for every call (build_interpreted), every row addresses the route named like the method, no hole is filled unescaped, and client_server_inverse holds per row; handleResponse's status switch is regenerated and proved equal to the model's decoding. The model is tied to the code by regenerating the route table, wrapping "
            "order and per-handler RPC names on every run (decide theorems over them) and by sending thousands of requests to the real API over recording RPC "
            "services, comparing status, body shape and recorded operations with the model and evaluating the Lean property clauses on the implementation's outputs.",
    "note": "Trusted: Lean kernel, hand-written model/spec, harness (recording services, classification of inputs), extractor. Known deviations of the unchanged tree "
            "are recorded as K01d (client cannot decode a pin with origins), "
            "K24 (/add reports late errors as 200+trailer/500), K26 (client paths with '..' segments that climb out of /pins/<ns>/ perform another GET route).",
    "technique": "Lean 4 theorems over an executable request model + go/ast translator + differential correspondence over HTTP",
}
