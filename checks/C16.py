CHECK = {
    "suites": [suite("conversation", "c16", 3000, 30000, stdin=True, timeout={"quick": 600, "thorough": 2400})],
    "gen": [{"pkg": "extract_c16", "out": "lean/ClusterVerif/Gen/C16.lean"}],
    "lean_sources": ["ClusterVerif/Model/C16Source.lean", "ClusterVerif/Gen/C16.lean", "ClusterVerif/Model/C16.lean", "ClusterVerif/Spec/C16.lean", "ClusterVerif/Lemmas/C16.lean"],
    "rule": "cases = (op pin|unpin|PinLsCid, MaxDepth in {-2,-1,0,1,2,7}, Mode, update source none|other|same, 0-13 origins, UnpinDisable, "
            "prior daemon state u|d|r|i of every CID, one of 21 daemon behaviours per sequential request + one for swarm/connect, wire variant) "
            "from one splitmix64 stream per case index; every well-formed case is non-trivial; distinct by case line",
    "trusted_base": ["scripted fake IPFS daemon of harness/c16 (go-ipfs pinner semantics for honest answers, wire forms of the 21 behaviours)",
                     "net/http client and server of the Go standard library"],
    "assumptions": ["an IPFS error object in reply to pin/ls means 'not pinned' (the connector does not read the text)",
                    "a daemon that answers 200 has done what was asked, a daemon that answers non-200 has not, and it says 'not pinned' to pin/rm only for a CID it does not hold",
                    "connection drops are generated only in forms HTTP lets a client tell from completion (chunked or length-delimited bodies)",
                    "pin/ls of the update source and swarm/connect are advisory: their failures need not be reported",
                    "the requested mode is read off MaxDepth as IsPinned does (0 = direct, otherwise recursive); a pin with Mode recursive, MaxDepth 0 and an update source is outside the domain"],
}
META = {
    "text": "Kernel-checked theorems over a model of Connector.Pin/Unpin/PinLsCid talking to a daemon with a pin table and one scripted behaviour per request "
            "(21 wire forms in 11 classes): every output the model admits satisfies every clause of the property for all pins, prior tables and scripts, "
            "except for the one recorded finding (a stalled pin/update is never given up), whose negation is proved with a witness. "
            "Tied to today's code by running the real connector against a scripted fake HTTP daemon on loopback and comparing result class, request trace and "
            "final pin table with the model, and by evaluating the Lean property checker on the real outputs.",
    "note": "Trusted: Lean kernel, the hand-written model/spec, the fake daemon and its notion of an honest answer, Go net/http. Timing cases use a 60 ms PinTimeout "
            "and are repeated until two runs agree.",
    "technique": "regenerated source text of the anchored functions checked against the transcribed snapshot (rfl) + Lean 4 theorems over an executable conversation model + differential correspondence with the real ipfshttp.Connector",
}
