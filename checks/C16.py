CHECK = {
    "suites": [suite("conversation", "c16", 3000, 30000, stdin=True, timeout={"quick": 600, "thorough": 2400})],
    "gen": [{"pkg": "extract_c16", "out": "lean/ClusterVerif/Gen/C16.lean"}],
    "lean_sources": ["ClusterVerif/Model/C16Source.lean", "ClusterVerif/Model/C16Dec.lean", "ClusterVerif/Gen/C16.lean", "ClusterVerif/Model/C16Http.lean", "ClusterVerif/Model/C16.lean", "ClusterVerif/Model/C16Aux.lean", "ClusterVerif/Model/C16Ctx.lean", "ClusterVerif/Model/C16Req.lean", "ClusterVerif/Model/C16Seq.lean", "ClusterVerif/Spec/C16.lean", "ClusterVerif/Lemmas/C16Http.lean", "ClusterVerif/Lemmas/C16.lean", "ClusterVerif/Lemmas/C16Req.lean", "ClusterVerif/Lemmas/C16Seq.lean"],
    "rule": "cases = (op pin|unpin|PinLsCid, MaxDepth in {-2,-1,0,1,2,7}, Mode, update source none|other|same, 0-13 origins, UnpinDisable, "
            "prior daemon state u|d|r|i of every CID, one daemon behaviour per sequential request: a point of HTTP status (200, other 2xx, 3xx, 4xx, 5xx) x content type x "
            "13 body shapes x 6 transports (complete, nothing, cut, cut after the work was done, stalled before / inside the body) or one of the 21 named wire forms incl. the pin/add stream forms; "
            "one behaviour for swarm/connect, wire variant); every eighth case is one request of BlockGet|BlockPut|Resolve|SwarmPeers|RepoGC|ConfigKey answered by a point of the same product space, "
            "with a variant of the well-formed reply (sub-path, other key, undecodable peer, per-key GC error, missing config key) "
            "from one splitmix64 stream per case index; every well-formed case is non-trivial; distinct by case line",
    "trusted_base": ["scripted fake IPFS daemon of harness/c16 (go-ipfs pinner semantics for honest answers, wire forms of the behaviours)",
                     "harness/extract_c16: the symbolic path enumeration that turns doPostCtx/checkResponse/postCtx into decision tables (unknown constructs are emitted as `unknown` and fail closed)",
                     "harness/extract_c16/ctx.go: the walk that lists, per call of a Connector method taking a context, the WithTimeout / WithCancel / watchdog bounds in force (scoping of := followed; anything else touching ctx is emitted as `unknown` and counts as no bound)",
                     "harness/extract_c16/req.go: the reading of a request path (literal | fmt.Sprintf with %s verbs | literal + e) into endpoint and ordered query, the resolution of the expressions that fill it through single-assignment locals and the unique call site of an unexported helper, and the reading of the switch arms of pinArgs / ToPinMode / PinMode.String / IsPinned / IPFSPinStatusFromString (any other shape is emitted as `unknown` and yields no request / no table value)",
                     "harness/extract_c16/seq.go: the classification of the top-level statements of Pin / Unpin into the vocabulary Dec.SeqStmt (tracing, logging, stats, context plumbing and request-path locals skipped by their text; every other statement or shape is emitted as `unknown` and the interpreter then yields no output)",
                     "go-ipfs' defaults for options left out of a request, as written in ReqM.daemonReads and in the fake daemon: pin/update unpin=true, pin/add recursive=true progress=false, pin/rm recursive=true",
                     "net/http client and server of the Go standard library"],
    "assumptions": ["an IPFS error object in reply to pin/ls means 'not pinned' (the connector does not read the text)",
                    "a daemon that answers 200 has done what was asked, a daemon that answers non-200 has not, and it says 'not pinned' to pin/rm only for a CID it does not hold",
                    "connection drops are generated only in forms HTTP lets a client tell from completion (chunked or length-delimited bodies)",
                    "pin/ls of the update source and swarm/connect are advisory: their failures need not be reported",
                    "the requested mode is read off MaxDepth as IsPinned does (0 = direct, otherwise recursive); a pin with Mode recursive, MaxDepth 0 and an update source is outside the domain",
                    "the daemon honours the type= filter of pin/ls when a depth-0 pin with an update source is looked up (go-ipfs does; the counterexample for a filter-ignoring daemon is proved and replayed)"],
}
META = {
    "text": "Kernel-checked theorems over a model of Connector.Pin/Unpin/PinLsCid talking to a daemon with a pin table and one scripted behaviour per request "
            "from the product space status code x content type x body shape x transport. The HTTP helpers (doPostCtx, checkResponse, postCtx) are not transcribed: the model interprets "
            "decision tables regenerated from the source on every run, with post_success_iff (nil error exactly for status 200 with headers and a completely read body) and "
            "every method's success resting on it; every PinLsCid call site of the source is extracted and skip_only_if_confirmed proved per site. "
            "Which configured time ends which daemon request is a regenerated table too (Gen.ctxSites: for every call of a Connector method that takes a context, the "
            "context.WithTimeout(ipfs.config.F) / WithCancel / progress-watchdog bounds in force, go/ast with scoping): the model interprets it (runCtx: an unanswered request whose call chain "
            "Pin -> PinLsCid -> postCtx -> doPostCtx carries no configured deadline ends only with the caller's context), gen_steps_governed / gen_governor_table (decide) say that today every request of "
            "Pin, Unpin, PinLsCid and the six single-request methods is governed and by which field (look-ups ipfs_request_timeout, pin/update pin_timeout, pin/add the watchdog and no plain deadline, "
            "pin/rm unpin_timeout, repo/gc repogc_timeout), runCtx_errctx_iff characterises for ANY table when a call is left to the caller, pin_gives_up is the clause of the same name "
            "(a Pin never returns only because the caller's context ran out, whichever request stalls), with refutations for a look-up without deadline, a pin/update without deadline and a plain deadline in place of the watchdog. "
            "How every daemon request is BUILT is regenerated as well (Gen.reqSites: for pin/add, pin/update, pin/rm, pin/ls and swarm/connect the endpoint and the ordered query, each value a literal of the format string or the "
            "expression that fills it, resolved to the caller's pin; Gen.pinArgsTable, toPinModeTable, pinModeStringTable, isPinnedTable, fromStringTable: the arms of those switches) and interpreted: ReqM.wire evaluates a site for a pin, "
            "ReqM.daemonReads reads the query with go-ipfs' defaults for options left out (pin/update unpin=true), and the driver compares the implementation with runReq, whose trace is REBUILT from these tables. "
            "gen_req_upd (pin/update carries source, target in this order and an explicit unpin=false), gen_req_add (recursive=false exactly for depth 0, max-depth exactly for positive depths, progress=true), gen_req_ls (type=direct exactly for depth 0), gen_req_rm, "
            "gen_isPinned / gen_isPinned_asked (IsPinned for every status x depth is the model's `asked`), gen_fromString_types (go-ipfs' Type texts incl. `indirect through <cid>`), rebuildTrace_run / runReq_eq_run / allowedReq_holds (for all inputs), "
            "and the refutation omitted_unpin_reads_true / omitted_unpin_loses_source (seeded change C16g as a table: the interpreted model predicts the loss of the source's pin). "
            "The STATEMENT ORDER of Pin and Unpin is regenerated too (Gen.pinSeq, Gen.unpinSeq: look-up, test of its error, short-cut test with its depth, deferred metric update, origins loop with its cap, the update branch with the look-up of the source and its IsPinned(-1) test, progress call, returns; for Unpin the disabled test, the pin/rm request and the tolerated error texts) and interpreted (Seq.interp; an unknown statement yields no output): "
            "gen_pinSeq_is_pin / gen_unpinSeq_is_unpin (today's bodies, run statement by statement, are the transcribed model, all inputs), allowedSeq_holds (what the driver also compares with satisfies every clause), gen_metric_iff_mutation (updateInformerMetric is armed exactly when a pin/add, pin/update or pin/rm was sent; model-level, not observed), "
            "and refutations with concrete inputs for a probe error answered with nil, a dropped test of the probe's error, a short-cut tested against another depth and another tolerated error text in Unpin. "
            "Every output the model admits satisfies every clause of the property for all pins, prior tables and scripts (allowed_holds, full since the repair of K28). "
            "Tied to today's code by running the real connector against a scripted fake HTTP daemon on loopback and comparing result class, request trace and "
            "final pin table with the model, and by evaluating the Lean property checker on the real outputs.",
    "note": "Trusted: Lean kernel, the hand-written model/spec, the fake daemon and its notion of an honest answer, Go net/http. Timing cases use a 60 ms PinTimeout "
            "and are repeated until two runs agree.",
    "technique": "semantic translator (go/ast symbolic path enumeration of the HTTP helpers into decision tables interpreted by the model; PinLsCid call sites; context-governance table of every daemon call interpreted by the model; request-construction table of every daemon request and the switch tables of pinArgs / api/types.go interpreted by the model; statement order of Pin / Unpin as a regenerated sequence interpreted by the model) + regenerated source text of the anchored functions checked against the transcribed snapshot (rfl) + Lean 4 theorems over an executable conversation model + differential correspondence with the real ipfshttp.Connector",
}
