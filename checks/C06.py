CHECK = {
    "suites": [suite("tracker", "c06", 20000, 250000, stdin=True, args=["-mode", "t"]),
               suite("global", "c06", 5000, 50000, stdin=True, args=["-mode", "g"]),
               suite("faults", "c06", 6000, 80000, stdin=True, args=["-mode", "tf"]),
               suite("recover", "c06", 2500, 30000, stdin=True, args=["-mode", "tr"]),
               suite("filters", "c06", 4000, 60000, stdin=True, args=["-mode", "fs"]),
               suite("rpc", "c06", 2500, 40000, stdin=True, args=["-mode", "tp"]),
               suite("optracker", "c06", 3000, 60000, stdin=True, args=["-mode", "to"])],
    "gen": [{"pkg": "extract_c06", "out": "lean/ClusterVerif/Gen/C06.lean"}],
    "lean_sources": ["ClusterVerif/Model/C06.lean", "ClusterVerif/Spec/C06.lean", "ClusterVerif/Lemmas/C06.lean",
                     "ClusterVerif/Lemmas/C06F.lean", "ClusterVerif/Gen/C06.lean", "ClusterVerif/Model/C06S.lean",
                     "ClusterVerif/Spec/C06S.lean", "ClusterVerif/Lemmas/C06S.lean", "ClusterVerif/Model/C06O.lean", "ClusterVerif/Spec/C06O.lean"],
    "rule": "tracker cases = (this peer, 0-9 CIDs each with a pinset entry (absent/meta/allocated elsewhere/here/everywhere, recursive or direct), "
            "what the daemon holds (unpinned/direct/recursive/indirect), the last operation and its phase; filter 0, the 12 single statuses, bit 0, the "
            "composites and random unions incl. bits above 2^13); global cases = member list (reachable/unreachable/refusing peers), pinset entry, "
            "per-peer replies, plus a fault stream (consensus.Peers / state failing, a member that never answers, a member answering about another cid, "
            "repeated or missing list entries); faults cases = a tracker case + a fault stream (half none, else 1-2 of getState, State.List at once or mid-way "
            "through the real dsstate, PinLs direct / recursive, State.Get of a cid, PinLsCid of a cid) + an answer stream (1 in 6: arbitrary type-string classes "
            "per cid incl. unknown strings), PinInfo bits of both views; recover cases = a tracker case, Recover on every cid or RecoverAll, views read before "
            "and right after; the fault distribution is the arm histogram (f-*, unknown-type, incoherent-daemon, g?-peers-fails, g?-timeout, ...); "
            "filters cases = a filter text (0-4 tokens: status names, near misses, empty tokens, spaces, odd separators), a mask (0, single, composite, "
            "almost-composite, random 13-bit, with bits above 2^13 or bit 0), a status, local or not; "
            "rpc cases = a tracker case with at most five filters, every view read through Cluster.*Local (local RPC), PinTracker.* (from a second "
            "host), Cluster.StatusAll/Status (one-member cluster); "
            "optracker cases = 0-9 TrackNewOperation calls on 1-5 CIDs (types pin/unpin/remote, 1 in 8 unknown/shard/out of range; phases incl. out of range) "
            "and 0-3 filters (OperationType or Phase values), read by GetAll, Status and Filter(filters...); "
            "one splitmix64 stream per case index; non-trivial = non-empty universe with the daemon answering / non-follower; distinct by case line",
    "trusted_base": ["scripted IPFSConnector RPC service stands in for ipfshttp (PinLsCid asks for the pin's own type, PinLs(type) lists that type; it keeps type "
                     "strings and turns them into statuses with the real IPFSPinStatusFromString; scripted failures per call)",
                     "faulty datastore under the real dsstate (Query fails at once or yields an error result mid-way), State.Get wrapper failing for chosen cids",
                     "fake consensus (Peers, State) behind the real Cluster; member trackers answer canned replies over real gorpc/libp2p loopback streams",
                     "verif_export.go wrapper VerifNewCluster",
                     "filters suite: recording Cluster RPC service behind the real rest.API and the real REST client over loopback HTTP; "
                     "url.QueryEscape / URL.Query() taken as the identity on the filter text",
                     "rpc suite: a Cluster assembled by VerifNewCluster (host, tracker, one-member fake consensus) with its real newRPCServer; "
                     "two loopback libp2p hosts"],
    "assumptions": ["quiescent = the last operation of a CID is the one the pinset calls for and the daemon answers pin/ls",
                    "the tracker's OperationRemote (housekeeping unpin for pins allocated elsewhere) is not a 'last pin or unpin' of the statement",
                    "a member's reply carries its own peer ID",
                    "a listing that is empty in a case with a fault on the listing's path reports that failure (StatusAll has no error return)",
                    "agreement, the truth clauses and the filter law are read for daemon answers that come from some IPFS pin set; 'pinned needs the daemon's "
                    "confirmation', fault reporting, well-formedness and the PinInfo clauses for every answer"],
}
META = {
    "text": "Kernel-checked theorems over an executable model of Status/StatusAll/localStatus/ipfsStatusAll, Operation.ToTrackerStatus, Match and "
            "globalPinInfoCid/Slice: the filter law statusAll f = (statusAll 0).filter (match f) for every natural-number filter; both views truthful "
            "and equal on every CID except the recorded K02 situation (where both are error statuses); each peer at most once in the cluster-wide maps, "
            "allocated peers with their report or cluster_error, other members remote. Round 7: the same views with every resource failing (getState, "
            "State.List also mid-way, State.Get, PinLs, PinLsCid, consensus.Peers, member calls) - agreement or a reported fault, nothing pinned without the "
            "daemon's confirmation, listings all-or-nothing, failed members marked cluster_error in every listed CID; the filter law for every daemon answer that "
            "is a pinned type and its refutation for unknown type strings; IPFSPinStatusFromString / IsPinned regenerated; error text iff error status (except the "
            "recorded K06e); Recover / RecoverAll answers equal the views read right after. The model is tied to today's code by running the real tracker "
            "(real dsstate, real operation tracker, scripted daemon) and the real Cluster.Status/StatusAll (real gorpc over loopback libp2p hosts) on "
            "thousands of seeded cases and checking (a) the model reproduces every observation and (b) the Lean property checker on the real outputs; "
            "status constants and the two translation tables are regenerated from the linked packages on every run. Round 8: the filter's way from text "
            "to the tracker - the trackerStatusString table, the composite definitions, the expression TrackerStatus.Match returns, the loop condition "
            "of TrackerStatus.String, the strip/split/combine of TrackerStatusFromString and the guards of the REST handler, the REST client and "
            "ipfs-cluster-ctl are read from the source with go/ast and INTERPRETED by the model (a changed operator, constant, name or guard changes the "
            "model's behaviour); theorems for every status / filter / text: the interpreted Match is the model's matchF, a non-empty text is refused exactly "
            "when it names nothing and never means 'all', a comma-separated text means the union of its parts, matching a union is matching one part (the "
            "listing for f|g is the union of the listings), Split(Join(names)) gives the names back; which tracker method each RPC entry point calls and "
            "with which argument is regenerated (rpc_api.go, cluster.go). The real TrackerStatusFromString / String / Match, the real REST handler "
            "(GET /pins?filter=) and the real REST client are run on thousands of texts and masks: the Spec (text = union of named statuses, refusal, "
            "print-and-parse keeps the named statuses, the filter that reaches Cluster.StatusAll[Local]) and equality with the model. "
            "Round 8b: print-then-parse is proved for EVERY mask and every map order (parse(print f) = f & named bits; the or of all table values "
            "contained in f is f & 8190) and so is the filter the Cluster RPC receives from the REST client (named statuses, or refused - never "
            "'all'); Cluster.StatusAll shows only members for every member list / reply table, and for a one-member cluster it is the member's "
            "own listing. Suite rpc: the same tracker cases read through the REAL RPC server of a Cluster (newRPCServer with DefaultRPCPolicy): "
            "Cluster.StatusLocal / StatusAllLocal by local RPC (judged by the whole tracker Spec and the model), PinTracker.Status / StatusAll "
            "called by a second libp2p host over a stream, Cluster.StatusAll / Status of the one-member cluster - all routes must show the same view. "
            "Round 8c: pintracker/optracker - the nested switch of trackerStatus (Operation.ToTrackerStatus), the type switch of filter, the shape of "
            "filterOpsMap (Filter / filterOps) and the keep-the-ongoing-operation guard of TrackNewOperation are read with go/ast and INTERPRETED; theorems: "
            "the interpreted switch is the documented type x phase table for EVERY type and phase value (anything else undefined) and equals the real function "
            "evaluated on 6 x 5 values; Filter with at least one filter lists exactly the tracked operations matching every filter (any filter list), "
            "independent of filter order, nothing without filters (and the refutation of 'no filter = all'); type+phase filters list only the status "
            "ToTrackerStatus gives. Suite optracker: the REAL OperationTracker driven by TrackNewOperation sequences, GetAll / Status / Filter "
            "judged by a Spec written from the doc comments and compared with the model. "
            "Round 8 final: the cluster-wide LISTING (globalPinInfoSlice) for ARBITRARY member lists, reply tables and errors (induction over members, "
            "each reply, the unreachable members): every cell is exactly cluster_error (unreachable) / the member's last report for the CID / absent "
            "(refused, non-member) - gs_cell; own-report and allocated clauses hold for every input, others-remote holds exactly when no non-allocated "
            "member is unreachable or reports something else (gs_holds, refutation gs_others_remote_not_all = K04); holdsF (the fault clause list) "
            "= its Prop reading (holdsF_iff).",
    "note": "Trusted: Lean kernel (+propext, Classical.choice, Quot.sound), hand-written model/spec, the Go harness with its scripted daemon and canned "
            "member replies. Known findings K02/K02f (Status says pin_error where StatusAll says unexpectedly_unpinned), K04 (unreachable member cluster_error for every "
            "listed CID), K06e/K06r (status remote with an error text after a failed housekeeping unpin) are reported as KNOWN-FINDING.",
    "technique": "Lean 4 theorems over a functional model + generated constant tables + differential correspondence with the real tracker and Cluster",
}
