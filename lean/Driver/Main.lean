import Driver.C03
/-! `cvdriver`: reads case lines on stdin, answers one line per case.
    Core Lean only, so that it links as an executable. -/
open CV

def dispatch (line : String) : String :=
  match Parse.words line with
  | "C03" :: ws => C03.answer ws
  | [] => "skip"
  | w :: _ => if w.startsWith "#" then "skip" else "bad-case unknown-model " ++ w

partial def loop (h : IO.FS.Stream) (out : IO.FS.Stream) : IO Unit := do
  let line ← h.getLine
  if line.isEmpty then return ()
  out.putStrLn (dispatch line.trimAscii.toString)
  loop h out

def main : IO Unit := do
  let out ← IO.getStdout
  loop (← IO.getStdin) out
  out.flush
