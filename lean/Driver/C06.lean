import ClusterVerif.Spec.C06
import ClusterVerif.Spec.C06S
import ClusterVerif.Model.C06S
import ClusterVerif.Model.C06O
import ClusterVerif.Spec.C06O
import Driver.Parse
/-!
Line protocol of the C06 harness (tokens after the leading `C06`):

  t  <self> <up01> <recs> <filters> => S=<cid:st,..> L<f>=<cid:st,..> ...      (tracker views)
  gc <self> <follower01> <members> <pin|-> <replies> => <peer:st,..> | err       (Cluster.Status)
  gs <self> <follower01> <members> <pins> <replies> => c<cid>=<peer:st,..> ...   (Cluster.StatusAll)

  tf <self> <faults> <recs> <filters> => S=.. SI=<cid:bits,..> L<f>=.. LI=<cid:bits,..>   (tracker views, failing resources / any daemon answer)
  tr <self> <e|a> <recs> => B=<cid:st,..> R=<cid:st,..> A=<cid:st,..> E=<cid:0|1,..>                   (Recover / RecoverAll against the views)
  gc/gs: members "!" = consensus.Peers fails; gc pin "!" = the state fails; reply "t" = the call never answers (context ends)

  faults  = "-" | gs,ls,lm,pd,pr,g<cid>,c<cid>  (getState, State.List, State.List mid-way, PinLs direct, PinLs recursive, State.Get cid, PinLsCid cid)
  rec     = <cid>:<pin>:<ipfs u|d|r|i>:<op>       records joined by "/", "-" when none
            tf: ipfs may also be <lsD><lsR><lsCid> with lsD,lsR in -drib and lsCid in udrib (b = unknown type string)
  pin     = "-" | P<meta01>,<rmin>,<rmax>,<depth>,<alloc.alloc...|x>
  op      = n | <p|u|r><e|q|i|d>                   (pin/unpin/remote)(error/queued/in progress/done)
  replies = gc: <peer>:o<st> | <peer>:e | <peer>:a  joined by ","
            gs: <peer>=o<cid:st.cid:st..> | <peer>=e | <peer>=a  joined by "/"
-/
namespace CV.C06
open CV.Parse

def splitOnChar (s : String) (sep : String) : List String := s.splitOn sep

def parsePin (s : String) : Option (Option Pin) :=
  if s == "-" then some none else
  if !s.startsWith "P" then none else
  match ((s.drop 1).toString).splitOn "," with
  | [m, a, b, d, al] => do
    let isMeta ← bool01 m
    let rmin ← a.toInt?
    let rmax ← b.toInt?
    let depth ← d.toInt?
    let allocs ← if al == "x" then some [] else (al.splitOn ".").mapM String.toNat?
    pure (some { isMeta, rmin, rmax, allocs, depth })
  | _ => none

def parseIpfs : String → Option Ipfs
  | "u" => some .unpinned | "d" => some .direct | "r" => some .recursive | "i" => some .indirect
  | _ => none

def parseOp (s : String) : Option (Option Op) :=
  if s == "n" then some none else
  match s.toList with
  | [t, p] => do
    let typ ← match t with | 'p' => some OpType.pin | 'u' => some .unpin | 'r' => some .remote | _ => none
    let phase ← match p with | 'e' => some Phase.error | 'q' => some .queued | 'i' => some .inProgress | 'd' => some .done | _ => none
    pure (some { typ, phase })
  | _ => none

def parseRec (s : String) : Option Rec :=
  match s.splitOn ":" with
  | [c, p, f, o] => do
    pure { cid := ← c.toNat?, pin := ← parsePin p, ipfs := ← parseIpfs f, op := ← parseOp o }
  | _ => none

def parseRecs (s : String) : Option (List Rec) :=
  if s == "-" then some [] else (s.splitOn "/").mapM parseRec

def parsePair (sep : String) (s : String) : Option (Nat × Nat) :=
  match s.splitOn sep with
  | [a, b] => do pure (← a.toNat?, ← b.toNat?)
  | _ => none

def parsePairs (s : String) : Option (List (Nat × Nat)) := listOf (parsePair ":") s

def parseOutTok (acc : Output) (s : String) : Option Output :=
  match s.splitOn "=" with
  | [k, v] =>
    if k == "S" then do pure { acc with each := ← parsePairs v }
    else if k.startsWith "L" then do
      let f ← ((k.drop 1).toString).toNat?
      pure { acc with lists := acc.lists ++ [(f, ← parsePairs v)] }
    else none
  | _ => none

def parseOutput (ws : List String) : Option Output :=
  ws.foldlM parseOutTok { each := [], lists := [] }

def showPairs (l : List (Nat × Nat)) : String :=
  if l.isEmpty then "-" else ",".intercalate (l.map (fun e => toString e.1 ++ ":" ++ toString e.2))

/-! ### tracker cases -/

def kindOf (i : Input) (r : Rec) : String :=
  if r.isMetaPin then "meta" else if r.expectedHere i.self then "here"
  else if r.elsewhere i.self then "elsewhere" else "absent"

def ipfsCode : Ipfs → String
  | .unpinned => "u" | .direct => "d" | .recursive => "r" | .indirect => "i"

def opCode (r : Rec) : String :=
  match r.op with
  | none => "noop"
  | some o =>
    if o.phase == .done then "noop" else
    (match o.typ with | .pin => "p" | .unpin => "u" | .remote => "r") ++
    (match o.phase with | .error => "e" | .queued => "q" | .inProgress => "i" | .done => "d")

/-- facts and both views of one CID, for failure signatures -/
def describe (i : Input) (o : Output) (r : Rec) : String :=
  kindOf i r ++ ":held" ++ (if r.held then "1" else "0") ++ ":ipfs" ++ ipfsCode r.ipfs ++ ":" ++ opCode r ++
  ":S" ++ toString (viewS o r) ++ ":L" ++ toString (viewL o r)

def recWhy (i : Input) (o : Output) (name : String) (bad : Rec → Bool) : List String :=
  (i.recs.filter bad).map (fun r => name ++ "@" ++ describe i o r)

def bothBad (i : Input) (o : Output) (ok : Input → Rec → Nat → Bool) (r : Rec) : Bool :=
  quiescent i r && !(ok i r (viewS o r) && ok i r (viewL o r))

def why (i : Input) (o : Output) : List String :=
  recWhy i o "views_agree" (fun r => !agreeStrict i o r) ++
  recWhy i o "views_agree_errclass" (fun r => !agreeErrClass i o r) ++
  recWhy i o "truth_pinned" (bothBad i o okPinned) ++
  recWhy i o "truth_remote" (bothBad i o okRemote) ++
  recWhy i o "truth_sharded" (bothBad i o okSharded) ++
  recWhy i o "truth_unpinned" (bothBad i o okUnpinned) ++
  recWhy i o "truth_error" (bothBad i o okError) ++
  recWhy i o "truth_pending" (bothBad i o okPending) ++
  recWhy i o "known_status" (fun r => i.ipfsUp && !(okKnown (viewS o r) && okKnown (viewL o r))) ++
  (if i.ipfsUp then (o.lists.filter (fun e => !filterLawFor o e)).map (fun e => "filter_law@f=" ++ toString e.1) else []) ++
  (o.lists.filter (fun e => !listingWf i e.2)).map (fun e => "listing_wf@f=" ++ toString e.1)

/-- which arm of the model a record reaches -/
def recArm (i : Input) (r : Rec) : String :=
  match opEntry r with
  | some _ => "op-" ++ opCode r
  | none =>
    match r.pin with
    | none => "absent"
    | some p =>
      if p.isMeta then "meta" else if p.isRemote i.self then "remote"
      else if !i.ipfsUp then "ipfs-down"
      else if r.held then (if p.direct then "pinned-direct" else "pinned-recursive")
      else if r.ipfs == .direct || r.ipfs == .recursive then "mode-mismatch"
      else "missing"

def dedupStr : List String → List String
  | [] => []
  | x :: xs => if xs.contains x then dedupStr xs else x :: dedupStr xs

def arms (i : Input) : String :=
  let l := dedupStr (i.recs.map (recArm i))
  if l.isEmpty then "arm=empty" else " ".intercalate (l.map (fun a => "arm=" ++ a))

/-- first observation the model does not reproduce -/
def modelDiff (i : Input) (o : Output) : Option String :=
  if o.each != statusEach i then some ("S=" ++ showPairs (statusEach i))
  else
    match o.lists.find? (fun e => e.2 != statusAll i e.1) with
    | some e => some ("L" ++ toString e.1 ++ "=" ++ showPairs (statusAll i e.1))
    | none => none

def answerTX (extra : List (String × Bool)) (extraWhy : List String) (tag : String) (pre post : List String) : String :=
  match pre with
  | [self, up, recs, filters] =>
    match (do
      let i : Input := { self := ← self.toNat?, ipfsUp := ← bool01 up, recs := ← parseRecs recs }
      let fs ← nats filters
      pure (i, fs)) with
    | none => "bad-case unparsable-input"
    | some (i, fs) =>
      if !wf i then "bad-case not-wf" else
      if post == ["panic"] then "propfail no_panic " ++ tag ++ arms i else
      match parseOutput post with
      | none => "bad-case unparsable-output"
      | some o =>
        if o.lists.map (·.1) != fs then "bad-case filters-mismatch"
        else if !fs.contains 0 then "bad-case no-filter-0"
        else
          let failed := (clauses i o ++ extra).filter (fun c => !c.2)
          let md := modelDiff i o
          if !failed.isEmpty then
            "propfail " ++ ",".intercalate (failed.map (·.1)) ++ " " ++ tag ++ arms i ++
              " why=" ++ ";".intercalate (why i o ++ extraWhy) ++ (if md.isSome then " modeldiff" else "")
          else
            match md with
            | some m => "diff " ++ tag ++ arms i ++ " model=" ++ m
            | none => "ok " ++ tag ++ arms i ++ (if i.recs.isEmpty || !i.ipfsUp then " trivial" else "")
  | _ => "bad-case arity"

def answerT (pre post : List String) : String := answerTX [] [] "" pre post

/-! ### the views through the RPC layer (`tp`, round 8b) -/

def parseHopTok (acc : SpecH.Obs) (s : String) : Option SpecH.Obs :=
  match s.splitOn "=" with
  | [k, v] =>
    if k == "S" then do pure { acc with each := ← parsePairs v }
    else if k == "PS" then do pure { acc with pEach := ← parsePairs v }
    else if k == "GS" then do pure { acc with gEach := ← parsePairs v }
    else if k == "X" then do pure { acc with closed := ← bool01 v }
    else if k.startsWith "PL" then do
      pure { acc with pLists := acc.pLists ++ [(← ((k.drop 2).toString).toNat?, ← parsePairs v)] }
    else if k.startsWith "GL" then do
      pure { acc with gLists := acc.gLists ++ [(← ((k.drop 2).toString).toNat?, ← parsePairs v)] }
    else if k.startsWith "L" then do
      pure { acc with lists := acc.lists ++ [(← ((k.drop 1).toString).toNat?, ← parsePairs v)] }
    else none
  | _ => none

def answerTP (pre post : List String) : String :=
  if post == ["panic"] then answerTX [] [] "arm=rpc-hop " pre post else
  match post.foldlM parseHopTok { each := [], lists := [], pEach := [], pLists := [], gEach := [], gLists := [], closed := false } with
  | none => "bad-case unparsable-output"
  | some h =>
    let tPost := post.filter (fun s => s.startsWith "S=" || s.startsWith "L")
    let cl := SpecH.clauses h
    let hw := (cl.filter (fun c => !c.2)).map (fun c => c.1 ++ "@rpc")
    let tag := "arm=rpc-hop " ++ (if h.gEach.isEmpty then "" else "arm=rpc-cluster-status ") ++
      (if h.lists.any (fun e => e.1 != 0 && !e.2.isEmpty) then "arm=rpc-filtered-nonempty " else "")
    answerTX cl hw tag pre tPost

/-! ### tracker cases with failing resources (`tf`) -/

def parseAnsChar (c : Char) : Option (Option IpfsStatus) :=
  match c with
  | '-' => some none | 'd' => some (some .direct) | 'r' => some (some .recursive)
  | 'i' => some (some .indirect) | 'b' => some (some .bug) | _ => none

def parseCidAns (c : Char) : Option IpfsStatus :=
  match c with
  | 'u' => some .unpinned | 'd' => some .direct | 'r' => some .recursive | 'i' => some .indirect | 'b' => some .bug
  | _ => none

def parseAns (pin : Option Pin) (s : String) : Option DaemonAns :=
  match s.toList with
  | [c] => do pure (wellBehaved pin (← parseIpfs (String.singleton c)))
  | [a, b, c] => do
    let lsD ← parseAnsChar a
    let lsR ← parseAnsChar b
    let lsCid ← parseCidAns c
    pure { lsD, lsR, lsCid }
  | _ => none

def parseFRec (getE cidE : List Nat) (s : String) : Option FRec :=
  match s.splitOn ":" with
  | [c, p, f, o] => do
    let cid ← c.toNat?
    let pin ← parsePin p
    pure { cid, pin, ans := ← parseAns pin f, op := ← parseOp o,
           getErr := getE.contains cid, lsCidErr := cidE.contains cid }
  | _ => none

structure Faults where
  stateErr : Bool := false
  listErr : Bool := false
  lsDErr : Bool := false
  lsRErr : Bool := false
  getE : List Nat := []
  cidE : List Nat := []

def parseFault (acc : Faults) (t : String) : Option Faults :=
  if t == "gs" then some { acc with stateErr := true }
  else if t == "ls" || t == "lm" then some { acc with listErr := true }
  else if t == "pd" then some { acc with lsDErr := true }
  else if t == "pr" then some { acc with lsRErr := true }
  else if t.startsWith "g" then do pure { acc with getE := acc.getE ++ [← ((t.drop 1).toString).toNat?] }
  else if t.startsWith "c" then do pure { acc with cidE := acc.cidE ++ [← ((t.drop 1).toString).toNat?] }
  else none

def parseFaults (s : String) : Option Faults :=
  if s == "-" then some {} else (s.splitOn ",").foldlM parseFault {}

def parseOutTokF (acc : OutputF) (s : String) : Option OutputF :=
  match s.splitOn "=" with
  | [k, v] =>
    if k == "S" then do pure { acc with each := ← parsePairs v }
    else if k == "SI" then do pure { acc with eachInfo := ← parsePairs v }
    else if k == "LI" then do pure { acc with listInfo := ← parsePairs v }
    else if k.startsWith "L" then do
      let f ← ((k.drop 1).toString).toNat?
      pure { acc with lists := acc.lists ++ [(f, ← parsePairs v)] }
    else none
  | _ => none

def opCodeO (o : Option Op) : String :=
  match o with
  | none => "noop"
  | some o =>
    if o.phase == .done then "noop" else
    (match o.typ with | .pin => "p" | .unpin => "u" | .remote => "r") ++
    (match o.phase with | .error => "e" | .queued => "q" | .inProgress => "i" | .done => "d")

def describeF (i : FInput) (o : OutputF) (r : FRec) : String :=
  match r.coherentHeld with
  | some h =>
    let r0 := r.toRec h
    let i0 : Input := { self := i.self, ipfsUp := true, recs := [] }
    kindOf i0 r0 ++ ":held" ++ (if r0.held then "1" else "0") ++ ":ipfs" ++ ipfsCode h ++ ":" ++ opCodeO r.op ++
      ":S" ++ toString (viewSF o r) ++ ":L" ++ toString (viewLF o r)
  | none => "incoherent:" ++ opCodeO r.op ++ ":S" ++ toString (viewSF o r) ++ ":L" ++ toString (viewLF o r)

/-- model's PinInfo bits for the per-CID view and for a listed entry -/
def infoBitsS (i : FInput) (r : FRec) : Nat := 23 + (if errTextS i r then 8 else 0)
def errTextL (r : FRec) (st : Nat) : Bool :=
  match r.op with
  | some o => if o.phase == .done then isErr st else o.phase == .error
  | none => isErr st
def infoBitsL (r : FRec) (st : Nat) : Nat := 23 + (if errTextL r st then 8 else 0)

def whyF (i : FInput) (o : OutputF) : List String :=
  ((i.recs.filter (fun r => !agreeF i o r)).map (fun r => "fa_views_agree@" ++ describeF i o r)) ++
  ((i.recs.filter (fun r => !agreeStrictF i o r)).map (fun r => "fa_views_agree_strict@" ++ describeF i o r)) ++
  ((i.recs.filter (fun r => !truthF i o r)).map (fun r => "fa_truth@" ++ describeF i o r)) ++
  ((i.recs.filter (fun r => !faultReported i o r)).map (fun r => "fa_fault_reported@" ++ describeF i o r)) ++
  (if i.recs.all saneListing then (o.lists.filter (fun e => !filterLawF i o e)).map (fun e => "fa_filter_law@f=" ++ toString e.1) else []) ++
  ((o.lists.filter (fun e => !completeF i o e)).map (fun e => "fa_no_partial_listing@f=" ++ toString e.1)) ++
  ((i.recs.filter (fun r => match lookup o.eachInfo r.cid with
      | some b => !infoOk (viewSF o r) b | none => false)).map (fun r =>
        "info_ok@S:" ++ opCodeO r.op ++ ":st" ++ toString (viewSF o r) ++ ":b" ++ toString ((lookup o.eachInfo r.cid).getD 0))) ++
  ((i.recs.filter (fun r => match lookup o.listInfo r.cid with
      | some b => !infoOk (viewLF o r) b | none => false)).map (fun r =>
        "info_ok@L:" ++ opCodeO r.op ++ ":st" ++ toString (viewLF o r) ++ ":b" ++ toString ((lookup o.listInfo r.cid).getD 0)))

def armsF (i : FInput) (fl : Faults) (lm : Bool) : String :=
  let a := (if i.stateErr then ["f-getstate"] else []) ++ (if i.listErr then [if lm then "f-list-midway" else "f-list"] else []) ++
    (if i.lsDErr then ["f-pinls-direct"] else []) ++ (if i.lsRErr then ["f-pinls-recursive"] else []) ++
    (if fl.getE.isEmpty then [] else ["f-get"]) ++ (if fl.cidE.isEmpty then [] else ["f-pinlscid"]) ++
    (if i.recs.any (fun r => r.ans.lsD == some .bug || r.ans.lsR == some .bug || r.ans.lsCid == .bug) then ["unknown-type"] else []) ++
    (if i.recs.any (fun r => r.coherentHeld.isNone) then ["incoherent-daemon"] else [])
  let a := if a.isEmpty then ["no-fault"] else a
  " ".intercalate (a.map (fun x => "arm=" ++ x))

def modelDiffF (i : FInput) (o : OutputF) : Option String :=
  if o.each != statusEachF i then some ("S=" ++ showPairs (statusEachF i))
  else
    match o.lists.find? (fun e => e.2 != statusAllF i e.1) with
    | some e => some ("L" ++ toString e.1 ++ "=" ++ showPairs (statusAllF i e.1))
    | none =>
      let si := i.recs.map (fun r => (r.cid, infoBitsS i r))
      let li := i.recs.filterMap (fun r => (listEntryF i 0 r).map (fun st => (r.cid, infoBitsL r st)))
      if o.eachInfo != si then some ("SI=" ++ showPairs si)
      else if o.listInfo != li then some ("LI=" ++ showPairs li)
      else none

def answerTF (pre post : List String) : String :=
  match pre with
  | [self, faults, recs, filters] =>
    match (do
      let fl ← parseFaults faults
      let rs ← if recs == "-" then some [] else (recs.splitOn "/").mapM (parseFRec fl.getE fl.cidE)
      let i : FInput := { self := ← self.toNat?, stateErr := fl.stateErr, listErr := fl.listErr,
                          lsDErr := fl.lsDErr, lsRErr := fl.lsRErr, recs := rs }
      let fs ← nats filters
      pure (i, fl, fs)) with
    | none => "bad-case unparsable-input"
    | some (i, fl, fs) =>
      if !wfF i then "bad-case not-wf" else
      if !(fl.getE ++ fl.cidE).all (fun c => i.recs.any (fun r => r.cid == c)) then "bad-case fault-on-unknown-cid" else
      let lm := (faults.splitOn ",").contains "lm"
      if post == ["panic"] then "propfail no_panic " ++ armsF i fl lm else
      match post.foldlM parseOutTokF { each := [], eachInfo := [], lists := [], listInfo := [] } with
      | none => "bad-case unparsable-output"
      | some o =>
        if o.lists.map (·.1) != fs then "bad-case filters-mismatch"
        else if !fs.contains 0 then "bad-case no-filter-0"
        else
          let failed := (clausesF i o).filter (fun c => !c.2)
          let md := modelDiffF i o
          if !failed.isEmpty then
            "propfail " ++ ",".intercalate (failed.map (·.1)) ++ " " ++ armsF i fl lm ++
              " why=" ++ ";".intercalate (whyF i o) ++ (if md.isSome then " modeldiff" else "")
          else
            match md with
            | some m => "diff " ++ armsF i fl lm ++ " model=" ++ m
            | none => "ok " ++ armsF i fl lm ++ (if i.recs.isEmpty then " trivial" else "")
  | _ => "bad-case arity"

/-! ### Recover / RecoverAll (`tr`) -/

def phaseOfStatus (s : Nat) : Phase := if s == stPinning || s == stUnpinning then .inProgress else .queued

def answerTR (pre post : List String) : String :=
  match pre with
  | [self, mode, recs] =>
    match (do
      let i : Input := { self := ← self.toNat?, ipfsUp := true, recs := ← parseRecs recs }
      pure i) with
    | none => "bad-case unparsable-input"
    | some i =>
      if !wf i then "bad-case not-wf" else
      if mode != "e" && mode != "a" then "bad-case mode" else
      if post == ["panic"] then "propfail no_panic arm=recover" else
      match post with
      | [b, r, a, e] =>
        match (do
          let b ← if b.startsWith "B=" then parsePairs ((b.drop 2).toString) else none
          let r ← if r.startsWith "R=" then parsePairs ((r.drop 2).toString) else none
          let a ← if a.startsWith "A=" then parsePairs ((a.drop 2).toString) else none
          let e ← if e.startsWith "E=" then parsePairs ((e.drop 2).toString) else none
          pure ({ before := b, answer := r, after := a, errText := e } : OutputR)) with
        | none => "bad-case unparsable-output"
        | some o =>
          let arm := "arm=recover-" ++ (if mode == "e" then "each" else "all") ++
            (if o.before.any (fun e => recoverable e.2) then " arm=recoverable" else "")
          let failed := (clausesR o).filter (fun c => !c.2)
          let whyR := (o.answer.filter (fun e => (lookup o.errText e.1 == some 1) != isErr e.2)).map (fun e =>
            "rc_error_text@" ++ (match i.recs.find? (fun r => r.cid == e.1) with | some r => opCode r | none => "?") ++
              ":st" ++ toString e.2)
          if !failed.isEmpty then "propfail " ++ ",".intercalate (failed.map (·.1)) ++ " " ++ arm ++
            " why=" ++ ";".intercalate whyR else
          -- the model, with the phase the implementation was seen in
          let phs (c : Nat) : Phase := phaseOfStatus ((lookup o.answer c).getD 0)
          let mBefore := if mode == "e" then statusEach i else statusAll i 0
          let mAnswer := if mode == "e" then i.recs.map (fun r => (r.cid, recover i r (phs r.cid))) else recoverAll i phs
          -- error text of the answer: the failed operation's, none for a fresh operation
          let textOf (r : Rec) (s0 : Nat) : Nat :=
            let r' := afterRecover r s0 (phs r.cid)
            let b : Bool := match r'.op with
                | some op => if op.phase == .done then isErr (status i r') else op.phase == .error
                | none => isErr (status i r')
            if b then 1 else 0
          let mText := if mode == "e" then i.recs.map (fun r => (r.cid, textOf r (status i r)))
            else i.recs.filterMap (fun r => (listEntry i 0 r).map (fun s0 => (r.cid, textOf r s0)))
          if o.before != mBefore then "diff " ++ arm ++ " model=B=" ++ showPairs mBefore
          else if o.answer != mAnswer then "diff " ++ arm ++ " model=R=" ++ showPairs mAnswer
          else if o.errText != mText then "diff " ++ arm ++ " model=E=" ++ showPairs mText
          else "ok " ++ arm ++ (if i.recs.isEmpty then " trivial" else "")
      | _ => "bad-case output-arity"
  | _ => "bad-case arity"

/-! ### cluster-wide cases -/

def parseReplyGc (s : String) : Option (Nat × Reply Nat) :=
  match s.splitOn ":" with
  | [p, r] => do
    let p ← p.toNat?
    if r == "e" || r == "t" then pure (p, .err) else if r == "a" then pure (p, .auth)
    else if r.startsWith "o" || r.startsWith "c" then do pure (p, .ok (← ((r.drop 1).toString).toNat?))
    else none
  | _ => none

def insertPair (x : Nat × Nat) : List (Nat × Nat) → List (Nat × Nat)
  | [] => [x]
  | y :: t => if x.1 < y.1 || (x.1 == y.1 && x.2 ≤ y.2) then x :: y :: t else y :: insertPair x t

def sortPairs (l : List (Nat × Nat)) : List (Nat × Nat) := l.foldr insertPair []

def answerGc (pre post : List String) : String :=
  match pre with
  | [self, fol, members, pin, replies] =>
    match (do
      let peersErr := members == "!"
      let stateErr := pin == "!"
      let i : GCidInput := { self := ← self.toNat?, follower := ← bool01 fol,
                             members := ← (if peersErr then some [] else nats members),
                             pin := ← (if stateErr then some none else parsePin pin), replies := ← listOf parseReplyGc replies }
      pure ({ base := i, stateErr, peersErr } : GCidF)) with
    | none => "bad-case unparsable-input"
    | some fi =>
      let i := fi.base
      let arm := "arm=gc-" ++ (if fi.stateErr then "state-fails" else if fi.peersErr then "peers-fails" else
        if i.follower then "follower" else
        match i.pin with
        | none => "absent"
        | some p => if p.everywhere then "everywhere" else if p.isMeta then "meta" else "allocated") ++
        (if (replies.splitOn ",").any (fun r => r.endsWith ":t") then " arm=gc-timeout" else "") ++
        (if (replies.splitOn ",").any (fun r => (r.splitOn ":c").length > 1) then " arm=gc-answer-for-other-cid" else "")
      match post with
      | [out] =>
        if out == "panic" then "propfail g_answers " ++ arm else
        match (if out == "err" then some none else (parsePairs out).map some) with
        | none => "bad-case unparsable-output"
        | some o =>
          let failed := (gcClausesF fi o).filter (fun c => !c.2)
          if !failed.isEmpty then
            "propfail " ++ ",".intercalate (failed.map (·.1)) ++ " " ++ arm
          else if o.map sortPairs != (globalCidF fi).map sortPairs then
            "diff " ++ arm ++ " model=" ++ (match globalCidF fi with | some m => showPairs (sortPairs m) | none => "err")
          else "ok " ++ arm ++ (if (i.follower && !fi.stateErr) || (i.members.isEmpty && !fi.peersErr && !fi.stateErr) then " trivial" else "")
      | _ => "bad-case output-arity"
  | _ => "bad-case arity"

def parsePinsGs (s : String) : Option (List (Nat × Pin)) :=
  if s == "-" then some [] else
  (s.splitOn "/").mapM (fun e =>
    match e.splitOn "=" with
    | [c, p] => do
      let c ← c.toNat?
      match ← parsePin p with
      | some pin => pure (c, pin)
      | none => none
    | _ => none)

def parseReplyGs (s : String) : Option (Nat × Reply (List (Nat × Nat))) :=
  match s.splitOn "=" with
  | [p, r] => do
    let p ← p.toNat?
    if r == "e" || r == "t" then pure (p, .err) else if r == "a" then pure (p, .auth)
    else if r.startsWith "o" then
      let body := (r.drop 1).toString
      if body == "" then pure (p, .ok []) else do
        pure (p, .ok (← (body.splitOn ".").mapM (parsePair ":")))
    else none
  | _ => none

def parseGsOut (ws : List String) : Option (List (Nat × List (Nat × Nat))) :=
  if ws == ["-"] then some [] else
  ws.mapM (fun w =>
    match w.splitOn "=" with
    | [c, m] =>
      if !c.startsWith "c" then none else do
        pure (← ((c.drop 1).toString).toNat?, ← parsePairs m)
    | _ => none)

def canonGs (o : List (Nat × List (Nat × Nat))) : List (Nat × List (Nat × Nat)) :=
  let keys := sortPairs (o.map (fun e => (e.1, 0)))
  keys.filterMap (fun k => (o.find? (fun e => e.1 == k.1)).map (fun e => (e.1, sortPairs e.2)))

def showGs (o : List (Nat × List (Nat × Nat))) : String :=
  if o.isEmpty then "-" else " ".intercalate (o.map (fun e => "c" ++ toString e.1 ++ "=" ++ showPairs e.2))

/-- signature of the entries that break `g_others_remote` in a listing -/
def gsWhy (i : GSliceInput) (o : List (Nat × List (Nat × Nat))) : List String :=
  (o.filter (fun e => !gsOthersRemote i e.1 e.2)).flatMap (fun e =>
    (i.members.filter (fun p =>
      match pinOf i e.1 with
      | some pin => !(pin.isMeta || allocatedFor i e.1 p || lookup e.2 p == none || lookup e.2 p == some stRemote)
      | none => false)).map (fun p =>
        "g_others_remote@" ++ (match replyOf i.replies p with | .ok _ => "answered" | .err => "unreachable" | .auth => "refused") ++
        ":st" ++ toString ((lookup e.2 p).getD 0)))

def answerGs (pre post : List String) : String :=
  match pre with
  | [self, fol, members, pins, replies] =>
    match (do
      let peersErr := members == "!"
      let i : GSliceInput := { self := ← self.toNat?, follower := ← bool01 fol,
                               members := ← (if peersErr then some [] else nats members),
                               pins := ← parsePinsGs pins,
                               replies := ← (if replies == "-" then some [] else (replies.splitOn "/").mapM parseReplyGs) }
      pure ({ base := i, peersErr } : GSliceF)) with
    | none => "bad-case unparsable-input"
    | some fi =>
      let i := fi.base
      let dupOrShort := i.replies.any (fun e => match e.2 with
        | .ok l => !peerOnce (l.map (fun x => (x.1, 0))) | _ => false)
      let arm := "arm=gs-" ++ (if fi.peersErr then "peers-fails" else if i.follower then "follower" else
        if i.members.any (fun p => match replyOf i.replies p with | .err => true | _ => false) then "some-unreachable"
        else if i.members.any (fun p => match replyOf i.replies p with | .auth => true | _ => false) then "some-refused"
        else "all-answer") ++ (if dupOrShort then " arm=gs-repeated-entries" else "") ++
        (if (replies.splitOn "/").any (fun r => r.endsWith "=t") then " arm=gs-timeout" else "")
      if post == ["panic"] then "propfail g_answers " ++ arm else
      match (if post == ["err"] then some none else (parseGsOut post).map some) with
      | none => "bad-case unparsable-output"
      | some oo =>
        let failed := (gsClausesF fi oo).filter (fun c => !c.2)
        let md := oo.map canonGs != (globalSliceF fi).map canonGs
        if !failed.isEmpty then
          "propfail " ++ ",".intercalate (failed.map (·.1)) ++ " " ++ arm ++
            " why=" ++ ";".intercalate (dedupStr (gsWhy i (oo.getD []))) ++ (if md then " modeldiff" else "")
        else if md then
          "diff " ++ arm ++ " model=" ++ (match globalSliceF fi with | some m => showGs (canonGs m) | none => "err")
        else "ok " ++ arm ++ (if (i.follower && !fi.peersErr) || (oo.getD []).isEmpty && !fi.peersErr then " trivial" else "")
  | _ => "bad-case arity"

/-! ### fs: the filter from text to the Cluster RPC (round 8) -/

def decText (s : String) : String := if s == "%" then "" else s.replace "~" " "

def sortStrs (l : List String) : List String := (l.toArray.qsort (· < ·)).toList

def kv (post : List String) (k : String) : Option String :=
  (post.find? (·.startsWith (k ++ "="))).map (fun t => (t.drop (k.length + 1)).toString)

def parseRpcFilter (s : String) : Option (String × Nat) :=
  match s.splitOn ":" with
  | [m, f] => f.toNat?.map (fun n => (m, n))
  | _ => none

def answerFS (pre post : List String) : String :=
  match pre with
  | [t, m, s, l] =>
    match m.toNat?, s.toNat?, bool01 l, (kv post "P").bind String.toNat?, kv post "H", kv post "Q",
          (kv post "R").bind String.toNat?, (kv post "M").bind bool01, kv post "C" with
    | some mask, some st, some loc, some p, some h, some q, some r, some mt, some c =>
      match h.splitOn ":" with
      | [hacc, hrpc, hf] =>
        match hf.toNat? with
        | none => "bad-case H"
        | some hfilter =>
          let text := decText t
          let qs := if q == "%" then [] else q.splitOn ","
          let cOdd := !(c == "err") && (parseRpcFilter c).isNone
          let o : SpecS.Obs := { text := text, mask := mask, st := st, isLocal := loc, p := p, hAcc := hacc, hRpc := hrpc,
                                 hFilter := hfilter, q := qs, r := r, m := mt,
                                 c := if c == "err" then none else parseRpcFilter c, cOdd := cOdd }
          let failed := (SpecS.clauses o).filter (fun e => !e.2)
          -- the model
          let cs := text.toList
          let mp := parseC cs
          let mh : String × String × Nat := match restFilter cs with
            | some f => ("acc", SpecS.rpcOf loc, f)
            | none => ("rej", "-", 0)
          let mq := sortStrs ((printToks namesC mask).map String.ofList)
          let mr := parseC (printC namesC mask)
          let mm := matchG st mask
          let mc := (endToEnd namesC mask).map (fun f => (SpecS.rpcOf loc, f))
          let md := !(p == mp && (hacc, hrpc, hfilter) == mh && qs == mq && r == mr && mt == mm && o.c == mc && !cOdd)
          let arm := "arm=fs-" ++ (if text == "" then "empty" else if mp == 0 then "rejected"
                       else if (text.splitOn ",").length == 1 then "single" else "union") ++
                     (if mc.isNone then "+client-refuses" else if mask == 0 then "+mask0"
                      else if (printToks namesC mask).length == 1 then "+mask-exact" else "+mask-union") ++
                     (if mask != (mask &&& namedMask) then "+unnamed-bits" else "")
          if !failed.isEmpty then
            "propfail " ++ ",".intercalate (failed.map (·.1)) ++ " " ++ arm ++ (if md then " modeldiff" else "")
          else if md then
            "diff " ++ arm ++ " model=P=" ++ toString mp ++ " H=" ++ mh.1 ++ ":" ++ mh.2.1 ++ ":" ++ toString mh.2.2 ++
              " Q=" ++ (if mq.isEmpty then "%" else ",".intercalate mq) ++ " R=" ++ toString mr ++ " M=" ++ (if mm then "1" else "0") ++
              " C=" ++ (match mc with | some (a, f) => a ++ ":" ++ toString f | none => "err")
          else "ok " ++ arm
      | _ => "bad-case H"
    | _, _, _, _, _, _, _, _, _ => "bad-case fs fields"
  | _ => "bad-case arity"

/-! ### the operation tracker's getters (`to`, round 8c) -/

def parseOp3 (s : String) : Option (Nat × Nat × Nat) :=
  match s.splitOn "." with
  | [a, b, c] => do pure (← a.toNat?, ← b.toNat?, ← c.toNat?)
  | _ => none

def parseFltTok (s : String) : Option (Nat × Nat) :=
  if s.startsWith "T" then (((s.drop 1).toString).toNat?).map (fun n => (0, n))
  else if s.startsWith "P" then (((s.drop 1).toString).toNat?).map (fun n => (1, n))
  else none

def parseEachTok (s : String) : Option (Nat × Option Nat) :=
  match s.splitOn ":" with
  | [a, b] => do
    let c ← a.toNat?
    if b == "-" then pure (c, none) else pure (c, some (← b.toNat?))
  | _ => none

def answerTO (pre post : List String) : String :=
  match pre with
  | [opsS, fltS] =>
    match listOf parseOp3 opsS, listOf parseFltTok fltS with
    | some ops, some flts =>
      let m := O.trackAll (ops.map fun p => ({ cid := p.1, typ := p.2.1, ph := p.2.2 } : O.TOp))
      let fs : List O.Flt := flts.map fun f => ({ kind := f.1, val := f.2 } : O.Flt)
      let arm := "arm=to-" ++ (if flts.isEmpty then "nofilter" else if flts.length == 1 then "one" else "chain") ++
        (if (O.filterOps fs m).isEmpty then "-empty" else "-some") ++
        (if ops.length > m.length then " arm=to-replaced-or-kept" else "") ++
        (if ops.any (fun p => p.2.1 == 0 || p.2.1 > 4 || p.2.2 > 3) then " arm=to-unknown-const" else "")
      if post == ["panic"] then "propfail no_panic " ++ arm else
      match (kv post "A").bind parsePairs, (kv post "F").bind parsePairs, (kv post "S").bind (listOf parseEachTok) with
      | some a, some f, some s =>
        let o : SpecO.Obs := { ops := ops, flts := flts, all := a, flt := f, each := s }
        let failed := (SpecO.clauses o).filter (fun e => !e.2)
        let ma := sortPairs (O.getAll m)
        let mf := sortPairs (O.filterInfos fs m)
        let ms := s.map fun e => (e.1, O.statusOf m e.1)
        if !failed.isEmpty then
          "propfail " ++ ",".intercalate (failed.map (·.1)) ++ " " ++ arm ++ (if a != ma || f != mf || s != ms then " modeldiff" else "")
        else if a != ma || f != mf || s != ms then
          "diff " ++ arm ++ " model=A=" ++ showPairs ma ++ "/F=" ++ showPairs mf
        else "ok " ++ arm ++ (if ops.isEmpty then " trivial" else "")
      | _, _, _ => "bad-case unparsable-output"
    | _, _ => "bad-case unparsable-input"
  | _ => "bad-case arity"

/-- answer for one case line (tokens after the leading "C06") -/
def answer (ws : List String) : String :=
  match ws with
  | kind :: rest =>
    match splitArrow rest with
    | none => "bad-case no-arrow"
    | some (pre, post) =>
      if kind == "t" then answerT pre post
      else if kind == "tp" then answerTP pre post
      else if kind == "gc" then answerGc pre post
      else if kind == "gs" then answerGs pre post
      else if kind == "tf" then answerTF pre post
      else if kind == "tr" then answerTR pre post
      else if kind == "fs" then answerFS pre post
      else if kind == "to" then answerTO pre post
      else "bad-case unknown-kind"
  | [] => "bad-case empty"

end CV.C06
