import ClusterVerif.Spec.C10
import Driver.PinParse
import Driver.C04
namespace CV.C10
open CV CV.Parse CV.PinParse

def parseKVs (s : String) : Option (List (Nat × Nat)) := listOf parseKV s

def parseActor (base : C04.Cfg) (s : String) : Option PeerCfg :=
  match s.splitOn ":" with
  | [i, f, r] => do pure { self := ← i.toNat?, follower := f == "1", disableRepin := r == "1", base := base }
  | _ => none

def parseBase (dm metrics : String) : Option C04.Cfg :=
  match dm.splitOn "/" with
  | [d, s] => do
    let (dmin, dmax) ← parseFactors (d.drop 2).toString
    pure { follower := false, defMin := dmin, defMax := dmax, desc := s == "s1", peers := ← parsePeers metrics,
           paths := [], blocks := [] }
  | _ => none

def parseLogs (s : String) : Option Logs :=
  if s == "-" then some [] else
  (s.splitOn "|").mapM (fun part =>
    match part.splitOn "=" with
    | [i, l] => do pure (← i.toNat?, ← C04.parseLog l)
    | _ => none)

structure Case where
  r : Round
  base : C04.Cfg
  post : PinMap
  logs : Logs
  bad : Bool          -- some member reported err / panic / hang
  warm : String := "" -- the <w> of `alert@<w>`

def parseCase (ws : List String) : Option Case := do
  let (pre, post) ← splitArrow ws
  match pre, post with
  | [kind, members, cids, untr, actors, failed, dm, metrics, pm], [pm', logs] =>
    let base ← parseBase dm metrics
    let bad := (logs.splitOn "|").any (fun p => p.endsWith "=err" || p.endsWith "=panic" || p.endsWith "=hang")
    let logs' := if bad then some [] else parseLogs logs
    -- `alert@<w>`: the handler saw an earlier alert that could do nothing; the round is an alert round
    let warm := if kind.startsWith "alert@" then (kind.drop 6).toString else ""
    let kind := if kind.startsWith "alert@" then "alert" else kind
    pure { r := { kind := kind, w := { members := ← parseKVs members, cidHash := ← parseKVs cids, untrusted := ← nats untr },
                  actors := ← listOf (parseActor base) actors, failed := ← parseOptNat failed, pre := ← parsePinset pm },
           base := base, post := ← parsePinset pm', logs := ← logs', bad := bad,
           warm := if warm.startsWith "m" then "m" else warm }
  | _, _ => none

/-- allocation a member chose for a cid: that of its LogPin entry -/
def chosenOf (l : List C04.LogEntry) : Chosen := fun c =>
  match l.find? (fun e => match e with | .logPin p => p.cid == c | _ => false) with
  | some (.logPin p) => p.allocs
  | _ => []

/-- run the model round with the members' own allocation choices; also collects the C03 admissibility of every choice -/
def runModel (k : Case) : PinMap × Logs :=
  k.r.actors.foldl (fun (acc : PinMap × Logs) a =>
    let ch := chosenOf ((C04.lookup k.logs a.self).getD [])
    let res := match k.r.kind, k.r.failed with
      | "alert", some f => onAlert k.r.w a f ch acc.1
      | "remove", some f => vacate a f ch acc.1
      | "sync", _ => stateSync k.r.w a acc.1
      | _, _ => { st := acc.1, log := [] }
    (res.st, acc.2 ++ [(a.self, res.log)])) (k.r.pre, [])

/-- every allocation a member logged is admissible for the C03 relation (current = the pin's previous allocations, failed peer excluded) -/
def choicesAdmissible (k : Case) : Bool :=
  match k.r.failed with
  | none => true
  | some f =>
    k.logs.all (fun l => l.2.all (fun e => match e with
      | .logPin p =>
        (match k.r.pre.get p.cid with
         | some old =>
           let ai := allocInput k.base f old
           -- allocate() is only consulted when the pin is handed over with cleared allocations
           C03.allowed ai (.ok p.allocs) || old.type == .metaT
         | none => false)
      | _ => true))

def answer (ws : List String) : String :=
  match parseCase ws with
  | none => "bad-case parse"
  | some k =>
    if k.bad then "propfail member_call_failed arm=" ++ k.r.kind else
    if !k.r.pre.wf then "bad-case pre-not-sorted" else
    let arm := k.r.kind ++ (if k.warm.isEmpty then "" else "-after-" ++ k.warm) ++
      (if k.logs.all (fun l => l.2.isEmpty) then "-quiet" else "-acted")
    let failed := (clauses k.r k.base k.post k.logs).filter (fun c => !c.2)
    if !failed.isEmpty then
      "propfail " ++ ",".intercalate ((failed.map (·.1)).eraseDups) ++ " arm=" ++ arm
    else
      let (mpost, mlogs) := runModel k
      let agree := canonMap mpost == canonMap k.post &&
        mlogs.length == k.logs.length &&
        (mlogs.zip k.logs).all (fun (a, b) => a.1 == b.1 && C04.sameLog a.2 b.2) &&
        choicesAdmissible k
      if !agree then "diff arm=" ++ arm ++ " model-post-size=" ++ toString mpost.length
      else "ok arm=" ++ arm

end CV.C10
