import ClusterVerif.Spec.C10
import Driver.PinParse
import Driver.C04
namespace CV.C10
open CV CV.Parse CV.PinParse

def parseKVs (s : String) : Option (List (Nat × Nat)) := listOf parseKV s

/-- `id:f:r[:v<id.id…>]` -/
def parseActor (base : C04.Cfg) (s : String) : Option (PeerCfg × Option (List Nat)) :=
  match s.splitOn ":" with
  | [i, f, r] => do pure ({ self := ← i.toNat?, follower := f == "1", disableRepin := r == "1", base := base }, none)
  | [i, f, r, v] => do
    let view ← ((v.drop 1).toString.splitOn ".").mapM String.toNat?
    pure ({ self := ← i.toNat?, follower := f == "1", disableRepin := r == "1", base := base }, some view)
  | _ => none

def parseBase (dm metrics : String) : Option C04.Cfg :=
  match dm.splitOn "/" with
  | [d, s] => do
    let (dmin, dmax) ← parseFactors (d.drop 2).toString
    pure { follower := false, defMin := dmin, defMax := dmax, desc := s == "s1", peers := ← parsePeers metrics,
           paths := [], blocks := [] }
  | _ => none

/-- a member's log token: operations separated by `;`, `R` = consensus.RmPeer was called -/
structure RawLog where
  ops : List C04.LogEntry
  rmCalls : Nat           -- how many `R`
  rmLast : Bool           -- no operation after an `R`

def parseRaw (l : String) : Option RawLog :=
  if l == "-" then some { ops := [], rmCalls := 0, rmLast := true } else do
  let toks := l.splitOn ";"
  let ops ← (toks.filter (· != "R")).mapM C04.parseLogEntry
  let rs := (toks.filter (· == "R")).length
  pure { ops := ops, rmCalls := rs, rmLast := rs == 0 || (toks.getLast? == some "R" && rs == 1) }

def parseLogs (s : String) : Option (List (Nat × RawLog)) :=
  if s == "-" then some [] else
  (s.splitOn "|").mapM (fun part =>
    match part.splitOn "=" with
    | [i, l] => do pure (← i.toNat?, ← parseRaw l)
    | _ => none)

def isBad (logs : String) : Bool :=
  (logs.splitOn "|").any (fun p => p.endsWith "=err" || p.endsWith "=panic" || p.endsWith "=hang")

structure Case where
  r : Round
  base : C04.Cfg
  actors : List Actor      -- each with its own world
  post : PinMap
  raw : List (Nat × RawLog)
  second : Option (PinMap × List (Nat × RawLog)) := none
  bad : Bool               -- some member reported err / panic / hang
  warm : String := ""      -- the <w> of `alert@<w>`
  snap : Bool := false
  rmFail : Bool := false

def logsOf (raw : List (Nat × RawLog)) : Logs := raw.map (fun l => (l.1, l.2.ops))

def parseCase (ws : List String) : Option Case := do
  let (pre, post) ← splitArrow ws
  match pre with
  | [kindTok, members, cids, untr, actors, failed, dm, metrics, pm] =>
    let base ← parseBase dm metrics
    let flags := (kindTok.splitOn "/").drop 1
    let kind0 := (kindTok.splitOn "/").headD ""
    -- `alert@<w>`: the handler saw an earlier alert that could do nothing; the round is an alert round
    let warm := if kind0.startsWith "alert@" then (kind0.drop 6).toString else ""
    let kind := if kind0.startsWith "alert@" then "alert" else kind0
    let mem ← parseKVs members
    let cidHash ← parseKVs cids
    let untrusted ← nats untr
    let w : World := { members := mem, cidHash := cidHash, untrusted := untrusted }
    let acts ← listOf (parseActor base) actors
    let actorsW : List Actor := acts.map (fun (pc, v) =>
      { w := match v with
             | some view => { w with members := mem.filter (fun m => view.contains m.1) }
             | none => w,
        pc := pc, ch := fun _ => [] })
    let views := acts.filterMap (fun (pc, v) => v.map (fun view => (pc.self, view)))
    let r : Round := { kind := kind, w := w, actors := acts.map (·.1), failed := ← parseOptNat failed, pre := ← parsePinset pm,
                       views := views, nonPing := flags.contains "np" }
    let mk (pm' logs : String) : Option (PinMap × List (Nat × RawLog) × Bool) := do
      let bad := isBad logs
      pure (← parsePinset pm', ← (if bad then some [] else parseLogs logs), bad)
    match post with
    | [pm', logs] =>
      let (p1, l1, b1) ← mk pm' logs
      pure { r := r, base := base, actors := actorsW, post := p1, raw := l1, bad := b1,
             warm := if warm.startsWith "m" then "m" else warm,
             snap := flags.any (·.startsWith "snap"), rmFail := flags.contains "rf" }
    | [pm', logs, pm2, logs2] =>
      let (p1, l1, b1) ← mk pm' logs
      let (p2, l2, b2) ← mk pm2 logs2
      pure { r := r, base := base, actors := actorsW, post := p1, raw := l1, bad := b1 || b2, second := some (p2, l2),
             warm := if warm.startsWith "m" then "m" else warm,
             snap := flags.any (·.startsWith "snap"), rmFail := flags.contains "rf" }
    | _ => none
  | _ => none

/-- allocation a member chose for a cid: that of its LogPin entry -/
def chosenOf (l : List C04.LogEntry) : Chosen := fun c =>
  match l.find? (fun e => match e with | .logPin p => p.cid == c | _ => false) with
  | some (.logPin p) => p.allocs
  | _ => []

def actOne (kind : String) (failed : Option Nat) (a : Actor) (st : PinMap) : Acc :=
  match kind, failed with
  | "alert", some f => onAlert a.w a.pc f a.ch st
  | "remove", some f => vacate a.pc f a.ch st
  | "sync", _ => stateSync a.w a.pc st
  | _, _ => { st := st, log := [] }

/-- the model round with the members' own allocation choices; serial: each member on the pinset left by the
    previous ones; snapshot: each on the pre-state -/
def runModel (k : Case) (pre : PinMap) (logs : Logs) : PinMap × Logs :=
  let acts := k.actors.map (fun a => { a with ch := chosenOf ((C04.lookup logs a.pc.self).getD []) })
  if k.r.nonPing then (pre, acts.map (fun a => (a.pc.self, []))) else
  if k.snap then (pre, snapLogsWith (actOne k.r.kind k.r.failed) acts pre)
  else roundWith (actOne k.r.kind k.r.failed) acts pre

/-- snapshot discipline: the final pinset is the commit of the logged operations in SOME order: cid by cid,
    the entry is the pre-state's if nothing was logged for it, else the effect of one of the operations -/
def snapStateOk (pre post : PinMap) (mlogs : Logs) : Bool :=
  let es := allEntries mlogs
  let cids := (pre.map (·.cid)) ++ (post.map (·.cid))
  cids.all (fun c =>
    let ec := forCid c es
    if ec.isEmpty then (post.get c).map canonPin == (pre.get c).map canonPin
    else ec.any (fun e => match e with
      | .logPin p => (post.get c).map canonPin == some (canonPin p.stored)
      | .logUnpin _ => (post.get c).isNone))

/-- every allocation a member logged is admissible for the C03 relation (current = the pin's previous allocations, failed peer excluded) -/
def choicesAdmissible (base : C04.Cfg) (failed : Option Nat) (pre : PinMap) (logs : Logs) : Bool :=
  match failed with
  | none => true
  | some f =>
    logs.all (fun l => l.2.all (fun e => match e with
      | .logPin p =>
        (match pre.get p.cid with
         | some old =>
           let ai := allocInput base f old
           -- allocate() is only consulted when the pin is handed over with cleared allocations
           C03.allowed ai (.ok p.allocs) || old.type == .metaT
         | none => false)
      | _ => true))

/-- PeerRemove: RmPeer is called exactly once, after every re-pin -/
def removeOrderOk (raw : List (Nat × RawLog)) : Bool := raw.all (fun l => l.2.rmCalls == 1 && l.2.rmLast)
def noRmCalls (raw : List (Nat × RawLog)) : Bool := raw.all (fun l => l.2.rmCalls == 0)

/-- two different members logged a pin for the same cid (possible only without agreement) -/
def twoRepinners (pre : PinMap) (logs : Logs) : Bool := pre.any (fun p => decide ((pinLoggers logs p.cid).length ≥ 2))

def oneRound (k : Case) (r : Round) (post : PinMap) (raw : List (Nat × RawLog)) : List String × Bool :=
  let logs := logsOf raw
  let extra : List (String × Bool) :=
    if r.kind == "remove" then [("rehome_precedes_membership_change", removeOrderOk raw)]
    else [("no_membership_change", noRmCalls raw)]
  let failed := ((clauses r k.base post logs) ++ extra).filter (fun c => !c.2)
  if !failed.isEmpty then ((failed.map (·.1)).eraseDups, true) else
  let (mpost, mlogs) := runModel k r.pre logs
  let stateOk := if k.snap && !r.nonPing then snapStateOk r.pre post mlogs else canonMap mpost == canonMap post
  let agree := stateOk && mlogs.length == logs.length &&
    (mlogs.zip logs).all (fun (a, b) => a.1 == b.1 && C04.sameLog a.2 b.2) &&
    choicesAdmissible k.base r.failed r.pre logs
  (if agree then [] else ["model-post-size=" ++ toString mpost.length], false)

def stampOf (s : String) : Option Stamp := if s == "z" then some .zero else s.toInt?.map .at

def answerExpat (ws : List String) : String :=
  match ws with
  | [st, now, "=>", res] =>
    match stampOf st, now.toInt? with
    | some s, some n =>
      let want := if expiredAt n s then "1" else "0"
      let arm := match s with
        | .zero => "zero"
        | .at t => if t == 0 then "epoch" else if t == n then "eq-now" else if t < n then "before" else "after"
      -- the statement's "expired": an expiry strictly before now (`specExpired`, Spec/C10)
      if res == want then "ok arm=expat-" ++ arm
      else if (res == "1") != specExpired n s then "propfail expired_iff_expiry_strictly_before_now arm=expat-" ++ arm
      else "diff arm=expat-" ++ arm ++ " model=" ++ want
    | _, _ => "bad-case parse"
  | _ => "bad-case parse"

def isSorted (l : List Nat) : Bool := (l.zip l.tail).all (fun (a, b) => decide (a ≤ b))

def answer (ws : List String) : String :=
  if ws.head? == some "expat" then answerExpat (ws.drop 1) else
  match parseCase ws with
  | none => "bad-case parse"
  | some k =>
    if k.bad then "propfail member_call_failed arm=" ++ k.r.kind else
    if !k.r.pre.wf then "bad-case pre-not-sorted" else
    let logs := logsOf k.raw
    let acted := !(logs.all (fun l => l.2.isEmpty))
    let failedHeld := match k.r.failed with | some f => k.r.pre.any (fun p => p.allocs.contains f) | none => true
    let onlyFailed := match k.r.failed with
      | some f => !k.r.pre.isEmpty && k.r.pre.all (fun p => p.allocs == [f]) &&
                  k.base.peers.all (fun q => q.1 == f || !q.2.healthy)
      | none => false
    let rehomed := match k.r.failed with
      | some f => (k.r.pre.filter (fun p => p.allocs.contains f && !((k.post.get p.cid).map (·.allocs.contains f)).getD true)).length
      | none => 0
    let kept := match k.r.failed with
      | some f => (k.r.pre.filter (fun p => p.allocs.contains f && ((k.post.get p.cid).map (·.allocs.contains f)).getD false)).length
      | none => 0
    let arm := k.r.kind ++ (if k.warm.isEmpty then "" else "-after-" ++ k.warm) ++ (if acted then "-acted" else "-quiet")
    let dims : List String :=
      ["members-" ++ toString k.r.w.members.length, "actors-" ++ toString k.actors.length,
       (if k.snap then "disc-snapshot" else "disc-serial"),
       (if isSorted (k.actors.map (·.pc.self)) then "order-sorted" else "order-shuffled")] ++
      (if k.second.isSome then ["repeated-x2"] else []) ++
      (if !k.r.agreed then ["views-disagree"] else []) ++
      (if k.r.nonPing then ["metric-not-ping"] else []) ++
      (if k.rmFail then ["rmpeer-fails"] else []) ++
      (if !failedHeld then ["failed-holds-nothing"] else []) ++
      (if onlyFailed then ["only-failed-no-healthy"] else []) ++
      (if k.r.pre.any (fun p => effMin k.base p == -1) then ["factors-everywhere"] else []) ++
      (if k.r.kind == "remove" && rehomed > 0 && kept > 0 then ["remove-partial"] else []) ++
      (if k.r.kind == "remove" && rehomed == 0 && kept > 0 then ["remove-none-rehomed"] else []) ++
      (if twoRepinners k.r.pre logs then ["two-repinners"] else [])
    let arms := " arm=" ++ arm ++ String.join (dims.map (fun d => " arm=" ++ d))
    let (f1, isProp1) := oneRound k k.r k.post k.raw
    if isProp1 then "propfail " ++ ",".intercalate f1 ++ arms else
    match k.second with
    | none => if f1.isEmpty then "ok" ++ arms else "diff" ++ arms ++ " " ++ " ".intercalate f1
    | some (post2, raw2) =>
      let r2 : Round := { k.r with pre := k.post }
      let (f2, isProp2) := oneRound k r2 post2 raw2
      let once := match k.r.failed with
        | some f => if k.r.kind == "alert" && k.r.agreed then rehomedOnce f k.post logs (logsOf raw2) else true
        | none => true
      if isProp2 || !once then
        "propfail " ++ ",".intercalate ((if isProp2 then f2.map (· ++ "@2") else []) ++ (if once then [] else ["rehomed_once"])) ++ arms
      else if f1.isEmpty && f2.isEmpty then "ok" ++ arms else "diff" ++ arms ++ " " ++ " ".intercalate (f1 ++ f2)

end CV.C10
