import ClusterVerif.Spec.C10
import ClusterVerif.Spec.C10Dist
import Driver.PinParse
import Driver.C04
namespace CV.C10
open CV CV.Parse CV.PinParse

def parseKVs (s : String) : Option (List (Nat × Nat)) := listOf parseKV s

/-- `id:f:r[:v<id.id…>]` -/
def parseActor (base : C04.Cfg) (s : String) : Option (PeerCfg × Option (List Nat)) :=
  match s.splitOn ":" with
  | [i, f, r] => do pure ({ self := ← i.toNat?, follower := f == "1", disableRepin := r == "1", base := base }, none)
  | [i, f, r, v] => do
    let view ← ((v.drop 1).toString.splitOn ".").mapM String.toNat?
    pure ({ self := ← i.toNat?, follower := f == "1", disableRepin := r == "1", base := base }, some view)
  | _ => none

def parseBase (dm metrics : String) : Option C04.Cfg :=
  match dm.splitOn "/" with
  | [d, s] => do
    let (dmin, dmax) ← parseFactors (d.drop 2).toString
    pure { follower := false, defMin := dmin, defMax := dmax, desc := s == "s1", peers := ← parsePeers metrics,
           paths := [], blocks := [] }
  | _ => none

/-- a member's log token: operations separated by `;`, `R` = consensus.RmPeer was called -/
structure RawLog where
  ops : List C04.LogEntry
  rmCalls : Nat           -- how many `R`
  rmLast : Bool           -- no operation after an `R`

def parseRaw (l : String) : Option RawLog :=
  if l == "-" then some { ops := [], rmCalls := 0, rmLast := true } else do
  let toks := l.splitOn ";"
  let ops ← (toks.filter (· != "R")).mapM C04.parseLogEntry
  let rs := (toks.filter (· == "R")).length
  pure { ops := ops, rmCalls := rs, rmLast := rs == 0 || (toks.getLast? == some "R" && rs == 1) }

def parseLogs (s : String) : Option (List (Nat × RawLog)) :=
  if s == "-" then some [] else
  (s.splitOn "|").mapM (fun part =>
    match part.splitOn "=" with
    | [i, l] => do pure (← i.toNat?, ← parseRaw l)
    | _ => none)

def isBad (logs : String) : Bool :=
  (logs.splitOn "|").any (fun p => p.endsWith "=err" || p.endsWith "=panic" || p.endsWith "=hang")

structure Case where
  r : Round
  base : C04.Cfg
  actors : List Actor      -- each with its own world
  post : PinMap
  raw : List (Nat × RawLog)
  second : Option (PinMap × List (Nat × RawLog)) := none
  bad : Bool               -- some member reported err / panic / hang
  warm : String := ""      -- the <w> of `alert@<w>`
  snap : Bool := false
  rmFail : Bool := false

def logsOf (raw : List (Nat × RawLog)) : Logs := raw.map (fun l => (l.1, l.2.ops))

def parseCase (ws : List String) : Option Case := do
  let (pre, post) ← splitArrow ws
  match pre with
  | [kindTok, members, cids, untr, actors, failed, dm, metrics, pm] =>
    let base ← parseBase dm metrics
    let flags := (kindTok.splitOn "/").drop 1
    let kind0 := (kindTok.splitOn "/").headD ""
    -- `alert@<w>`: the handler saw an earlier alert that could do nothing; the round is an alert round
    let warm := if kind0.startsWith "alert@" then (kind0.drop 6).toString else ""
    let kind := if kind0.startsWith "alert@" then "alert" else kind0
    let mem ← parseKVs members
    let cidHash ← parseKVs cids
    let untrusted ← nats untr
    let w : World := { members := mem, cidHash := cidHash, untrusted := untrusted }
    let acts ← listOf (parseActor base) actors
    let actorsW : List Actor := acts.map (fun (pc, v) =>
      { w := match v with
             | some view => { w with members := mem.filter (fun m => view.contains m.1) }
             | none => w,
        pc := pc, ch := fun _ => [] })
    let views := acts.filterMap (fun (pc, v) => v.map (fun view => (pc.self, view)))
    let r : Round := { kind := kind, w := w, actors := acts.map (·.1), failed := ← parseOptNat failed, pre := ← parsePinset pm,
                       views := views, nonPing := flags.contains "np" }
    let mk (pm' logs : String) : Option (PinMap × List (Nat × RawLog) × Bool) := do
      let bad := isBad logs
      pure (← parsePinset pm', ← (if bad then some [] else parseLogs logs), bad)
    match post with
    | [pm', logs] =>
      let (p1, l1, b1) ← mk pm' logs
      pure { r := r, base := base, actors := actorsW, post := p1, raw := l1, bad := b1,
             warm := if warm.startsWith "m" then "m" else warm,
             snap := flags.any (·.startsWith "snap"), rmFail := flags.contains "rf" }
    | [pm', logs, pm2, logs2] =>
      let (p1, l1, b1) ← mk pm' logs
      let (p2, l2, b2) ← mk pm2 logs2
      pure { r := r, base := base, actors := actorsW, post := p1, raw := l1, bad := b1 || b2, second := some (p2, l2),
             warm := if warm.startsWith "m" then "m" else warm,
             snap := flags.any (·.startsWith "snap"), rmFail := flags.contains "rf" }
    | _ => none
  | _ => none

/-- allocation a member chose for a cid: that of its LogPin entry -/
def chosenOf (l : List C04.LogEntry) : Chosen := fun c =>
  match l.find? (fun e => match e with | .logPin p => p.cid == c | _ => false) with
  | some (.logPin p) => p.allocs
  | _ => []

def actOne (kind : String) (failed : Option Nat) (a : Actor) (st : PinMap) : Acc :=
  match kind, failed with
  | "alert", some f => onAlert a.w a.pc f a.ch st
  | "remove", some f => vacate a.pc f a.ch st
  | "sync", _ => stateSync a.w a.pc st
  | _, _ => { st := st, log := [] }

/-- the model round with the members' own allocation choices; serial: each member on the pinset left by the
    previous ones; snapshot: each on the pre-state -/
def runModel (k : Case) (pre : PinMap) (logs : Logs) : PinMap × Logs :=
  let acts := k.actors.map (fun a => { a with ch := chosenOf ((C04.lookup logs a.pc.self).getD []) })
  if k.r.nonPing then (pre, acts.map (fun a => (a.pc.self, []))) else
  if k.snap then (pre, snapLogsWith (actOne k.r.kind k.r.failed) acts pre)
  else roundWith (actOne k.r.kind k.r.failed) acts pre

/-- snapshot discipline: the final pinset is the commit of the logged operations in SOME order: cid by cid,
    the entry is the pre-state's if nothing was logged for it, else the effect of one of the operations -/
def snapStateOk (pre post : PinMap) (mlogs : Logs) : Bool :=
  let es := allEntries mlogs
  let cids := (pre.map (·.cid)) ++ (post.map (·.cid))
  cids.all (fun c =>
    let ec := forCid c es
    if ec.isEmpty then (post.get c).map canonPin == (pre.get c).map canonPin
    else ec.any (fun e => match e with
      | .logPin p => (post.get c).map canonPin == some (canonPin p.stored)
      | .logUnpin _ => (post.get c).isNone))

/-- every allocation a member logged is admissible for the C03 relation (current = the pin's previous allocations, failed peer excluded) -/
def choicesAdmissible (base : C04.Cfg) (failed : Option Nat) (pre : PinMap) (logs : Logs) : Bool :=
  match failed with
  | none => true
  | some f =>
    logs.all (fun l => l.2.all (fun e => match e with
      | .logPin p =>
        (match pre.get p.cid with
         | some old =>
           let ai := allocInput base f old
           -- allocate() is only consulted when the pin is handed over with cleared allocations
           C03.allowed ai (.ok p.allocs) || old.type == .metaT
         | none => false)
      | _ => true))

/-- PeerRemove: RmPeer is called exactly once, after every re-pin -/
def removeOrderOk (raw : List (Nat × RawLog)) : Bool := raw.all (fun l => l.2.rmCalls == 1 && l.2.rmLast)
def noRmCalls (raw : List (Nat × RawLog)) : Bool := raw.all (fun l => l.2.rmCalls == 0)

/-- two different members logged a pin for the same cid (possible only without agreement) -/
def twoRepinners (pre : PinMap) (logs : Logs) : Bool := pre.any (fun p => decide ((pinLoggers logs p.cid).length ≥ 2))

def oneRound (k : Case) (r : Round) (post : PinMap) (raw : List (Nat × RawLog)) : List String × Bool :=
  let logs := logsOf raw
  let extra : List (String × Bool) :=
    if r.kind == "remove" then [("rehome_precedes_membership_change", removeOrderOk raw)]
    else [("no_membership_change", noRmCalls raw)]
  let failed := ((clauses r k.base post logs) ++ extra).filter (fun c => !c.2)
  if !failed.isEmpty then ((failed.map (·.1)).eraseDups, true) else
  let (mpost, mlogs) := runModel k r.pre logs
  let stateOk := if k.snap && !r.nonPing then snapStateOk r.pre post mlogs else canonMap mpost == canonMap post
  let agree := stateOk && mlogs.length == logs.length &&
    (mlogs.zip logs).all (fun (a, b) => a.1 == b.1 && C04.sameLog a.2 b.2) &&
    choicesAdmissible k.base r.failed r.pre logs
  (if agree then [] else ["model-post-size=" ++ toString mpost.length], false)

def stampOf (s : String) : Option Stamp := if s == "z" then some .zero else s.toInt?.map .at

def answerExpat (ws : List String) : String :=
  match ws with
  | [st, now, "=>", res] =>
    match stampOf st, now.toInt? with
    | some s, some n =>
      let want := if expiredAt n s then "1" else "0"
      let arm := match s with
        | .zero => "zero"
        | .at t => if t == 0 then "epoch" else if t == n then "eq-now" else if t < n then "before" else "after"
      -- the statement's "expired": an expiry strictly before now (`specExpired`, Spec/C10)
      if res == want then "ok arm=expat-" ++ arm
      else if (res == "1") != specExpired n s then "propfail expired_iff_expiry_strictly_before_now arm=expat-" ++ arm
      else "diff arm=expat-" ++ arm ++ " model=" ++ want
    | _, _ => "bad-case parse"
  | _ => "bad-case parse"

def isSorted (l : List Nat) : Bool := (l.zip l.tail).all (fun (a, b) => decide (a ≤ b))

/-! ### suite `dist`: the byte level of the distance checker -/

def hexVal (c : Char) : Option Nat :=
  if '0' ≤ c && c ≤ '9' then some (c.toNat - '0'.toNat)
  else if 'a' ≤ c && c ≤ 'f' then some (c.toNat - 'a'.toNat + 10) else none

def hexBytesAux : List Char → Option (List Nat)
  | [] => some []
  | a :: b :: t => do
    let x ← hexVal a
    let y ← hexVal b
    let r ← hexBytesAux t
    pure ((16 * x + y) :: r)
  | _ => none

/-- a 32-byte array written as 64 hex digits -/
def hex32 (s : String) : Option (List Nat) := do
  let b ← hexBytesAux s.toList
  if b.length == 32 then some b else none

def hexDigit (n : Nat) : Char := if n < 10 then Char.ofNat ('0'.toNat + n) else Char.ofNat ('a'.toNat + n - 10)
def showHex (b : List Nat) : String := String.ofList (b.flatMap (fun x => [hexDigit (x / 16), hexDigit (x % 16)]))

def commonPrefix : List Nat → List Nat → Nat
  | x :: xs, y :: ys => if x == y then 1 + commonPrefix xs ys else 0
  | _, _ => 0

def maxPrefix : List (List Nat) → Nat
  | [] => 0
  | h :: t => (t.map (commonPrefix h)).foldl max (maxPrefix t)

def parseDistMember (s : String) : Option (Nat × Bool × List Nat) :=
  match s.splitOn ":" with
  | [i, f, h] => do pure (← i.toNat?, f == "i", ← hex32 h)
  | _ => none

def parseDistCid (s : String) : Option (Nat × List Nat) :=
  match s.splitOn ":" with
  | [i, h] => do pure (← i.toNat?, ← hex32 h)
  | _ => none

def parseAns (s : String) : Option (List (Nat × List Bool)) :=
  if s == "-" then some [] else
  (s.splitOn "|").mapM (fun part =>
    match part.splitOn "=" with
    | [i, b] => do
      let bits ← if b == "-" then some [] else b.toList.mapM (fun c => if c == '1' then some true else if c == '0' then some false else none)
      pure (← i.toNat?, bits)
    | _ => none)

def answerXor (ws : List String) : String :=
  match ws with
  | [a, b, "=>", c] =>
    match hex32 a, hex32 b with
    | some x, some y =>
      let want := showHex (Dist.xorB x y)
      let arm := if x == y then "xor-equal" else if commonPrefix x y == 31 then "xor-last-byte" else "xor-general"
      if c == want then "ok arm=" ++ arm else "diff arm=" ++ arm ++ " model=" ++ want
    | _, _ => "bad-case parse"
  | _ => "bad-case parse"

def answerDist (ws : List String) : String :=
  match ws with
  | [ex, members, cids, "=>", ans, cache] =>
    if (ans.splitOn "|").any (fun p => p.endsWith "=panic") then "propfail member_call_failed arm=dist" else
    match listOf parseDistMember members, listOf parseDistCid cids, parseAns ans with
    | some ms, some cs, some an =>
      let k : Dist.DistCase := { exclude := ex.toNat?, members := ms.map (fun m => (m.1, m.2.2)), cids := cs }
      let surv := k.survivors
      let ids := k.members.map (·.1)
      if (ids.eraseDups).length != ids.length then "bad-case duplicate-member" else
      if an.map (·.1) != surv.map (·.1) then "bad-case answers-not-from-survivors" else
      let hashFn : Nat → List Nat := fun p => (C04.lookup k.members p).getD []
      let seed : Dist.Cache := (ms.filter (fun m => m.2.1 && some m.1 != k.exclude)).map (fun m => (m.1, m.2.2))
      let model : List (Nat × List Bool) := surv.map (fun m =>
        (m.1, (Dist.isClosestSeq hashFn seed m.1 (Dist.candidates ids m.1 k.exclude) (cs.map (·.2))).1))
      let mp := maxPrefix (surv.map (·.2))
      let arm := if surv.length ≤ 1 then "dist-alone" else if mp == 32 then "dist-collision" else if mp == 31 then "dist-prefix-31"
        else if mp ≥ 24 then "dist-prefix-24-30" else if mp ≥ 8 then "dist-prefix-8-23" else if mp ≥ 1 then "dist-prefix-1-7" else "dist-prefix-0"
      let exClosest : Bool := match k.exclude with
        | some e => (match C04.lookup k.members e with
          | some he => !surv.isEmpty && cs.any (fun c => surv.all (fun m => Dist.cmpB (Dist.xorB he c.2) (Dist.xorB m.2 c.2) == .lt))
          | none => false)
        | none => false
      let nInj := (ms.filter (·.2.1)).length
      let dims : List String :=
        ["dist-members-" ++ toString ms.length, "dist-cids-" ++ toString cs.length,
         (if nInj == 0 then "dist-real-hashes" else if nInj == ms.length then "dist-injected-hashes" else "dist-mixed-hashes")] ++
        (if k.exclude.isSome then ["dist-with-exclude"] else []) ++
        (if exClosest then ["dist-excluded-is-closest"] else []) ++
        (if surv.any (fun m => cs.any (fun c => c.2 == m.2)) then ["dist-zero-distance"] else []) ++
        (if surv.any (fun m => m.2.any (· ≥ 128)) && mp ≥ 1 then ["dist-high-bytes"] else [])
      let arms := " arm=" ++ arm ++ String.join (dims.map (fun d => " arm=" ++ d))
      let failed := (Dist.distClauses k an).filter (fun c => !c.2)
      if !failed.isEmpty then "propfail " ++ ",".intercalate (failed.map (·.1)) ++ arms else
      if an == model && cache == "c1" then "ok" ++ arms
      else "diff" ++ arms ++ " model=" ++ "|".intercalate (model.map (fun m => toString m.1 ++ "=" ++ String.ofList (m.2.map (fun b => if b then '1' else '0')))) ++ (if cache == "c1" then "" else " cache-differs")
    | _, _, _ => "bad-case parse"
  | _ => "bad-case parse"

def answer (ws : List String) : String :=
  if ws.head? == some "dist" then answerDist (ws.drop 1) else
  if ws.head? == some "xor" then answerXor (ws.drop 1) else
  if ws.head? == some "expat" then answerExpat (ws.drop 1) else
  match parseCase ws with
  | none => "bad-case parse"
  | some k =>
    if k.bad then "propfail member_call_failed arm=" ++ k.r.kind else
    if !k.r.pre.wf then "bad-case pre-not-sorted" else
    let logs := logsOf k.raw
    let acted := !(logs.all (fun l => l.2.isEmpty))
    let failedHeld := match k.r.failed with | some f => k.r.pre.any (fun p => p.allocs.contains f) | none => true
    let onlyFailed := match k.r.failed with
      | some f => !k.r.pre.isEmpty && k.r.pre.all (fun p => p.allocs == [f]) &&
                  k.base.peers.all (fun q => q.1 == f || !q.2.healthy)
      | none => false
    let rehomed := match k.r.failed with
      | some f => (k.r.pre.filter (fun p => p.allocs.contains f && !((k.post.get p.cid).map (·.allocs.contains f)).getD true)).length
      | none => 0
    let kept := match k.r.failed with
      | some f => (k.r.pre.filter (fun p => p.allocs.contains f && ((k.post.get p.cid).map (·.allocs.contains f)).getD false)).length
      | none => 0
    let arm := k.r.kind ++ (if k.warm.isEmpty then "" else "-after-" ++ k.warm) ++ (if acted then "-acted" else "-quiet")
    let dims : List String :=
      ["members-" ++ toString k.r.w.members.length, "actors-" ++ toString k.actors.length,
       (if k.snap then "disc-snapshot" else "disc-serial"),
       (if isSorted (k.actors.map (·.pc.self)) then "order-sorted" else "order-shuffled")] ++
      (if k.second.isSome then ["repeated-x2"] else []) ++
      (if !k.r.agreed then ["views-disagree"] else []) ++
      (if k.r.nonPing then ["metric-not-ping"] else []) ++
      (if k.rmFail then ["rmpeer-fails"] else []) ++
      (if !failedHeld then ["failed-holds-nothing"] else []) ++
      (if onlyFailed then ["only-failed-no-healthy"] else []) ++
      (if k.r.pre.any (fun p => effMin k.base p == -1) then ["factors-everywhere"] else []) ++
      (if k.r.kind == "remove" && rehomed > 0 && kept > 0 then ["remove-partial"] else []) ++
      (if k.r.kind == "remove" && rehomed == 0 && kept > 0 then ["remove-none-rehomed"] else []) ++
      (if twoRepinners k.r.pre logs then ["two-repinners"] else [])
    let arms := " arm=" ++ arm ++ String.join (dims.map (fun d => " arm=" ++ d))
    let (f1, isProp1) := oneRound k k.r k.post k.raw
    if isProp1 then "propfail " ++ ",".intercalate f1 ++ arms else
    match k.second with
    | none => if f1.isEmpty then "ok" ++ arms else "diff" ++ arms ++ " " ++ " ".intercalate f1
    | some (post2, raw2) =>
      let r2 : Round := { k.r with pre := k.post }
      let (f2, isProp2) := oneRound k r2 post2 raw2
      let once := match k.r.failed with
        | some f => if k.r.kind == "alert" && k.r.agreed then rehomedOnce f k.post logs (logsOf raw2) else true
        | none => true
      if isProp2 || !once then
        "propfail " ++ ",".intercalate ((if isProp2 then f2.map (· ++ "@2") else []) ++ (if once then [] else ["rehomed_once"])) ++ arms
      else if f1.isEmpty && f2.isEmpty then "ok" ++ arms else "diff" ++ arms ++ " " ++ " ".intercalate (f1 ++ f2)

end CV.C10
