/-
C12 driver: one case line (after the leading `C12` token)

  <method> p=<hex> q=<hex>|q=- h=<name:hex,...>|h=- b=<hex> ds=<status>:<bodyhex>:<hdrhex> f=<Rpc,...>|f=-
  pc=<hex> rc=<hex> pins=<hex,...>|pins=- np=<n> gc=<hex,...>|gc=- or=<arg>:<pp|!>:<cd|!>;...|or=- ing=<n> xp=<hex> dx=<cmd>|dx=-
  [cf=<read_header_timeout ms>:<idle_timeout ms> dl=<daemon delay before its answer, ms>:<pause in the middle of the body, ms>]
  [sb=<k.k...: RepoStat calls (in arrival order) that fail>] [ge=<bit 0: a peer's gc failed, bit 1: a key error>]
  => st=<n> se=<0|1> rb=<hex> dh=<hex> it=<hex,...>|it=- d=<req;...>|d=- r=<rpc;...>|r=-

  req = METHOD|<pathhex>|<queryhex or ->|<name:hex,... or ->|<bodyhex>
  rpc = Name|<pathhex>|<0|1 direct>|<cidhex>|<updhex>|<namehex>|<rmin>|<rmax>|<0|1 ok>

answers `ok arm=…` | `propfail <clauses> arm=…` | `diff arm=… <field>` | `bad-case <why>`.
-/
import ClusterVerif.Spec.C12
import Driver.Parse
namespace CV.C12
open CV CV.Parse

def hexNib (c : Char) : Option Nat :=
  if '0' ≤ c ∧ c ≤ '9' then some (c.toNat - 48)
  else if 'a' ≤ c ∧ c ≤ 'f' then some (c.toNat - 87)
  else if 'A' ≤ c ∧ c ≤ 'F' then some (c.toNat - 55)
  else none

def hexList : List Char → Option Bytes
  | [] => some []
  | [_] => none
  | a :: b :: r => do
    let h ← hexNib a
    let l ← hexNib b
    let t ← hexList r
    pure ((h * 16 + l) :: t)

def hex (s : String) : Option Bytes := hexList s.toList

def hexOpt (s : String) : Option (Option Bytes) := if s == "-" then some none else (hex s).map some
def hexBang (s : String) : Option (Option Bytes) := if s == "!" then some none else (hex s).map some

def hexCsv (s : String) : Option (List Bytes) :=
  if s == "-" then some [] else (s.splitOn ",").mapM hex

def field (pre : String) (w : String) : Option String :=
  if w.startsWith pre then some (w.drop pre.length).toString else none

def parseHdrs (s : String) : Option (List (String × Bytes)) :=
  if s == "-" then some [] else
  (s.splitOn ",").mapM (fun kv => match kv.splitOn ":" with
    | [k, v] => (hex v).map (fun b => (k, b))
    | _ => none)

def parseRpcName (s : String) : RpcName :=
  match s.splitOn "." with
  | [_, m] => rpcOfString m
  | _ => rpcOfString s

def parseFails (s : String) : List RpcName :=
  if s == "-" then [] else (s.splitOn ",").map parseRpcName

def parseOracle (s : String) : Option (List (Bytes × Option Bytes × Option Bytes)) :=
  if s == "-" then some [] else
  (s.splitOn ";").mapM (fun e => match e.splitOn ":" with
    | [a, p, c] => do pure (← hex a, ← hexBang p, ← hexBang c)
    | _ => none)

def parseDReq (s : String) : Option DReq :=
  match s.splitOn "|" with
  | [m, p, q, h, b] => do
    pure { method := m, path := ← hex p, query := ← hexOpt q, hdrs := ← parseHdrs h, body := ← hex b }
  | _ => none

def parseRpc (s : String) : Option Rpc :=
  match s.splitOn "|" with
  | [n, p, d, c, u, nm, mn, mx, ok] => do
    pure { name := parseRpcName n, path := ← hex p, direct := d == "1", cid := ← hex c, upd := ← hex u,
           pname := ← hex nm, rmin := ← mn.toInt?, rmax := ← mx.toInt?, ok := ok == "1" }
  | _ => none

def semis {α} (f : String → Option α) (s : String) : Option (List α) :=
  if s == "-" then some [] else (s.splitOn ";").mapM f

def parseDs (s : String) : Option (Nat × Bytes × Bytes) :=
  match s.splitOn ":" with
  | [st, b, h] => do pure (← st.toNat?, ← hex b, ← hex h)
  | _ => none

def parsePair2 (s : String) : Option (Nat × Nat) :=
  match s.splitOn ":" with
  | [a, b] => do pure (← a.toNat?, ← b.toNat?)
  | _ => none

def parseCase (ws : List String) : Option (Input × Output × String) := do
  let (pre0, post) ← splitArrow ws
  -- optional trailing input tokens (absent = default configuration, prompt daemon, no per-peer failures)
  let pre := pre0.take 16
  let extras := pre0.drop 16
  if !(extras.all fun w => w.startsWith "cf=" || w.startsWith "dl=" || w.startsWith "sb=" || w.startsWith "ge=") then none
  let opt (pfx : String) : Option String := (extras.find? (·.startsWith pfx)).map (fun w => (w.drop pfx.length).toString)
  let (cfg, dl) ← (match opt "cf=", opt "dl=" with
    | some cf, some dl => do
      let (rh, idle) ← parsePair2 cf
      let (dd, gap) ← parsePair2 dl
      pure (({ readHeader := rh, idle := idle } : Timeouts), (dd, gap))
    | none, none => some (({} : Timeouts), (0, 0))
    | _, _ => none)
  let statBad ← (match opt "sb=" with
    | some sb => (sb.splitOn ".").mapM String.toNat?
    | none => some [])
  let gcErr ← (match opt "ge=" with
    | some ge => ge.toNat?
    | none => some 0)
  match pre, post with
  | [m, p, q, h, b, ds, f, pc, rc, pins, np, gc, orc, ing, xp, dx], [st, se, rb, dh, it, d, r] =>
    let (dst, dbody, dhdr) ← parseDs (← field "ds=" ds)
    let env : Env :=
      { dStatus := dst, dBody := dbody, dHdr := dhdr, fails := parseFails (← field "f=" f),
        pinCid := ← hex (← field "pc=" pc), resCid := ← hex (← field "rc=" rc),
        pins := ← hexCsv (← field "pins=" pins), npeers := ← (← field "np=" np).toNat?,
        gcKeys := ← hexCsv (← field "gc=" gc), oracle := ← parseOracle (← field "or=" orc),
        ing := ← (← field "ing=" ing).toNat?, extractPath := ← hex (← field "xp=" xp),
        cfg := cfg, dDelay := dl.1, dGap := dl.2, statBad := statBad, gcErr := gcErr }
    let i : Input :=
      { method := m, path := ← hex (← field "p=" p), query := ← hexOpt (← field "q=" q),
        hdrs := ← parseHdrs (← field "h=" h), body := ← hex (← field "b=" b), env := env }
    let o : Output :=
      { status := ← (← field "st=" st).toNat?, serr := (← field "se=" se) == "1",
        body := ← hex (← field "rb=" rb), dhdr := ← hex (← field "dh=" dh),
        items := ← hexCsv (← field "it=" it), dreqs := ← semis parseDReq (← field "d=" d),
        rpcs := ← semis parseRpc (← field "r=" r) }
    pure (i, o, ← field "dx=" dx)
  | _, _ => none

/-- helper requests modulo the CORS pre-flight (whose URL is rebuilt from the decoded path) and headers -/
def helperKey (l : List DReq) : List (String × Bytes × Option Bytes × Bytes) :=
  (l.filter (fun d => d.method != "OPTIONS")).map (fun d => (d.method, d.path, d.query, d.body))

def optionsOK (l : List DReq) : Bool :=
  (l.filter (fun d => d.method == "OPTIONS")).length ≤ 1 &&
  (l.filter (fun d => d.method == "OPTIONS")).all (fun d => d.body.isEmpty)

def answer (ws : List String) : String :=
  match parseCase ws with
  | none => "bad-case parse"
  | some (i, o, dx) =>
    let tgt := route i.method i.path
    let missing := (oracleArgs i).filter (fun a => !(i.env.oracle.any (fun e => e.1 == a)))
    if !missing.isEmpty then "bad-case oracle-missing" else
    if !((oracleArgs i).all i.env.ppSound) then "bad-case oracle-unsound" else
    if (endpointOfPath i.env.extractPath).isSome then "bad-case extract-path-is-hijacked" else
    let unmodelled := match tgt with
      | .hijack h arg => h == "addHandler" && addUnmodelled (handlerQuery i arg)
      | _ => false
    if unmodelled then "bad-case add-option-not-modelled" else
    let root := match o.rpcs.find? (fun r => r.name == .pin) with
      | some r => r.cid
      | none => []
    let obs : AddObs := { root := root, items := o.items }
    let m := runNow i obs
    -- informational: a relayed request that a go-ipfs-cmds daemon would execute as one of the hijacked commands
    let a := arm i obs ++ (match tgt with
      | .relay => if dx != "-" then "-daemon-runs-" ++ dx else ""
      | _ => "")
    let failed := (clauses i o).filter (fun c => !c.2)
    if !failed.isEmpty then
      "propfail " ++ ",".intercalate (failed.map (·.1)) ++ " arm=" ++ a
    else
      let why :=
        if (i.env.dDelay > 0 || i.env.dGap > 0) && !relaySetupUnderstood Gen.C12.relayTransport Gen.C12.relayTransportFields then
          "relay-setup-not-understood"
        else if m.status != o.status then "status model=" ++ toString m.status
        else if m.serr != o.serr then "serr model=" ++ toString m.serr
        else if m.rpcs != o.rpcs then "rpcs model-count=" ++ toString m.rpcs.length
        else match tgt with
          | .relay =>
            if m.dreqs != o.dreqs then "dreqs"
            else if m.body != o.body then "body"
            else if m.dhdr != o.dhdr then "dhdr" else ""
          | .hijack .. =>
            if helperKey m.dreqs != helperKey o.dreqs || !optionsOK o.dreqs then "helper-dreqs"
            else if m.success && m.items != o.items then "items" else ""
          | _ => if !o.dreqs.isEmpty then "dreqs" else ""
      if why != "" then "diff arm=" ++ a ++ " " ++ why
      else "ok arm=" ++ a ++ (if nontrivial i then "" else " trivial")

end CV.C12
