import ClusterVerif.Spec.C04
import ClusterVerif.Spec.C04Conc
import ClusterVerif.Model.C04Rpc
import ClusterVerif.Gen.C04
import ClusterVerif.Gen.C04Sem
import Driver.PinParse
namespace CV.C04
open CV CV.Parse CV.PinParse

def parseCfg (cfg peers paths blocks : String) : Option Cfg :=
  match cfg.splitOn "/" with
  | [f, dm, s] => do
    let (dmin, dmax) ← parseFactors (dm.drop 2).toString
    let parseBlock (b : String) : Option (Nat × List Nat) :=
      match b.splitOn ":" with
      | [k, ls] => do pure (← k.toNat?, ← if ls == "" then some [] else (ls.splitOn ".").mapM String.toNat?)
      | _ => none
    -- `k:l.l` a block BlockGet returns, `k!l.l` a block that exists but cannot be fetched
    let parseLost (b : String) : Option (Nat × List Nat) :=
      match b.splitOn "!" with
      | [k, ls] => do pure (← k.toNat?, ← if ls == "" then some [] else (ls.splitOn ".").mapM String.toNat?)
      | _ => none
    let toks := if blocks == "-" then [] else blocks.splitOn ";"
    pure { follower := f == "f1", defMin := dmin, defMax := dmax, desc := s == "s1",
           peers := ← parsePeers peers, paths := ← listOf parseKV paths,
           blocks := ← (toks.filter (fun t => !t.contains '!')).mapM parseBlock,
           lost := ← (toks.filter (fun t => t.contains '!')).mapM parseLost }
  | _ => none

/-- round 8c: a pin token whose cid is `-` (cid.Undef) is read with the cid `noCid` (outside every universe), in
    requests, results, pinsets and logs alike — a request without a cid is a case to judge, not an unreadable line -/
def fixUndefTok (t : String) : String := if t.startsWith "-/" then toString noCid ++ (t.drop 1).toString else t
def parsePinU (t : String) : Option Pin := parsePin (fixUndefTok t)
def parsePinsetU (s : String) : Option PinMap :=
  if s == "-" then some [] else ((s.splitOn "|").map fixUndefTok).mapM parsePin

def parseOp : List String → Option Op
  | ["pin", c, o] => do pure (.pin (← c.toNat?) (← parseOpts o))
  | ["pinpath", p, o] => do pure (.pinPath (← p.toNat?) (← parseOpts o))
  | ["update", s, d, o] => do pure (.update (← s.toNat?) (← d.toNat?) (← parseOpts o))
  | ["unpin", c] => do pure (.unpin (← c.toNat?))
  | ["unpinpath", p] => do pure (.unpinPath (← p.toNat?))
  | ["rpcpin", p] => do pure (.rpcPin (← parsePinU p))
  | _ => none

/-- calls that enter through the real ClusterRPCAPI (rpc_api.go) -/
def parseRpc : List String → Option RpcCall
  | ["rpc.pin", p] => do pure (.pin (← parsePinU p))
  | ["rpc.unpin", p] => do pure (.unpin (← parsePin p))
  | ["rpc.pinpath", p, o] => do pure (.pinPath (← p.toNat?) (← parseOpts o))
  | ["rpc.unpinpath", p, o] => do pure (.unpinPath (← p.toNat?) (← parseOpts o))
  | ["rpc.pinget", c] => do pure (.pinGet (← c.toNat?))
  | _ => none

def parseLogEntry (s : String) : Option LogEntry :=
  if s.startsWith "P" then (parsePinU (s.drop 1).toString).map .logPin
  else if s == "U-" then some (.logUnpin noCid)
  else if s.startsWith "U" then (s.drop 1).toNat?.map .logUnpin
  else none

def parseLog (s : String) : Option (List LogEntry) :=
  if s == "-" then some [] else (s.splitOn ";").mapM parseLogEntry

/-- implementation result: none = err -/
def parseRes (s : String) : Option (Option Pin) :=
  if s == "err" || s == "panic" then some none
  else if s.startsWith "ok:" then
    -- a success that hands back a pin without a cid (the zero `api.Pin`: cid.Undef prints as "-") is still a
    -- success the clauses must judge, not an unreadable case: give it a cid outside every universe
    let t := (s.drop 3).toString
    let t := if t.startsWith "-/" then "4294967295" ++ (t.drop 1).toString else t
    (parsePin t).map some
  else none

/-- a trailing `!k`: the k-th consensus call of the API call fails -/
def splitFault (ws : List String) : List String × Option Nat :=
  match ws.getLast? with
  | some t => if t.startsWith "!" then (ws.dropLast, (t.drop 1).toNat?) else (ws, none)
  | none => (ws, none)

structure Case where
  cfg : Cfg
  pre : PinMap
  op : Op
  fault : Option Nat := none
  rpc : Option RpcCall := none       -- the call entered through the RPC layer; `op` is then what the request MEANS
  res : Option Pin
  post : PinMap
  log : List LogEntry

def parseCase (ws : List String) : Option Case := do
  let (pre, post) ← splitArrow ws
  match pre, post with
  | cfg :: peers :: paths :: blocks :: pm :: opw, [res, pm', log] =>
    let rpc := parseRpc (splitFault opw).1
    let op ← match rpc with
      | some call => some ((call.intended).getD (.unpin 0))
      | none => parseOp (splitFault opw).1
    pure { cfg := ← parseCfg cfg peers paths blocks, pre := ← parsePinsetU pm, op := op, rpc := rpc,
           fault := (splitFault opw).2, res := ← parseRes res, post := ← parsePinsetU pm', log := ← parseLog log }
  | _, _ => none

def opCid (cfg : Cfg) : Op → Option Nat
  | .pin c _ => some c
  | .pinPath p _ => lookup cfg.paths p
  | .update _ d _ => some d
  | .unpin c => some c
  | .unpinPath p => lookup cfg.paths p
  | .rpcPin p => some p.cid

def opName : Op → String
  | .pin .. => "pin" | .pinPath .. => "pinpath" | .update .. => "update"
  | .unpin .. => "unpin" | .unpinPath .. => "unpinpath" | .rpcPin .. => "rpcpin"

def canonLog (l : List LogEntry) : List LogEntry :=
  l.map (fun e => match e with | .logPin p => .logPin (canonPin p) | e => e)

/-- multiset comparison of logs (the order of the unpins of a sharded group follows CBOR link order) -/
def sameLog (a b : List LogEntry) : Bool := a.length == b.length && (canonLog a).isPerm (canonLog b)

/-! ### two overlapping calls (`C04 conc …`) -/

def splitAt (sep : String) (ws : List String) : List String × List String :=
  (ws.takeWhile (· ≠ sep), (ws.dropWhile (· ≠ sep)).drop 1)

def answerConc (ws : List String) : String :=
  if ws.contains "panic" || ws.contains "timeout" then "propfail call_panicked_or_hung arm=conc" else
  match splitArrow ws with
  | some (cfg :: peers :: paths :: blocks :: pm :: rest, [r1, r2, pm', _log]) =>
    let (aw, rest2) := splitAt "||" rest
    let bw := rest2.filter (fun t => !t.startsWith "@")
    let mode := ((rest2.filter (fun t => t.startsWith "@")).head?.getD "@abf").drop 1 |>.toString
    match parseCfg cfg peers paths blocks, parsePinset pm, parseOp aw, parseOp bw, parseRes r1, parseRes r2, parsePinset pm' with
    | some cfg, some pre, some a, some b, some rx, some ry, some post =>
      if !pre.wf then "bad-case pre-not-sorted" else
      let bFirst := mode.startsWith "ba"
      let stale := mode.endsWith "s"
      let (x, y) := if bFirst then (b, a) else (a, b)
      let cx : Call := { op := x, chosen := (rx.map (·.allocs)).getD [] }
      let cy : Call := { op := y, chosen := (ry.map (·.allocs)).getD [] }
      let outX := step cfg pre x cx.chosen
      let readY := readOfSecond cfg pre cx stale
      let outY := step cfg readY y cy.chosen
      let final := concurrent cfg pre cx cy stale
      let canonRes (r : Option Pin) := r.map canonPin
      let (ra, rb) := if bFirst then (ry, rx) else (rx, ry)
      let failed := (concClauses cfg (canonMap pre) a b (canonRes ra) (canonRes rb) (canonMap post)).filter (fun c => !c.2)
      let arm := "conc-" ++ opName x ++ "-" ++ opName y ++ (if stale then "-stale" else "-fresh") ++
        (if outX.res.isSome then "-ok" else "-err") ++ (if outY.res.isSome then "-ok" else "-err")
      let allocOk (o : Out) (ch : List Nat) := match o.alloc, o.res with
        | some ai, some _ => C03.allowed ai (.ok ch)
        | _, _ => true
      let agree := outX.res.isSome == rx.isSome && outY.res.isSome == ry.isSome && canonMap final == canonMap post &&
        allocOk outX cx.chosen && allocOk outY cy.chosen
      if !failed.isEmpty then "propfail " ++ ",".intercalate (failed.map (·.1)) ++ " arm=" ++ arm
      else if !agree then "diff arm=" ++ arm ++ " model-res=" ++ (if outX.res.isSome then "ok" else "err") ++ "," ++
        (if outY.res.isSome then "ok" else "err") ++ " model-post-size=" ++ toString final.length
      else "ok arm=" ++ arm
    | _, _, _, _, _, _, _ => "bad-case conc-parse"
  | _ => "bad-case conc"

/-- a reading RPC call (`PinGet`): the stored entry of that cid, error when absent; nothing changes -/
def answerRead (k : Case) (call : RpcCall) : String :=
  let arm := "rpc.pinget" ++ (if ((match call with | .pinGet c => k.pre.get c | _ => none)).isSome then "-present" else "-absent")
  let want : Option Pin := match call with | .pinGet c => k.pre.get c | _ => none
  let failed := [("pinget_reports_stored_entry", k.res.map canonPin == want.map canonPin),
                 ("read_leaves_pinset_unchanged", canonMap k.pre == canonMap k.post && k.log.isEmpty)].filter (fun c => !c.2)
  if !failed.isEmpty then "propfail " ++ ",".intercalate (failed.map (·.1)) ++ " arm=" ++ arm else
  match rpcRead Gen.rpcTable k.pre call with
  | some r => if (r.map (fun l => l.map canonPin)) == (k.res.map (fun p => [canonPin p])) then "ok arm=" ++ arm
              else "diff arm=" ++ arm ++ " model=" ++ (if r.isSome then "ok" else "err")
  | none => "diff arm=" ++ arm ++ " model=rpc-unknown-shape"

def answer (ws : List String) : String :=
  if ws.head? == some "conc" then answerConc ws.tail else
  match parseCase ws with
  | none => "bad-case parse"
  | some k =>
    if ws.contains "panic" then "propfail call_panicked arm=" ++ opName k.op else
    if !k.pre.wf then "bad-case pre-not-sorted" else
    match (match k.rpc with | some (.pinGet c) => some (RpcCall.pinGet c) | _ => none) with
    | some call => answerRead k call
    | none =>
    -- the allocation the implementation chose: that of the stored entry for the op's cid
    let chosen := match opCid k.cfg k.op with
      | some c => ((k.post.get c).map (·.allocs)).getD []
      | none => []
    -- through the RPC layer: the generated table of rpc_api.go decides which Cluster operation runs
    let semOp : Option Op := match k.rpc with
      | some call => rpcOp Gen.rpcTable call
      | none => some k.op
    -- round 8b/8d: the Cluster operation is RUN from the regenerated statement sequences of cluster.go (Gen.semProgs:
    -- constructors, guards, early returns in source order); with a `!k` fault the k-th consensus call those sequences
    -- issue fails (Sem.stepSemF). A statement of unknown shape / an unknown RPC table entry = no answer = diff
    let outRpc : Option Out := match semOp with
      | some op => Sem.stepSemF Gen.semProgs k.cfg k.pre op chosen k.fault
      | none => none
    let out := outRpc.getD (err k.pre)
    let reached := match k.fault with
      | some f => if f < (step k.cfg k.pre k.op chosen).log.length then "-fault" ++ toString f else ""
      | none => ""
    let sub := match k.op with
      | .pin .. | .pinPath .. =>
        (match pinRequest k.cfg k.op with
         | some (c, o) =>
           if (viaUpdate c o).isSome then "-viaupdate"
           else if (identicalRepin k.cfg k.pre c o).isSome then "-identical"
           else if (k.pre.get c).isSome then "-changed" else "-new"
         | none => "-unresolved")
      | .unpin c => (match k.pre.get c with | some p => if p.type == .metaT then "-meta" else if p.type == .dataT then "-data" else "-other" | none => "-absent")
      | .unpinPath pth => (match lookup k.cfg.paths pth with
          | some c => (match k.pre.get c with | some p => if p.type == .metaT then "-meta" else if p.type == .dataT then "-data" else "-other" | none => "-absent")
          | none => "-unresolved")
      | .rpcPin p => if p.cid == noCid then "-nocid" else
          (if (k.pre.get p.cid).isSome then "-existing" else "-new") ++
          (match p.type with | .dataT => "-data" | .metaT => "-meta" | .clusterDagT => "-dag" | .shardT => "-shard" | .badT => "-bad") ++
          (if p.allocs.isEmpty then "" else "-preset")
      | _ => ""
    let arm := (if k.rpc.isSome then "rpc." else "") ++ opName k.op ++ sub ++ reached ++ (if k.cfg.follower then "-follower" else "") ++ (if out.res.isSome then "-ok" else "-err")
    let agree :=
      outRpc.isSome &&
      out.res.isSome == k.res.isSome &&
      canonMap out.post == canonMap k.post &&
      sameLog out.log k.log &&
      (match out.res, k.res with
       | some a, some b => a.cid == b.cid && (a.allocs == b.allocs)
       | none, none => true
       | _, _ => false) &&
      (match out.alloc, out.res with
       | some ai, some _ => C03.allowed ai (.ok chosen)
       | _, _ => true)
    let failed := (clauses k.cfg k.pre k.op k.res k.post ++ undefClauses k.cfg k.pre k.op k.res k.post).filter (fun c => !c.2)
    if !failed.isEmpty then
      "propfail " ++ ",".intercalate (failed.map (·.1)) ++ " arm=" ++ arm
    else if !agree then
      "diff arm=" ++ arm ++ " model-res=" ++ (if out.res.isSome then "ok" else "err") ++ " model-post-size=" ++ toString out.post.length
    else "ok arm=" ++ arm

end CV.C04
