import ClusterVerif.Spec.C02
import ClusterVerif.Model.C02Hooks
import ClusterVerif.Model.C02Keys
import ClusterVerif.Model.C02Ctx
import ClusterVerif.Gen.C02
import Driver.Parse
/-! C02 driver: `set`, `batch` and `net` case lines (formats in harness/c02/*.go). Core only. -/
namespace CV.C02
open CV CV.Parse

def dropS (s : String) (n : Nat) : String := (s.drop n).toString

def parsePair (sep : String) (s : String) : Option (Nat × Nat) :=
  match s.splitOn sep with
  | [a, b] => do pure (← a.toNat?, ← b.toNat?)
  | _ => none

/-- `a.b,c.d` or `-` -/
def parsePairs (s : String) : Option (List (Nat × Nat)) := listOf (parsePair ".") s

def splitSemi (s : String) : List String := (s.splitOn ";").filter (· ≠ "")

def parseHook (s : String) : Option Hook :=
  if s.startsWith "P" || s.startsWith "T" then (parsePair "." (dropS s 1)).map (fun p => Hook.put p.1 p.2)
  else if s.startsWith "D" || s.startsWith "N" then (dropS s 1).toNat?.map Hook.del
  else none

def parseHooks (s : String) : Option (List Hook) := listOf parseHook s

def kvArg (pre : String) (ws : List String) : Option String :=
  (ws.find? (·.startsWith pre)).map (fun w => dropS w pre.length)

def sortNat (l : List Nat) : List Nat := l.mergeSort (· ≤ ·)
def sortPairs (l : List (Nat × Nat)) : List (Nat × Nat) :=
  l.mergeSort (fun a b => a.1 < b.1 || (a.1 == b.1 && a.2 ≤ b.2))
def dedupPairs (l : List (Nat × Nat)) : List (Nat × Nat) := (sortPairs l).eraseDups

def viewOf (r : Rep) (keys : List Key) : View :=
  (sortNat keys.eraseDups).filterMap (fun k => (r.viewAt k).map (fun v => (k, v)))

def failed (cl : List (String × Bool)) : List String := (cl.filter (fun c => !c.2)).map (·.1)

/-! ## set suite -/

inductive SStep where
  | loc (r : Nat) (ops : List BOp) (batch : Bool)
  | dlv (m r : Nat)
  | exch
  deriving Repr

def parseItem (s : String) : Option BOp :=
  if s.startsWith "+" then (parsePair "." (dropS s 1)).map (fun p => BOp.put p.1 p.2)
  else if s.startsWith "-" then (dropS s 1).toNat?.map BOp.del
  else none

def parseSStep (s : String) : Option SStep :=
  if s == "X" then some .exch
  else if s.startsWith "p" then
    match (dropS s 1).splitOn "." with
    | [r, k, v] => do pure (.loc (← r.toNat?) [.put (← k.toNat?) (← v.toNat?)] false)
    | _ => none
  else if s.startsWith "d" then
    match (dropS s 1).splitOn "." with
    | [r, k] => do pure (.loc (← r.toNat?) [.del (← k.toNat?)] false)
    | _ => none
  else if s.startsWith "b" then
    match (dropS s 1).splitOn "." with
    | r :: rest => do
      let items ← (".".intercalate rest |>.splitOn "_").mapM parseItem
      pure (.loc (← r.toNat?) items true)
    | _ => none
  else if s.startsWith "x" then
    match (dropS s 1).splitOn "." with
    | [m, r] => do pure (.dlv (← m.toNat?) (← r.toNat?))
    | _ => none
  else none

/-- an observed delta with its parents -/
structure DObs where
  d : Delta
  links : List Id
  deriving Repr

def parseDelta (s : String) : Option DObs :=
  match s.splitOn ":" with
  | [i, p, e, t, l] => do
    pure { d := { id := ← i.toNat?, prio := ← p.toNat?, elems := ← parsePairs e, tombs := ← parsePairs t },
           links := ← nats l }
  | _ => none

inductive SOut where
  | loc (r : Nat) (delta : Option DObs) (merged : List Id) (hooks : List Hook) (view : View)
  | dlv (r m : Nat) (merged : List Id) (hooks : List Hook) (view : View)
  | skip
  deriving Repr

def parseSOut (s : String) : Option SOut :=
  if s == "skip" then some .skip
  else match s.splitOn "/" with
  | [h, d, m, hk, v] =>
    if h.startsWith "L" then do
      let dl ← if d == "-" then some none else (parseDelta d).map some
      pure (.loc (← (dropS h 1).toNat?) dl (← nats m) (← parseHooks hk) (← parsePairs v))
    else none
  | [h, m, hk, v] =>
    if h.startsWith "R" then do
      let (r, mi) ← parsePair "." (dropS h 1)
      pure (.dlv r mi (← nats m) (← parseHooks hk) (← parsePairs v))
    else none
  | _ => none

structure SSim where
  reps : List Rep
  known : List (List Id)        -- deltas merged per replica
  deltas : List DObs
  views : List View             -- last observed view per replica
  steps : List SetStep := []
  agree : Bool := true
  why : String := ""
  revive : List (Nat × Key) := []   -- (step, key): the key came back with the stored value of a deleted element, no hook
  deriving Repr

def SSim.bad (s : SSim) (w : String) : SSim := if s.agree then { s with agree := false, why := w } else s

def getD' {α} (l : List α) (i : Nat) (d : α) : α := (l[i]?).getD d

def maxPrioOf (ds : List DObs) (known : List Id) : Nat :=
  known.foldl (fun m i => match ds.find? (fun x => x.d.id == i) with | some x => max m x.d.prio | none => m) 0

/-- ancestors-or-self of a delta -/
def closure (ds : List DObs) (fuel : Nat) (front seen : List Id) : List Id :=
  match fuel with
  | 0 => seen
  | fuel + 1 =>
    match front with
    | [] => seen
    | i :: rest =>
      if seen.contains i then closure ds fuel rest seen
      else
        let ls := match ds.find? (fun x => x.d.id == i) with | some x => x.links | none => []
        closure ds fuel (ls ++ rest) (i :: seen)

def ancestors (ds : List DObs) (i : Id) : List Id := closure ds (ds.length * ds.length + ds.length + 2) [i] []

/-- keys that a merge brings back with the value stored for a deleted element, without the put hook -/
def revives (pre post : Rep) (hooks : List Hook) (keys : List Key) : List Key :=
  keys.filter (fun k => pre.viewAt k == none && post.viewAt k == some (pre.prioVal k).2 &&
    (pre.vals.lookup k).isSome && !hooks.contains (.put k (pre.prioVal k).2))

def mergeIds (ds : List DObs) (r : Rep) (ids : List Id) : Rep × List Hook :=
  ids.foldl (fun acc i => match ds.find? (fun x => x.d.id == i) with
    | some x => let m := acc.1.merge x.d; (m.1, acc.2 ++ m.2)
    | none => acc) (r, [])

def setKeys (steps : List SStep) (outs : List SOut) : List Key :=
  ((steps.map (fun s => match s with | .loc _ ops _ => ops.map BOp.key | _ => [])).flatten ++
   (outs.map (fun o => match o with
      | .loc _ _ _ _ v => v.map (·.1)
      | .dlv _ _ _ _ v => v.map (·.1)
      | .skip => [])).flatten).eraseDups

def simLocal (keys : List Key) (s : SSim) (r : Nat) (ops : List BOp) (batch : Bool)
    (dl : Option DObs) (merged : List Id) (hooks : List Hook) (view : View) : SSim :=
  let rep := getD' s.reps r {}
  let kn := getD' s.known r []
  let pend := ops.foldl (fun p o => p.add rep o) ({} : Pend)
  let publishes := batch || !(pend.tombs.isEmpty && pend.elems.isEmpty)
  let before := getD' s.views r []
  let mk (s : SSim) (rep' : Rep) (kn' : List Id) : SSim :=
    { s with reps := s.reps.set r rep', known := s.known.set r kn', views := s.views.set r view,
             steps := s.steps ++ [{ replica := r, ops := some ops, hooks := hooks, before := before, after := view }] }
  match dl with
  | none =>
    let s := if publishes then s.bad "no-delta-published" else s
    let s := if !hooks.isEmpty || !merged.isEmpty || view != viewOf rep keys then s.bad "local-noop-changed" else s
    mk s rep kn
  | some d =>
    let s := if !publishes then s.bad "unexpected-delta" else s
    -- identical content, height and parents: the same DAG node as an earlier delta
    let old := s.deltas.find? (fun x => x.d.id == d.d.id)
    let s := match old with
      | some x => if x.d == d.d && x.links == d.links then s else s.bad "delta-id-reused"
      | none => if d.d.id != s.deltas.length then s.bad "delta-id" else s
    let s := if d.d.elems != pend.elems then s.bad "delta-elems" else s
    let s := if dedupPairs d.d.tombs != dedupPairs pend.tombs then s.bad "delta-tombs" else s
    let s := if d.d.prio != maxPrioOf s.deltas kn + 1 then s.bad "delta-prio" else s
    let s := if merged != [d.d.id] then s.bad "local-merged" else s
    let m := rep.merge d.d
    let s := if m.2 != hooks then s.bad "local-hooks" else s
    let s := if viewOf m.1 keys != view then s.bad "local-view" else s
    let s := { s with deltas := if old.isSome then s.deltas else s.deltas ++ [d],
                      revive := s.revive ++ (revives rep m.1 m.2 keys).map (fun k => (s.steps.length, k)) }
    mk s m.1 (d.d.id :: kn)

def simDeliver (keys : List Key) (s : SSim) (r m : Nat) (merged : List Id) (hooks : List Hook) (view : View) : SSim :=
  let rep := getD' s.reps r {}
  let kn := getD' s.known r []
  let expected := if kn.contains m then [] else (ancestors s.deltas m).filter (fun i => !kn.contains i)
  -- a node reachable along two branches may be processed twice (both walkers see it unknown)
  let s := if sortNat expected.eraseDups != sortNat merged.eraseDups then s.bad "walk-set" else s
  let s := if merged.head? != (if expected.isEmpty then none else some m) then s.bad "walk-head-first" else s
  let mm := mergeIds s.deltas rep merged
  let s := if mm.2 != hooks then s.bad "remote-hooks" else s
  let s := if viewOf mm.1 keys != view then s.bad "remote-view" else s
  let before := getD' s.views r []
  -- revival is judged delta by delta
  let rv := (merged.foldl (fun (acc : Rep × List Key) i => match s.deltas.find? (fun x => x.d.id == i) with
      | some x => let q := acc.1.merge x.d; (q.1, acc.2 ++ revives acc.1 q.1 q.2 keys)
      | none => acc) (rep, [])).2
  { s with reps := s.reps.set r mm.1, known := s.known.set r (merged ++ kn), views := s.views.set r view,
           revive := s.revive ++ rv.map (fun k => (s.steps.length, k)),
           steps := s.steps ++ [{ replica := r, ops := none, hooks := hooks, before := before, after := view }] }

/-- pair script steps with outputs; an `X` consumes every remaining delivery output -/
def simSet (keys : List Key) : SSim → List SStep → List SOut → Option SSim
  | s, [], [] => some s
  | _, [], _ :: _ => none
  | s, .exch :: st, outs =>
    let dl := outs.takeWhile (fun o => match o with | .dlv .. => true | _ => false)
    let rest := outs.drop dl.length
    let s := dl.foldl (fun s o => match o with
      | .dlv r m mg h v => simDeliver keys s r m mg h v
      | _ => s) s
    simSet keys s st rest
  | s, .loc r ops b :: st, .loc r' dl mg h v :: outs =>
    if r != r' then none else simSet keys (simLocal keys s r ops b dl mg h v) st outs
  | s, .dlv _ r :: st, .dlv r' m' mg h v :: outs =>
    if r != r' then none else simSet keys (simDeliver keys s r m' mg h v) st outs
  | s, .dlv _ _ :: st, .skip :: outs => simSet keys s st outs
  | _, _, _ => none

def concurrent (ds : List DObs) (a b : Id) : Bool :=
  a != b && !(ancestors ds a).contains b && !(ancestors ds b).contains a

def elemKeys (d : DObs) : List Key := d.d.elems.map (·.1)

/-- two concurrent puts of key `k` from different deltas and a delete that saw only one of them -/
def sigCpd (ds : List DObs) (k : Key) : Bool :=
  ds.any (fun a => ds.any (fun b => concurrent ds a.d.id b.d.id && (elemKeys a).contains k &&
    (elemKeys b).contains k && ds.any (fun t => t.d.tombs.contains (k, a.d.id) && !(ancestors ds t.d.id).contains b.d.id)))

/-- one delta puts key `k` twice while another replica puts `k` concurrently -/
def sigDup (ds : List DObs) (k : Key) : Bool :=
  ds.any (fun a => ((elemKeys a).filter (· == k)).length ≥ 2 &&
    ds.any (fun b => concurrent ds a.d.id b.d.id && (elemKeys b).contains k))

/-- keys on which two final pinsets hold different values -/
def divergingKeys (finals : List View) (keys : List Key) : List Key :=
  keys.filter (fun k => finals.any (fun a => finals.any (fun b =>
    (a.get k).isSome && (b.get k).isSome && a.get k != b.get k)))

/-- (step, key) pairs of the run whose change was not handed to the tracker -/
def uncovered (steps : List SetStep) : List (Nat × Key) :=
  ((List.range steps.length).zip steps).flatMap (fun p =>
    ((keysOf [] [p.2.before, p.2.after]).filter (fun k =>
      !(p.2.before.get k == p.2.after.get k || handedOver p.2.hooks k (p.2.after.get k)))).map (fun k => (p.1, k)))

/-- a failing clause is explained only by the exact complement of a proved theorem:
    `cpd`  value divergence on a key for which hypothesis (H2) of `values_converge_partial` fails
           (then two concurrent puts and a delete that saw only one of them exist: `sigCpd`);
    `dup`  … on a key for which (H1) fails (some delta puts it twice) while (H2) holds;
    `revive` the uncovered change is a revival, the exception of `hooks_cover_changes_or_revival` -/
def explainSet (fl : List String) (s : SSim) (finals : List View) (keys : List Key) : String :=
  let dk := divergingKeys finals keys
  let ds := s.deltas.map (·.d)
  let h2 := fun k => maxSurvivesK ds k
  let h1 := fun k => singlePutK ds k
  let tags : List (String × Bool) :=
    [ ("cpd", fl.contains "values_converge" && dk.any (fun k => !h2 k && sigCpd s.deltas k)),
      ("dup", fl.contains "values_converge" && dk.any (fun k => h2 k && !h1 k && sigDup s.deltas k)),
      ("revive", fl.contains "tracker_informed" && (uncovered s.steps).any s.revive.contains),
      ("unexplained",
        fl.contains "members_converge" || fl.contains "order_per_cid" ||
        (fl.contains "values_converge" && (dk.isEmpty || dk.any (fun k =>
          !((!h2 k && sigCpd s.deltas k) || (h2 k && !h1 k && sigDup s.deltas k))))) ||
        (fl.contains "tracker_informed" && (uncovered s.steps).any (fun q => !s.revive.contains q))) ]
  "+".intercalate ((tags.filter (·.2)).map (·.1))

def answerSet (pre post : List String) : String :=
  match pre, post with
  | [n, script], outsW :: rest =>
    match n.toNat?, (splitSemi script).mapM parseSStep, (splitSemi outsW).mapM parseSOut,
          (kvArg "fin=" rest), (kvArg "ex=" rest) with
    | some nrep, some steps, some outs, some fin, some ex =>
      match (fin.splitOn "|").mapM parsePairs with
      | none => "bad-case fin"
      | some finals =>
        let keys := setKeys steps outs
        let s0 : SSim := { reps := List.replicate nrep {}, known := List.replicate nrep [], deltas := [],
                           views := List.replicate nrep [] }
        match simSet keys s0 steps outs with
        | none => "bad-case steps-do-not-match-outputs"
        | some s =>
          let c : SetCase := { steps := s.steps, finals := finals, exchanged := ex == "1" }
          let fl := failed (setClauses c)
          let nd := s.deltas.length
          let arm := "set-r" ++ toString nrep ++ (if nd ≤ 2 then "-few" else if nd ≤ 5 then "-some" else "-many") ++
            (if s.deltas.any (fun d => !d.d.tombs.isEmpty) then "-del" else "") ++
            (if keys.any (sigCpd s.deltas) then "-cpd" else "") ++ (if keys.any (sigDup s.deltas) then "-dup" else "") ++
            (if !s.revive.isEmpty then "-revive" else "")
          if !fl.isEmpty then
            "propfail " ++ ",".intercalate fl ++ " arm=" ++ arm ++ " expl=" ++ explainSet fl s finals keys ++
              " model=" ++ (if s.agree then "agree" else "differ:" ++ s.why)
          else if !s.agree then "diff arm=" ++ arm ++ " model=" ++ s.why
          else "ok arm=" ++ arm ++ (if nd == 0 then " trivial" else "")
    | _, _, _, _, _ => "bad-case parse-set"
  | _, _ => "bad-case shape-set"

/-! ## batch suite -/

inductive BStep where
  | op (o : BOp) (m : Char)   -- `m`: the caller's context: '-' background, 'c' cancelled after the call, 'k' done, 'x' expiring
  | hold | waitBlocked | release (c : List Outcome) | arm (c : List Outcome) | flush
  deriving Repr

def classOutcome1 (c : Char) : Option Outcome :=
  if c == 'b' then some .failBlock else if c == 't' then some .failTombs
  else if c == 'e' then some .failElems else if c == 'x' then some .failHeads else none

/-- `o`/empty: no failure; otherwise one failure per publish attempt, in order -/
def classOutcome (s : String) : Option (List Outcome) :=
  if s == "o" || s == "" then some [] else s.toList.mapM classOutcome1

/-- script steps; `vals` gives the value id of every `P` step in order -/
def parseBSteps : List String → List Nat → Option (List BStep)
  | [], _ => some []
  | st0 :: rest, vals =>
    -- `c` / `k` / `x` in front of P/U: the context the operation was submitted with (request-scoped and cancelled
    -- after the call / already done / expiring). The state layer ignores it (`Ctx.take_ctx_irrelevant`): same step.
    let st := if (st0.startsWith "cP" || st0.startsWith "cU" || st0.startsWith "kP" || st0.startsWith "kU" ||
                  st0.startsWith "xP" || st0.startsWith "xU") then dropS st0 1 else st0
    let m : Char := if st == st0 then '-' else st0.front
    if st.startsWith "P" then
      match vals, ((dropS st 1).splitOn "/").head?.bind String.toNat? with
      | v :: vs, some c => (parseBSteps rest vs).map (fun l => .op (.put c v) m :: l)
      | _, _ => none
    else if st.startsWith "U" then do
      let c ← (dropS st 1).toNat?
      let l ← parseBSteps rest vals
      pure (.op (.del c) m :: l)
    else if st == "h" then (parseBSteps rest vals).map (.hold :: ·)
    else if st == "w" then (parseBSteps rest vals).map (.waitBlocked :: ·)
    else if st == "f" then (parseBSteps rest vals).map (.flush :: ·)
    else if st.startsWith "g" then do
      let c ← classOutcome (dropS st 1)
      let l ← parseBSteps rest vals
      pure (.release c :: l)
    else if st.startsWith "!" then do
      let c ← classOutcome (dropS st 1)
      let l ← parseBSteps rest vals
      pure (.arm c :: l)
    else none

inductive BOut where
  | res (r : Result)
  | mark
  | blocked (b : Bool)
  | obs (fillers : List (BOp × Result)) (state : View) (calls : List Hook) (att : Option (List (Nat × Option Outcome)))
  deriving Repr

def parseFiller (s : String) : Option (BOp × Result) :=
  let n := s.length
  let body := (s.take (n - 1)).toString
  let r := dropS s (n - 1)
  do
    let (c, v) ← parsePair "." body
    let res ← if r == "o" then some Result.ok else if r == "r" then some Result.refused else if r == "e" then some Result.err else none
    pure (.put c v, res)

/-- `<taken><o|b|t|e|x>` -/
def parseAttempt (s : String) : Option (Nat × Option Outcome) :=
  let n := s.length
  do
    let t ← (s.take (n - 1)).toString.toNat?
    match (dropS s (n - 1)).toList with
    | ['o'] => pure (t, none)
    | [c] => pure (t, some (← classOutcome1 c))
    | _ => none

def parseBOut (s : String) : Option BOut :=
  if s == "o" then some (.res .ok) else if s == "r" then some (.res .refused) else if s == "e" then some (.res .err)
  else if s == "h" || s == "g" || s == "!" then some .mark
  else if s == "w1" then some (.blocked true) else if s == "w0" then some (.blocked false)
  else match s.splitOn "/" with
    | ["f", fl, st, cl] => do pure (.obs (← listOf parseFiller fl) (← parsePairs st) (← parseHooks cl) none)
    | ["f", fl, st, cl, ats] => do
      pure (.obs (← listOf parseFiller fl) (← parsePairs st) (← parseHooks cl) (some (← listOf parseAttempt ats)))
    | _ => none

structure BCfg where
  mode : Char
  cfg : Cfg
  deriving Repr

def parseBCfg (s : String) : Option BCfg :=
  if s == "N" then some { mode := 'N', cfg := { maxSize := 0, qcap := 0 } }
  else if s.startsWith "Z" || s.startsWith "S" then do
    let (a, b) ← parsePair "." (dropS s 1)
    pure { mode := if s.startsWith "Z" then 'Z' else 'S', cfg := { maxSize := a, qcap := b } }
  else none

structure BSim where
  s : St := {}
  armed : List Outcome := []
  gate : Bool := false
  taken : Nat := 0
  hooks : List Hook := []
  fired : Nat := 0
  agree : Bool := true
  why : String := ""
  ops : List (BOp × Result) := []
  obs : List Obs := []
  failHeads : Bool := false
  /-- CIDs of the deltas whose head write failed (the delta was merged, the heads were not replaced) -/
  failKeys : List Key := []
  /-- observations taken while the worker's batch was open (see `observe`) -/
  openObs : Nat := 0
  /-- round 8c: the context model (`Model/C02Ctx`) run by the driver: context id of every queued item, done contexts,
      next fresh id, the context marker of every entry of `ops`, items the state layer refused for a done context -/
  ctxs : List Nat := []
  done : List Nat := []
  nctx : Nat := 0
  marks : List Char := []
  ctxDrops : Nat := 0
  deriving Repr

/-- the state layer of the run: DERIVED from the regenerated context uses of state/dsstate (`Gen.dsstateCtxUses`);
    `Ctx.Layer.asIs` on the unchanged tree (`gen_state_layer_ignores_ctx`). A layer that honours the context makes
    the driver's worker drop the items whose context is done (`Ctx.addOk`): a model arm, labelled `-ctxlayer`. -/
def drvLayer : Ctx.Layer := Ctx.layerOf Gen.dsstateCtxUses

def pendKeys (p : Pend) : List Key := (p.elems.map (·.1) ++ p.tombs.map (·.1)).eraseDups

def BSim.bad (b : BSim) (w : String) : BSim := if b.agree then { b with agree := false, why := w } else b

def applicable (p : Pend) : Outcome → Bool
  | .failTombs => !p.tombs.isEmpty
  | .failElems => !p.elems.isEmpty
  | _ => true

/-- one action of the worker if it can act: finish a due commit (unless held at the gate) or take an item -/
def workerAct (cfg : Cfg) (b : BSim) : Option BSim :=
  match b.s.phase with
  | .due _ =>
    if b.gate then none else
    let out := match b.armed with
      | o :: _ => if applicable b.s.pend o then o else .ok
      | [] => .ok
    match step cfg b.s (.commit out) with
    | some (s', .hooks h) =>
      some { b with s := s', hooks := b.hooks ++ h, armed := if out == .ok then b.armed else b.armed.drop 1,
                    fired := if out == .ok then b.fired else b.fired + 1,
                    failHeads := b.failHeads || out == .failHeads,
                    failKeys := if out == .failHeads then b.failKeys ++ pendKeys b.s.pend else b.failKeys }
    | some (s', _) => some { b with s := s' }
    | none => none
  | .idle =>
    let ok := Ctx.addOk drvLayer { s := b.s, ctxs := b.ctxs, done := b.done }
    match step cfg b.s (.take ok) with
    | some (s', _) => some { b with s := s', ctxs := b.ctxs.drop 1, ctxDrops := b.ctxDrops + (if ok then 0 else 1) }
    | none => none

def drain (cfg : Cfg) : Nat → BSim → BSim
  | 0, b => b
  | fuel + 1, b => match workerAct cfg b with
    | some b' => drain cfg fuel b'
    | none => b

/-- the worker acts only as far as needed to make room in the queue -/
def makeRoom (cfg : Cfg) : Nat → BSim → BSim
  | 0, b => b
  | fuel + 1, b =>
    if b.s.queue.length < cfg.qcap then b else
    match workerAct cfg b with
    | some b' => makeRoom cfg fuel b'
    | none => b

def submitZ (cfg : Cfg) (b : BSim) (o : BOp) (r : Result) (m : Char := '-') : BSim :=
  let b := { b with ops := b.ops ++ [(o, r)], marks := b.marks ++ [m] }
  match r with
  | .ok =>
    let b := makeRoom cfg 1000 b
    match step cfg b.s (.log o) with
    | some (s', .accepted) =>
      -- `Ctx.XEv.log o ctx` (the context is not consulted), then — for a marked operation — `Ctx.XEv.cancel ctx`:
      -- the harness ends the context as soon as the call returned (or before it), i.e. before the worker's take
      { b with s := s', ctxs := b.ctxs ++ [b.nctx], done := if m != '-' then b.nctx :: b.done else b.done, nctx := b.nctx + 1 }
    | _ => b.bad "accepted-with-full-queue"
  | .refused => if b.s.queue.length < cfg.qcap then b.bad "refused-with-room" else b
  | .err => b.bad "error-result-in-batch-mode"

def submitN (b : BSim) (o : BOp) (r : Result) (m : Char := '-') : BSim :=
  let b := { b with ops := b.ops ++ [(o, r)], marks := b.marks ++ [m] }
  -- batching off: `state.Add/Rm(ctx, …)` is called by LogPin/LogUnpin itself; a layer honouring the context refuses
  -- a context that is already done with an error and changes nothing
  if drvLayer.honoursCtx && m == 'k' then
    (if r == .err then { b with ctxDrops := b.ctxDrops + 1 } else b.bad "direct-result-done-ctx") else
  let p : Pend := ({} : Pend).add b.s.rep o
  let publishes := !(p.tombs.isEmpty && p.elems.isEmpty)
  let out := match b.armed with
    | a :: _ => if publishes && applicable p a then a else .ok
    | [] => .ok
  let d := b.s.direct o out
  let b := { b with s := d.1, hooks := b.hooks ++ d.2.2, armed := if out == .ok then b.armed else b.armed.drop 1,
                    fired := if out == .ok then b.fired else b.fired + 1,
                    failHeads := b.failHeads || out == .failHeads,
                    failKeys := if out == .failHeads then b.failKeys ++ pendKeys p else b.failKeys }
  match r, d.2.1 with
  | .ok, true => b
  | .err, false => b
  | _, _ => b.bad "direct-result"

/-- index (in `ops`) of the `n`-th accepted operation counted from the END; `ops.length` for `n = 0` -/
def cutBeforeLastAccepted (ops : List (BOp × Result)) (n : Nat) : Nat :=
  let r := ops.reverse.foldl (fun (acc : Nat × Nat) q =>
    -- acc = (accepted operations still to skip, operations skipped)
    if acc.1 == 0 then acc else (if q.2 == .ok then acc.1 - 1 else acc.1, acc.2 + 1)) (n, 0)
  ops.length - r.2

/-- `openTail`: number of accepted operations that sit in an OPEN batch at this moment (taken by the worker, batch
    neither full nor old): the property does not require them to have taken effect yet, so the observation speaks
    about the operations before them. This happens after a FAILED commit: the failed batch is kept and committed
    together with the next item, so the worker's batch boundaries no longer are multiples of the size the harness
    fills up to (round 8c: the former K05d2 shape). -/
def observe (keys : List Key) (modelled : Bool) (b : BSim) (state : View) (calls : List Hook) (openTail : Nat := 0) : BSim :=
  let b := if modelled && viewOf b.s.rep keys != state then b.bad "state" else b
  let b := if modelled && b.hooks != calls then b.bad "tracker-calls" else b
  let accepted := (b.ops.filter (fun q => q.2 == .ok)).map (·.1)
  let b := if !modelled && sortPairs (replay accepted []) != state then b.bad "state-not-replay" else b
  { b with hooks := [], openObs := b.openObs + (if openTail > 0 then 1 else 0),
           obs := b.obs ++ [{ upto := cutBeforeLastAccepted b.ops openTail, state := state, calls := calls }] }

/-- age mode with observed boundaries: bring the worker to `t` taken operations (each accepted operation
    is logged and taken at once — the model may not reach `Commit` on the way), let the timer fire if the
    size limit did not put it in front of `Commit`, and end the attempt as observed -/
def takeUpTo (cfg : Cfg) (accepted : List (BOp × Char)) : Nat → Nat → BSim → BSim
  | 0, _, b => b
  | fuel + 1, t, b =>
    if b.taken ≥ t then b else
    match accepted[b.taken]? with
    | none => b.bad "boundary-beyond-accepted"
    | some (o, m) =>
      if b.s.phase != .idle then b.bad "boundary-after-full-batch" else
      match step cfg b.s (.log o) with
      | some (s1, .accepted) =>
        let ok := Ctx.addOk drvLayer { s := s1, ctxs := [0], done := if m != '-' then [0] else [] }
        match step cfg s1 (.take ok) with
        | some (s2, _) => takeUpTo cfg accepted fuel t { b with s := s2, taken := b.taken + 1, ctxDrops := b.ctxDrops + (if ok then 0 else 1) }
        | none => b.bad "take-not-enabled"
      | _ => b.bad "log-refused"

def attemptS (cfg : Cfg) (accepted : List (BOp × Char)) (b : BSim) (a : Nat × Option Outcome) : BSim :=
  let b := takeUpTo cfg accepted 1000 a.1 b
  let b := match b.s.phase with
    | .idle => match step cfg b.s .timerFire with
      | some (s', _) => { b with s := s' }
      | none => b.bad "commit-without-timer"
    | _ => b
  let out := a.2.getD .ok
  match step cfg b.s (.commit out) with
  | some (s', .hooks h) =>
    { b with s := s', hooks := b.hooks ++ h, fired := if out == .ok then b.fired else b.fired + 1,
             failHeads := b.failHeads || out == .failHeads,
             failKeys := if out == .failHeads then b.failKeys ++ pendKeys b.s.pend else b.failKeys }
  | some (s', _) => { b with s := s' }
  | none => b.bad "commit-not-enabled"

def simBatch (bc : BCfg) (keys : List Key) : BSim → List BStep → List BOut → Option BSim
  | b, [], [] => some b
  | b, .op o m :: st, .res r :: outs =>
    let b := match bc.mode with
      | 'N' => submitN b o r m
      | 'Z' => submitZ bc.cfg b o r m
      | _ => let b := { b with ops := b.ops ++ [(o, r)], marks := b.marks ++ [m] }; if r == .ok then b else b.bad "result-in-age-mode"
    simBatch bc keys b st outs
  | b, .hold :: st, .mark :: outs => simBatch bc keys { b with gate := true } st outs
  | b, .release c :: st, .mark :: outs => simBatch bc keys { b with gate := false, armed := b.armed ++ c } st outs
  | b, .arm c :: st, .mark :: outs => simBatch bc keys { b with armed := b.armed ++ c } st outs
  | b, .waitBlocked :: st, .blocked w :: outs =>
    let b := drain bc.cfg 1000 b
    let held := b.gate && b.s.phase != .idle
    simBatch bc keys (if held == w then b else b.bad "worker-held") st outs
  | b, .flush :: st, .obs fl state calls att :: outs =>
    match bc.mode, att with
    | 'S', some atts =>
      -- age mode with the observed commit attempts: the model runs with exactly those boundaries
      let b := { b with ops := b.ops ++ fl, marks := b.marks ++ fl.map (fun _ => '-') }
      let accepted := ((b.ops.zip b.marks).filter (fun q => q.1.2 == .ok)).map (fun q => (q.1.1, q.2))
      let b := atts.foldl (attemptS bc.cfg accepted) b
      let b := if b.taken != accepted.length then b.bad "operations-not-committed-at-flush" else b
      let b := if b.s.phase != .idle || !b.s.pend.elems.isEmpty || !b.s.pend.tombs.isEmpty then b.bad "not-drained" else b
      simBatch bc keys (observe keys true b state calls) st outs
    | 'N', _ => simBatch bc keys (observe keys true b state calls) st outs
    | 'Z', _ =>
      let b := fl.foldl (fun b q => submitZ bc.cfg b q.1 q.2) b
      let b := drain bc.cfg 1000 b
      let b := if b.s.phase != .idle || !b.s.queue.isEmpty then b.bad "not-drained" else b
      -- the harness fills up to a multiple of the size; after a failed commit the worker's boundaries shift
      let openTail := if b.fired > 0 && !b.s.pend.isNil && b.s.curSize < bc.cfg.maxSize then b.s.curSize else 0
      simBatch bc keys (observe keys true b state calls openTail) st outs
    | _, _ =>
      let b := { b with ops := b.ops ++ fl, marks := b.marks ++ fl.map (fun _ => '-') }
      simBatch bc keys (observe keys false b state calls) st outs
  | _, _, _ => none

/-- Classification of a batch case that fails a clause (K05d family). `failheads`: a head-write failure fired in the
    model's run, the tracker clause holds, and EVERY (observation, CID) that does not show the entry of the last accepted
    operation (a) belongs to a delta whose head write failed and (b) shows an entry an ACCEPTED earlier operation of
    that CID produced (or the initial absence) — the stale entry that wins at the unchanged height. Anything else —
    also a case where `refused_no_effect` fails — stays `unexplained` (a VIOLATION). (K05d2 never was a finding: it
    was a false alarm of this driver's observation point, repaired in round 8c; no tag is kept for it.) -/
def explainBatch (b : BSim) (c : BatchCase) (fl : List String) : String :=
  if !b.failHeads || fl.contains "tracker_informed" then "unexplained" else
  let ks := keysOf (c.ops.map (·.1)) (c.obs.map (·.state))
  let stale := c.obs.all (fun o => ks.all (fun k =>
    let now := o.state.get k
    (allowedAt k (c.ops.take o.upto) [none]).contains now ||
      (b.failKeys.contains k && (staleAt k (c.ops.take o.upto) none).contains now)))
  if !stale || fl.contains "refused_no_effect" then "unexplained" else "failheads"

def answerBatch (pre post : List String) : String :=
  match pre with
  | [cfgW, script] =>
    match parseBCfg cfgW, kvArg "vals=" post, kvArg "tr=" post, kvArg "fired=" post with
    | some bc, some valsW, some trW, some firedW =>
      match nats valsW, (splitSemi trW).mapM parseBOut with
      | some vals, some outs =>
        match parseBSteps (splitSemi script) vals with
        | none => "bad-case script"
        | some steps =>
          let keys := ((steps.filterMap (fun s => match s with | .op o _ => some o.key | _ => none)) ++
            (outs.map (fun o => match o with
              | .obs fl st _ _ => fl.map (fun q => q.1.key) ++ st.map (·.1)
              | _ => [])).flatten).eraseDups
          match simBatch bc keys {} steps outs with
          | none => "bad-case trace-does-not-match-script"
          | some b =>
            let b := if b.fired != (if firedW == "-" then 0 else firedW.length) then b.bad "fired" else b
            let c : BatchCase := { ops := b.ops, obs := b.obs }
            let fl := failed (batchClauses c)
            let nref := (b.ops.filter (fun q => q.2 == .refused)).length
            let nctx := ((splitSemi script).filter (fun st => st.startsWith "c" || st.startsWith "k" || st.startsWith "x")).length
            let arm := "batch-" ++ toString bc.mode ++
              (if bc.mode == 'N' then "" else if bc.cfg.maxSize ≥ 50 then "-age" else "-size" ++ toString bc.cfg.maxSize) ++
              (if nref > 0 then "-refused" else "") ++
              (if nctx > 0 then "-ctx" else "") ++
              (if drvLayer.honoursCtx then "-ctxlayer" else "") ++
              (if b.ctxDrops > 0 then "-ctxdrop" else "") ++
              (if firedW == "-" then "" else "-fail" ++ firedW) ++
              (if b.openObs > 0 then "-openobs" else "") ++
              (if bc.mode == 'S' then "-cuts" ++ toString (min 4 b.s.height) else "")
            if !fl.isEmpty then
              "propfail " ++ ",".intercalate fl ++ " arm=" ++ arm ++ " expl=" ++
                explainBatch b c fl ++ " model=" ++ (if b.agree then "agree" else "differ:" ++ b.why)
            else if !b.agree then "diff arm=" ++ arm ++ " model=" ++ b.why
            else "ok arm=" ++ arm ++ (if b.obs.isEmpty || b.ops.isEmpty then " trivial" else "")
      | _, _ => "bad-case parse-batch-output"
    | _, _, _, _ => "bad-case parse-batch"
  | _ => "bad-case shape-batch"

/-! ## net suite -/

def parseNetCfg (s : String) : Option (Nat × List (List Nat) × String) :=
  match s.splitOn "/" with
  | [n, t, b] => do
    let n ← (dropS n 1).toNat?
    if t == "RA" || t == "RB" || t == "RT" then
      -- relay chain 0 - 1 - 2: peers 0 and 1 trust everybody, peer 2 trusts peer 0 / peer 1 / everybody
      if n != 3 then none else
      pure (n, [[1, 2], [0, 2], if t == "RA" then [0] else if t == "RB" then [1] else [0, 1]], t ++ "-" ++ b)
    else
    let out : Option Nat ← if t == "A" || t == "T" then some none
      else if t.startsWith "O" then (dropS t 1).toNat?.map some else none
    let trusts := (List.range n).map (fun i => (List.range n).filter (fun j => j != i && some j != out))
    pure (n, trusts, t ++ "-" ++ b)
  | _ => none

/-- operations of one phase; `vals` feeds the value ids of the pins in order -/
def parseNetOps : List String → List Nat → Option (List (Nat × BOp) × List Nat)
  | [], vals => some ([], vals)
  | st :: rest, vals =>
    match st.splitOn "P" with
    | [r, tok] =>
      match vals, r.toNat?, (tok.splitOn "/").head?.bind String.toNat? with
      | v :: vs, some r, some c => (parseNetOps rest vs).map (fun p => ((r, BOp.put c v) :: p.1, p.2))
      | _, _, _ => none
    | _ =>
      match st.splitOn "U" with
      | [r, c] => do
        let r ← r.toNat?
        let c ← c.toNat?
        let p ← parseNetOps rest vals
        pure ((r, BOp.del c) :: p.1, p.2)
      | _ => none

def parseNetPhases : List String → List Nat → Option (List (List (Nat × BOp)))
  | [], _ => some []
  | ph :: rest, vals => do
    let p ← parseNetOps (splitSemi ph) vals
    let l ← parseNetPhases rest p.2
    pure (p.1 :: l)

def parseRes (s : String) : Option Result :=
  if s == "o" then some .ok else if s == "r" then some .refused else if s == "e" then some .err else none

def parseNetObs (s : String) : Option NetObs :=
  match s.splitOn "/" with
  | [st, cl] => do pure { state := ← parsePairs st, calls := ← parseHooks cl }
  | _ => none

/-- `<replica>:<cid>.<val><o|r|e>` -/
def parseSentinel (s : String) : Option NetOp :=
  match s.splitOn ":" with
  | [r, f] => do
    let (o, res) ← parseFiller f
    pure { replica := ← r.toNat?, op := o, res := res }
  | _ => none

def parseNetPhaseOut (s : String) : Option (List Result × List NetOp × List NetObs) :=
  match s.splitOn "#" with
  | r :: sen :: obs => do pure (← listOf parseRes r, ← listOf parseSentinel sen, ← obs.mapM parseNetObs)
  | _ => none

def answerNet (pre post : List String) : String :=
  match pre with
  | [cfgW, script] =>
    match parseNetCfg cfgW, kvArg "vals=" post, kvArg "ph=" post with
    | some (n, trusts, tag), some valsW, some phW =>
      match nats valsW, (phW.splitOn "|").mapM parseNetPhaseOut with
      | some vals, some outs =>
        match parseNetPhases (script.splitOn "|") vals with
        | none => "bad-case net-script"
        | some phases =>
          if phases.length != outs.length || (phases.zip outs).any (fun p => p.1.length != p.2.1.length) ||
             outs.any (fun o => o.2.2.length != n) then "bad-case net-shape" else
          let nphases : List (List NetOp) :=
            (phases.zip outs).map (fun p => (p.1.zip p.2.1).map (fun q => NetOp.mk q.1.1 q.1.2 q.2) ++ p.2.2.1)
          let c : NetCase := NetCase.mk n trusts nphases (outs.map (·.2.2))
          let fl := failed (netClauses c)
          let nops := (phases.map List.length).foldl (· + ·) 0
          let arm := "net-r" ++ toString n ++ "-" ++ tag
          if !fl.isEmpty then "propfail " ++ ",".intercalate fl ++ " arm=" ++ arm ++ " expl=unexplained model=none"
          else "ok arm=" ++ arm ++ (if nops == 0 then " trivial" else "")
      | _, _ => "bad-case parse-net-output"
    | _, _, _ => "bad-case parse-net"
  | _ => "bad-case shape-net"

/-! ## val suite: the real topic validator against `validate` / `gstep` -/

def parseValStep (s : String) : Option (Char × Nat × Nat) :=
  if s.startsWith "T" then (dropS s 1).toNat?.map (fun p => ('T', p, 0))
  else if s.startsWith "D" then (dropS s 1).toNat?.map (fun p => ('D', p, 0))
  else if s.startsWith "M" then (parsePair "." (dropS s 1)).map (fun p => ('M', p.1, p.2))
  else none

def answerVal (pre post : List String) : String :=
  match pre with
  | [mode, hist] =>
    match (splitSemi hist).mapM parseValStep, kvArg "v=" post, kvArg "it=" post with
    | some steps, some vW, some itW =>
      let vs := if vW == "-" then [] else vW.toList.map (· == '1')
      let its := if itW == "-" then [] else itW.toList.map (· == '1')
      let nm := (steps.filter (fun q => q.1 == 'M')).length
      if vs.length != nm || its.length != nm || (mode != "A" && mode != "L") then "bad-case val-shape" else
      -- model: the gated composed replica; a message carries one fresh delta, accepted iff the replica changed
      let g0 : GSt := { c := { me := ⟨0, 2⟩ }, t := ⟨0, mode == "A", []⟩ }
      let sim := steps.foldl (fun (acc : GSt × List Bool × List ValEv × List Bool × Nat) q =>
        let (g, mv, evs, vrest, i) := acc
        if q.1 == 'T' then ((gstep ⟨1, 1⟩ g (.trust q.2.1)).getD g, mv, evs ++ [.trust q.2.1], vrest, i)
        else if q.1 == 'D' then ((gstep ⟨1, 1⟩ g (.distrust q.2.1)).getD g, mv, evs ++ [.distrust q.2.1], vrest, i)
        else
          let d : Delta := ⟨2 * i + 1, 1, [(i, 1)], []⟩
          let g' := (gstep ⟨1, 1⟩ g (.msg q.2.2 q.2.1 [d])).getD g
          (g', mv ++ [g'.c.got.length != g.c.got.length], evs ++ [.msg q.2.1 q.2.2 (vrest.headD false)], vrest.drop 1, i + 1))
        (g0, [], [], vs, 0)
      let (_, mv, evs, _, _) := sim
      let fl := failed (valClauses { trustAll := mode == "A", self := 0, evs := evs })
      let arm := "val-" ++ mode ++ (if nm == 0 then "-nomsg" else if vs.all id then "-allacc" else if vs.all (!·) then "-allrej" else "-mixed") ++
        (if steps.any (fun q => q.1 == 'D') then "-distrust" else "") ++
        (if steps.any (fun q => q.1 == 'M' && q.2.1 != q.2.2) then "-relayed" else "")
      if !fl.isEmpty then "propfail " ++ ",".intercalate fl ++ " arm=" ++ arm ++ " expl=unexplained model=" ++ (if mv == vs then "agree" else "differ")
      else if mv != vs then "diff arm=" ++ arm ++ " model=verdicts"
      else if its != vs then "diff arm=" ++ arm ++ " model=IsTrustedPeer-disagrees-with-validator"
      else "ok arm=" ++ arm ++ (if nm == 0 then " trivial" else "")
    | _, _, _ => "bad-case parse-val"
  | _ => "bad-case shape-val"

/-! ## comp suite: the composed replica -/

structure CSim where
  c : CSt := { me := ⟨0, 2⟩ }
  armed : List Outcome := []
  fired : Nat := 0
  hooks : List Hook := []
  idmap : List (Nat × Nat) := []       -- observed node number of A ↦ model id
  agree : Bool := true
  why : String := ""
  steps : List SetStep := []
  view : View := []
  remote : Nat := 0
  openRecv : Bool := false             -- a remote delta was merged while a batch was open
  cleaned : Bool := false
  deriving Repr

def CSim.bad (b : CSim) (w : String) : CSim := if b.agree then { b with agree := false, why := w } else b

def parseCDelta (s : String) : Option Delta :=
  match s.splitOn ":" with
  | [i, p, e, t] => do pure { id := ← i.toNat?, prio := ← p.toNat?, elems := ← parsePairs e, tombs := ← parsePairs t }
  | _ => none

def parseCDeltas (s : String) : Option (List Delta) :=
  if s == "-" then some [] else (s.splitOn "+").mapM parseCDelta

/-- the eager worker: take whatever is queued, commit when in front of `Commit` -/
def cdrain (cfg : Cfg) : Nat → CSim → CSim
  | 0, b => b
  | fuel + 1, b =>
    match b.c.phase with
    | .due _ =>
      let out := match b.armed with
        | o :: _ => if applicable b.c.pend o then o else .ok
        | [] => .ok
      match cstep cfg b.c (.loc (.commit out)) with
      | some (c', .hooks h) =>
        cdrain cfg fuel { b with c := c', hooks := b.hooks ++ h, armed := if out == .ok then b.armed else b.armed.drop 1,
                                 fired := if out == .ok then b.fired else b.fired + 1 }
      | some (c', _) => cdrain cfg fuel { b with c := c' }
      | none => b
    | .idle =>
      match cstep cfg b.c (.loc (.take true)) with
      | some (c', _) => cdrain cfg fuel { b with c := c' }
      | none => b

def cSubmit (bc : BCfg) (b : CSim) (o : BOp) (r : Result) : CSim :=
  if bc.mode == 'N' then
    let p : Pend := ({} : Pend).add b.c.rep o
    let publishes := !(p.tombs.isEmpty && p.elems.isEmpty)
    let out := match b.armed with
      | a :: _ => if publishes && applicable p a then a else .ok
      | [] => .ok
    let d := b.c.direct o out
    let b := { b with c := d.1, hooks := b.hooks ++ d.2.2, armed := if out == .ok then b.armed else b.armed.drop 1,
                      fired := if out == .ok then b.fired else b.fired + 1 }
    match r, d.2.1 with
    | .ok, true => b
    | .err, false => b
    | _, _ => b.bad "direct-result"
  else
    match r, cstep bc.cfg b.c (.loc (.log o)) with
    | .ok, some (c', .accepted) => cdrain bc.cfg 100 { b with c := c' }
    | .refused, some (_, .rejected) => b
    | _, _ => b.bad "log-result"

/-- compare what A published during the step with the model's stream growth, hooks and view -/
def cObserve (keys : List Key) (b : CSim) (n0 : Nat) (ds : List Delta) (hooks : List Hook) (view : View) : CSim :=
  let newOut := b.c.out.drop n0
  let b := if newOut.length != ds.length then b.bad "stream-length" else b
  let b := (newOut.zip ds).foldl (fun (b : CSim) p =>
    let b := { b with idmap := (p.2.id, p.1.id) :: b.idmap }
    let tr := p.2.tombs.map (fun t => (t.1, if t.2 % 2 == 1 then t.2 else ((b.idmap.lookup t.2).getD 9999)))
    let b := if p.1.elems != p.2.elems then b.bad "delta-elems" else b
    let b := if dedupPairs p.1.tombs != dedupPairs tr then b.bad "delta-tombs" else b
    if p.1.prio != p.2.prio then b.bad "delta-prio" else b) b
  let b := if b.hooks != hooks then b.bad "tracker-calls" else b
  let b := if viewOf b.c.rep keys != view then b.bad "view" else b
  { b with hooks := [], view := view,
           steps := b.steps ++ [{ replica := 0, ops := none, hooks := hooks, before := b.view, after := view }] }

def cRemote (keys : List Key) (b : CSim) (ds : List Delta) (hooks : List Hook) (view : View) : CSim :=
  let b := match ds with
    | [] => b
    | [d] =>
      if d.id % 2 == 0 then b   -- a node identical to one of A's own (same content, height, parents): known, skipped
      else
        let d' := { d with tombs := d.tombs.map (fun t => (t.1, if t.2 % 2 == 1 then t.2 else ((b.idmap.lookup t.2).getD 9999))) }
        match cstep ⟨1, 1⟩ b.c (.recv [d']) with
        | some (c', .hooks h) =>
          { b with c := c', hooks := b.hooks ++ h, remote := b.remote + 1,
                   openRecv := b.openRecv || !(b.c.pend.elems.isEmpty && b.c.pend.tombs.isEmpty) }
        | _ => b.bad "recv"
    | _ => b.bad "remote-step-published-several"
  cObserve keys b b.c.out.length [] hooks view

inductive CStepS where
  | loc (o : BOp) | rem (o : BOp) | arm (c : List Outcome) | flush | clean
  deriving Repr

def parseCSteps : List String → List Nat → Option (List CStepS)
  | [], _ => some []
  | st :: rest, vals =>
    let remote := st.startsWith "r"
    let body := if remote then dropS st 1 else st
    if body.startsWith "P" then
      match vals, ((dropS body 1).splitOn "/").head?.bind String.toNat? with
      | v :: vs, some c => (parseCSteps rest vs).map (fun l => (if remote then .rem (.put c v) else .loc (.put c v)) :: l)
      | _, _ => none
    else if body.startsWith "U" then do
      let c ← (dropS body 1).toNat?
      let l ← parseCSteps rest vals
      pure ((if remote then .rem (.del c) else .loc (.del c)) :: l)
    else if st == "f" then (parseCSteps rest vals).map (.flush :: ·)
    else if st == "c" then (parseCSteps rest vals).map (.clean :: ·)
    else if st.startsWith "!" then do
      let c ← classOutcome (dropS st 1)
      let l ← parseCSteps rest vals
      pure (.arm c :: l)
    else none

/-- stop, `Clean` (set, heads and blockstore wiped), restart on the same datastore, everything published so
    far delivered again (`KRep.clean` then `handleAll`): the worker starts afresh, the heads' height is that of
    the re-announced DAG -/
def cClean (keys : List Key) (b : CSim) (view : View) : CSim :=
  let all := b.c.out ++ b.c.got
  let k := handleAll all.reverse (KRep.clean { rep := b.c.rep, known := all.map (·.id) })
  let c' : CSt := { b.c with rep := k.rep, height := maxPrio all, queue := [], pend := {}, batch := [], curSize := 0,
                             timer := false, phase := .idle }
  let b := { b with c := c', hooks := [], cleaned := true }
  let b := if viewOf c'.rep keys != view then b.bad "view-after-clean" else b
  { b with view := view,
           steps := b.steps ++ [{ replica := 0, ops := none, hooks := [], before := view, after := view }] }

def simComp (bc : BCfg) (keys : List Key) : CSim → List CStepS → List String → Option CSim
  | b, [], [] => some b
  | b, .arm c :: st, o :: outs => if o == "!" then simComp bc keys { b with armed := b.armed ++ c } st outs else none
  | b, .loc op :: st, o :: outs =>
    match o.splitOn "/" with
    | [h, d, hk, v] =>
      match parseRes (dropS h 1), parseCDeltas d, parseHooks hk, parsePairs v with
      | some r, some ds, some hooks, some view =>
        if !h.startsWith "L" then none else
        let n0 := b.c.out.length
        simComp bc keys (cObserve keys (cSubmit bc b op r) n0 ds hooks view) st outs
      | _, _, _, _ => none
    | _ => none
  | b, .rem _ :: st, o :: outs =>
    match o.splitOn "/" with
    | [d, hk, v] =>
      match parseCDeltas (dropS d 1), parseHooks hk, parsePairs v with
      | some ds, some hooks, some view => if !d.startsWith "R" then none else simComp bc keys (cRemote keys b ds hooks view) st outs
      | _, _, _ => none
    | _ => none
  | b, .clean :: st, o :: outs =>
    match o.splitOn "/" with
    | ["C", v] => match parsePairs v with
      | some view => simComp bc keys (cClean keys b view) st outs
      | none => none
    | _ => none
  | b, .flush :: st, o :: outs =>
    match o.splitOn "/" with
    | [f, d, hk, v] =>
      match listOf parseFiller (dropS f 1), parseCDeltas d, parseHooks hk, parsePairs v with
      | some fl, some ds, some hooks, some view =>
        if !f.startsWith "F" then none else
        let n0 := b.c.out.length
        -- (after failed commits the padding may leave a new batch open: it is simply still pending, on both sides)
        let b := fl.foldl (fun b q => cSubmit bc b q.1 q.2) b
        simComp bc keys (cObserve keys b n0 ds hooks view) st outs
      | _, _, _, _ => none
    | _ => none
  | _, _, _ => none

def answerComp (pre post : List String) : String :=
  match pre with
  | [cfgW, script] =>
    match parseBCfg cfgW, kvArg "vals=" post, kvArg "tr=" post, kvArg "fired=" post, kvArg "fin=" post, kvArg "ex=" post with
    | some bc, some valsW, some trW, some firedW, some finW, some ex =>
      match nats valsW, (finW.splitOn "|").mapM parsePairs with
      | some vals, some finals =>
        match parseCSteps (splitSemi script) vals with
        | none => "bad-case script"
        | some steps =>
          let outs := splitSemi trW
          let keys := ((steps.filterMap (fun (s : CStepS) => match s with | .loc o => some o.key | .rem o => some o.key | _ => none)) ++
            ((finals.flatten : List (Nat × Nat)).map Prod.fst) ++ (List.range 12).map (· + 20)).eraseDups
          match simComp bc keys {} steps outs with
          | none => "bad-case trace-does-not-match-script"
          | some b =>
            let b := if b.fired != (if firedW == "-" then 0 else firedW.length) then b.bad "fired" else b
            let b := if finals.head? != some b.view then b.bad "final-view" else b
            let fl := failed (setClauses { steps := b.steps, finals := finals, exchanged := ex == "1" })
            let arm := "comp-" ++ toString bc.mode ++ (if bc.mode == 'N' then "" else "-size" ++ toString bc.cfg.maxSize) ++
              (if b.remote == 0 then "-noremote" else if b.openRecv then "-recv-in-open-batch" else "-recv") ++
              (if firedW == "-" then "" else "-fail" ++ firedW) ++ (if b.cleaned then "-cleaned" else "")
            if !fl.isEmpty then "propfail " ++ ",".intercalate fl ++ " arm=" ++ arm ++ " expl=unexplained model=" ++
              (if b.agree then "agree" else "differ:" ++ b.why)
            else if !b.agree then "diff arm=" ++ arm ++ " model=" ++ b.why
            else "ok arm=" ++ arm ++ (if b.c.out.isEmpty && b.remote == 0 then " trivial" else "")
      | _, _ => "bad-case parse-comp-output"
    | _, _, _, _, _, _ => "bad-case parse-comp"
  | _ => "bad-case shape-comp"

/-! ## hook / cfg suites (round 8b) -/
open Hk in
def parseRawOp (st : String) : Option RawOp :=
  let body := dropS st 1
  let f := body.splitOn "."
  let fk (n : Nat) : RKey := if n % 2 == 0 then .notBinary n else .notCid n
  if st.startsWith "p" || st.startsWith "f" then
    match f with
    | [k, c, v] =>
      match k.toNat?, v.toNat? with
      | some k, some v =>
        let key : RKey := if st.startsWith "p" then .cidKey k else fk k
        if c == "u" then some (.put key (.pin none v)) else c.toNat?.map (fun c => .put key (.pin (some c) v))
      | _, _ => none
    | _ => none
  else if st.startsWith "g" then
    match f with
    | [k, n] => match k.toNat?, n.toNat? with
      | some k, some n => some (.put (.cidKey k) (.garbage n))
      | _, _ => none
    | _ => none
  else if st.startsWith "d" then body.toNat?.map (fun k => .del (.cidKey k))
  else if st.startsWith "e" then body.toNat?.map (fun k => .del (fk k))
  else none

open Hk in
def showCall : Call → String
  | .track (some c) v => "T" ++ toString c ++ "." ++ toString v
  | .track none v => "Tu." ++ toString v
  | .untrack c => "N" ++ toString c

def showList (l : List (Nat × Nat)) : String :=
  if l.isEmpty then "-" else ",".intercalate ((sortPairs l).map (fun p => toString p.1 ++ "." ++ toString p.2))

open Hk in
/-- is the step a pin/unpin as `State.Add/Rm` write it (the operations the property quantifies over) -/
def rawWellFormed : RawOp → Bool
  | .put (.cidKey c) (.pin (some c') _) => c == c'
  | .del (.cidKey _) => true
  | _ => false

open Hk in
def answerHook (pre post : List String) : String :=
  match pre, post with
  | [_, script], [outsW] =>
    match (splitSemi script).mapM parseRawOp with
    | none => "bad-case script"
    | some ops =>
      let outs := splitSemi outsW
      if outs.length != ops.length then "bad-case outputs" else
      -- model
      let sim := ops.foldl (fun (acc : RStore × List String) op =>
        let r := rawStep acc.1 op
        (r.1, acc.2 ++ [(if r.2.isEmpty then "-" else ",".intercalate (r.2.map showCall)) ++ "/" ++ showList (rawList r.1)])) ([], [])
      -- Spec clause on the implementation's outputs: every change of the listed pinset caused by a pin/unpin
      -- operation comes with the tracker call saying what the pinset now holds
      let obs := outs.map (fun o => match o.splitOn "/" with
        | [c, l] => (if c == "-" then [] else c.splitOn ",", (parsePairs l).getD [])
        | _ => ([], []))
      let informed := ((ops.zip obs).foldl (fun (acc : List (Nat × Nat) × Bool) (x : RawOp × (List String × List (Nat × Nat))) =>
        let before := acc.1
        let after := x.2.2
        let keys := ((before ++ after).map (·.1)).eraseDups
        let ok := !rawWellFormed x.1 || keys.all (fun k =>
          let b := before.lookup k
          let a := after.lookup k
          b == a || (match a with
            | some v => x.2.1.contains ("T" ++ toString k ++ "." ++ toString v)
            | none => x.2.1.contains ("N" ++ toString k)))
        (after, acc.2 && ok)) ([], true)).2
      let arm := "hook" ++ (if ops.any (fun o => match o with | .put _ (.garbage _) => true | _ => false) then "-garbage" else "") ++
        (if ops.any (fun o => match o with | .put (.cidKey _) (.pin none _) => true | _ => false) then "-nocid" else "") ++
        (if ops.any (fun o => match o with | .put (.cidKey c) (.pin (some c') _) => c != c' | _ => false) then "-othercid" else "") ++
        (if ops.any (fun o => match o with | .put (.notBinary _) _ => true | .put (.notCid _) _ => true | .del (.notBinary _) => true | .del (.notCid _) => true | _ => false) then "-foreign" else "") ++
        (if ops.any (fun o => match o with | .del _ => true | _ => false) then "-del" else "")
      if !informed then "propfail tracker_informed arm=" ++ arm ++ " model=" ++ (if sim.2 == outs then "agree" else "differ")
      else if sim.2 != outs then "diff arm=" ++ arm ++ " model=" ++ ";".intercalate sim.2
      else "ok arm=" ++ arm
  | _, _ => "bad-case shape-hook"

/-! ## hook suite, key-namespace modes K / Q (round 8 final): the real `State.List/Get/Has` and tracker calls against
    `Hk.stList`, `Hk.stGet`, `Hk.stKey`, `Hk.underPrefix`, `Hk.unkey`, `Hk.delHookK` -/
open Hk in
def parseComp (t : String) : Option Comp :=
  match (dropS t 1).toNat? with
  | none => none
  | some n =>
    if t.startsWith "c" then some (.cid n) else if t.startsWith "b" then some (.notBinary n)
    else if t.startsWith "q" then some (.notCid n) else if t.startsWith "s" then some (.name n) else none

open Hk in
def parseDsKey (w : String) : Option DsKey := (w.splitOn ":").mapM parseComp

open Hk in
inductive NsOp where
  | put (k : DsKey) (v : RVal)
  | del (k : DsKey)

open Hk in
def parseNsOp (st : String) : Option NsOp :=
  if st.startsWith "+" then
    match (dropS st 1).splitOn "=" with
    | [k, v] =>
      match parseDsKey k with
      | none => none
      | some key =>
        if v.startsWith "g" then (dropS v 1).toNat?.map (fun n => NsOp.put key (.garbage n))
        else match v.splitOn "." with
          | [c, n] =>
            match n.toNat? with
            | some n => if c == "u" then some (.put key (.pin none n)) else c.toNat?.map (fun c => NsOp.put key (.pin (some c) n))
            | none => none
          | _ => none
    | _ => none
  else if st.startsWith "-" then (parseDsKey (dropS st 1)).map NsOp.del
  else none

open Hk in
/-- a raw write on the datastore the state sits on; `hooks`: the crdt datastore of the consensus runs the hooks
    (`putHook` never looks at the key; `delHookK` decodes the WHOLE key) -/
def nsStep (hooks : Bool) (s : KStore) : NsOp → KStore × List Call
  | .put k v => ((k, v) :: s.filter (fun e => e.1 != k), if hooks then putHook (.cidKey 0) v else [])
  | .del k => if s.any (fun e => e.1 == k) then (s.filter (fun e => e.1 != k), if hooks then delHookK k else []) else (s, [])

open Hk in
def nsView (ns : DsKey) (s : KStore) : String :=
  let cids := [0, 1, 2, 3]
  let g := cids.filterMap (fun c =>
    match stGet ns s c with
    | some n => some (toString c ++ "." ++ toString n)
    | none => if (s.lookup (stKey ns c)).isSome then some ("E" ++ toString c) else none)
  showList (stList ns s) ++ "/" ++ (if g.isEmpty then "-" else ",".intercalate g) ++ "/" ++
    String.join (cids.map (fun c => if (s.lookup (stKey ns c)).isSome then "1" else "0"))

open Hk in
def answerHookNs (mode script : String) (post : List String) : String :=
  match post with
  | [outsW] =>
    match (splitSemi script).mapM parseNsOp with
    | none => "bad-case script"
    | some ops =>
      let ns : DsKey := if mode == "Q" then [.name 0] else []
      let hooks := mode == "K"
      let outs := splitSemi outsW
      if outs.length != ops.length then "bad-case outputs" else
      let sim := ops.foldl (fun (acc : KStore × List String × List String) op =>
        let r := nsStep hooks acc.1 op
        let listedNoGet := (stList ns r.1).any (fun p => stGet ns r.1 p.1 != some p.2)
        let silentDel := match op with
          | .del k => hooks && acc.1.any (fun e => e.1 == k) && (stList ns acc.1) != (stList ns r.1) && r.2.isEmpty
          | _ => false
        (r.1, acc.2.1 ++ [(if r.2.isEmpty then "-" else ",".intercalate (r.2.map showCall)) ++ "/" ++ nsView ns r.1],
         acc.2.2 ++ (if listedNoGet then ["listed-not-gettable"] else []) ++ (if silentDel then ["unlisted-no-untrack"] else [])))
        ([], [], [])
      let anyKey (p : DsKey → Bool) := ops.any (fun o => match o with | .put k _ => p k | .del k => p k)
      let arm := "hookns-" ++ mode ++
        (if anyKey (fun k => k == stKey ns ((unkey k).getD 0) && (unkey k).isSome) then "-statekey" else "") ++
        (if anyKey (fun k => underPrefix ns k && (unkey k).isSome && k.length > ns.length + 1) then "-nested" else "") ++
        (if anyKey (fun k => !underPrefix ns k) then "-outside" else "") ++
        (if anyKey (fun k => underPrefix ns k && (unkey k).isNone) then "-lastnotcid" else "") ++
        (if ops.any (fun o => match o with | .put _ (.garbage _) => true | _ => false) then "-garbage" else "") ++
        (if sim.2.2.contains "listed-not-gettable" then "-listed-not-gettable" else "") ++
        (if sim.2.2.contains "unlisted-no-untrack" then "-unlisted-no-untrack" else "")
      if sim.2.1 != outs then "diff arm=" ++ arm ++ " model=" ++ ";".intercalate sim.2.1
      else "ok arm=" ++ arm
  | _ => "bad-case shape-hookns"

open Hk in
def answerCfg (pre post : List String) : String :=
  match pre with
  | [_, c] =>
    match c.splitOn ",", kvArg "err=" post, kvArg "en=" post, kvArg "eff=" post with
    | [sz, ag, qu], some err, some en, some eff =>
      match sz.toInt?, (if ag == "-" then some none else ag.toInt?.map some), (if qu == "-" then some 0 else qu.toInt?) with
      | some size, some age, some queue =>
        let m := loadJSON size age queue
        let want := "err=" ++ (if m.valid then "0" else "1") ++ " en=" ++ (if m.enabled then "1" else "0") ++
          " eff=" ++ toString m.size ++ "," ++ toString m.age ++ "," ++ toString m.queue
        let got := "err=" ++ err ++ " en=" ++ en ++ " eff=" ++ eff
        let arm := "cfg-" ++ (if !m.valid then "invalid" else if m.enabled then (if m.size == 1 then "size1" else "enabled") else
          (if m.size ≤ 0 then "off-size" else "off-age")) ++ (if age.isNone then "-noage" else "") ++ (if queue == 0 then "-defqueue" else "")
        -- Spec: a configuration that was accepted and enables batching has room for at least one operation
        if err == "0" && en == "1" && ((eff.splitOn ",").getLast?.bind String.toInt?).any (· ≤ 0) then "propfail refused_no_effect arm=" ++ arm
        else if want != got then "diff arm=" ++ arm ++ " model=" ++ want
        else "ok arm=" ++ arm
      | _, _, _ => "bad-case cfg-values"
    | _, _, _, _ => "bad-case parse-cfg"
  | _ => "bad-case shape-cfg"

/-! ## shut suite (round 8b): Shutdown with an open batch; the model is `step` + `Hk.shutdown` -/
def parseShutOp (st : String) : Option BOp :=
  if st.startsWith "P" then (parsePair "." (dropS st 1)).map (fun p => BOp.put p.1 p.2)
  else if st.startsWith "U" then (dropS st 1).toNat?.map BOp.del
  else none

/-- the eager worker: log, take, and commit as soon as the batch is full (all writes succeed) -/
def shutSubmit (cfg : Cfg) (acc : Option (St × String)) (o : BOp) : Option (St × String) :=
  match acc with
  | none => none
  | some (s, res) =>
    match step cfg s (.log o) with
    | some (s1, .accepted) =>
      match step cfg s1 (.take true) with
      | some (s2, _) =>
        match s2.phase with
        | .due _ => (step cfg s2 (.commit .ok)).map (fun r => (r.1, res ++ "o"))
        | .idle => some (s2, res ++ "o")
      | none => none
    | some (s1, _) => some (s1, res ++ "r")
    | none => none

def answerShut (pre post : List String) : String :=
  match pre with
  | [cfgW, script] =>
    match (dropS cfgW 1).toNat?, (splitSemi script).mapM parseShutOp, kvArg "res=" post, kvArg "fin=" post with
    | some size, some ops, some res, some finW =>
      match parsePairs finW with
      | none => "bad-case fin"
      | some fin =>
        if !cfgW.startsWith "Z" || size == 0 then "bad-case cfg" else
        match ops.foldl (shutSubmit { maxSize := size, qcap := 50 }) (some ({}, "")) with
        | none => "bad-case model-stuck"
        | some (s, mres) =>
          let keys := ops.map BOp.key
          let lost := s.curSize
          let s := Hk.shutdown s
          let view := viewOf s.rep keys
          let arm := "shut-size" ++ toString size ++ (if lost == 0 then "-nothing-open" else "-open-batch-lost")
          if (if res == "-" then "" else res) != mres then "diff arm=" ++ arm ++ " model=res:" ++ mres
          else if sortPairs fin != view then "diff arm=" ++ arm ++ " model=fin:" ++ showList view
          else "ok arm=" ++ arm ++ (if ops.isEmpty then " trivial" else "")
    | _, _, _, _ => "bad-case parse-shut"
  | _ => "bad-case shape-shut"

def answer (ws : List String) : String :=
  match splitArrow ws with
  | none => "bad-case no-arrow"
  | some (pre, post) =>
    match pre with
    | "set" :: rest => answerSet rest post
    | "batch" :: rest => answerBatch rest post
    | "net" :: rest => answerNet rest post
    | "val" :: rest => answerVal rest post
    | "comp" :: rest => answerComp rest post
    | ["hook", "K", script] => answerHookNs "K" script post
    | ["hook", "Q", script] => answerHookNs "Q" script post
    | "hook" :: rest => answerHook rest post
    | "cfg" :: rest => answerCfg rest post
    | "shut" :: rest => answerShut rest post
    | _ => "bad-case unknown-suite"

end CV.C02
