import ClusterVerif.Model.Pin
import ClusterVerif.Model.C03
import Driver.Parse
/-! Parsing of the pin / opts / pinset / peer-state tokens shared by the pinset drivers (core only). -/
namespace CV.PinParse
open CV CV.Parse

def parseType (s : String) : Option PinType :=
  if s == "d" then some .dataT else if s == "m" then some .metaT else if s == "c" then some .clusterDagT
  else if s == "s" then some .shardT else if s == "b" then some .badT else none

def parseMode (s : String) : Option Mode :=
  if s == "r" then some .recursive else if s == "d" then some .direct else none

def parseExpiry (s : String) : Option Expiry :=
  if s == "z" then some .zero else if s == "u" then some .unixZero else if s == "p" then some .past
  else if s.startsWith "f" then (s.drop 1).toNat?.map .future else none

def parseFactors (s : String) : Option (Int × Int) :=
  match s.splitOn ":" with
  | [a, b] => do pure (← a.toInt?, ← b.toInt?)
  | _ => none

def parseKV (s : String) : Option (Nat × Nat) :=
  match s.splitOn ":" with
  | [a, b] => do pure (← a.toNat?, ← b.toNat?)
  | _ => none

def parseOptNat (s : String) : Option (Option Nat) :=
  if s == "-" then some none else s.toNat?.map some

/-- opts token = rmin:rmax/name/mode/shard/expire/meta/update/origins/ualloc -/
def parseOptsFields : List String → Option Opts
  | [f, n, m, sh, e, md, u, o, ua] => do
    let (rmin, rmax) ← parseFactors f
    pure { rmin := rmin, rmax := rmax, name := ← n.toNat?, mode := ← parseMode m, shard := ← sh.toNat?,
           expire := ← parseExpiry e, metadata := ← listOf parseKV md, update := ← parseOptNat u,
           origins := ← nats o, ualloc := ← nats ua }
  | _ => none

def parseOpts (s : String) : Option Opts := parseOptsFields (s.splitOn "/")

/-- pin token = cid/type/rmin:rmax/name/mode/depth/shard/allocs/expire/meta/update/origins/ref/ualloc -/
def parsePin (s : String) : Option Pin :=
  match s.splitOn "/" with
  | [c, t, f, n, m, d, sh, al, e, md, u, o, r, ua] => do
    let opts ← parseOptsFields [f, n, m, sh, e, md, u, o, ua]
    pure { cid := ← c.toNat?, type := ← parseType t, opts := opts, depth := ← d.toInt?,
           allocs := ← nats al, ref := ← parseOptNat r }
  | _ => none

def parsePinset (s : String) : Option PinMap :=
  if s == "-" then some [] else (s.splitOn "|").mapM parsePin

def parseState (s : String) : Option C03.MState :=
  if s == "a" then some .absent
  else if s == "e" then some .expired
  else if s == "i" then some .invalid
  else if s == "n" then some .nonNumeric
  else if s.startsWith "v" then (s.drop 1).toNat?.map .valid
  else none

def parsePeer (s : String) : Option (Nat × C03.MState) :=
  match s.splitOn ":" with
  | [a, b] => do let n ← a.toNat?; let st ← parseState b; pure (n, st)
  | _ => none

def parsePeers (s : String) : Option (List (Nat × C03.MState)) := listOf parsePeer s

/-- canonical form for comparing pins that came out of the implementation with model pins:
    metadata sorted by key -/
def canonPin (p : Pin) : Pin := { p with opts := { p.opts with metadata := normMeta p.opts.metadata } }
def canonMap (m : PinMap) : PinMap := m.map canonPin

end CV.PinParse
