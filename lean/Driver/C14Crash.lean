import ClusterVerif.Spec.C14Crash
import Driver.Parse
namespace CV.C14
open CV.Parse

/-! Crash suite (harness/c14/crash.go):

  C14 crash <keep> <m> <data> <olds> <op> => <st>><rr> … <st>>.       op = c | s<n> | i<n> | x<n>
  C14 pscrash <old lines> <new pinfos> => kill=<loaded>><loaded>|…|<loaded>>. rerun=<0|1> stray=<0|1> cut=<bad>.<bare>.<full>.<mismatch>
-/

def dedupStrC : List String → List String
  | [] => []
  | x :: xs => x :: (dedupStrC xs).filter (· != x)

def failedNamesC (cs : List (String × Bool)) : String :=
  ",".intercalate (dedupStrC ((cs.filter (fun c => !c.2)).map (·.1)))

/-- wildcard content of the model: a folder that is being removed -/
def wildTag : Nat := 9997

def parseCFolder (s : String) : Option (Option (Folder Nat)) :=
  if s == "-" then some none else if s == "e" then some (some .nosnap)
  else if s == "?" then some (some (.snap brokenTag)) else (s.toNat?).map (fun n => some (.snap n))

def parseCDirs (s : String) : Option (Dirs Nat × Nat × Bool) :=
  match s.splitOn ";" with
  | [d, olds, ex] => do
    let l ← (olds.splitOn ",").mapM parseCFolder
    pure ({ data := ← parseCFolder d, old := fun i => l.getD i none }, l.length, ex == "1")
  | _ => none

def parseCOp (s : String) : Option (COp Nat) :=
  if s == "c" then some .clean
  else if s.startsWith "s" then (s.drop 1).toNat?.map .save
  else if s.startsWith "i" then (s.drop 1).toNat?.map (fun n => .imp n true)
  else if s.startsWith "x" then (s.drop 1).toNat?.map (fun n => .imp n false)
  else none

/-- observed folder against the model's: the wildcard matches anything that exists -/
def folderMatches (model obs : Option (Folder Nat)) : Bool :=
  if model == some (.snap wildTag) then obs.isSome else model == obs

def dirsMatch (m : Nat) (model obs : Dirs Nat) : Bool :=
  folderMatches model.data obs.data && (List.range m).all (fun i => folderMatches (model.old i) (obs.old i))

def showCFolder : Option (Folder Nat) → String
  | none => "-"
  | some .nosnap => "e"
  | some (.snap n) => if n == wildTag then "*" else if n == brokenTag then "?" else toString n

def showCDirs (m : Nat) (d : Dirs Nat) : String :=
  showCFolder d.data ++ ";" ++ ",".intercalate ((List.range m).map (fun i => showCFolder (d.old i)))

def parsePoint (s : String) : Option ((Dirs Nat × Nat × Bool) × Option (Dirs Nat × Nat × Bool)) :=
  match s.splitOn ">" with
  | [a, r] => do
    let a' ← parseCDirs a
    if r == "." then pure (a', none) else pure (a', some (← parseCDirs r))
  | _ => none

def answerCrash (ws : List String) : String :=
  match splitArrow ws with
  | some ([k, ms, d, olds, ops], post) =>
    let parsed := do
      let l ← (olds.splitOn ",").mapM parseCFolder
      let b : Dirs Nat := { data := ← parseCFolder d, old := fun i => l.getD i none }
      pure (← k.toNat?, ← ms.toNat?, l.length, b, ← parseCOp ops, ← post.mapM parsePoint)
    match parsed with
    | none => "bad-case crash-parse"
    | some (keep, m, lm, b, op, pts) =>
      if lm != m || keep = 0 then "bad-case crash-window" else
      match pts.getLast? with
      | none => "bad-case crash-empty"
      | some (_, some _) => "bad-case crash-no-final"
      | some ((fin, _, finExtra), none) =>
        let kills := pts.filterMap (fun p => match p.2 with | some r => some (p.1, r) | none => none)
        let finals := pts.filter (fun p => p.2.isNone)
        let steps := opSteps keep b op
        let rotates := match b.data with | some (.snap _) => true | _ => false
        let arm := "crash-" ++ (match op with | .clean => "clean" | .save _ => "save" | .imp _ true => "import" | .imp _ false => "importfail") ++
          (if rotates then "-rotate" else "") ++ (if rotates && windowFull keep b then "-drop" else "") ++
          (if steps.length ≥ 4 then "-long" else "")
        let cs := kills.flatMap (fun p => crashClauses keep m b op p.1.1 p.2.1 fin) ++
          [("crash_no_stray", !finExtra && kills.all (fun p => !p.1.2.2 && !p.2.2.2))]
        if !allHold cs then "propfail " ++ failedNamesC cs ++ " arm=" ++ arm else
        let junk : Folder Nat := .snap wildTag
        let modelFin := applySteps junk b steps
        -- model crash points: the state after every proper prefix, and what the restart makes of it
        let modelPts := (List.range steps.length).map (fun j =>
          let c := crashAt junk b steps j
          (c, opRun junk keep c op))
        let checks : List (String × Bool) :=
          [("final", finals.length == 1 && dirsMatch m modelFin fin),
           ("observed-in-model", kills.all (fun p => modelPts.any (fun q => dirsMatch m q.1 p.1.1 && dirsMatch m q.2 p.2.1))),
           ("model-observed", modelPts.all (fun q => kills.any (fun p => dirsMatch m q.1 p.1.1)))]
        if !allHold checks then
          "diff " ++ failedNamesC checks ++ " arm=" ++ arm ++ " model=" ++
            " ".intercalate (modelPts.map (fun q => showCDirs m q.1 ++ ">" ++ showCDirs m q.2)) ++ " " ++ showCDirs m modelFin ++ ">."
        else "ok arm=" ++ arm ++ (if steps.isEmpty then " trivial" else "")
  | _ => "bad-case crash-shape"

def parseRealLinesC (s : String) : Option (List Line) :=
  if s == "-" then some [] else (s.splitOn ",").mapM (fun t =>
    if t.startsWith "f" then
      match (t.drop 1).toString.splitOn "p" with
      | [a, p] => do pure (Line.full (← a.toNat?) (← p.toNat?))
      | _ => none
    else if t.startsWith "b" then (t.drop 1).toNat?.map Line.bare
    else none)

def parsePinfoC (s : String) : Option (Nat × List Nat) :=
  match s.splitOn ":" with
  | [i, a] => do pure (← i.toNat?, ← (if a == "-" then some [] else (a.splitOn ".").mapM String.toNat?))
  | _ => none

def fieldC (key : String) (ws : List String) : Option String :=
  (ws.find? (fun w => w.startsWith (key ++ "="))).map (fun w => (w.drop (key.length + 1)).toString)

def parseKill (e : String) : Option (List Line × Option (List Line)) :=
  match e.splitOn ">" with
  | [a, r] => do pure (← parseRealLinesC a, ← (if r == "." then some none else (parseRealLinesC r).map some))
  | _ => none

def answerPsCrash (ws : List String) : String :=
  match splitArrow ws with
  | some ([olds, news], post) =>
    let parsed := do
      let old ← parseRealLinesC olds
      let pinfos ← (if news == "-" then some [] else (news.splitOn "/").mapM parsePinfoC)
      let ks ← ((← fieldC "kill" post).splitOn "|").mapM parseKill
      let cut ← ((← fieldC "cut" post).splitOn ".").mapM String.toNat?
      pure (old, pinfos, ks, (← fieldC "rerun" post) == "1", (← fieldC "stray" post) == "1", cut)
    match parsed with
    | none => "bad-case pscrash-parse"
    | some (old, pinfos, ks, rerun, stray, cut) =>
      let new := save pinfos
      let kills := ks.filterMap (fun k => k.2.map (fun r => (k.1, r)))
      let finals := ks.filter (fun k => k.2.isNone)
      let arm := "pscrash" ++ (if old.isEmpty then "-noold" else "") ++ (if new.isEmpty then "-nonew" else "") ++
        (if cut.getD 2 0 > 0 then "-ghost" else "")
      let cs := psCrashClauses (load old) new kills (rerun && !stray) (cut.getD 3 1)
      if !allHold cs then "propfail " ++ failedNamesC cs ++ " arm=" ++ arm else
      let f0 : PFiles := { file := some old, tmp := none }
      let steps := psaveSteps pinfos
      let modelLoaded := (List.range steps.length).map (fun j => ploaded (pcrashAt f0 steps j))
      let modelFin := pcrashAt f0 steps steps.length
      let checks : List (String × Bool) :=
        [("final", finals.map (·.1) == [ploaded modelFin] && modelFin.tmp == none),
         ("observed-in-model", kills.all (fun k => modelLoaded.contains k.1 && k.2 == ploaded modelFin)),
         ("model-observed", modelLoaded.all (fun l => kills.any (fun k => k.1 == l)))]
      if !allHold checks then "diff " ++ failedNamesC checks ++ " arm=" ++ arm
      else "ok arm=" ++ arm ++ (if old.isEmpty && new.isEmpty then " trivial" else "")
  | _ => "bad-case pscrash-shape"

end CV.C14
