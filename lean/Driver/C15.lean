import ClusterVerif.Spec.C15
import Driver.Parse
namespace CV.C15
open CV.Parse

def kvOf (ws : List String) (key : String) : Option String :=
  let p := key ++ "="
  (ws.find? (·.startsWith p)).map (fun w => (w.drop p.length).toString)

def parseConst (s : String) : Const :=
  if s == "nil" then .nil
  else if s == "absent" then .absent
  else if s == "empty" then .empty
  else if s.startsWith "int:" then (match (s.drop 4).toString.toInt? with | some i => .int i | none => .unknown)
  else if s.startsWith "dur:" then (match (s.drop 4).toString.toInt? with | some i => .dur i | none => .unknown)
  else if s == "bool:1" then .bool true
  else if s == "bool:0" then .bool false
  else if s.startsWith "str:" then .str (s.drop 4).toString
  else if s.startsWith "float:" then .float (s.drop 6).toString
  else if s.startsWith "json:" then .json (s.drop 5).toString
  else .unknown

def showConst : Const → String
  | .int i => s!"int:{i}"
  | .dur n => s!"dur:{n}"
  | .bool true => "bool:1"
  | .bool false => "bool:0"
  | .str s => "str:" ++ s
  | .float s => "float:" ++ s
  | .nil => "nil"
  | .empty => "empty"
  | .absent => "absent"
  | .json s => "json:" ++ s
  | .unknown => "-"

def parseLoad : String → Option LoadKind
  | "direct" => some .direct | "setIfNotDefault" => some .setIfNotDefault | "parseDurations" => some .parseDurations
  | "parseDurationsUnchecked" => some .parseDurationsUnchecked | "parseOrZeroSIND" => some .parseOrZeroSIND
  | "parseOrZeroDirect" => some .parseOrZeroDirect | "zeroMeansDefault" => some .zeroMeansDefault
  | "pointerOptional" => some .pointerOptional | "mergo" => some .mergo | "custom" => some .custom | "none" => some .none
  | "codecAlways" => some .codecAlways | "codecNonEmpty" => some .codecNonEmpty | "codecListAlways" => some .codecListAlways
  | "codecListNonEmpty" => some .codecListNonEmpty | "codecListLenient" => some .codecListLenient
  | "peerListStar" => some .peerListStar | "tlsPath" => some .tlsPath
  | "emptyZeroParseDurations" => some .emptyZeroParseDurations | "copyNonEmpty" => some .copyNonEmpty
  | _ => none

def parseSave : String → Option SaveKind
  | "direct" => some .direct | "durString" => some .durString | "omitIfDefault" => some .omitIfDefault
  | "omitIfDefaultDur" => some .omitIfDefaultDur | "custom" => some .custom | "none" => some .none
  | "codecPrint" => some .codecPrint | "codecPrintNonZero" => some .codecPrintNonZero | "codecListPrint" => some .codecListPrint
  | "codecListPrintNonEmpty" => some .codecListPrintNonEmpty | "peerListStarPrint" => some .peerListStarPrint
  | "durSeconds" => some .durSeconds
  | _ => none

def parseTy : String → Option Ty
  | "int" => some .int | "uint" => some .uint | "float" => some .float | "bool" => some .bool | "str" => some .str
  | "dur" => some .dur | "list" => some .list | "map" => some .map | "ptrfloat" => some .ptrfloat
  | "ptrint" => some .ptrint | "other" => some .other
  | _ => none

def parseOp : String → Option Op
  | "lt" => some .lt | "le" => some .le | "gt" => some .gt | "ge" => some .ge | "eq" => some .eq | "ne" => some .ne
  | _ => none

def parseRej (s : String) : Option (List (Op × Const)) :=
  listOf (fun t => match t.splitOn "/" with
    | [o, c] => (parseOp o).map (fun op => (op, parseConst c))
    | _ => none) s

def parseRow (sec path : String) (ws : List String) : Option Field := do
  let lk ← (kvOf ws "lk").bind parseLoad
  let sk ← (kvOf ws "sk").bind parseSave
  let ty ← (kvOf ws "ty").bind parseTy
  let oe ← (kvOf ws "oe").bind bool01
  let rej ← (kvOf ws "rej").bind parseRej
  pure { sec := sec, path := path, key := "", env := "", ty := ty, omitEmpty := oe, hidden := false, sameField := true, load := lk, save := sk,
         dflt := parseConst ((kvOf ws "dflt").getD "unknown"), omitC := parseConst ((kvOf ws "omit").getD "unknown"), rej := rej }

def parseOut (ws : List String) : Option Output := do
  let res ← kvOf ws "res"
  if res != "ok" && res != "err" && res != "panic" then none
  let valid ← (kvOf ws "valid").bind bool01
  let fix ← (kvOf ws "fix").bind bool01
  let leak ← (kvOf ws "leak").bind bool01
  pure { res := res, valid := valid, fix := fix, leak := leak,
         eff := (kvOf ws "eff").getD "-", eff2 := (kvOf ws "eff2").getD "-", got := (kvOf ws "got").getD "-" }

def parseCase (ws : List String) : Option (Input × Output) := do
  let (pre, post) ← splitArrow ws
  let o ← parseOut post
  match pre with
  | ["default", sec] => pure ({ kind := .dflt, sec := sec }, o)
  | ["shape", wher, sec, _variant] => pure ({ kind := .shape, mode := wher, sec := sec }, o)
  | "set" :: mode :: sec :: path :: rest =>
    let vc ← kvOf rest "vc"
    let row ← parseRow sec path rest
    pure ({ kind := .set, mode := mode, sec := sec, path := path, vc := vc,
            want := (kvOf rest "want").getD "-", cur := (kvOf rest "cur").getD "-", deff := (kvOf rest "deff").getD "-",
            noise := (kvOf rest "noise").getD "-", row := some row,
            nOpaque := ((kvOf rest "opq").bind String.toNat?).getD 1 }, o)
  | _ => none

/-- modes where the value arrives in an environment variable over an already loaded Config (`cur`):
section `ApplyEnvVars` (`env`, `envalt`), `Manager.ApplyEnvVars` (`menv`), `Manager.LoadJSONFileAndEnv` (`menvfile`) -/
def isEnvMode (m : String) : Bool := m == "env" || m == "envalt" || m == "menv" || m == "menvfile"

/-- does the implementation's observation agree with the model's prediction for the row? -/
def modelCheck (i : Input) (o : Output) : Option String :=
  match i.row with
  | none => none
  | some f =>
    -- the translator's default against the default the running code produces
    if f.dflt != .unknown && f.dflt != .nil && f.dflt != .empty && i.deff != "-" && showConst f.dflt != i.deff then
      some ("default-mismatch model=" ++ showConst f.dflt)
    else if f.load == .codecAlways && i.vc == "mal" && i.noise == "-" && !isEnvMode i.mode then
      -- a text the parser rejects (or a wrong JSON type) is refused, never replaced by a default
      (if o.res == "err" then none else some "model=reject:unparsable")
    else if i.noise != "-" || i.vc == "mal" || i.vc == "unset" then none
    else
      let cur := if isEnvMode i.mode then i.cur else i.deff
      let big := match parseConst i.want with
        | .int n => n ≥ 2147483648 || n ≤ -2147483648
        | _ => false
      if big then none else
      match predict f (parseConst cur) (parseConst i.want) with
      | .unknown => none
      | .reject => if o.res == "err" then none else some "model=reject"
      | .accept eff got =>
        if o.res != "ok" then (if i.nOpaque == 0 then some ("model=accept:" ++ showConst got) else none)
        else if o.eff != "-" && o.eff != showConst eff then some ("model=eff:" ++ showConst eff)
        else if o.got != showConst got then some ("model=got:" ++ showConst got)
        else none

def arm (i : Input) : String :=
  match i.kind with
  | .dflt => "default"
  | .shape => "shape-" ++ i.mode
  | .set => i.mode ++ "-" ++ i.vc ++ (if i.noise != "-" then "-noise" else "") ++
      (match i.row with | some f => "-" ++ (toString (repr f.load)).replace "CV.C15.LoadKind." "" | none => "")

/-- a case exercises the property when the loader accepted something or had something to refuse -/
def trivialCase (i : Input) (o : Output) : Bool :=
  i.kind == .set && i.vc == "unset" && o.res == "ok"

/-! ### suite `src`: the Manager's remote source -/
namespace Src

/-- what `GET <base>/r/<rid>` answers, by the harness's naming convention -/
def stdWeb (rid : String) : Remote String :=
  if rid.startsWith "plain" then .resp 200 (.plain ((rid.drop 5).toString.toNat?.getD 0) true)
  else if rid == "invalid" then .resp 200 (.plain 0 false)
  else if rid == "garbage" || rid == "empty" then .resp 200 .garbage
  else if rid == "sourced1" then .resp 200 (.sourced "plain1")
  else if rid == "sourcedDown" then .resp 200 (.sourced "down")
  else if rid == "self" then .resp 200 (.sourced "self")
  else if rid == "s404" then .resp 404 (.plain 9 true)
  else if rid == "s500" then .resp 500 (.plain 9 true)
  else if rid.startsWith "redir" then .resp 200 (.plain ((rid.drop 5).toString.toNat?.getD 0) true)
  else .down

def parseOp (t : String) : Option (Op String) :=
  if t == "D" then some .dflt
  else if t == "G" || t == "N" then some (.load .garbage)
  else if t == "I" then some (.load (.plain 0 false))
  else if t.startsWith "Pf" then (t.drop 2).toString.toNat?.map (fun k => .load (.plain k true))
  else if t.startsWith "P" then (t.drop 1).toString.toNat?.map (fun k => .load (.plain k true))
  else if t.startsWith "Sf:" then some (.load (.sourced (t.drop 3).toString))
  else if t.startsWith "S:" then some (.load (.sourced (t.drop 2).toString))
  else if t.startsWith "H:" then some (.http (t.drop 2).toString)
  else none

def showCfg : Option Nat → String
  | some c => toString c
  | none => "invalid"

def showSrc : Option String → String
  | some u => u
  | none => "-"

/-- the observation the model predicts for a sequence of operations -/
def predictObs (opsTok : List String) (ops : List (Op String)) : Obs :=
  let r := run stdWeb fresh ops
  let m := r.1
  let sv := save m
  let rl : Option (Mgr String × Bool) := sv.map (loadJSON stdWeb fresh)
  { ops := opsTok, res := r.2.map (fun b => if b then "ok" else "err"),
    src := showSrc m.source, eff := showCfg m.cfg,
    saved := match sv with
      | none => "err"
      | some (.sourced u) => "source:" ++ u
      | some (.plain c _) => "full:" ++ toString c
      | some .garbage => "err",
    rres := match rl with | none => "-" | some (_, ok) => if ok then "ok" else "err",
    reff := match rl with | none => "-" | some (m2, _) => showCfg m2.cfg,
    rsrc := match rl with | none => "-" | some (m2, _) => showSrc m2.source }

def showObs (o : Obs) : String :=
  "res=" ++ ",".intercalate o.res ++ " src=" ++ o.src ++ " eff=" ++ o.eff ++ " saved=" ++ o.saved ++
    " rres=" ++ o.rres ++ " reff=" ++ o.reff ++ " rsrc=" ++ o.rsrc

def parseObs (ws : List String) : Option Obs := do
  let (pre, post) ← splitArrow ws
  let ops ← kvOf pre "ops"
  let res ← kvOf post "res"
  let src ← kvOf post "src"
  let eff ← kvOf post "eff"
  let saved ← kvOf post "saved"
  let rres ← kvOf post "rres"
  let reff ← kvOf post "reff"
  let rsrc ← kvOf post "rsrc"
  let o : Obs := ⟨ops.splitOn ",", res.splitOn ",", src, eff, saved, rres, reff, rsrc⟩
  if o.ops.length != o.res.length then none else pure o

def answer (ws : List String) : String :=
  match parseObs ws with
  | none => "bad-case"
  | some o =>
    let lastKind := match o.ops.getLast? with
      | some t => (t.takeWhile (fun c => c != ':' && !c.isDigit)).toString
      | none => "-"
    let arm := "src-" ++ toString o.ops.length ++ "-" ++ lastKind ++ "-" ++ o.res.getLast?.getD "-"
    let failed := (clauses o).filter (fun c => !c.2)
    if !failed.isEmpty then "propfail " ++ ",".intercalate (failed.map (·.1)) ++ " arm=" ++ arm
    else match o.ops.mapM parseOp with
      | none => "bad-case op"
      | some ops =>
        let p := predictObs o.ops ops
        if showObs p != showObs o then "diff arm=" ++ arm ++ " model=" ++ (showObs p).replace " " ";"
        else "ok arm=" ++ arm ++ (if o.res.all (· != "ok") then " trivial" else "")

end Src


/-! ### suite `val`: the real Validate() against the conjunct model -/
namespace Val

def parseVal (s : String) : Val :=
  if s == "nil" then .nil
  else if s == "nonnil" then .nonnil
  else if s.startsWith "frac:" then
    (match (s.drop 5).toString.splitOn "/" with
     | [a, b] => (match a.toInt?, b.toInt? with | some x, some y => .frac x y | _, _ => .unknown)
     | _ => .unknown)
  else match parseConst s with
    | .int i => .int i
    | .dur i => .int i
    | .str t => .str t
    | .bool b => .bool b
    | _ => .unknown

def parseEnv (s : String) : Env :=
  (s.splitOn ",").filterMap fun e =>
    match e.splitOn "=" with
    | [k, v] => some (k, parseVal v)
    | _ => none

def tmOf (t : String) : Option Tm :=
  if t.startsWith "f:" then some (.fld (t.drop 2).toString)
  else if t.startsWith "l:" then some (.len (t.drop 2).toString)
  else if t.startsWith "s:" then some (.strOf (t.drop 2).toString)
  else if t.startsWith "c:" then some (.cst (parseConst (t.drop 2).toString))
  else none

inductive Item | tm (t : Tm) | cd (c : Cond)

def asCond : Item → Cond
  | .cd c => c
  | .tm _ => .opaque

/-- reverse Polish → `Cond` -/
def rpn (toks : List String) : Cond :=
  let st := toks.foldl (fun (st : List Item) t =>
    match tmOf t with
    | some tm => .tm tm :: st
    | none =>
      if t == "opq" then .cd .opaque :: st
      else if t == "opqc" then .cd .opaqueConst :: st
      else if t == "not" then (match st with | a :: r => .cd (.not (asCond a)) :: r | _ => [.cd .opaque])
      else if t == "tru" then (match st with | .tm (.fld n) :: r => .cd (.tru n) :: r | _ => [.cd .opaque])
      else if t == "and" then (match st with | b :: a :: r => .cd (.and (asCond a) (asCond b)) :: r | _ => [.cd .opaque])
      else if t == "or" then (match st with | b :: a :: r => .cd (.or (asCond a) (asCond b)) :: r | _ => [.cd .opaque])
      else match parseOp t, st with
        | some o, .tm b :: .tm a :: r => .cd (.cmp a o b) :: r
        | _, _ => [.cd .opaque]) []
  match st with
  | [i] => asCond i
  | _ => .opaque

def parseConj (s : String) : Conj :=
  match s.splitOn "?" with
  | [g, c] => { guard := some (rpn (g.splitOn ",")), cond := rpn (c.splitOn ",") }
  | _ => { guard := none, cond := rpn (s.splitOn ",") }

def showVerdict : Verdict → String
  | .accept => "accept" | .reject => "reject" | .unknown => "unknown"

def answer (ws : List String) : String :=
  match splitArrow ws with
  | none => "bad-case"
  | some (pre, post) =>
    match kvOf pre "conj", kvOf pre "env", kvOf post "res", kvOf post "vres" with
    | some cj, some ev, some res, some vres =>
      let cs := (cj.splitOn ";").map parseConj
      let env := parseEnv ev
      let v := validate env cs
      let wf := kvOf pre "wf" == some "1"
      let arm := "val-" ++ (pre.head?.getD "-") ++ "-" ++ showVerdict v ++ "-" ++ res
      -- the property, on the implementation's outputs: never a crash; accepted ⇒ valid
      let failed := (if res == "panic" || vres == "panic" then ["no_crash"] else []) ++
                    (if res == "ok" && vres != "ok" then ["accepted_valid"] else [])
      if !failed.isEmpty then "propfail " ++ ",".intercalate failed ++ " arm=" ++ arm
      -- the model: the conjunct evaluation predicts the real Validate on the same Config, on both sides of
      -- every boundary; a rejected Config is refused by LoadJSON, an accepted well-formed one is accepted
      else if v == .reject && vres != "err" then "diff arm=" ++ arm ++ " model=validate:reject"
      else if v == .accept && vres != "ok" then "diff arm=" ++ arm ++ " model=validate:accept"
      else if v == .reject && res != "err" then "diff arm=" ++ arm ++ " model=load:refuse"
      else if v == .accept && wf && res != "ok" then "diff arm=" ++ arm ++ " model=load:accept"
      else "ok arm=" ++ arm ++ (if v == .unknown then " trivial" else "")
    | _, _, _, _ => "bad-case"

end Val

/-! ### suite `ident`: the real config.Identity against the `Ident` model; config.DisplayJSON against `Disp` -/
namespace Ident

def parseId (t : String) : Option (Option IdTok) :=
  if t == "-" then some none
  else if t == "ibad" || t == "iempty" || t == "iabs" then some (some .bad)
  else if t.startsWith "i" then ((t.drop 1).toString.toNat?).map (fun n => some (.id n))
  else none

def parseKey (t : String) : Option (Option KeyTok) :=
  if t == "-" then some none
  else if t == "kb64" then some (some .badB64)
  else if t == "kbytes" || t == "kempty" || t == "kabs" then some (some .badKey)
  else if t.startsWith "k" then ((t.drop 1).toString.toNat?).map (fun n => some (.key n))
  else none

def parseOp (t : String) : Option Op :=
  if t == "G" then some (.load .garbage)
  else match t.splitOn ":" with
    | [k, i, key] =>
      (match parseId i, parseKey key with
       | some ei, some ek =>
         if k == "E" then some (.env ei ek)
         else if k == "L" || k == "Lf" then
           (match ei, ek with
            | some a, some b => some (.load (.obj a b))
            | _, _ => none)
         else none
       | _, _ => none)
    | _ => none

def showIdx : Option Nat → String
  | some n => toString n
  | none => "-"

def showIdTok : IdTok → String
  | .id n => "i" ++ toString n
  | .bad => "iempty"

def showKeyTok : KeyTok → String
  | .key n => "k" ++ toString n
  | _ => "kbad"

def showObs (o : Obs) : String :=
  "res=" ++ ",".intercalate o.res ++ " sid=" ++ o.sid ++ " skey=" ++ o.skey ++ " valid=" ++ (if o.valid then "1" else "0") ++
    " saved=" ++ o.saved ++ " perm=" ++ o.perm ++ " rres=" ++ o.rres ++ " rid=" ++ o.rid ++ " rkey=" ++ o.rkey

def predictObs (opsTok : List String) (ops : List Op) : Obs :=
  let r := run fresh ops
  let s := r.1
  let sv := save s
  let rl := sv.map (fun p => load fresh (.obj p.1 p.2))
  { ops := opsTok, res := r.2.map (fun b => if b then "ok" else "err"),
    sid := showIdx s.id, skey := showIdx s.key, valid := valid s,
    saved := match sv with | none => "-" | some (i, k) => showIdTok i ++ ":" ++ showKeyTok k,
    perm := if sv.isSome then "600" else "-",
    rres := match rl with | none => "-" | some (_, ok) => if ok then "ok" else "err",
    rid := match rl with | none => "-" | some (m, _) => showIdx m.id,
    rkey := match rl with | none => "-" | some (m, _) => showIdx m.key }

def parseObs (ws : List String) : Option Obs := do
  let (pre, post) ← splitArrow ws
  let ops ← kvOf pre "ops"
  let res ← kvOf post "res"
  let g := fun k => (kvOf post k).getD "?"
  let o : Obs := { ops := ops.splitOn ",", res := res.splitOn ",", sid := g "sid", skey := g "skey", valid := g "valid" == "1",
                   saved := g "saved", perm := g "perm", rres := g "rres", rid := g "rid", rkey := g "rkey" }
  if o.ops.length != o.res.length then none else pure o

def answer (ws : List String) : String :=
  match parseObs ws with
  | none => "bad-case"
  | some o =>
    let lastKind := match o.ops.getLast? with
      | some t => (t.takeWhile (fun c => c != ':')).toString
      | none => "-"
    let arm := "ident-" ++ toString o.ops.length ++ "-" ++ lastKind ++ "-" ++ o.res.getLast?.getD "-"
    let failed := (clauses o).filter (fun c => !c.2)
    if !failed.isEmpty then "propfail " ++ ",".intercalate (failed.map (·.1)) ++ " arm=" ++ arm
    else match o.ops.mapM parseOp with
      | none => "bad-case op"
      | some ops =>
        let p := predictObs o.ops ops
        if showObs p != showObs o then "diff arm=" ++ arm ++ " model=" ++ (showObs p).replace " " ";"
        else "ok arm=" ++ arm ++ (if o.res.all (· != "ok") then " trivial" else "")

def rlibAnswer (ws : List String) : String :=
  match splitArrow ws with
  | none => "bad-case"
  | some (pre, post) =>
    match kvOf pre "id", kvOf pre "key", kvOf pre "addr", kvOf post "res" with
    | some idT, some keyT, some addr, some res =>
      let g := fun k => (kvOf post k).getD "?"
      let arm := "rlib-" ++ idT ++ "-" ++ keyT ++ "-" ++ addr ++ "-" ++ res
      let failed := (rlibClauses idT keyT res (g "sid") (g "skey") (g "valid" == "1") (g "saved") (g "rres")).filter (fun c => !c.2)
      if !failed.isEmpty then "propfail " ++ ",".intercalate (failed.map (·.1)) ++ " arm=" ++ arm
      else match parseId idT, parseKey keyT with
        | some i, some k =>
          let exp := match restLoad i k (addr == "1") with
            | none => "res=err;sid=-;skey=-"
            | some s => "res=ok;sid=" ++ showIdx s.id ++ ";skey=" ++ showIdx s.key
          if exp != "res=" ++ res ++ ";sid=" ++ g "sid" ++ ";skey=" ++ g "skey" then "diff arm=" ++ arm ++ " model=" ++ exp
          else "ok arm=" ++ arm
        | _, _ => "bad-case"
    | _, _, _, _ => "bad-case"

end Ident

namespace Disp

def parseLeaf (t : String) : Option LeafObs :=
  match t.splitOn "=" with
  | [p, obs] => some { path := (p.splitOn ".").map (fun sg => if sg.endsWith "^" then ((sg.dropEnd 1).toString, true) else (sg, false)), obs := obs }
  | _ => none

/-- what the model shows for this leaf: the mask for its top-level field, or its value -/
def predicted (l : LeafObs) : String :=
  let leaf : Leaf := { path := l.path.map (fun p => { name := p.1, hidden := p.2 }), val := "v" }
  match display [leaf] with
  | [(_, t)] => if t == maskText then "m" else "s"
  | _ => "x"

def answer (ws : List String) : String :=
  match splitArrow ws with
  | none => "bad-case"
  | some (pre, post) =>
    match kvOf post "res", kvOf post "leaves" with
    | some res, some lv =>
      match (lv.splitOn ",").mapM parseLeaf with
      | none => "bad-case leaf"
      | some ls =>
        let arm := "disp-" ++ (pre.head?.getD "-")
        let failed := (clauses res ls).filter (fun c => !c.2)
        if !failed.isEmpty then "propfail " ++ ",".intercalate (failed.map (·.1)) ++ " arm=" ++ arm
        else if res != "ok" then "diff arm=" ++ arm ++ " model=ok"
        else match ls.find? (fun l => (l.obs.takeWhile (· != '!')).toString != predicted l) with
          | some l => "diff arm=" ++ arm ++ " model=" ++ ".".intercalate (l.path.map (·.1)) ++ ":" ++ predicted l
          | none => "ok arm=" ++ arm
    | _, _ => "bad-case"

end Disp

namespace Util

def sindAnswer (ws : List String) : String :=
  match splitArrow ws with
  | none => "bad-case"
  | some (pre, post) =>
    match pre.head?, kvOf pre "guard", kvOf pre "z", kvOf pre "src", kvOf pre "dest", kvOf post "out" with
    | some ty, some g, some z, some src, some dest, some out =>
      let zb := z == "1"
      let arm := "sind-" ++ ty ++ "-" ++ g ++ (if zb then "-zero" else "-nonzero")
      let failed := (sindClauses g zb src out).filter (fun c => !c.2)
      if !failed.isEmpty then "propfail " ++ ",".intercalate (failed.map (·.1)) ++ " arm=" ++ arm
      else if g == "?" then "diff arm=" ++ arm ++ " model=unknown-guard"
      else
        -- the regenerated arm, interpreted (`sindAssigns`); no arm for the type: nothing is assigned
        let exp := if sindAssigns (if g == "none" then [] else [(ty, g)]) ty zb then src else dest
        if out != exp then "diff arm=" ++ arm ++ " model=out:" ++ exp
        else "ok arm=" ++ arm ++ (if g == "none" then " trivial" else "")
    | _, _, _, _, _, _ => "bad-case"

def parseArg (a : String) : Option DurJ :=
  if a == "e" then some .empty else if a == "b" then some .bad
  else if a.startsWith "o" then ((a.drop 1).toString.toInt?).map .ok else none

def pdurAnswer (ws : List String) : String :=
  match splitArrow ws with
  | none => "bad-case"
  | some (pre, post) =>
    match kvOf pre "args", kvOf pre "cur", kvOf post "res", kvOf post "out" with
    | some a, some c, some res, some o =>
      let args := a.splitOn ","
      let cur := c.splitOn ","
      let out := o.splitOn ","
      let arm := "pdur-" ++ toString args.length ++ "-" ++ res
      let failed := (pdurClauses args cur out res).filter (fun c => !c.2)
      if !failed.isEmpty then "propfail " ++ ",".intercalate (failed.map (·.1)) ++ " arm=" ++ arm
      else match args.mapM parseArg, cur.mapM (·.toInt?) with
        | some js, some cs =>
          if js.length != cs.length then "bad-case" else
          let r := parseDurations (js.zip cs)
          let exp := "res=" ++ (if r.2 then "err" else "ok") ++ ";out=" ++ ",".intercalate (r.1.map toString)
          if exp != "res=" ++ res ++ ";out=" ++ o then "diff arm=" ++ arm ++ " model=" ++ exp
          else "ok arm=" ++ arm
        | _, _ => "bad-case"
    | _, _, _, _ => "bad-case"

end Util

/-- case kind `mgr`: the policy the model states (`Mgr.unknown_sections_policy`, `Mgr.display_hides_all_hidden`,
`Mgr.dup_last_wins`): unknown components (objects and nulls) are kept by ToJSON, top-level keys that are no
section group are dropped by json.Unmarshal, an undefined registered component is written with its defaults,
the last duplicate key wins, nothing unregistered is displayed -/
def mgrAnswer (ws : List String) : String :=
  match splitArrow ws with
  | none => "bad-case"
  | some (pre, post) =>
    let g := fun k => (kvOf post k).getD "?"
    let o : MgrObs := { res := g "res", fix := g "fix" == "1", leak := g "leak" == "1", masked := g "masked" == "1" }
    let arm := "mgr-" ++ (pre.head?.getD "-") ++ "-" ++ o.res
    let failed := (mgrClauses o).filter (fun c => !c.2)
    if !failed.isEmpty then "propfail " ++ ",".intercalate (failed.map (·.1)) ++ " arm=" ++ arm
    else if o.res != "ok" then "diff arm=" ++ arm ++ " model=accept"
    else
      let exp := [("unkcomp", "kept"), ("unknull", "kept"), ("unktop", "dropped"), ("undef", "written"), ("disp", "absent")] ++
        (if pre.head? == some "dup" then [("dup", "last")] else [("dup", "other")])
      match exp.find? (fun (k, v) => g k != v) with
      | some (k, v) => "diff arm=" ++ arm ++ " model=" ++ k ++ ":" ++ v
      | none => "ok arm=" ++ arm

def zeroAnswer (ws : List String) : String :=
  match splitArrow ws with
  | none => "bad-case"
  | some (pre, post) =>
    match pre.head?, kvOf pre "first", kvOf pre "op", kvOf post "res" with
    | some sec, some first, some op, some res =>
      let arm := "zero-" ++ sec ++ "-" ++ (if first == "-" then "fresh" else "refused") ++ "-" ++ op ++ "-" ++ res
      let failed := (Util.zeroClauses res).filter (fun c => !c.2)
      if !failed.isEmpty then "propfail " ++ ",".intercalate (failed.map (·.1)) ++ " arm=" ++ arm
      else if res != "ok" && res != "err" then "diff arm=" ++ arm ++ " model=res:ok|err"
      -- the empty object `{}` and the defaults are accepted by every section but the identity (no key in `{}`)
      else "ok arm=" ++ arm
    | _, _, _, _ => "bad-case"

/-- texts of `envk` lines are decimal code points joined by `.` (`-` = empty) -/
def unesc (t : String) : String :=
  if t == "-" then "" else String.mk (((t.splitOn ".").filterMap String.toNat?).map Char.ofNat)

/-- case kind `envk`: `envk <sec> <path> kind=<k> text=<codepoints> => res= kept= got=<codepoints | ?>` -/
def envkAnswer (ws : List String) : String :=
  match splitArrow ws with
  | none => "bad-case"
  | some (pre, post) =>
    match pre, kvOf pre "kind", kvOf pre "text", kvOf post "res", kvOf post "kept", kvOf post "got" with
    | _sec :: _path :: _, some k, some t, some res, some kept, some got =>
      let kind := EnvK.parseKind k
      let text := (unesc t).toList
      let pred := EnvK.envDecode kind text
      let predTag := match pred with | .ok _ => "ok" | .refuse => "refuse" | .undecided => "undecided"
      let arm := "envk-" ++ k ++ "-" ++ predTag ++ "-" ++ res
      let failed := (Util.envkClauses pred res (kept == "1")).filter (fun c => !c.2)
      if !failed.isEmpty then "propfail " ++ ",".intercalate (failed.map (·.1)) ++ " arm=" ++ arm
      else if kind == .other then "diff arm=" ++ arm ++ " model=kind-other"
      else match pred with
        | .ok v => if res == "ok" && got != "?" && unesc got != v.show then "diff arm=" ++ arm ++ " model=got:" ++ v.show
                   else "ok arm=" ++ arm
        | _ => "ok arm=" ++ arm
    | _, _, _, _, _, _ => "bad-case"

def answer (ws : List String) : String :=
  if ws.head? == some "envk" then envkAnswer (ws.drop 1) else
  if ws.head? == some "zero" then zeroAnswer (ws.drop 1) else
  if ws.head? == some "ident" then Ident.answer (ws.drop 1) else
  if ws.head? == some "disp" then Disp.answer (ws.drop 1) else
  if ws.head? == some "rlib" then Ident.rlibAnswer (ws.drop 1) else
  if ws.head? == some "sind" then Util.sindAnswer (ws.drop 1) else
  if ws.head? == some "pdur" then Util.pdurAnswer (ws.drop 1) else
  if ws.head? == some "mgr" then mgrAnswer (ws.drop 1) else
  if ws.head? == some "src" then Src.answer (ws.drop 1) else
  if ws.head? == some "val" then Val.answer (ws.drop 1) else
  match parseCase ws with
  | none => "bad-case"
  | some (i, o) =>
    let failed := (clauses i o).filter (fun c => !c.2)
    if !failed.isEmpty then
      "propfail " ++ ",".intercalate (failed.map (·.1)) ++ " arm=" ++ arm i
    else match modelCheck i o with
      | some d => "diff arm=" ++ arm i ++ " " ++ d
      | none => "ok arm=" ++ arm i ++ (if trivialCase i o then " trivial" else "")

end CV.C15
