import ClusterVerif.Spec.C17Fault
import Driver.PinParse
namespace CV.C17
open CV CV.Parse CV.PinParse

def parseResF (s : String) : Option Res :=
  if s == "ok" then some .ok else if s == "err" then some .err else none

def parsePlan (s : String) : Option (List PT) :=
  if s == "-" then some []
  else s.toList.mapM (fun c => if c == 'f' then some PT.f else if c == 'l' then some PT.l else if c == 'x' then some PT.x else if c == 'p' then some PT.p else none)

def parseHas (s : String) : Option Has :=
  if s == "all" then some .all else if s == "none" then some .none else if s == "mixed" then some .mixed else none

def parseFOp (s : String) : Option FOp :=
  match s.splitOn "@" with
  | ["fadd", a, j, plan, l, r, fwd, loc, has] => do
    pure (.add (← a.toNat?) (← j.toNat?) (← (l.drop 1).toNat?) (← parsePlan plan) (← parseResF r) (← fwd.toNat?) (← loc.toNat?) (← parseHas has))
  | ["frm", a, j, plan, l, r, fwd, loc, has] => do
    pure (.rm (← a.toNat?) (← j.toNat?) (← (l.drop 1).toNat?) (← parsePlan plan) (← parseResF r) (← fwd.toNat?) (← loc.toNat?) (← parseHas has))
  | "pin" :: a :: p :: "ok" :: _ => do pure (.pin (← a.toNat?) (← parsePin p))
  | _ => none

def parseMemberF (idStr body : String) : Option MemberObs :=
  match body.splitOn ";" with
  | [ps, pins, nv] => do
    pure { id := ← idStr.toNat?, peers := ← nats ps, pins := ← parsePinset pins,
           nonvoters := ← nats (nv.drop 3).toString }
  | _ => none

def parseObsTokF (o : Obs) (t : String) : Option Obs :=
  match t.splitOn "=" with
  | [k, _] => if k == "lead" then some o else none
  | [k, v, w] =>
    if k.startsWith "m" then do
      let m ← parseMemberF (k.drop 1).toString (v ++ "=" ++ w)
      pure { o with members := o.members ++ [m] }
    else none
  | _ => none

def faultArm (retries : Nat) (op : FOp) : String :=
  let planArm (a lead : Nat) (plan : List PT) : String :=
    (if plan.contains .p then "P" else if plan.contains .x then "X" else if a == lead then "L" else "F") ++ ":" ++
    (if plan.isEmpty then "k0" else if plan.length > retries + 1 then "kall" else if plan.length == retries + 1 then "kr+1"
     else if plan.length == retries then "kr" else "k" ++ toString plan.length) ++
    (if plan.contains .l then (if plan.contains .f then ":mixed" else ":lost") else if plan.isEmpty then "" else ":refused")
  match op with
  | .add a j lead plan res _ _ has =>
    "fadd" ++ (if j == 9 then "-null" else "") ++ ":" ++ planArm a lead plan ++ (if res == .ok then ":ok" else ":err") ++
      (match has with | .all => ":all" | .none => ":none" | .mixed => ":mixed")
  | .rm a j lead plan res _ _ has =>
    "frm" ++ (if a == j then "-self" else if j == lead then "-leader" else "") ++ ":" ++ planArm a lead plan ++
      (if res == .ok then ":ok" else ":err") ++ (match has with | .all => ":all" | .none => ":none" | .mixed => ":mixed")
  | .pin .. => "pin"

def answerFault (ws : List String) : String :=
  match (do
    let (pre, post) ← splitArrow ws
    match pre with
    | r :: _rp :: ini :: ops0 =>
      let retries ← (r.drop 2).toNat?
      let init ← nats (ini.drop 5).toString
      let ops ← ops0.mapM parseFOp
      let obs ← post.foldlM parseObsTokF { members := [], gone := [] }
      pure ({ retries := retries, init := init, ops := ops, obs := obs } : FCase)
    | _ => none) with
  | none => "bad-case parse"
  | some k =>
    if k.init.isEmpty then "bad-case empty-init" else
    let arm := "f:r" ++ toString k.retries ++ ":" ++ (match k.ops.reverse with | [] => "boot" | op :: _ => faultArm k.retries op)
    let failed := (fClauses k).filter (fun c => !c.2)
    let triv := if k.ops.any (fun o => match o with | .pin .. => false | _ => true) then "" else " trivial"
    if !failed.isEmpty then
      "propfail " ++ ",".intercalate ((failed.map (·.1)).eraseDups) ++ " arm=" ++ arm
    else if !fAllowed k then
      let why := match fReplay k.retries k.init [.boot k.init] k.ops with
        | none =>
          -- what the model expects of the first step it does not admit
          let rec go (log : List Entry) : List FOp → String
            | [] => "?"
            | op :: rest => match fStep k.retries k.init log op with
              | some log' => go log' rest
              | none =>
                let show_ (att : Attempt) (a j lead : Nat) (plan : List PT) : String :=
                  let t := consLoopT a k.retries att (planOrc a lead plan) (k.retries + 1) 0 log
                  (if fPlaced k.init log a lead then "" else "caller-or-leader-not-a-running-server ") ++
                  "model: res=" ++ (if t.1.1 == .ok then "ok" else "err") ++ " fwd=" ++ toString (fwdCount t.2) ++
                    " loc=" ++ toString (locCount t.2) ++ " has=" ++ (if modelHas t.1.2 j == .all then "all" else "none")
                match op with
                | .add a j lead plan .. => show_ (rwAddPeer j) a j lead plan
                | .rm a j lead plan .. => show_ (rwRemovePeer j) a j lead plan
                | .pin .. => "model: pin issued outside the configuration"
          "outcome-not-allowed " ++ go [.boot k.init] k.ops
        | some log => "observation: model-peers=" ++ showNats (cfgIds (cfgAt log)) ++ " model-pins=" ++ toString (pinsAt log).length
      "diff arm=" ++ arm ++ " " ++ why
    else "ok arm=" ++ arm ++ triv

/-! concurrent phases: `C17 x r=.. rp=1 init=.. <op>+<op>+.. <op>+.. => obs` -/
def parseCOp (s : String) : Option COp :=
  match s.splitOn "@" with
  | "add" :: a :: j :: r :: _ => do pure (.add (← a.toNat?) (← j.toNat?) (← parseResF r))
  | "rm" :: a :: j :: r :: _ => do pure (.rm (← a.toNat?) (← j.toNat?) (← parseResF r))
  | "pin" :: a :: p :: r :: _ => do pure (.pin (← a.toNat?) (← parsePin p) (← parseResF r))
  | "unpin" :: a :: c :: r :: _ => do pure (.unpin (← a.toNat?) (← c.toNat?) (← parseResF r))
  | _ => none

def concArm (ph : List COp) : String :=
  let n (f : COp → Bool) := toString (ph.filter f).length
  "m" ++ n (fun o => o.subject.isSome) ++ "p" ++ n (fun o => o.cid.isSome) ++ "e" ++ n (fun o => o.res == .err)

def answerConc (ws : List String) : String :=
  match (do
    let (pre, post) ← splitArrow ws
    match pre with
    | r :: _rp :: ini :: ops0 =>
      let retries ← (r.drop 2).toNat?
      let init ← nats (ini.drop 5).toString
      let phases ← ops0.mapM (fun (t : String) => (t.splitOn "+").mapM parseCOp)
      let obs ← post.foldlM parseObsTokF { members := [], gone := [] }
      pure ({ retries := retries, init := init, phases := phases, obs := obs } : CCase)
    | _ => none) with
  | none => "bad-case parse"
  | some k =>
    if k.init.isEmpty then "bad-case empty-init" else
    if k.phases.any (fun ph => ph.length > 5) then "bad-case phase-too-wide" else
    let arm := "x:n" ++ toString k.phases.length ++ ":" ++ (match k.phases.reverse with | [] => "boot" | ph :: _ => concArm ph)
    let failed := (cClauses k).filter (fun c => !c.2)
    let triv := if k.phases.any (fun ph => ph.any (fun o => o.subject.isSome)) then "" else " trivial"
    if !failed.isEmpty then
      "propfail " ++ ",".intercalate ((failed.map (·.1)).eraseDups) ++ " arm=" ++ arm
    else if !cAllowed k then "diff arm=" ++ arm ++ " no-order-of-the-phases-explains-outcomes-and-observation"
    else "ok arm=" ++ arm ++ triv

/-! joiner during a burst: `C17 j r=.. rp=1 init=.. joiner=3 pre=<k0> burst=<n> shape=<pin shape with # for the cid> acked=<a> add=<res> ready=<lvs>@<pinset> => obs` -/
def kv (ws : List String) (key : String) : Option String :=
  (ws.find? (·.startsWith (key ++ "="))).map (fun t => (t.drop (key.length + 1)).toString)

def parseBitsF (s : String) : Option (Bool × Bool × Bool) :=
  match s.toList with
  | [a, b, c] => some (a == '1', b == '1', c == '1')
  | _ => none

def answerJoin (ws : List String) : String :=
  match (do
    let (pre, post) ← splitArrow ws
    let init ← nats (← kv pre "init")
    let joiner ← (← kv pre "joiner").toNat?
    let k0 ← (← kv pre "pre").toNat?
    let n ← (← kv pre "burst").toNat?
    let shape ← kv pre "shape"
    let acked ← (← kv pre "acked").toNat?
    let addRes ← parseResF (← kv pre "add")
    let rdy ← kv pre "ready"
    let (bitsS, pinsS) ← match rdy.splitOn "@" with
      | [b, p] => some (b, p)
      | _ => none
    let bits ← parseBitsF bitsS
    let ready ← parsePinset pinsS
    let pins ← (List.range (k0 + n)).mapM (fun c => parsePin (shape.replace "#" (toString c)))
    let obs ← post.foldlM parseObsTokF { members := [], gone := [] }
    pure ({ init := init, joiner := joiner, pre := pins.take k0, burst := pins.drop k0, acked := acked, addRes := addRes,
            bits := bits, ready := ready, obs := obs } : JCase)) with
  | none => "bad-case parse"
  | some k =>
    if k.init.isEmpty || k.init.contains k.joiner then "bad-case init" else
    if k.acked > k.burst.length then "bad-case acked" else
    let arm := "j:n" ++ toString k.init.length ++ ":pre" ++ toString k.pre.length ++ ":acked" ++ toString (k.acked * 4 / (k.burst.length + 1)) ++
      "of4:ready" ++ toString ((k.ready.length - (k.pre.length + k.acked)) * 4 / (k.burst.length - k.acked + 1)) ++ "of4"
    let failed := (jClauses k).filter (fun c => !c.2)
    if !failed.isEmpty then
      "propfail " ++ ",".intercalate ((failed.map (·.1)).eraseDups) ++ " arm=" ++ arm
    else if !jAllowed k then "diff arm=" ++ arm ++ " no-position-of-the-addition-explains-the-joiner"
    else "ok arm=" ++ arm

end CV.C17
