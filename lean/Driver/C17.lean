import ClusterVerif.Spec.C17
import Driver.PinParse
import Driver.C17Fault
import Driver.C17Depart
namespace CV.C17
open CV CV.Parse CV.PinParse

def parseRes (s : String) : Option Res :=
  if s == "ok" then some .ok else if s == "err" then some .err else none

def parseCall (s : String) : Option Call :=
  if s.startsWith "P" then (parsePin (s.drop 1).toString).map .logPin
  else if s.startsWith "R" then (s.drop 1).toNat?.map .rmPeer
  else none

def parseCalls (s : String) : Option (List Call) :=
  if s == "-" then some [] else (s.splitOn ";").mapM parseCall

def parseBits (s : String) : Option (Bool × Bool × Bool) :=
  match s.toList with
  | [a, b, c] => do pure (← bool01 (String.singleton a), ← bool01 (String.singleton b), ← bool01 (String.singleton c))
  | _ => none

def parseOp (s : String) : Option Op :=
  match s.splitOn "@" with
  | ["start", j] => do pure (.start (← j.toNat?))
  | "add" :: i :: j :: r :: _ => do pure (.add (← i.toNat?) (← j.toNat?) (← parseRes r))
  | "rm" :: i :: j :: r :: _ => do pure (.rm (← i.toNat?) (← j.toNat?) (← parseRes r))
  | "pin" :: i :: p :: r :: _ => do pure (.pin (← i.toNat?) (← parsePin p) (← parseRes r))
  | "unpin" :: i :: c :: r :: _ => do pure (.unpin (← i.toNat?) (← c.toNat?) (← parseRes r))
  | ["ready", j, b, ps] => do
    let (l, v, sy) ← parseBits b
    pure (.ready (← j.toNat?) l v sy (← parsePinset ps))
  | "nonvoter" :: i :: j :: r :: _ => do pure (.nonvoter (← i.toNat?) (← j.toNat?) (← parseRes r))
  | ["sync", j, r] => do
    let res ← if r == "ok" then some SyncRes.ok else if r == "err" then some SyncRes.err
              else if r == "ok-novote" then some SyncRes.okNoVote else none
    pure (.sync (← j.toNat?) res)
  | ["stop", j] => do pure (.stop (← j.toNat?))
  | ["restart", j] => do pure (.restart (← j.toNat?))
  | ["clean", j, g] => do pure (.clean (← j.toNat?) (g == "1") 0)
  | ["clean", j, g, nb] => do pure (.clean (← j.toNat?) (g == "1") (← nb.toNat?))
  | ["join", j, via, r, ps] => do pure (.join (← j.toNat?) (← via.toNat?) (← parseRes r) (← parsePinset ps))
  | ["padd", j, via, r, ps] => do pure (.join (← j.toNat?) (← via.toNat?) (← parseRes r) (← parsePinset ps))
  | ["prm", i, p, r, cs] => do pure (.peerRm (← i.toNat?) (← p.toNat?) (← parseRes r) (← parseCalls cs))
  | ["leave", j, r] => do pure (.leave (← j.toNat?) (← parseRes r))
  | _ => none

def parseMember (idStr body : String) : Option MemberObs :=
  match body.splitOn ";" with
  | [ps, pins, nv] => do
    pure { id := ← idStr.toNat?, peers := ← nats ps, pins := ← parsePinset pins,
           nonvoters := ← nats (nv.drop 3).toString }
  | _ => none

def parseObsTok (o : Obs) (t : String) : Option Obs :=
  match t.splitOn "=" with
  | [k, v] =>
    if k == "lead" then some o
    else if k.startsWith "m" then do
      let m ← parseMember (k.drop 1).toString v
      pure { o with members := o.members ++ [m] }
    else if k.startsWith "x" then do
      let j ← (k.drop 1).toNat?
      match v.toList with
      | [d, g] => pure { o with gone := o.gone ++ [(j, d == '1', g == '1')] }
      | _ => none
    else none
  | [k, v, w] =>
    -- m<i>=peers;pins;nv=<list>
    if k.startsWith "m" then do
      let m ← parseMember (k.drop 1).toString (v ++ "=" ++ w)
      pure { o with members := o.members ++ [m] }
    else none
  | _ => none

def parseCase (ws : List String) : Option Case := do
  let (pre, post) ← splitArrow ws
  match pre with
  | t :: r :: rp :: ini :: ops0 =>
    let ops := ops0
    let tier ← if t == "c" then some Tier.cons else if t == "k" then some Tier.cluster else none
    let retries ← (r.drop 2).toNat?
    let repin := rp == "rp=1"
    let init ← nats (ini.drop 5).toString
    -- `bulk@i@n` is a harness-only marker (a long log of pins that the script re-asserts right after)
    let ops ← (ops.filter (fun t => !(t.startsWith "bulk@" || t.startsWith "snap@" || t.startsWith "br=" || t.startsWith "ts="))).mapM parseOp
    let keep := ((ops0.find? (·.startsWith "br=")).bind (fun t => (t.drop 3).toNat?)).getD 2
    let slash := ops0.any (· == "ts=1")
    let obs ← post.foldlM parseObsTok { members := [], gone := [] }
    pure { tier := tier, repin := repin, retries := retries, init := init, keep := keep, slash := slash, ops := ops, obs := obs }
  | _ => none

def isMembershipOp : Op → Bool
  | .add .. | .rm .. | .nonvoter .. | .join .. | .peerRm .. | .leave .. | .ready .. | .restart .. | .clean .. | .sync .. => true
  | _ => false

/-- arm = kind of the last step, judged against what was expected before it -/
def armOf (k : Case) : String :=
  match k.ops.reverse with
  | [] => "boot"
  | last :: revInit =>
    let s := finalSt (specInit k.init) revInit.reverse
    let r (x : Res) := if x == .ok then "-ok" else "-err"
    match last with
    | .start _ => "start"
    | .add a j x => (if s.members.contains j then "add-present" else "add-new") ++ (if a == j then "-self" else "") ++ r x
    | .rm a j x => (if !s.members.contains j then "rm-absent" else if s.members == [j] then "rm-last"
                     else if a == j then "rm-self" else "rm-other") ++ r x
    | .pin _ p x => (if (s.pinset.get p.cid).isSome then "pin-again" else "pin-new") ++ r x
    | .unpin _ c x => (if (s.pinset.get c).isSome then "unpin-present" else "unpin-absent") ++ r x
    | .ready .. => "ready"
    | .nonvoter _ _ x => "nonvoter" ++ r x
    | .sync _ x => "sync-" ++ (match x with | .ok => "ok" | .err => "err" | .okNoVote => "ok-novote")
    | .stop _ => "stop"
    | .restart _ => "restart"
    | .clean _ g nb => (if g then "clean-gone" else "clean-kept") ++ "-b" ++ toString nb
    | .join _ _ x _ => "join" ++ r x
    | .peerRm a p x cs => (if !s.members.contains p then "prm-absent" else if s.members == [p] then "prm-last"
                     else if a == p then "prm-self" else "prm-other") ++ (if cs.length > 1 then "-repinned" else "") ++ r x
    | .leave j x => (if s.members == [j] then "leave-last" else "leave") ++ r x

def answer (ws : List String) : String :=
  if ws.head? == some "f" then answerFault ws.tail else
  if ws.head? == some "x" then answerConc ws.tail else
  if ws.head? == some "j" then answerJoin ws.tail else
  if ws.head? == some "d" then answerDepart ws.tail else
  match parseCase ws with
  | none => "bad-case parse"
  | some k =>
    if k.init.isEmpty then "bad-case empty-init" else
    let arm := (if k.tier == .cons then "c:" else "k:") ++ (if k.slash then "slash:" else "") ++ armOf k ++ ":n" ++ toString (finalSt (specInit k.init) k.ops).members.length
    let failed := (clauses k).filter (fun c => !c.2)
    let triv := if k.ops.any isMembershipOp then "" else " trivial"
    if !failed.isEmpty then
      "propfail " ++ ",".intercalate ((failed.map (·.1)).eraseDups) ++ " arm=" ++ arm
    else if !allowed k then
      let why := match replay ⟨k.keep, k.slash⟩ (initState k.tier k.repin k.init) k.ops with
        | none => "outcome-not-allowed"
        | some s => "observation: model-peers=" ++ showNats s.ids ++ " model-pins=" ++ toString s.pins.length
      "diff arm=" ++ arm ++ " " ++ why
    else "ok arm=" ++ arm ++ triv

end CV.C17
