import ClusterVerif.Spec.C08
import ClusterVerif.Model.C08Add
import ClusterVerif.Model.C08Util
import ClusterVerif.Gen.C08
import Driver.Parse
import Driver.C08Wire
/-! C08 driver: parses the case lines of harness/c08 (suites rt, eq, str, fuzz), applies the Spec
clauses to the implementation's output, then compares that output with the model's prediction.
Core Lean only. -/
namespace CV.C08
open CV.Parse

/-! ## tokens -/

def hexVal (c : Char) : Option Nat :=
  if c.isDigit then some (c.toNat - '0'.toNat)
  else if 'A' ≤ c && c ≤ 'F' then some (c.toNat - 'A'.toNat + 10)
  else if 'a' ≤ c && c ≤ 'f' then some (c.toNat - 'a'.toNat + 10) else none

/-- inverse of the harness's percent-encoding, for ASCII payloads (bytes ≥ 0x80 become U+FFFD-like placeholders) -/
def unpctChars : List Char → List Char
  | '%' :: a :: b :: rest =>
    match hexVal a, hexVal b with
    | some x, some y => Char.ofNat (x * 16 + y) :: unpctChars rest
    | _, _ => '%' :: unpctChars (a :: b :: rest)
  | c :: rest => c :: unpctChars rest
  | [] => []

/-- the Go string of a string token `~...` -/
def unStr (tok : String) : String := String.ofList (unpctChars (tok.drop 1).toString.toList)

/-! ## predictions -/

/-- AddParams.ToQueryString → AddParamsFromQuery through the field-level model `Model/C08Add.lean`
    (`Add.addRoundtrip`: pin options through the typed query model, `PinUpdate` cleared, every other parameter through
    its text form — `%t`/ParseBool, `%d`/Atoi — the defaults, the layout/format validation, the CIDv0 rule and the
    raw-leaves default in source order). A string the round trip leaves unchanged keeps its input token. -/
def predictAddParams (kvs : KVs) : Option (Res KVs) := do
  let po ← parseOpts kvs "PinOptions."
  let b := fun (n : String) => (getF kvs n).bind fun t => if t == "1" then some true else if t == "0" then some false else none
  let s := fun (n : String) => (getF kvs n).map unStr
  let x : Add.AddX :=
    { local_ := ← b "Local", recursive := ← b "Recursive", hidden := ← b "Hidden", wrap := ← b "Wrap", shard := ← b "Shard",
      streamChannels := ← b "StreamChannels", format := ← s "Format", layout := ← s "IPFSAddParams.Layout",
      chunker := ← s "IPFSAddParams.Chunker", rawLeaves := ← b "IPFSAddParams.RawLeaves", progress := ← b "IPFSAddParams.Progress",
      cidVersion := ← (← getF kvs "IPFSAddParams.CidVersion").toInt?, hashFun := ← s "IPFSAddParams.HashFun",
      noCopy := ← b "IPFSAddParams.NoCopy" }
  let bt := fun (v : Bool) => if v then "1" else "0"
  let st := fun (path v : String) =>
    if some v == s path then (getF kvs path).getD "~"
    else if v == "size-262144" then "~size%2D262144" else if v == "sha2-256" then "~sha2%2D256" else "~" ++ v
  match Add.addRoundtrip { opts := po, x := x } with
  | .ok r =>
    return .ok (showOpts r.opts "PinOptions." ++
      [ ("Local", bt r.x.local_), ("Recursive", bt r.x.recursive), ("Hidden", bt r.x.hidden), ("Wrap", bt r.x.wrap),
        ("Shard", bt r.x.shard), ("StreamChannels", bt r.x.streamChannels), ("Format", st "Format" r.x.format),
        ("IPFSAddParams.Layout", st "IPFSAddParams.Layout" r.x.layout),
        ("IPFSAddParams.Chunker", st "IPFSAddParams.Chunker" r.x.chunker),
        ("IPFSAddParams.RawLeaves", bt r.x.rawLeaves), ("IPFSAddParams.Progress", bt r.x.progress),
        ("IPFSAddParams.CidVersion", toString r.x.cidVersion),
        ("IPFSAddParams.HashFun", st "IPFSAddParams.HashFun" r.x.hashFun), ("IPFSAddParams.NoCopy", bt r.x.noCopy) ])
  | .encErr => return .encErr
  | .decErr => return .decErr

/-- what the model expects for a round-trip case; `none` = the case cannot be interpreted -/
def predictRt (rec : String) (f : Fmt) (kvs : KVs) : Option (Res KVs) :=
  match f, rec with
  | .proto, "Pin" => (parsePin kvs "").map fun p =>
      match protoRoundtrip p with | .ok q => .ok (showPin q) | .encErr => .encErr | .decErr => .decErr
  | .query, "PinOptions" => (parseOpts kvs "").map fun po =>
      match queryRoundtrip po with | .ok q => .ok (showOpts q "") | .encErr => .encErr | .decErr => .decErr
  | .query, "AddParams" => predictAddParams kvs
  | .snapshot, "Snapshot" => do
      let n ← (← getF kvs "Pins#").toNat?
      let pins ← (List.range n).mapM fun i => parsePin kvs ("Pins[" ++ toString i ++ "].")
      let outs := snapshotRoundtrip pins
      let idx := List.range outs.length
      pure (.ok (("Pins#", toString outs.length) :: (idx.zip outs).flatMap fun (i, q) => showPinP ("Pins[" ++ toString i ++ "].") q))
  | .json, _ => some (predictTagged Gen.table true rec kvs)
  | .msgpack, _ => some (predictTagged Gen.table false rec kvs)
  | .msgpackraft, _ => some (predictTagged Gen.table false rec kvs)
  | _, _ => none

def showRes : Res KVs → String
  | .ok kvs => "ok " ++ " ".intercalate (kvs.map fun kv => kv.1 ++ "=" ++ kv.2)
  | .encErr => "encerr"
  | .decErr => "decerr"

def resMatches (r : Res KVs) (status : String) (out : KVs) : Bool :=
  match r with
  | .ok kvs => status == "ok" && kvs == out
  | .encErr => status == "encerr"
  | .decErr => status == "decerr"

def failedNames (cs : List (String × Bool)) : String := ",".intercalate ((cs.filter fun c => !c.2).map (·.1))

/-- first differing field, for the diff message -/
def firstDiff : KVs → KVs → String
  | (p, a) :: xs, (q, b) :: ys => if p == q && a == b then firstDiff xs ys else p ++ "=" ++ a ++ "/" ++ q ++ "=" ++ b
  | [], [] => "-"
  | (p, a) :: _, [] => p ++ "=" ++ a ++ "/missing"
  | [], (q, b) :: _ => "missing/" ++ q ++ "=" ++ b

/-- the paths whose values differ under the Spec's comparison (for the report and for narrow known-finding signatures) -/
def badFields (f : Fmt) (inp : KVs) (status : String) (out : KVs) : String :=
  if status != "ok" then status else
  if inp.map (·.1) != out.map (·.1) then "shape" else
  let bad := (inp.zip out).filter fun p => !fieldEq f p.1.1 p.1.2 p.2.2
  if bad.isEmpty then "-" else ",".intercalate (bad.map (·.1.1))

/-- why the model expects a decode error (first offending field and reason), for narrow known-finding signatures -/
def decErrCause (rec : String) (f : Fmt) (kvs : KVs) : String :=
  let firstZeroPeer := fun (fields : List String) =>
    match kvs.find? (fun kv => fields.contains (lastSeg kv.1) && (tokElems kv.2).contains "p-") with
    | some kv => kv.1 ++ ":zero-peer"
    | none => "-"
  match f with
  | .json => match predictTaggedE Gen.table true rec kvs with | .error e => e | .ok _ => "-"
  | .msgpack => match predictTaggedE Gen.table false rec kvs with | .error e => e | .ok _ => "-"
  | .msgpackraft => match predictTaggedE Gen.table false rec kvs with | .error e => e | .ok _ => "-"
  | .proto => firstZeroPeer ["Allocations"]
  | .snapshot => firstZeroPeer ["Allocations"]
  | .query =>
    match firstZeroPeer ["UserAllocations"] with
    | "-" => (match kvs.find? (fun kv => lastSeg kv.1 == "Origins" && (tokElems kv.2).any (·.startsWith "mn")) with
              | some kv => kv.1 ++ ":no-p2p" | none => "-")
    | c => c

def answerRt (ws : List String) : String :=
  match ws with
  | rec :: fs :: rest =>
    match Fmt.ofString? fs, splitArrow rest with
    | some f, some (pre, post) =>
      match parseKVs pre, post with
      | some inp, status :: outToks =>
        match parseKVs outToks with
        | none => "bad-case output-tokens"
        | some out =>
          let arm := fs ++ "-" ++ rec ++ (if status == "ok" then "" else "-" ++ status)
          let cs := rtClauses rec f inp status out
          let pred := predictRt rec f inp
          let modelled := match pred with | some r => resMatches r status out | none => false
          if !holdsAll cs then
            "propfail " ++ failedNames cs ++ " arm=" ++ arm ++ " fields=" ++ badFields f inp status out ++
              (if status == "decerr" then " cause=" ++ decErrCause rec f inp else "") ++
              (if modelled then " as-modelled" else " unmodelled")
          else
          match pred with
          | none => "bad-case no-model-for " ++ rec ++ "/" ++ fs
          | some r =>
            if !modelled then
              "diff arm=" ++ arm ++ " first=" ++ (match r with | .ok kvs => firstDiff kvs out | _ => "status") ++ " model=" ++ (showRes r).take 300
            else "ok arm=" ++ arm ++ (if wfRt rec inp then "" else " trivial")
      | _, _ => "bad-case input-tokens"
    | _, _ => "bad-case format-or-arrow"
  | _ => "bad-case short"

/-! ### q: FromQuery on a typed parameter set -/

def parseQInt (t : String) : Option QInt :=
  if t == "-" then some .absent else if t == "bad" then some .bad else t.toInt?.map .val

def parseQuery (kvs : KVs) : Option Query := do
  let g := fun (n : String) => getF kvs n
  let mode ← g "mode"
  let expat ← g "expat"
  let expin ← g "expin"
  let expAt ← if expat == "-" then some none else (parseTime expat).map some
  pure {
    name := ← g "name", mode := if mode == "-" then "" else unStr mode,
    replication := ← parseQInt (← g "repl"), rmin := ← parseQInt (← g "rmin"), rmax := ← parseQInt (← g "rmax"),
    shardSize := ← parseQInt (← g "shard"), userAllocs := listToks (← g "ua"),
    expireAt := expAt,
    expireIn := if expin == "-" then none else some (expin == "ok"),
    metas := ← parseMeta (← g "meta"), pinUpdate := parseCidOpt (← g "upd"),
    origins := ← (listToks (← g "orig")).mapM parseOrigin }

def answerQ (ws : List String) : String :=
  match splitArrow ws with
  | none => "bad-case arrow"
  | some (pre, post) =>
    match (parseKVs pre).bind parseQuery, post with
    | none, _ => "bad-case q-parameters"
    | some _, ["panic"] => "propfail no_crash arm=q-panic"
    | some q, status :: outToks =>
      match parseKVs outToks with
      | none => "bad-case output-tokens"
      | some out =>
        -- an acceptable expire-in without expire-at gives a clock-dependent expiry: not modelled
        if q.expireIn == some true && q.expireAt.isNone then "bad-case q-clock-dependent" else
        let r : Res KVs := match fromQuery q with | .ok po => .ok (showOpts po "") | .encErr => .encErr | .decErr => .decErr
        let st := if status == "err" then "decerr" else status
        if !resMatches r st out then
          "diff arm=q-" ++ status ++ " first=" ++ (match r with | .ok kvs => firstDiff kvs out | _ => "status") ++ " model=" ++ (showRes r).take 300
        else "ok arm=q-" ++ status ++ " trivial"
    | _, _ => "bad-case q-shape"

/-! ### aq: AddParamsFromQuery on a typed parameter set -/

def aqHexDigit (n : Nat) : Char := if n < 10 then Char.ofNat ('0'.toNat + n) else Char.ofNat ('A'.toNat + (n - 10))

/-- the harness's string token of an ASCII string (`wire.StrTok`: letters, digits and `_` stay) -/
def aqStrTok (s : String) : String :=
  "~" ++ String.join (s.toList.map fun c =>
    if c.isAlphanum || c == '_' then c.toString else String.ofList ['%', aqHexDigit (c.toNat / 16), aqHexDigit (c.toNat % 16)])

def showAddX (x : Add.AddX) : KVs :=
  let bt := fun (v : Bool) => if v then "1" else "0"
  [ ("Local", bt x.local_), ("Recursive", bt x.recursive), ("Hidden", bt x.hidden), ("Wrap", bt x.wrap),
    ("Shard", bt x.shard), ("StreamChannels", bt x.streamChannels), ("Format", aqStrTok x.format),
    ("IPFSAddParams.Layout", aqStrTok x.layout), ("IPFSAddParams.Chunker", aqStrTok x.chunker),
    ("IPFSAddParams.RawLeaves", bt x.rawLeaves), ("IPFSAddParams.Progress", bt x.progress),
    ("IPFSAddParams.CidVersion", toString x.cidVersion), ("IPFSAddParams.HashFun", aqStrTok x.hashFun),
    ("IPFSAddParams.NoCopy", bt x.noCopy) ]

def splitSemi : List String → List String × List String
  | [] => ([], [])
  | ";" :: rest => ([], rest)
  | w :: rest => let (a, b) := splitSemi rest; (w :: a, b)

/-- which step of `AddParamsFromQuery` the model refuses a parameter set at (for the arm histogram) -/
def aqErrArm (ps : Add.Params) : String :=
  let g := Add.getP ps
  if !(["trickle", "balanced", ""].contains (g "layout")) then "layout"
  else if !(["car", "unixfs", ""].contains (g "format")) then "format"
  else if ["local", "recursive", "hidden", "wrap-with-directory", "shard", "progress"].any (fun k => (Add.boolParam ps k false).isNone) then "bool"
  else if (Add.intParam ps "cid-version" 0).isNone then "int"
  else if !Add.isSha256 (if g "hash" != "" then g "hash" else "sha2-256") && Add.intParam ps "cid-version" 0 == some 0 &&
          g "cid-version" != "" then "cidv0-hash"
  else "bool-late"

/-- what the accepted parameter set exercised -/
def aqOkArm (ps : Add.Params) (x : Add.AddX) : String :=
  let g := Add.getP ps
  let keys := ["layout", "chunker", "hash", "format", "cid-version", "local", "recursive", "hidden", "wrap-with-directory",
               "shard", "progress", "raw-leaves", "stream-channels", "nocopy"]
  if keys.all (fun k => g k == "") then "defaults"
  else if !Add.isSha256 x.hashFun && g "cid-version" == "" then "hash-moves-to-v1"
  else if x.cidVersion > 0 && g "raw-leaves" != "" && !x.rawLeaves then "v1-raw-leaves-off"
  else if x.cidVersion > 0 && g "raw-leaves" == "" then "v1-raw-default"
  else if keys.any (fun k => g k != "" && g k != Add.getP (Add.toParams x) k) then "alt-spelling"
  else "canonical"

def answerAq (ws : List String) : String :=
  match splitArrow ws with
  | none => "bad-case arrow"
  | some (pre, post) =>
    let (qtoks, xtoks) := splitSemi pre
    match (parseKVs qtoks).bind parseQuery, parseKVs xtoks, post with
    | none, _, _ => "bad-case aq-pin-parameters"
    | _, none, _ => "bad-case aq-add-parameters"
    | some _, some _, ["panic"] => "propfail no_crash arm=aq-panic"
    | some q, some xs, status :: outToks =>
      match parseKVs outToks with
      | none => "bad-case output-tokens"
      | some out =>
        if q.expireIn == some true && q.expireAt.isNone then "bad-case aq-clock-dependent" else
        if !xs.all (fun kv => kv.2.startsWith "~") then "bad-case aq-value-token" else
        let ps : Add.Params := xs.map fun kv => (kv.1, unStr kv.2)
        let (r, arm) : Res KVs × String := match fromQuery q with
          | .ok po => (match Add.fromParams ps with
                       | some x => (.ok (showOpts { po with pinUpdate := none } "PinOptions." ++ showAddX x), "aq-ok-" ++ aqOkArm ps x)
                       | none => (.decErr, "aq-err-" ++ aqErrArm ps))
          | _ => (.decErr, "aq-err-pinopts")
        -- the property clause: an accepted parameter set gives a value that can be written and read again unchanged
        let cs := if status.startsWith "ok:" then fuzzClauses (if status == "ok:same" then "ok:reenc-ok" else if status == "ok:repanic" then "ok:reenc-panic" else "ok:reenc-err") else []
        if !holdsAll cs then "propfail " ++ failedNames cs ++ " arm=" ++ arm ++ " re=" ++ status else
        let st := if status == "err" then "decerr" else if status.startsWith "ok:" then "ok" else status
        if !resMatches r st out then
          "diff arm=" ++ arm ++ " first=" ++ (match r with | .ok kvs => firstDiff kvs out | _ => "status") ++ " model=" ++ (showRes r).take 300
        else "ok arm=" ++ arm ++ (if status == "err" then " trivial" else "")
    | _, _, _ => "bad-case aq-shape"

/-! ### eq -/

def splitBar (ws : List String) : List (List String) :=
  ws.foldr (fun w acc => if w == "|" then [] :: acc else match acc with | [] => [[w]] | h :: t => (w :: h) :: t) [[]]

def parseBits (s : String) : Option (List Bool) := s.toList.mapM fun c => if c == '1' then some true else if c == '0' then some false else none

def eqOutOf : List Bool → Option EqOut
  | [a, b, c, d, e] => some ⟨a, b, c, d, e⟩
  | _ => none

def answerEq (ws : List String) : String :=
  match splitArrow ws with
  | none => "bad-case arrow"
  | some (pre, post) =>
    match splitBar pre, post with
    | [wa, wb, wc], ["panic"] =>
      match parseKVs wa, parseKVs wb, parseKVs wc with
      | some _, some _, some _ => "propfail no_crash arm=eq-panic"
      | _, _, _ => "bad-case pins"
    | [wa, wb, wc], [pb, ob, sb] =>
      let pins := do
        let a ← parsePin (← parseKVs wa) ""; let b ← parsePin (← parseKVs wb) ""; let c ← parsePin (← parseKVs wc) ""
        pure (a, b, c)
      match pins, (parseBits pb).bind eqOutOf, (parseBits ob).bind eqOutOf with
      | some (a, b, c), some pe, some oe =>
        let cs := eqClauses a b c pe oe
        let arm := "eq-" ++ (if pe.ab then "pin-equal" else if oe.ab then "opts-equal" else "different")
        if !holdsAll cs then "propfail " ++ failedNames cs ++ " arm=" ++ arm else
        let mp : EqOut := ⟨pinEquals a b, pinEquals b a, pinEquals a a, pinEquals b c, pinEquals a c⟩
        let mo : EqOut := ⟨optsEquals a.opts b.opts, optsEquals b.opts a.opts, optsEquals a.opts a.opts, optsEquals b.opts c.opts, optsEquals a.opts c.opts⟩
        let ms := (if pinEqualsPtr true a a then "1" else "0") ++ (if optsEqualsPtr true a.opts a.opts then "1" else "0")
        if mp != pe || mo != oe || ms != sb then "diff arm=" ++ arm ++ " model=" ++ (reprStr mp).take 120 ++ "/" ++ ms
        else "ok arm=" ++ arm
      | _, _, _ => "bad-case pins-or-bits"
    | _, _ => "bad-case shape"

/-! ### str -/

def sameNameSet (s : String) (expected : List String) : Bool :=
  let got := if expected == [""] then [s] else s.splitOn ","
  (sortS got) == (sortS expected)

def parsePeerOpt (t : String) : Option (Option Nat) :=
  if t == "p-" then some none else if t.startsWith "p" then ((t.drop 1).toString.toNat?).map some else none

def parseItem (t : String) : Option Util.SItem :=
  if t == "e" then some .empty else if t == "j" || t == "k" then some .junk
  else if t.startsWith "b" then ((t.drop 1).toString.toNat?).map .b58
  else if t.startsWith "c" then ((t.drop 1).toString.toNat?).map .cid
  else if t.startsWith "s" then ((t.drop 1).toString.toNat?).map fun _ => .junk
  else none

def showItem : Util.SItem → String
  | .b58 n => "b" ++ toString n
  | .cid n => "c" ++ toString n
  | .empty => "e"
  | .junk => "?"

def answerStr (ws : List String) : String :=
  match ws with
  | [kind, arg, "=>", "panic"] => "propfail no_crash arm=str-" ++ kind ++ " " ++ arg.take 20
  | ["ts", arg, "=>", s, back, jb] =>
    match arg.toInt?, back.toInt?, jb.toInt? with
    | some v, some b, some j =>
      let cs := strClauses "ts" v (some b) (some j) false
      let wf := decide (0 ≤ v) && knownStatusFilter v.toNat
      let partialComposite := wf && !(statusNames.map (·.1)).contains v.toNat &&
        ((v.toNat &&& errorMask != 0 && v.toNat &&& errorMask != errorMask) || (v.toNat &&& queuedMask != 0 && v.toNat &&& queuedMask != queuedMask))
      let arm := "str-ts-" ++ (if !wf then "unknown-bits" else if (statusNames.map (·.1)).contains v.toNat then "named"
                               else if partialComposite then "filter-partial-composite" else "filter")
      let m := statusRoundtrip v.toNat
      let names := statusStrings v.toNat
      let modelled := decide (0 ≤ v) && sameNameSet (unStr s) (if names.isEmpty then [""] else names) && b == m && j == m
      if !holdsAll cs then "propfail " ++ failedNames cs ++ " arm=" ++ arm ++ (if modelled then " as-modelled" else " unmodelled") else
      if v < 0 then "ok arm=" ++ arm ++ " trivial" else
      if !modelled then
        "diff arm=" ++ arm ++ " model=" ++ ",".intercalate names ++ " " ++ toString m
      else "ok arm=" ++ arm ++ (if wf then "" else " trivial")
    | _, _, _ => "bad-case str-ts"
  | ["pm", arg, "=>", s, back, jb] =>
    match arg.toInt?, back.toInt?, jb.toInt? with
    | some v, some b, some j =>
      let cs := strClauses "pm" v (some b) (some j) false
      if !holdsAll cs then "propfail " ++ failedNames cs ++ " arm=str-pm" else
      let m := modeFromString (modeString v)
      if unStr s != modeString v || b != m || j != m then "diff arm=str-pm model=" ++ modeString v ++ " " ++ toString m
      else "ok arm=str-pm" ++ (if v == 0 || v == 1 then "" else " trivial")
    | _, _, _ => "bad-case str-pm"
  | ["pt", arg, "=>", s, back, _] =>
    match arg.toNat?, back.toNat? with
    | some v, some b =>
      let cs := strClauses "pt" v (some b) none false
      if !holdsAll cs then "propfail " ++ failedNames cs ++ " arm=str-pt" else
      let m := typeFromString (typeString v)
      if unStr s != typeString v || b != m then "diff arm=str-pt model=" ++ typeString v ++ " " ++ toString m
      else "ok arm=str-pt" ++ (if [1, 2, 4, 8, 16, 30].contains v then "" else " trivial")
    | _, _ => "bad-case str-pt"
  | ["p2s", arg, "=>", its, back] =>
    match (listToks arg).mapM parsePeerOpt with
    | none => "bad-case str-p2s"
    | some ps =>
      let strs := Util.peersToStrings ps
      let m := showList (strs.map showItem) ++ " " ++ showList ((Util.stringsToPeers strs).map fun n => "p" ++ toString n)
      if m != its ++ " " ++ back then "diff arm=str-p2s model=" ++ m
      else "ok arm=str-p2s" ++ (if ps.contains none then "-empty-id" else "")
  | ["s2p", arg, "=>", peers, its] =>
    match (listToks arg).mapM parseItem with
    | none => "bad-case str-s2p"
    | some ss =>
      let ps := Util.stringsToPeers ss
      let m := showList (ps.map fun n => "p" ++ toString n) ++ " " ++ showList ((Util.peersToStrings (ps.map some)).map showItem)
      if m != peers ++ " " ++ its then "diff arm=str-s2p model=" ++ m
      else "ok arm=str-s2p" ++ (if ss.any (fun i => match i with | .cid _ => true | _ => false) then "-cid-form"
                                 else if ps.length < ss.length then "-skipped" else "")
  | [kind, arg, "=>", res] =>
    match res.toNat? with
    | none => "bad-case str-parse-result"
    | some r =>
      let s := unStr arg
      let m? : Option Nat :=
        if kind == "tsparse" then some (statusFromString s)
        else if kind == "pmparse" then some (modeFromString s).toNat
        else if kind == "ptparse" then some (typeFromString s)
        else if kind == "ips" then some (ipfsPinStatusFromString s) else none
      match m? with
      | none => "bad-case str-kind " ++ kind
      | some m => if m != r then "diff arm=str-" ++ kind ++ " model=" ++ toString m else "ok arm=str-" ++ kind
  | _ => "bad-case str-shape"

/-! ### fuzz -/

def answerFuzz (ws : List String) : String :=
  match ws with
  | [dec, _, "=>", outcome] =>
    let cls := if outcome.startsWith "panic" then "panic" else if outcome.startsWith "ok:reenc-panic" then "ok:reenc-panic"
               else if outcome.startsWith "ok:reenc-err" then "ok:reenc-err" else outcome
    if !(["err", "ok:reenc-ok", "ok:reenc-err", "ok:reenc-panic", "panic"].contains cls) then "bad-case fuzz-outcome " ++ outcome.take 40 else
    let cs := fuzzClauses cls
    -- per decoder entry point = format × record type (the per-type distribution of the search is the arm histogram)
    let arm := "fuzz-" ++ dec ++ "-" ++ cls
    if !holdsAll cs then "propfail " ++ failedNames cs ++ " arm=" ++ arm else "ok arm=" ++ arm
  | _ => "bad-case fuzz-shape"

/-- answer for one case line (tokens after the leading "C08") -/
def answer (ws : List String) : String :=
  match ws with
  | "rt" :: rest => answerRt rest
  | "q" :: rest => answerQ rest
  | "aq" :: rest => answerAq rest
  | "eq" :: rest => answerEq rest
  | "str" :: rest => answerStr rest
  | "fuzz" :: rest => answerFuzz rest
  | "pbenc" :: rest => answerWire "pbenc" rest
  | "pbdec" :: rest => answerWire "pbdec" rest
  | "qesc" :: rest => answerWire "qesc" rest
  | "qparse" :: rest => answerWire "qparse" rest
  | "mpenc" :: rest => answerWire "mpenc" rest
  | "mpdec" :: rest => answerWire "mpdec" rest
  | _ => "bad-case unknown-suite"

end CV.C08
