import ClusterVerif.Model.C07Sys
import Driver.Parse
/-!
C07 driver. Case lines (after the leading `C07` token):

* `rpc <shipped|follower|custom> <tr0|tr1> <raft|crdt> <raw> <ops> <self> <self|rN> <overrides> <Svc.Method> => <refused|passed> [detail]`
* `trust <raft|crdt> <raw> <ops> <self> <p> => <0|1>`
* `valid <overrides> => <ok|err>`
* `rep <raw> <ops> <self> <before> <msgs> => <after>`

* `cfg <raw> => <trustAll 0|1> <TrustedPeers> <trusted_peers printed by ToJSON>`
* `pol <steps> => <nil | overrides against the shipped table> <ok|err>`  (cluster `Config.RPCPolicy` after the steps, `Validate()`)
* `polrpc <steps> <t|u> <Svc.Method> => <refused|passed>`  (remote caller, trusted or not, against the server built from that `Config`)
`steps`: `/`-separated `D` Default(), `L[entries]` LoadJSON of a valid file that also carries a policy object, `E[entries]`
ApplyEnvVars with policy variables set, `F` the assignments of ipfs-cluster-follow; `entries`: `Name:<int>,…`.
`raw`: where the crdt configuration comes from: sources separated by `/`: `D` Default(), `L<list>` LoadJSON of a
file with that trusted_peers, `E<list>` ApplyEnvVars with CLUSTER_CRDT_TRUSTEDPEERS=<list>, `A` ApplyEnvVars with
the variable unset; a bare `<list>` is `L<list>`. `<list>`: comma separated, `*` or a peer index, `-` for none.
`ops`: `T<n>`/`D<n>` calls, `H<n>`: peer n called the open endpoints remotely (join handshake), `-` for none. `overrides`: `Name:<int>` or `Name:-` (entry deleted).
`msgs`: `<signer>:<pin>:<+|->`.
-/
namespace CV.C07
open CV.Parse

def parseList (s : String) : Option (List (Option Nat)) :=
  listOf (fun t => if t == "*" then some none else t.toNat?.map some) s

def parseSource (s : String) : Option Source :=
  if s == "D" then some .default
  else if s == "A" then some (.env none)
  else if s.startsWith "L" then (parseList (s.drop 1).toString).map .load
  else if s.startsWith "E" then (parseList (s.drop 1).toString).map (fun l => .env (some l))
  else (parseList s).map .load

/-- the sources of the trust configuration -/
def parseRaw (s : String) : Option (List Source) := (s.splitOn "/").mapM parseSource

def parseOp (s : String) : Option TOp :=
  if s.startsWith "T" then (s.drop 1).toNat?.map .trust
  else if s.startsWith "D" then (s.drop 1).toNat?.map .distrust
  else if s.startsWith "H" then (s.drop 1).toNat?.map .handshake
  else none

def parseOv (s : String) : Option (String × Option Int) :=
  match s.splitOn ":" with
  | [k, v] => if v == "-" then some (k, none) else v.toInt?.map (fun x => (k, some x))
  | _ => none

def parseMsg (s : String) : Option Msg :=
  match s.splitOn ":" with
  | [a, b, c] => do
    let sg ← a.toNat?; let p ← b.toNat?
    let add ← if c == "+" then some true else if c == "-" then some false else none
    pure { signer := sg, pin := p, add := add }
  | _ => none

def parseMode (s : String) : Option Mode :=
  if s == "raft" then some .raft else if s == "crdt" then some .crdt else none

def parseKind (s : String) : Option PolicyKind :=
  if s == "shipped" then some .shipped else if s == "follower" then some .follower
  else if s == "custom" then some .custom else none

def parseCaller (s : String) : Option Caller :=
  if s == "self" then some .self
  else if s.startsWith "r" then (s.drop 1).toNat?.map .remote else none

def showObs : Obs → String
  | .refused => "refused"
  | .passed => "passed"

def dedupNat : List Nat → List Nat
  | [] => []
  | x :: xs => if xs.contains x then dedupNat xs else x :: dedupNat xs

def sameSet (a b : List Nat) : Bool := a.all b.contains && b.all a.contains

def kindOk (k : PolicyKind) (ovs : List (String × Option Int)) : Bool :=
  k == .custom || ovs == kindOverrides k

def failedNames (cl : List (String × Bool)) : List String := (cl.filter (fun c => !c.2)).map (·.1)

def answerRpc (pre post : List String) : String :=
  match pre, post with
  | [k, tr, m, raw, ops, self, caller, ovs, ep], o :: _ =>
    match (do
      let k ← parseKind k; let tr ← (if tr == "tr0" then some false else if tr == "tr1" then some true else none)
      let m ← parseMode m; let raw ← parseRaw raw; let ops ← listOf parseOp ops
      let self ← self.toNat?; let caller ← parseCaller caller; let ovs ← listOf parseOv ovs
      let o ← if o == "refused" then some Obs.refused else if o == "passed" then some Obs.passed else none
      pure (k, tr, m, raw, ops, self, caller, ovs, o)) with
    | none => "bad-case rpc-parse"
    | some (k, tr, m, raw, ops, self, caller, ovs, o) =>
      if !kindOk k ovs then "bad-case policy-kind-does-not-match-overrides" else
      let registered := Gen.methods.contains ep
      let pol := applyOverrides Gen.policy ovs
      let i : RpcInput := { kind := k, tracing := tr, ts := { mode := m, srcs := raw, ops := ops }, self := self,
                            caller := caller, ep := ep, registered := registered }
      let trusted := match caller with
        | .self => true
        | .remote p => modelTrusted i.ts self p
      let arm :=
        (match caller with | .self => "self" | .remote _ => if trusted then "trusted" else "untrusted") ++ "/" ++
        (if !registered then "no-endpoint" else
          match Gen.closure.verdict pol ep with | .deny => "closed" | .askTrust => "trusted" | .allow => "open")
        ++ (if k == .custom then "/custom" else "") ++ (if tr then "/tracing" else "")
      let failed := failedNames (rpcClauses i o) ++ failedNames (rpcCfgClauses (lookup pol ep) i o)
      if !failed.isEmpty then "propfail " ++ ",".intercalate failed ++ " arm=" ++ arm else
      let expected : Obs := modelObs i ovs
      if o != expected then "diff arm=" ++ arm ++ " model=" ++ showObs expected
      else "ok arm=" ++ arm ++ (if rpcApplies i && caller != .self then "" else " trivial")
  | _, _ => "bad-case rpc-arity"

def answerTrust (pre post : List String) : String :=
  match pre, post with
  | [m, raw, ops, self, p], [o] =>
    match (do
      let m ← parseMode m; let raw ← parseRaw raw; let ops ← listOf parseOp ops
      let self ← self.toNat?; let p ← p.toNat?; let o ← bool01 o
      pure (m, raw, ops, self, p, o)) with
    | none => "bad-case trust-parse"
    | some (m, raw, ops, self, p, o) =>
      let i : TrustInput := { ts := { mode := m, srcs := raw, ops := ops }, self := self, p := p }
      let expected := modelTrusted i.ts self p
      let eff := i.ts.raw
      let arm := (if m == .raft then "raft" else if starListed eff then "crdt-star" else if eff.isEmpty then "crdt-empty" else "crdt-list")
        ++ (if raw.any (fun s => match s with | .env _ => true | _ => false) then "+env" else "")
        ++ (if ops.isEmpty then "" else "+calls") ++ (if p == self then "/self" else if expected then "/trusted" else "/untrusted")
      let failed := failedNames (trustClauses i o)
      if !failed.isEmpty then "propfail " ++ ",".intercalate failed ++ " arm=" ++ arm
      else if o != expected then "diff arm=" ++ arm ++ " model=" ++ (if expected then "1" else "0")
      else "ok arm=" ++ arm ++ (if p == self then " trivial" else "")
  | _, _ => "bad-case trust-arity"

def answerValid (pre post : List String) : String :=
  match pre, post with
  | [ovs], [o] =>
    match listOf parseOv ovs with
    | none => "bad-case valid-parse"
    | some ovs =>
      let expected := if policyValid Gen.validatedMethods (applyOverrides Gen.policy ovs) then "ok" else "err"
      if o != "ok" && o != "err" then "bad-case valid-output"
      else if o != expected then "diff arm=valid model=" ++ expected
      else "ok arm=valid-" ++ expected ++ " trivial"
  | _, _ => "bad-case valid-arity"

def answerRep (pre post : List String) : String :=
  match pre, post with
  | [raw, ops, self, before, msgs], [after] =>
    match (do
      let raw ← parseRaw raw; let ops ← listOf parseOp ops; let self ← self.toNat?
      let before ← nats before; let msgs ← listOf parseMsg msgs; let after ← nats after
      pure (raw, ops, self, before, msgs, after)) with
    | none => "bad-case rep-parse"
    | some (raw, ops, self, before, msgs, after) =>
      let i : RepInput := { ts := { mode := .crdt, srcs := raw, ops := ops }, self := self, before := before, msgs := msgs }
      let cfg := modelCfg raw
      let expected := modelRep i
      let untrusted := msgs.filter (fun m => !(accepts Gen.crdt cfg self (stateAfter Gen.crdt cfg ops) m))
      let arm := if untrusted.isEmpty then "all-trusted" else if untrusted.length == msgs.length then "all-untrusted" else "mixed"
      let failed := failedNames (repClauses i after)
      if !failed.isEmpty then "propfail " ++ ",".intercalate failed ++ " arm=" ++ arm
      else if !sameSet after expected then "diff arm=" ++ arm ++ " model=" ++ showNats expected
      else "ok arm=" ++ arm ++ (if untrusted.isEmpty then " trivial" else "")
  | _, _ => "bad-case rep-arity"

def showRaw (l : List (Option Nat)) : String :=
  if l.isEmpty then "-" else ",".intercalate (l.map (fun x => match x with | none => "*" | some n => toString n))

def answerCfg (pre post : List String) : String :=
  match pre, post with
  | [raw], [ta, peers, printed] =>
    match (do
      let raw ← parseRaw raw; let ta ← bool01 ta; let peers ← nats peers; let printed ← parseList printed
      pure (raw, ta, peers, printed)) with
    | none => "bad-case cfg-parse"
    | some (srcs, ta, peers, printed) =>
      let m := modelCfg srcs
      let arm := "cfg" ++ (if srcs.any (fun s => match s with | .env (some _) => true | _ => false) then "-env" else "")
        ++ (if starListed (effectiveList srcs) then "-star" else "-list")
      let failed := failedNames (cfgClauses srcs ta peers)
      if !failed.isEmpty then "propfail " ++ ",".intercalate failed ++ " arm=" ++ arm
      else if ta != m.trustAll || peers != m.listed || printed != toJSONTrust m then
        "diff arm=" ++ arm ++ " model=" ++ (if m.trustAll then "1 " else "0 ") ++ showNats m.listed ++ " " ++ showRaw (toJSONTrust m)
      else "ok arm=" ++ arm
  | _, _ => "bad-case cfg-arity"

def parseEntry (s : String) : Option (String × Int) :=
  match s.splitOn ":" with
  | [k, v] => v.toInt?.map (fun x => (k, x))
  | _ => none

def parsePSource (s : String) : Option PSource :=
  if s == "D" then some .default
  else if s == "F" then some .follower
  else if s.startsWith "L" then (listOf parseEntry (if s.length == 1 then "-" else (s.drop 1).toString)).map .load
  else if s.startsWith "E" then (listOf parseEntry (if s.length == 1 then "-" else (s.drop 1).toString)).map .env
  else if s.startsWith "H" then (listOf parseEntry (if s.length == 1 then "-" else (s.drop 1).toString)).map .helper
  else none

def parsePSrcs (s : String) : Option (List PSource) := if s == "-" then some [] else (s.splitOn "/").mapM parsePSource

def sameTable (a b : Policy) : Bool :=
  (a ++ b).all (fun e => lookup a e.1 == lookup b e.1)

def polArm (srcs : List PSource) : String :=
  (if srcs.any (fun s => match s with | .load (_ :: _) => true | _ => false) then "file-entries" else "plain")
  ++ (if srcs.any (fun s => match s with | .env (_ :: _) => true | _ => false) then "+env-entries" else "")
  ++ (if srcs.contains .follower then "+follower" else "")
  ++ (if srcs.any (fun s => match s with | .helper _ => true | _ => false) then "+helper" else "")
  ++ (if modelInstalled srcs then "" else "/nil")

/-- `pol <steps> => <nil | diff of Config.RPCPolicy against the shipped table> <Validate ok|err>` -/
def answerPol (pre post : List String) : String :=
  match pre, post with
  | [srcs], [diff, valid] =>
    match (do
      let srcs ← parsePSrcs srcs
      let diff ← if diff == "nil" then some none else (listOf parseOv diff).map some
      pure (srcs, diff)) with
    | none => "bad-case pol-parse"
    | some (srcs, diff) =>
      let table : Policy := match diff with | none => [] | some d => applyOverrides Gen.policy d
      let expected := modelPolicy srcs
      let expValid := if modelInstalled srcs && policyValid Gen.validatedMethods expected then "ok" else "err"
      let arm := "pol-" ++ polArm srcs
      let failed := failedNames (polClauses table)
      if !failed.isEmpty then "propfail " ++ ",".intercalate failed ++ " arm=" ++ arm
      else if (diff.isNone != !modelInstalled srcs) || !sameTable table expected then "diff arm=" ++ arm ++ " model=" ++
        (if modelInstalled srcs then "table-with-" ++ toString ((expected.filter (fun e => lookup Gen.policy e.1 != some e.2)).length) ++ "-changes" else "nil")
      else if valid != expValid then "diff arm=" ++ arm ++ " model=validate-" ++ expValid
      else "ok arm=" ++ arm
  | _, _ => "bad-case pol-arity"

/-- `polrpc <steps> <t|u> <Svc.Method> => <refused|passed> [detail]` -/
def answerPolRpc (pre post : List String) : String :=
  match pre, post with
  | [srcs, cls, ep], o :: _ =>
    match (do
      let srcs ← parsePSrcs srcs
      let t ← if cls == "t" then some true else if cls == "u" then some false else none
      let o ← if o == "refused" then some Obs.refused else if o == "passed" then some Obs.passed else none
      pure (srcs, t, o)) with
    | none => "bad-case polrpc-parse"
    | some (srcs, t, o) =>
      let i : PolRpcInput := { srcs := srcs, trusted := t, ep := ep }
      let arm := "polrpc-" ++ polArm srcs ++ (if t then "/trusted/" else "/untrusted/") ++
        (match Gen.closure.verdict (modelPolicy srcs) ep with | .deny => "closed" | .askTrust => "trusted" | .allow => "open")
      let failed := failedNames (polRpcClauses i o) ++ failedNames (polRpcCfgClauses i o)
      if !failed.isEmpty then "propfail " ++ ",".intercalate failed ++ " arm=" ++ arm
      else if o != modelPolObs i then "diff arm=" ++ arm ++ " model=" ++ showObs (modelPolObs i)
      else "ok arm=" ++ arm
  | _, _ => "bad-case polrpc-arity"


def showExposure : Exposure → String
  | .noListener => "none" | .ownHost => "own" | .clusterHost => "cluster" | .unknown => "unknown"

def showRHost : RHost → String
  | .none => "nil" | .cluster => "cluster" | .other => "other"

/-- `dmn <svc|follow> <raft|crdt> <addr 0|1> <auth 0|1> <listed 0|1> => <ctor> <host> <listener none|own|cluster> <noproto | http status>` -/
def answerDmn (pre post : List String) : String :=
  match pre, post with
  | [d, m, addr, auth, listed], [ctor, host, listener, status] =>
    match (do
      let dir ← if d == "svc" then some serviceDir else if d == "follow" then some followDir else none
      let m ← if m == "raft" then some Mode.raft else if m == "crdt" then some Mode.crdt else none
      let addr ← bool01 addr; let auth ← bool01 auth; let listed ← bool01 listed
      pure (dir, m, addr, auth, listed)) with
    | none => "bad-case dmn-parse"
    | some (dir, m, addr, auth, listed) =>
      let i : DmnInput := { dir := dir, mode := m, addr := addr, auth := auth, listed := listed }
      let served := match status.toNat? with | some c => 200 ≤ c && c < 300 | none => false
      let e := modelExposure i
      let site := restSiteFor Gen.daemonShape dir (modeKey m)
      let expSite := match site with
        | some s => s.ctor ++ " " ++ showRHost s.host
        | none => "? ?"
      let expStatus := if e == .clusterHost then (if auth then "401" else "2xx") else "noproto"
      let statusOk := if expStatus == "2xx" then served else status == expStatus
      let arm := "dmn-" ++ d ++ "-" ++ modeKey m ++ "-" ++ showExposure e ++ (if auth then "+auth" else "")
      let failed := failedNames (dmnClauses i served)
      if !failed.isEmpty then "propfail " ++ ",".intercalate failed ++ " arm=" ++ arm
      else if ctor ++ " " ++ host != expSite || listener != showExposure e || !statusOk then
        "diff arm=" ++ arm ++ " model=" ++ expSite ++ " " ++ showExposure e ++ " " ++ expStatus
      else "ok arm=" ++ arm ++ (if i.callerTrusted then " trivial" else "")
  | _, _ => "bad-case dmn-arity"

def parseCall (s : String) : Option (String × String) :=
  match s.splitOn "." with
  | [a, b] => some (a, b)
  | _ => none

/-- `hs <raft|crdt> <caller> => <component.method,… | ->`: what the components behind the real server recorded while an
    untrusted remote peer called Cluster.Version, Cluster.ID, Cluster.PeerAdd with decodable arguments -/
def answerHs (pre post : List String) : String :=
  match pre, post with
  | [_, _], [calls] =>
    match listOf parseCall calls with
    | none => "bad-case hs-parse"
    | some calls =>
      let expected := (Gen.openReach.map (·.calls)).flatten
      let failed := failedNames (hsClauses calls)
      if !failed.isEmpty then "propfail " ++ ",".intercalate failed ++ " arm=hs"
      else if !(calls.all expected.contains) then
        "diff arm=hs model=subset-of-" ++ ",".intercalate (expected.map (fun c => c.1 ++ "." ++ c.2))
      else "ok arm=hs" ++ (if calls.isEmpty then "-empty trivial" else "")
  | _, _ => "bad-case hs-arity"

/-- answer for one case line (tokens after the leading "C07") -/
def answer (ws : List String) : String :=
  match ws with
  | kind :: rest =>
    match splitArrow rest with
    | none => "bad-case no-arrow"
    | some (pre, post) =>
      if kind == "rpc" then answerRpc pre post
      else if kind == "trust" then answerTrust pre post
      else if kind == "valid" then answerValid pre post
      else if kind == "rep" then answerRep pre post
      else if kind == "cfg" then answerCfg pre post
      else if kind == "pol" then answerPol pre post
      else if kind == "polrpc" then answerPolRpc pre post
      else if kind == "dmn" then answerDmn pre post
      else if kind == "hs" then answerHs pre post
      else "bad-case unknown-kind"
  | [] => "bad-case empty"

end CV.C07
