import ClusterVerif.Model.C14Snaps
import ClusterVerif.Spec.C14Snaps
import Driver.Parse
import Driver.C14Damage
namespace CV.C14
open CV.Parse CV.C14.Snaps

/-! Snaps suite (harness/c14/snaps.go):

  C14 snaps <items> <op> => pre=<f> meta=<t.i|-> off=<f> nmeta=<t.i|-> cnt=<k> old0=<f> old0cnt=<k> err=<0|1>
-/

def fieldN (key : String) (ws : List String) : Option String :=
  (ws.find? (fun w => w.startsWith (key ++ "="))).map (fun w => (w.drop (key.length + 1)).toString)

def parseItemN (s : String) : Option Item :=
  if s == "t" then some .tmp else if s == "m" then some .badmeta else if s == "f" then some .file else
  match s.splitOn "." with
  | [a, b, c] => do pure (.snap ⟨← a.toNat?, ← b.toNat?, ← c.toNat?⟩)
  | _ => none

def parseReadN (s : String) : Option Read :=
  if s == "-" then some .absent else if s == "e" then some .nosnap else if s == "?" then some .broken
  else s.toNat?.map .pins

def showFolderN (f : Folder) : String :=
  match f with
  | none => "-"
  | some _ => match latest f with | none => "e" | some s => toString s.pin

def showMetaN (f : Folder) : String :=
  match latest f with | none => "-" | some s => toString s.term ++ "." ++ toString s.index

def dedupStrN : List String → List String
  | [] => []
  | x :: xs => x :: (dedupStrN xs).filter (· != x)

def failedNamesN (cs : List (String × Bool)) : String :=
  ",".intercalate (dedupStrN ((cs.filter (fun c => !c.2)).map (·.1)))

def answerSnaps (ws : List String) : String :=
  match answerDamage ws with
  | some r => r
  | none =>
  match splitArrow ws with
  | some ([itS, opS], post) =>
    let parsed := do
      let f : Folder ← (if itS == "none" then some none else if itS == "-" then some (some [])
                        else ((itS.splitOn ",").mapM parseItemN).map some)
      let op : SOp ← (if opS == "o" then some .read else if opS == "c" then some .clean
                      else if opS.startsWith "s" then (opS.drop 1).toNat?.map .save else none)
      let pre ← fieldN "pre" post
      let metaS ← fieldN "meta" post
      let off ← fieldN "off" post
      let nmeta ← fieldN "nmeta" post
      let cnt ← (← fieldN "cnt" post).toNat?
      let old0 ← fieldN "old0" post
      let old0cnt ← (← fieldN "old0cnt" post).toNat?
      let err ← fieldN "err" post
      pure (f, op, pre, metaS, off, nmeta, cnt, old0, old0cnt, err)
    match parsed with
    | none => "bad-case snaps-parse"
    | some (f, op, pre, metaS, off, nmeta, cnt, old0, old0cnt, err) =>
      let snaps := snapsOf (f.getD [])
      let junk := decide ((f.getD []).length > snaps.length)
      let arm := "snaps-" ++ (match op with | .read => "read" | .clean => "clean" | .save _ => "save") ++
        (match f with
         | none => "-nofolder"
         | some _ => if snaps.isEmpty then "-nosnap" else if snaps.length == 1 then "-one" else "-several") ++
        (if junk then "-leftovers" else "")
      match parseReadN pre, parseReadN off, parseReadN old0 with
      | some rp, some ro, some rb =>
        let obs : SObs := { pre := rp, off := ro, old0 := rb, old0cnt := old0cnt, failed := err != "0" }
        let cs := snapsClauses f.isNone (snaps.map (fun s => (s.term, s.index, s.pin))) op obs
        if !cs.all (·.2) then "propfail " ++ failedNamesN cs ++ " arm=" ++ arm else
        let after : Folder × Folder := match op with
          | .read => (f, none)
          | .clean => cleanup f
          | .save c => save f c
        let checks : List (String × Bool) :=
          [("pre", pre == showFolderN f), ("meta", metaS == showMetaN f),
           ("off", off == showFolderN after.1), ("nmeta", nmeta == showMetaN after.1), ("cnt", cnt == count after.1),
           ("old0", old0 == showFolderN after.2), ("old0cnt", old0cnt == count after.2), ("err", err == "0")]
        if !checks.all (·.2) then
          "diff " ++ failedNamesN checks ++ " arm=" ++ arm ++ " model=pre=" ++ showFolderN f ++ ",meta=" ++ showMetaN f ++
            ",off=" ++ showFolderN after.1 ++ ",nmeta=" ++ showMetaN after.1 ++ ",cnt=" ++ toString (count after.1) ++
            ",old0=" ++ showFolderN after.2 ++ ",old0cnt=" ++ toString (count after.2)
        else "ok arm=" ++ arm ++ (if op == .read && snaps.isEmpty then " trivial" else "")
      | _, _, _ => "bad-case snaps-read"
  | _ => "bad-case snaps-shape"

end CV.C14
