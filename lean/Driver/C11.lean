import ClusterVerif.Spec.C11
import ClusterVerif.Gen.C11
import Driver.PinParse
/-! Driver for C11 case lines (core only). -/
namespace CV.C11
open CV CV.Parse CV.PinParse

/-- value of the `key=value` token -/
def field (ws : List String) (k : String) : Option String :=
  (ws.find? (fun w => w.startsWith (k ++ "="))).map (fun w => (w.drop (k.length + 1)).toString)

def tokText (t : String) : String :=
  if t == "e" then "" else if t == "dot" then "." else if t == "dotdot" then ".." else t

def parseSeg (s : String) : Option Seg :=
  match s.splitOn ":" with
  | [] => none
  | t :: attrs =>
    let c := (attrs.find? (·.startsWith "c")).bind (fun a => (a.drop 1).toNat?)
    let p := (attrs.find? (·.startsWith "p")).bind (fun a => (a.drop 1).toNat?)
    some { txt := tokText t, cid := c, pid := p }

def parseSegs (s : String) : Option (List Seg) :=
  if s == "-" then some [] else (s.splitOn ",").mapM parseSeg

/-- the server configuration of a case line: `sv=<tracing><http log file><tls>`; only cfg.Tracing changes the chain -/
def listenerOf (ws : List String) : Listener :=
  match field ws "sv" with
  | some sv => if sv.length == 4 && (sv.drop 3) != "0" then .libp2p else .http
  | none => .http

/-- a fourth digit of `sv` names the listener the request was sent to (1, 2: the libp2p-tunnelled one); the chain is the
    one `listenerChain` reads off the regenerated serve sites (`[]` = nothing modelled, every case differs) -/
def chainOf (ws : List String) : List Layer :=
  let tr := match field ws "sv" with
    | some sv => sv.startsWith "1"
    | none => false
  (listenerChain Gen.runStarts Gen.serveSites Gen.serverLiterals Gen.routerValues Gen.serverWrites
    (Gen.chain tr) (listenerOf ws)).getD []

/-- configured pairs: `-` or `user:pass,user:pass` -/
def parseCreds (s : String) : Option (List (String × String)) :=
  if s == "-" then some []
  else (s.splitOn ",").mapM (fun x => match x.splitOn ":" with
    | [a, b] => some (tokText a, tokText b)
    | _ => none)

/-- the Authorization header: `n` none, `m<k>` malformed, `b.<user>.<pass>` Basic, `l.<user>.<pass>` Basic with the
    scheme in lower case -/
def parseHeader (s : String) : Option AuthHeader :=
  if s == "n" then some .none
  else if s.startsWith "m" then some .malformed
  else match s.splitOn "." with
    | [k, u, p] => if k == "b" || k == "l" then some (.basic (tokText u) (tokText p)) else none
    | _ => none

/-- credential situation of a case line: (configured?, class by the statement's notion of valid credentials —
    for the Spec —, class by the extracted logic of basicAuthHandler — for the model) -/
def parseCredSit (ws : List String) (hkey : String) : Option (Bool × Auth × Auth) := do
  let creds ← parseCreds (← field ws "cr")
  let hd ← parseHeader (← field ws hkey)
  pure (!creds.isEmpty, specAuthClass creds hd, authClass Gen.authLogic creds hd)

def boolKeys : List String :=
  ["local", "recursive", "hidden", "wrap-with-directory", "shard", "progress", "raw-leaves", "stream-channels", "nocopy"]

def parsePeerEntry (s : String) : Option (Option Nat) :=
  match s.toNat? with
  | some n => some (some n)
  | none => some none

def parseVal (k v : String) : Option Val :=
  if k == "name" || k == "shard-size" || k == "expire-in" || k == "pin-update" then v.toNat?.map .nat
  else if k == "mode" then (parseMode v).map .mode
  else if k == "replication-min" || k == "replication-max" || k == "replication" || k == "cid-version" then v.toInt?.map .int
  else if k == "user-allocations" then ((v.splitOn ",").mapM parsePeerEntry).map .peers
  else if k == "expire-at" then (parseExpiry v).map .exp
  else if k == "origins" then (nats v).map .nats
  else if boolKeys.contains k then (if v == "true" then some (.bool true) else if v == "false" then some (.bool false) else none)
  else some (.str v)

def parseQParam (s : String) : Option (String × QV) :=
  match s.splitOn ":" with
  | [k, c] =>
    if c == "e" then some (k, .empty)
    else if c == "g" then some (k, .garbled)
    else if c.startsWith "i" then some (k, .invalid)
    else if c.startsWith "v." then (parseVal k (c.drop 2).toString).map (fun v => (k, .valid v))
    else none
  | _ => none

def parseQuery (s : String) : Option (List (String × QV)) :=
  if s == "-" then some [] else (s.splitOn ";").mapM parseQParam

def parseBody (s : String) : Option Body :=
  if s == "-" then some .none
  else if s.startsWith "pj." then (parseSeg (s.drop 3).toString).map .peerJson
  else some .bad

def parseRpc (s : String) : Option RpcMode :=
  if s == "ok" then some .ok else if s == "err" then some .err else if s == "nf" then some .notFound else none

def parseReq (ws : List String) : Option Req := do
  let (cfgd, sa, _) ← parseCredSit ws "au"
  pure { creds := cfgd, auth := sa, pf := (← field ws "pf") == "1",
         method := ← field ws "m", segs := ← parseSegs (← field ws "p"), slash := (← field ws "sl") == "1",
         query := ← parseQuery (← field ws "q"), md := ← listOf parseKV (← field ws "md"),
         body := ← parseBody (← field ws "b"), rpc := ← parseRpc (← field ws "rpc") }

def pathText (s : String) : String := "/".intercalate ((s.splitOn "/").map tokText)

def parseOp (s : String) : Option Op :=
  match s.splitOn "@" with
  | [n, "u"] => some ⟨n, .unit⟩
  | [n, "c", x] => x.toNat?.map (fun c => ⟨n, .cid c⟩)
  | [n, "p", x] => x.toNat?.map (fun p => ⟨n, .pid p⟩)
  | [n, "pin", t, sm] => do pure ⟨n, .pin (canonPin (← parsePin t)) (← parseMode sm)⟩
  | [n, "path", p, o] => do pure ⟨n, .path (pathText p) (canonOpts (← parseOpts o))⟩
  | [n, "s", x] => some ⟨n, .str (tokText x)⟩
  | [n, "n", x] => some ⟨n, .num x⟩
  | [n, "blk", _] => some ⟨n, .blk⟩
  | _ => none

def parseOps (s : String) : Option (List Op) :=
  if s == "-" then some [] else (s.splitOn "|").mapM parseOp

def parseBodyShape (s : String) : Option BodyShape :=
  if s.startsWith "d" then (s.drop 1).toNat?.map .docs
  else if s.startsWith "j" then (s.drop 1).toNat?.map .junk
  else none

def parseResp (ws : List String) : Option Resp := do
  pure { status := ← (← field ws "st").toNat?, body := ← parseBodyShape (← field ws "body"), ops := ← parseOps (← field ws "ops") }

def canonArg : Arg → Arg
  | .pin p sm => .pin (canonPin p) sm
  | .path p o => .path p (canonOpts o)
  | a => a
def canonResp (o : Resp) : Resp := { o with ops := o.ops.map (fun op => { op with arg := canonArg op.arg }) }

def showBody : BodyShape → String
  | .docs n => "d" ++ toString n
  | .junk n => "j" ++ toString n

def showResp (o : Resp) : String :=
  "st=" ++ toString o.status ++ ",body=" ++ showBody o.body ++ ",ops=" ++ ",".intercalate (o.ops.map (·.name))

/-- which arm of the model the request reached -/
def arm (r : Req) : String :=
  if !authorized r then "unauthorized"
  else if preflight r then "preflight"
  else if unclean r then "unclean-redirect"
  else match route Gen.routes r with
    | .found rt => if r.slash then "slash-redirect" else rt.name
    | .methodNotAllowed => "method-not-allowed"
    | .notFound => "not-found"

/-- why the pin options are malformed, field by field -/
def optReasons (r : Req) : List String :=
  let q := r.query
  (if hasGarbled q then ["escape"] else []) ++
  (if (S.mode q).isNone then ["mode"] else []) ++
  (if (S.factors q).isNone then ["factors"] else []) ++
  (if (natParam (getq q "shard-size") 0).isNone then ["shard-size"] else []) ++
  (if (S.ualloc q).isNone then ["user-allocations"] else []) ++
  (if (S.expiry q).isNone then ["expiry"] else []) ++
  (if (optCidParam (getq q "pin-update")).isNone then ["pin-update"] else []) ++
  (if (natsParam (getq q "origins")).isNone then ["origins"] else [])

/-- the reasons the request is malformed for the route the router picked -/
def whyMalformed (r : Req) : String :=
  match route Gen.routes r with
  | .found rt =>
    let part :=
      if rt.handler == "pinPathHandler" || rt.handler == "unpinPathHandler" then
        (if (pathOf rt.pat r.segs).isNone then ["path"] else [])
      else if rt.handler == "peerRemoveHandler" then
        (if ((varSeg "peer" rt.pat r.segs).bind (·.pid)).isNone then ["peer"] else [])
      else if rt.handler == "peerAddHandler" then ["body"]
      else (if ((varSeg "hash" rt.pat r.segs).bind (·.cid)).isNone then ["cid"] else [])
    "+".intercalate (part ++ optReasons r)
  | _ => "no-route"

/-- a pin operation that differs from the wanted one only in the mode it has once stored -/
def modeNotEffective (r : Req) (o : Resp) : Bool :=
  match route Gen.routes r, o.ops with
  | .found rt, [⟨n, .pin p sm⟩] =>
    (match (varSeg "hash" rt.pat r.segs).bind (·.cid), carried r.query r.md with
     | some c, some w =>
       rt.handler == "pinHandler" && n == "Cluster.Pin" && sm != w.mode &&
       (Want.ok ⟨["Cluster.Pin"], .pin c w⟩ ⟨n, .pin p w.mode⟩)
     | _, _ => false)
  | _, _ => false

def answerReq (pre post : List String) : String :=
  match parseReq pre, parseResp post with
  | some r, some o =>
    -- the model runs with the header classified by the extracted logic of basicAuthHandler
    let ma := match parseCredSit pre "au" with | some (_, _, x) => x | none => r.auth
    let m := handle (chainOf pre) Gen.routes { r with auth := ma }
    let a := arm r ++ "-" ++ toString m.status ++ (if listenerOf pre == .libp2p then "-p2p" else "")
    let failed := (clauses r o).filter (fun c => !c.2)
    if !failed.isEmpty then
      let names := failed.map (·.1)
      "propfail " ++ ",".intercalate names ++ " arm=" ++ a ++
        (if names.contains "fail_closed" then " why=" ++ whyMalformed r else "") ++
        (if names.contains "faithful" && modeNotEffective r o then " why=mode-not-effective" else "")
    else if canonResp o != canonResp m then "diff arm=" ++ a ++ " model=" ++ showResp m
    else "ok arm=" ++ a
  | none, _ => "bad-case request"
  | _, none => "bad-case response"

/-! ### client lines -/

def parsePathSegs (s : String) : Option (List Seg) := (s.splitOn "/").mapM parseSeg

def parseCall (ws : List String) : Option Call := do
  let name ← field ws "call"
  let a ← field ws "a"
  let o ← field ws "o"
  let l := (← field ws "l") == "1"
  let f ← field ws "f"
  if name == "ID" then pure .id
  else if name == "Version" then pure .version
  else if name == "Peers" then pure .peers
  else if name == "Alerts" then pure .alerts
  else if name == "Graph" then pure .graph
  else if name == "MetricNames" then pure .metricNames
  else if name == "PeerAdd" then pure (.peerAdd (← parseSeg a))
  else if name == "PeerRm" then pure (.peerRm (← parseSeg a))
  else if name == "Pin" then pure (.pin (← parseSeg a) (← parseOpts o))
  else if name == "Unpin" then pure (.unpin (← parseSeg a))
  else if name == "Allocation" then pure (.allocation (← parseSeg a))
  else if name == "PinPath" then pure (.pinPath (← parsePathSegs a) (← parseOpts o))
  else if name == "UnpinPath" then pure (.unpinPath (← parsePathSegs a))
  else if name == "Allocations" then pure (.allocations (← f.toNat?))
  else if name == "Status" then pure (.status (← parseSeg a) l)
  else if name == "Recover" then pure (.recover (← parseSeg a) l)
  else if name == "StatusAll" then pure (.statusAll (← f.toNat?) l)
  else if name == "RecoverAll" then pure (.recoverAll l)
  else if name == "RepoGC" then pure (.repoGC l)
  else if name == "Metrics" then pure (.metrics (← parseSeg a))
  else none

def parseRet (s : String) : Option Ret :=
  if s == "same" then some .same else if s == "differ" then some .differ else if s == "cerr" then some .clientErr
  else if s.startsWith "err" then (s.drop 3).toNat?.map .err else none

def showRet : Ret → String
  | .same => "same" | .differ => "differ" | .clientErr => "cerr" | .err k => "err" ++ toString k

def canonOps (l : List Op) : List Op := l.map (fun op => { op with arg := canonArg op.arg })

/-- a client pin whose only defect is the mode lost on the CID route (K07 seen through the client) -/
def cliModeNotEffective (c : Call) (ops : List Op) : Bool :=
  match c, ops with
  | .pin s o, [⟨n, .pin p sm⟩] =>
    (match s.cid with
     | some cc => n == "Cluster.Pin" && sm != o.mode && Want.ok ⟨["Cluster.Pin"], .pin cc (normOpts o)⟩ ⟨n, .pin p o.mode⟩
     | none => false)
  | _, _ => false

/-- StatusAll whose only defect is the filter arriving widened to the error / queued families (K23) -/
def cliFilterWidened (c : Call) (ops : List Op) : Bool :=
  match c, ops with
  | .statusAll m l, [⟨n, .num s⟩] =>
    n == pick l "Cluster.StatusAll" "Cluster.StatusAllLocal" && s == toString (widen m) && widen m != m
  | _, _ => false

def answerCli (pre post : List String) : String :=
  match (do
      let (cfgd, sa, ma) ← parseCredSit pre "cc"
      let cfg : CliCfg := { creds := cfgd, auth := sa, rpc := ← parseRpc (← field pre "rpc") }
      let cfgM : CliCfg := { cfg with auth := ma }
      let c ← parseCall pre
      let ops ← parseOps (← field post "ops")
      let ret ← parseRet (← field post "ret")
      pure (cfg, cfgM, c, ops, ret) : Option (CliCfg × CliCfg × Call × List Op × Ret)) with
  | none => "bad-case client-line"
  | some (cfg, cfgM, c, ops, ret) =>
    let m := clientCall (chainOf pre) Gen.routes cfgM c
    let a := "cli-" ++ (field pre "call").getD "?" ++ "-" ++ showRet m.2
    let failed := (cliClauses cfg c ops ret).filter (fun x => !x.2)
    if !failed.isEmpty then
      let names := failed.map (·.1)
      "propfail " ++ ",".intercalate names ++ " arm=" ++ a ++
        (if names.contains "client_arrives" && cliModeNotEffective c ops then " why=mode-not-effective" else "") ++
        (if names.contains "client_arrives" && cliFilterWidened c ops then " why=filter-widened" else "") ++
        (if names.contains "client_noncanonical_refused" && !ops.isEmpty then " why=dotdot-escape" else "") ++
        (if names.contains "client_returns" && answerHasOrigins c && ret == .err 200 then " why=answer-has-origins" else "")
    else if canonOps ops != canonOps m.1 || ret != m.2 then
      "diff arm=" ++ a ++ " model=" ++ ",".intercalate (m.1.map (·.name)) ++ "/" ++ showRet m.2
    else "ok arm=" ++ a

/-! ### add lines -/

def parseMp (s : String) : Option Multipart :=
  if s == "ok" then some .ok else if s == "none" then some .none else if s == "junk" then some .junk else none

def parseAddReq (ws : List String) : Option AddReq := do
  let (cfgd, sa, _) ← parseCredSit ws "au"
  pure { creds := cfgd, auth := sa, mp := ← parseMp (← field ws "mp"),
         query := ← parseQuery (← field ws "q"), md := ← listOf parseKV (← field ws "md"), rpc := ← parseRpc (← field ws "rpc") }

def parseRoot (s : String) : Option (Option RootDesc × String) :=
  if s == "-" then some (none, "-")
  else match s.splitOn "." with
    | [v, c, h, lf] => v.toNat?.map (fun n => (some ⟨n, c, h⟩, lf))
    | _ => none

def parseAddOp (s : String) : Option Op :=
  match s.splitOn "@" with
  | [n, "opts", o] => (parseOpts o).map (fun x => ⟨n, .path "" (canonOpts x)⟩)
  | _ => parseOp s

def parseBits (s : String) : Option (List Bool) :=
  s.toList.mapM (fun c => if c == '1' then some true else if c == '0' then some false else none)

def unWord (s : String) : String := if s == "_" then "" else s

/-- `ap=<layout>/<chunker>/<hash>/<format>/<loc recursive hidden wrap shard progress rawLeaves stream nocopy as 0|1>/<cid-version>`, `-` = refused -/
def parseSeen (s : String) : Option (Option AddSeen) :=
  if s == "-" then some none
  else match s.splitOn "/" with
    | [la, ch, ha, fo, bits, v] =>
      (match parseBits bits, v.toInt? with
       | some [lo, re, hi, wr, sh, pr, ra, st, nc], some cv =>
         some (some { layout := unWord la, chunker := unWord ch, hash := unWord ha, format := unWord fo, loc := lo, recursive := re,
                      hidden := hi, wrap := wr, shard := sh, progress := pr, cidv := cv, rawLeaves := ra, stream := st, nocopy := nc })
       | _, _ => none)
    | _ => none

def showSeen : Option AddSeen → String
  | none => "-"
  | some s =>
    let w (x : String) := if x == "" then "_" else x
    let b (x : Bool) := if x then "1" else "0"
    w s.layout ++ "/" ++ w s.chunker ++ "/" ++ w s.hash ++ "/" ++ w s.format ++ "/" ++
      b s.loc ++ b s.recursive ++ b s.hidden ++ b s.wrap ++ b s.shard ++ b s.progress ++ b s.rawLeaves ++ b s.stream ++ b s.nocopy ++
      "/" ++ toString s.cidv

def parseAddResp (ws : List String) : Option AddResp := do
  let opsTok ← field ws "ops"
  let ops ← if opsTok == "-" then some [] else (opsTok.splitOn "|").mapM parseAddOp
  let (root, lf) ← parseRoot (← field ws "root")
  pure { status := ← (← field ws "st").toNat?, body := ← parseBodyShape (← field ws "body"), trailer := (← field ws "tr") == "1",
         root := root, ops := ops, leaf := lf }

/-- a streamed body is one document per added node and progress note: how many is the adder's business
    (C13); "JSON documents and nothing else" is compared, and the root CID by version, codec and hash function -/
def normAddBody (r : AddReq) (o : AddResp) : AddResp :=
  match o.body with
  | .docs _ => if addStreams r && o.status == 200 then { o with body := .docs 0 } else o
  | _ => o

def canonAddResp (o : AddResp) : AddResp := { o with ops := canonOps o.ops }

/-- why the strict reading calls the add request malformed -/
def addWhy (r : AddReq) : String :=
  "+".intercalate (
    (if r.mp == .none then ["no-body"] else if r.mp == .junk then ["body-junk"] else []) ++
    (if bodyMismatch r.query then ["body-mismatch"] else []) ++
    (if versionContradiction r.query then ["v0-other-hash"] else []) ++
    optReasons { creds := r.creds, auth := r.auth, pf := false, method := "POST", segs := [], slash := false,
                 query := r.query, md := r.md, body := .none, rpc := r.rpc } ++
    (if (lateWord (getq r.query "chunker") "").isNone then ["chunker"] else []) ++
    (if (lateWord (getq r.query "hash") "").isNone then ["hash"] else []) ++
    (if addBoolKeys.all (fun k => (boolParam (getq r.query k) false).isSome) then [] else ["bool"]) ++
    (if (wordParam (getq r.query "layout")).isSome then [] else ["layout"]) ++
    (if (wordParam (getq r.query "format")).isSome then [] else ["format"]) ++
    (if (intParam (getq r.query "cid-version") 0).isSome then [] else ["cid-version"]))

def answerAdd (pre post : List String) : String :=
  match parseAddReq pre, parseAddResp post with
  | some r, some o =>
    let ma := match parseCredSit pre "au" with | some (_, _, x) => x | none => r.auth
    let m := addHandle0 { r with auth := ma }
    let a := "Add-" ++ toString m.status ++ (if m.trailer then "-trailer" else "")
    let failed := (addClauses r o).filter (fun c => !c.2)
    if !failed.isEmpty then
      let names := failed.map (·.1)
      "propfail " ++ ",".intercalate names ++ " arm=" ++ a ++
        (if names.contains "fail_closed" then " why=" ++ addWhy r else "") ++
        (if names.contains "answered" then " why=no-response" else "") ++
        (if names.contains "options_exact" then " why=leaf-form-not-as-asked" else "")
    else if canonAddResp (normAddBody r o) != canonAddResp (normAddBody r m) then
      "diff arm=" ++ a ++ " model=st=" ++ toString m.status ++ ",body=" ++ showBody m.body ++ ",ops=" ++
        ",".intercalate (m.ops.map (·.name)) ++ ",root=" ++ (match m.root with | some x => toString x.version ++ "." ++ x.codec ++ "." ++ x.hash | none => "-") ++ "." ++ m.leaf
    else "ok arm=" ++ a
  | none, _ => "bad-case add-request"
  | _, none => "bad-case add-response"

/-- `addp` lines: the real `AddParamsFromQuery` on the query alone -/
def answerAddp (pre post : List String) : String :=
  match (do
      let q ← parseQuery (← field pre "q")
      let md ← listOf parseKV (← field pre "md")
      let seen ← parseSeen (← field post "ap")
      pure (q, md, seen) : Option (List (String × QV) × List (Nat × Nat) × Option AddSeen)) with
  | none => "bad-case addp-line"
  | some (q, md, seen) =>
    let m := seenOf q md
    let a := "Addp-" ++ (match m with
      | none => "refused"
      | some s => "v" ++ toString s.cidv ++ (if otherHash q && getq q "cid-version" == .empty then "up" else "") ++
                  (if s.rawLeaves then "-raw" else "-pb") ++ (if getq q "raw-leaves" == .empty then "" else "x"))
    let failed := (parseClauses q md seen).filter (fun c => !c.2)
    if !failed.isEmpty then
      "propfail " ++ ",".intercalate (failed.map (·.1)) ++ " arm=" ++ a ++ " model=" ++ showSeen m
    else if seen != m then "diff arm=" ++ a ++ " model=" ++ showSeen m
    else "ok arm=" ++ a

def answer (ws : List String) : String :=
  match splitArrow ws with
  | some ("add" :: pre, post) => answerAdd pre post
  | some ("addp" :: pre, post) => answerAddp pre post
  | some ("req" :: pre, post) => answerReq pre post
  | some ("cli" :: pre, post) => answerCli pre post
  | some (k :: _, _) => "bad-case unknown-kind " ++ k
  | _ => "bad-case no-arrow"

end CV.C11
