import ClusterVerif.Spec.C13
import Driver.Parse
import Driver.PinParse
import Driver.C13Import
import ClusterVerif.Model.C13Flow
import ClusterVerif.Gen.C13Par
/-! C13 driver: parses one case line, runs the bookkeeping model on the observed block stream,
    evaluates the Spec clauses on what the implementation showed. Core Lean only. -/
namespace CV.C13
open CV CV.Parse CV.PinParse

def kvOf (ws : List String) : List (String × String) :=
  ws.filterMap (fun w => match w.splitOn "=" with
    | k :: rest@(_ :: _) => some (k, "=".intercalate rest)
    | _ => none)

def getKV (kv : List (String × String)) (k : String) : Option String := (kv.find? (·.1 == k)).map (·.2)

def parseAllocs (s : String) : Option (List (List Nat)) :=
  if s == "-" then some [] else (s.splitOn ";").mapM nats

def parseOutKind (s : String) : Option PutOut :=
  if s == "o" then some .ok else if s == "i" then some .ipfs else if s == "r" then some .rpc else none

def parseFault (s : String) : Option Fault :=
  match s.splitOn ":" with
  | [p, f, n, k] => do pure ⟨← p.toNat?, ← f.toNat?, ← n.toNat?, ← parseOutKind k⟩
  | _ => none

def parseFaults (s : String) : Option (List Fault) :=
  if s == "-" then some [] else (s.splitOn ";").mapM parseFault

def parseCfg (kv : List (String × String)) : Option Cfg := do
  let mode ← getKV kv "mode"
  let shard ← if mode == "shard" then some true else if mode == "single" then some false else none
  pure { shard := shard, «local» := ← bool01 (← getKV kv "local"), opts := ← parseOpts (← getKV kv "opts"),
         allocs := ← parseAllocs (← getKV kv "allocs"), afail := ← nats (← getKV kv "afail"),
         pfail := ← nats (← getKV kv "pfail"), faults := ← parseFaults (← getKV kv "faults") }

def parseBlk (s : String) : Option Blk :=
  match s.splitOn ":" with
  | [a, b] => do pure ⟨← a.toNat?, ← b.toNat?⟩
  | _ => none

def parseAttempt (s : String) : Option Attempt := do
  let k ← parseOutKind (s.takeEnd 1).toString
  let p ← (s.dropEnd 1).toString.toNat?
  pure ⟨p, k⟩

def parseEv (s : String) : Option Ev :=
  if s == "a+" then some (.alloc true)
  else if s == "a-" then some (.alloc false)
  else if s.startsWith "b" then
    match (s.drop 1).toString.splitOn ":" with
    | [id, atts] => do pure (.put (← id.toNat?) (← listOf parseAttempt atts))
    | _ => none
  else if s.startsWith "p" then do
    let body := (s.drop 1).toString
    let okc := (body.takeEnd 1).toString
    let ok ← if okc == "+" then some true else if okc == "-" then some false else none
    pure (.pin (← parsePin (body.dropEnd 1).toString) ok)
  else none

def parseLog (s : String) : Option (List Ev) :=
  if s == "-" then some [] else (s.splitOn ";").mapM parseEv

def parseNode (s : String) : Option Node :=
  match s.splitOn ":" with
  | [id, l] => do pure ⟨← id.toNat?, ← nats l⟩
  | _ => none

def parseNodes (s : String) : Option (List Node) :=
  if s == "-" then some [] else (s.splitOn ";").mapM parseNode

/-- `1`/`0`, and `na` (not applicable: counts as no objection) -/
def tri (s : String) : Option Bool :=
  if s == "1" || s == "na" then some true else if s == "0" then some false else none

def parseObs (kv : List (String × String)) : Option Obs := do
  let res ← getKV kv "res"
  let (st, root) ← if res == "err" then some (Status.fail, 0) else if res == "panic" then some (Status.panic, 0)
    else match res.splitOn ":" with
      | ["ok", r] => r.toNat?.map (fun n => (Status.ok, n))
      | _ => none
  let fin ← parseOptNat (← getKV kv "fin")
  pure { status := st, root := root, stream := ← listOf parseBlk (← getKV kv "stream"), failed := ← nats (← getKV kv "failed"),
         fin := fin, log := ← parseLog (← getKV kv "log"), nodes := ← parseNodes (← getKV kv "nodes"),
         closure := ← tri (← getKV kv "cl"), readback := ← tri (← getKV kv "rb"), rootPlain := ← tri (← getKV kv "rp"),
         rootImporter := ← tri (← getKV kv "ri"), refErr := ← bool01 (← getKV kv "referr"), routeEq := ← tri (← getKV kv "req") }

def canonEv : Ev → Ev
  | .put b a => .put b (sortAtts a)
  | .pin p ok => .pin (canonPin p) ok
  | e => e

def showStatus : Status → String
  | .ok => "ok" | .fail => "err" | .panic => "panic"

/-- first point where the implementation's log leaves the model's -/
def firstDiff (a b : List Ev) (i : Nat := 0) : String :=
  match a, b with
  | [], [] => "none"
  | x :: xs, y :: ys => if x == y then firstDiff xs ys (i + 1) else s!"log[{i}]"
  | _, _ => s!"log-length@{i}"

structure Verdict where
  agree : Bool
  why : String

def compare (c : Cfg) (o : Obs) (m : Out) : Verdict :=
  let ml := m.log.map canonEv
  let ol := o.log.map canonEv
  let lastFailed := o.failed.getLast? == some (o.stream.length - 1) && !o.stream.isEmpty
  if ml != ol then ⟨false, firstDiff ml ol⟩
  else if m.nodes != o.nodes then ⟨false, "nodes"⟩
  else if m.failed != o.failed then ⟨false, s!"failed-adds={m.failed}"⟩
  else if m.finalized != o.fin.isSome then ⟨false, s!"finalize={m.finalized}"⟩
  else if m.status == .panic && !(o.status == .panic && lastFailed) then ⟨false, "status=panic"⟩
  else if m.status != .panic && m.status != o.status && !(o.status == .panic && o.refErr && !m.finalized) then
    ⟨false, "status=" ++ showStatus m.status⟩
  else if o.status == .ok && o.root != m.root then ⟨false, s!"root={m.root}"⟩
  else if m.status == .fail && !m.finalized && !lastFailed && !o.refErr then ⟨false, "importer-error-unexpected"⟩
  else if !o.routeEq then ⟨false, "route-behaves-differently"⟩
  else
    let mv := (m.view o.stream o.closure o.readback o.rootPlain o.rootImporter)
    let ov := o.view c.shard
    if { mv with pinsOk := mv.pinsOk.map canonPin, shards := mv.shards.map (fun (s : ShardV) => { s with pin := canonPin s.pin }) } !=
       { ov with pinsOk := ov.pinsOk.map canonPin, shards := ov.shards.map (fun (s : ShardV) => { s with pin := canonPin s.pin }) }
    then ⟨false, "view"⟩ else ⟨true, ""⟩

def arm (c : Cfg) (o : Obs) (m : Out) : String :=
  let mode := if c.shard then "shard" else if c.local then "local" else "single"
  let faulty := o.log.any (fun e => match e with
    | .alloc false => true
    | .pin _ false => true
    | .put _ a => a.any (fun x => x.out != .ok)
    | _ => false)
  let detail := match m.status with
    | .ok => (if c.shard then s!"-shards{min m.shards.length 3}" ++ (if m.shards.any (fun s => s.nnodes > 1) then "-indirect" else "") else "")
              ++ (if faulty then "-tolerated-fault" else "")
    | .panic => ""
    | .fail => if m.finalized then "-in-finalize" else if m.failed.isEmpty then "-importer" else "-in-add"
  mode ++ "-" ++ showStatus m.status ++ detail ++ (if m.finalized && !m.failed.isEmpty then "-after-dropped-error" else "")

/-- the content part of a case line (import parameters, tree, stream, structure dump) -/
def contentCase (pre post : List (String × String)) (o : Obs) : Option Imp.ContentCase := do
  let dag ← getKV post "dag"
  let files ← getKV post "files"
  let chunker ← getKV pre "chunker"
  let tree ← getKV pre "tree"
  let fmt ← getKV pre "fmt"
  pure { params := { trickle := (← getKV pre "layout") == "trickle", raw := ← bool01 (← getKV pre "raw"),
                     wrap := ← bool01 (← getKV pre "wrap"), hidden := ← bool01 (← getKV pre "hidden") },
         sizeChunk := (match Par.parseChunker Gen.defaultChunk Gen.chunkSizeLimit (if chunker == "def" then "" else chunker) with
                       | .size n => some n
                       | _ => none),
         car := fmt == "car", tree := tree,
         streamIds := o.stream.map (·.id), dag := dag, files := files }

/-- `FromFiles` (Model/C13Flow.lean) never reaches an `Add` of the DAG service nor `Finalize` for this format / wrap,
    whatever the entries do: unknown format, wrapped CAR upload -/
def frontRefuses (fmt : String) (wrap : Bool) : Bool :=
  let f := if fmt == "car" then Flow.Format.car else if fmt == "bad" then Flow.Format.bad else Flow.Format.unixfs
  (Flow.fromFiles ⟨f, wrap, false, [some 1], some 1, none, false⟩).finalize.isNone

/-- the request's import parameters as `newIpfsAdder` sees them (`def` = the empty string) -/
def reqOf (pre : List (String × String)) : Option Par.Req := do
  let undef := fun (s : String) => if s == "def" then "" else s
  pure { layout := undef (← getKV pre "layout"), chunker := undef (← getKV pre "chunker"), rawLeaves := ← bool01 (← getKV pre "raw"),
         noCopy := false, progress := false, cidVersion := Int.ofNat (← (← getKV pre "cidv").toNat?), hashFun := ← getKV pre "hash" }

/-- the parameter plumbing read from the source (Gen/C13Par.lean), interpreted on this case's request, against what the
    property needs (`Par.expected`): `some why` = the request is not passed on as it is / a refused request went on -/
def paramsDiff (pre : List (String × String)) (o : Obs) : Option String :=
  let fmt := (getKV pre "fmt").getD ""
  if fmt != "unixfs" && fmt != "def" then none else
  match reqOf pre with
  | none => some "unparsable-request"
  | some r =>
    let want := Par.expected Gen.hashNames r
    if Par.settingsOf Gen.hashNames Gen.newIpfsAdder r != want then some "request-not-passed-on"
    else match Par.plumb Gen.hashNames Gen.linksPerBlock Gen.newIpfsAdder Gen.ipfsAdd r with
      | none => some "unrecognised-plumbing"
      | some none => if o.fin.isSome || !o.stream.isEmpty || o.status == .ok then some "refused-request-went-on" else none
      | some (some imp) =>
        if imp.rawLeaves != r.rawLeaves || imp.trickle != (r.layout == "trickle") || imp.chunker != r.chunker
           || imp.maxlinks != ({} : Imp.Params).width then some "importer-not-as-requested" else none

/-- injected front-end fault (`inj=`): kind and number -/
def injOf (pre : List (String × String)) : Option (String × Nat) :=
  match getKV pre "inj" with
  | none => none
  | some s => if s == "-" then none else ((s.drop 2).toString.toNat?).map (fun n => ((s.take 2).toString, n))

/-- what `Flow.fromFiles` says about an injected case: `true` = `Finalize` must not be reached.
    `ce k` (context cancelled when the k-th top-level entry is asked for, not wrapped): `loop_cancel_no_finalize` for `k < nent`;
    `tr` (multipart body cut short, and mime/multipart alone reports it as broken, `broken=1`): a failing entry or
    `loop_itErr_no_finalize`. A body cut inside a part's header block reads as a clean end of parts (`broken=0`). -/
def injMustAbort (pre post : List (String × String)) : Bool :=
  match injOf pre with
  | some ("ce", k) =>
    let nent := ((getKV post "nent").bind String.toNat?).getD 0
    let wrap := (getKV pre "wrap").getD "0" == "1"
    !wrap && (Flow.fromFiles ⟨.unixfs, false, false, List.replicate nent (some 1), some 1, some k, false⟩).finalize.isNone
  | some ("tr", _) =>
    (getKV post "broken").getD "0" == "1" && (Flow.fromFiles ⟨.unixfs, false, false, [some 1], some 1, none, true⟩).finalize.isNone
  | _ => false

def answer (ws : List String) : String :=
  match splitArrow ws with
  | none => "bad-case no-arrow"
  | some (pre, post) =>
    match parseCfg (kvOf pre), parseObs (kvOf post) with
    | none, _ => "bad-case input"
    | _, none => "bad-case output"
    | some c, some o =>
      if !wf c o.stream then "bad-case not-wf" else
      if (getKV (kvOf post) "twin").isSome then
        -- the same add through Cluster.AddFile / the HTTP handler: held to the Spec only (its block order is not recorded)
        let failed := (clauses c (o.view c.shard)).filter (fun x => !x.2)
        let a := "entry-point-twin" ++ (if o.failed.isEmpty then "" else "-after-dropped-error")
        if !failed.isEmpty then "propfail " ++ ",".intercalate (failed.map (·.1)) ++ " arm=" ++ a
        else "ok arm=" ++ a
      else
      let m := run c o.stream o.fin
      let inj := injOf (kvOf pre)
      -- an injected cancellation / broken upload may stop the add anywhere: then nothing is finalized and no success is reported
      let aborted := inj.isSome && o.status != .ok && o.fin.isNone
      -- a context cancelled in the middle of an entry makes remote BlockPuts fail (or arrive late) outside the fault script:
      -- such a case is held to the Spec, and to "aborted => no Finalize, no success", but not to the scripted log
      let unscripted := match inj with
        | some ("cb", _) => true
        | some ("ce", k) =>
          -- inside the wrapping directory, or after the last entry: `Finalize` (shard flush, pins) runs with the cancelled context
          (getKV (kvOf pre) "wrap").getD "0" == "1" || k ≥ ((getKV (kvOf post) "nent").bind String.toNat?).getD 0
        | _ => false
      let a := arm c o m ++ (match inj with
        | some (k, _) => "-inj-" ++ k ++ (if aborted then "-aborted" else "")
        | none => "")
      -- with a cancelled context the caller's BlockPuts to remote destinations die on the caller's side: the recording services
      -- never see those attempts, so "the destinations the blocks were sent to" cannot be read off their log for such a case
      let unseen := fun (n : String) => unscripted && (n == "root_allocations_are_destinations" || n == "shard_allocations_are_destinations")
      let failed := (clauses c (o.view c.shard)).filter (fun x => !x.2 && !unseen x.1)
      if !failed.isEmpty then "propfail " ++ ",".intercalate (failed.map (·.1)) ++ " arm=" ++ a
      else
        let v := compare c o m
        if !v.agree && !aborted && !unscripted then "diff arm=" ++ a ++ " model=" ++ v.why
        else if injMustAbort (kvOf pre) (kvOf post) && !aborted then "diff arm=" ++ a ++ " model=front:cancelled-or-broken-input-finalized"
        else match paramsDiff (kvOf pre) o with
        | some why => "diff arm=" ++ a ++ " model=params:" ++ why
        | none =>
        if frontRefuses ((getKV (kvOf pre) "fmt").getD "") ((getKV (kvOf pre) "wrap").getD "0" == "1")
                && (o.fin.isSome || !o.stream.isEmpty || o.status == .ok) then
          "diff arm=" ++ a ++ " model=front:refused-input-went-on"
        else
          -- the delivered DAG and the stream against the importer model (successful adds that lost no block)
          let isTr := match inj with
            | some ("tr", _) => true
            | _ => false
          let cdiff := if o.status == .ok && o.failed.isEmpty && !isTr then
              (contentCase (kvOf pre) (kvOf post) o).bind Imp.contentDiff else none
          match cdiff with
          | some why => "diff arm=" ++ a ++ " model=importer:" ++ why
          | none => "ok arm=" ++ a ++ (if !v.agree && !aborted then "-unscripted" else "") ++ (if o.stream.isEmpty then " trivial" else "")

end CV.C13
