import ClusterVerif.Spec.C09
import ClusterVerif.Gen.C09
import Driver.Parse
/-!
Case lines of C09.

history / monitor suites:
  C09 h cap=<c> max=<a> orc=<T|F|R> ps=<peerset> <op>... => <obs>...
    peerset  n (no PeersFunc) | e (PeersFunc fails) | - (known, empty) | 0,2,3
    op       a<name>.<peer>.<valid 0|1><f|m fresh, e|z expired>   arrival (its id is its position)
             r<peer> RemovePeer | x<name>.<peer> RemovePeerMetrics | s<peerset> | q<name> LatestMetrics
             t one Watch tick | k<peers> CheckPeers
    obs      one token per q / t / k op, in order:
             q=<peer:id,...>;<sorted 0|1>     c=<name.peer.id,...>;<name.peer,...>     panic
    orc      accrual oracle: T always "failed", F never, R read off the implementation's answer
cadence suite:
  C09 cad <inf|ping> <ttl ms> <error pattern> => pubs=<n> late=<l>
-/
namespace CV.C09
open CV.Parse

def parsePeerset (s : String) : Option Peerset :=
  if s == "n" then some .unknown
  else if s == "e" then some .error
  else (nats s).map .known

def expiredOfKind (c : Char) : Option Bool :=
  if c == 'f' || c == 'm' then some false
  else if c == 'e' || c == 'z' then some true
  else none

def parseOp (idx : Nat) (s : String) : Option Op :=
  let body := (s.drop 1).toString
  match s.front with
  | 'a' =>
    match body.splitOn "." with
    | [n, p, vk] => do
      let n ← n.toNat?
      let p ← p.toNat?
      if vk.length != 2 then none else
      let v ← bool01 ((vk.take 1).toString)
      let e ← expiredOfKind (vk.drop 1).front
      pure (.add { id := idx, name := n, peer := p, valid := v, expired := e })
    | _ => none
  | 'r' => body.toNat?.map .rmPeer
  | 'x' =>
    match body.splitOn "." with
    | [n, p] => do pure (.rmMetrics (← n.toNat?) (← p.toNat?))
    | _ => none
  | 's' => (parsePeerset body).map .setPeers
  | 'q' => body.toNat?.map .query
  | 't' => if body == "" then some .tick else none
  | 'k' => (nats body).map .checkPeers
  | _ => none

def parseOps : Nat → List String → Option (List Op)
  | _, [] => some []
  | i, w :: ws => do
    let op ← parseOp i w
    let rest ← parseOps (i + 1) ws
    pure (op :: rest)

def parsePair (sep : String) (s : String) : Option (Nat × Nat) :=
  match s.splitOn sep with
  | [a, b] => do pure (← a.toNat?, ← b.toNat?)
  | _ => none

def parseAlert (s : String) : Option Alert :=
  match s.splitOn "." with
  | [n, p, i] => do
    let n ← n.toNat?
    let p ← p.toNat?
    if i == "x" then pure (n, p, none) else pure (n, p, some (← i.toNat?))
  | _ => none

def parseObs (s : String) : Option Obs :=
  if s == "panic" then some .panic
  else if s.startsWith "q=" then
    match ((s.drop 2).toString).splitOn ";" with
    | [l, srt] => do pure (.metrics (← listOf (parsePair ":") l) (← bool01 srt))
    | _ => none
  else if s.startsWith "c=" then
    match ((s.drop 2).toString).splitOn ";" with
    | [a, f] => do pure (.check (← listOf parseAlert a) (← listOf (parsePair ".") f))
    | _ => none
  else none

/-- one observation per op: tokens are consumed by the observing ops -/
def alignObs : List Op → List Obs → Option (List Obs)
  | [], [] => some []
  | [], _ :: _ => none
  | op :: ops, os =>
    if isCheck op || (match op with | .query _ => true | _ => false) then
      match os with
      | o :: rest => (alignObs ops rest).map (o :: ·)
      | [] => none
    else (alignObs ops os).map (Obs.silent :: ·)

def kv (key : String) (s : String) : Option String :=
  if s.startsWith (key ++ "=") then some ((s.drop (key.length + 1)).toString) else none

/-- the oracle the implementation's answers reveal: "failed" iff alerted or forgotten at that check -/
def oracleOf (out : List Obs) : Nat → Nat → Nat → Bool := fun i n p =>
  match out[i]? with
  | some (.check a f) => (alertKeys a).contains (n, p) || f.contains (n, p)
  | _ => false

structure Case where
  input : Input
  mode  : String
  out   : List Obs
  orc   : Nat → Nat → Nat → Bool

def parseHistory (ws : List String) : Option Case := do
  let (pre, post) ← splitArrow ws
  match pre with
  | c :: a :: o :: ps :: ops =>
    let cap ← (← kv "cap" c).toNat?
    let maxA ← (← kv "max" a).toNat?
    let mode ← kv "orc" o
    let ps0 ← parsePeerset (← kv "ps" ps)
    let ops ← parseOps 0 ops
    let obs ← post.mapM parseObs
    let out ← alignObs ops obs
    let orc : Nat → Nat → Nat → Bool ←
      if mode == "T" then some (fun _ _ _ => true)
      else if mode == "F" then some (fun _ _ _ => false)
      else if mode == "R" then some (oracleOf out)
      else none
    pure { input := { cap := cap, maxA := maxA, ps0 := ps0, ops := ops }, mode := mode, out := out, orc := orc }
  | _ => none

def showPairs (sep : String) (l : List (Nat × Nat)) : String :=
  if l.isEmpty then "-" else ",".intercalate (l.map (fun (a, b) => toString a ++ sep ++ toString b))

def showObs : Obs → String
  | .silent => ""
  | .panic => "panic"
  | .metrics l s => "q=" ++ showPairs ":" l ++ ";" ++ (if s then "1" else "0")
  | .check a f =>
    "c=" ++ (if a.isEmpty then "-" else ",".intercalate (a.map (fun (n, p, i) =>
      toString n ++ "." ++ toString p ++ "." ++ (match i with | some v => toString v | none => "x")))) ++
    ";" ++ showPairs "." f

def dedupS : List String → List String
  | [] => []
  | x :: xs => x :: (dedupS xs).filter (· != x)

def insertS (x : String) : List String → List String
  | [] => [x]
  | y :: ys => if x < y then x :: y :: ys else y :: insertS x ys
def sortS (l : List String) : List String := l.foldr insertS []

/-- coverage labels of a history case -/
def arms (c : Case) : List String :=
  let adds := c.input.ops.filterMap (fun op => match op with | .add m => some (m.name, m.peer) | _ => none)
  let wrap := adds.any (fun k => (adds.filter (· == k)).length > c.input.cap)
  let alerts := c.out.any (fun o => match o with | .check a _ => !a.isEmpty | _ => false)
  let forgot := c.out.any (fun o => match o with | .check _ f => !f.isEmpty | _ => false)
  let shown := c.out.any (fun o => match o with | .metrics l _ => !l.isEmpty | _ => false)
  let rm := c.input.ops.any (fun op => match op with | .rmPeer _ => true | .rmMetrics _ _ => true | _ => false)
  ["orc" ++ c.mode] ++ (if wrap then ["wrap"] else []) ++ (if alerts then ["alert"] else []) ++
  (if forgot then ["forget"] else []) ++ (if shown then ["metrics"] else []) ++ (if rm then ["removal"] else [])

def showArms (l : List String) : String := " ".intercalate (l.map ("arm=" ++ ·))

def answerHistory (ws : List String) : String :=
  match parseHistory ws with
  | none => "bad-case"
  | some c =>
    if !wf c.input then "bad-case not-wf" else
    let failed := dedupS (((clauses c.input c.orc c.out).filter (fun x => !x.2)).map (·.1))
    let model := run c.input c.orc
    let tags := sortS (dedupS (failTags c.input c.orc c.out))
    if !failed.isEmpty then
      "propfail " ++ ",".intercalate failed ++ " " ++ showArms (arms c) ++
        (if tags.isEmpty then "" else " sig=" ++ ",".intercalate tags)
    else if c.input.maxA != Gen.maxAlertThreshold then
      -- the harness reports the running package's MaxAlertThreshold; the theorems are about the generated one
      "diff " ++ showArms (arms c) ++ " model=max-alert-threshold-" ++ toString Gen.maxAlertThreshold
    else if !sameAll model c.out then
      "diff " ++ showArms (arms c) ++ " model=" ++ " ".intercalate ((model.map showObs).filter (· != ""))
    else
      let observing := c.input.ops.any (fun op => isCheck op || (match op with | .query _ => true | _ => false))
      "ok " ++ showArms (arms c) ++ (if observing then "" else " trivial")

def answerCadence (ws : List String) : String :=
  match splitArrow ws with
  | some ([kind, _ttl, _errs], [p, l]) =>
    match (kv "pubs" p).bind String.toNat?, (kv "late" l).bind String.toNat? with
    | some pubs, some late =>
      let failed := ((cadenceClauses pubs late).filter (fun x => !x.2)).map (·.1)
      if !failed.isEmpty then "propfail " ++ ",".intercalate failed ++ " arm=cadence-" ++ kind
      else "ok arm=cadence-" ++ kind
    | _, _ => "bad-case"
  | _ => "bad-case"

/-- answer for one case line (tokens after the leading "C09") -/
def answer (ws : List String) : String :=
  match ws with
  | "h" :: rest => answerHistory rest
  | "cad" :: rest => answerCadence rest
  | _ => "bad-case unknown-kind"

end CV.C09
