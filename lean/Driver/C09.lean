import ClusterVerif.Spec.C09
import ClusterVerif.Spec.C09Chan
import ClusterVerif.Spec.C09Glue
import ClusterVerif.Gen.C09
import Driver.Parse
/-!
Case lines of C09.

history / monitor suites:
  C09 h cap=<c> max=<a> orc=<T|F|R> ps=<peerset> <op>... => <obs>...
    peerset  n (no PeersFunc) | e (PeersFunc fails) | - (known, empty) | 0,2,3
    op       a<name>.<peer>.<valid 0|1><f|m fresh, e|z expired>   arrival (its id is its position)
             a<name>.<peer>.<valid>@<expire>   arrival with expiry instant <expire> (model ms; a case starts at 1000)
             +<d>   the clock advances by d ms
             w<variant>.<name>.<peer>.<valid><kind | @expire>   a pubsub message arrives (variant = how it is encoded:
               ok fu ex xx ar decode to the metric; ni ma a0 decode to the zero metric; tr<pp> em ju st tn tp tv te td tt bp
               are decode errors)
             r<peer> RemovePeer | x<name>.<peer> RemovePeerMetrics | s<peerset> | q<name> LatestMetrics
             t one Watch tick | k<peers> CheckPeers
    obs      one token per q / t / k op, in order:
             q=<peer:id,...>;<sorted 0|1>     c=<name.peer.id,...>;<name.peer,...>     panic
    orc      accrual oracle: T always "failed", F never, R read off the implementation's answer
watch suite (the real Checker.Watch ticks every <iv> ms from the start of the case; no q/t/k ops):
  C09 w cap=<c> max=<a> orc=<T|F> ps=<peerset> iv=<ms> <op>... => <A<name>.<peer>.<id|x>/<tick> | G<name>.<peer>/<tick>>... | -
chan suite (round 8; a consumer that does not receive after every check, one metric name):
  C09 ch cap=<c> max=<a> <op>... => <obs>...
    op   e<p> | f<p> arrival for peer p (expired / fresh)   k<peers> CheckPeers, nothing received   d<n> receive up to n alerts
    obs  k=<0|1 ErrAlertChannelFull>;<peer:stamp held by the store,..|->   d=<peer:stamp,..|->   (last token: the final drain)
glue suite (round 8b; see harness/c09/glue.go):
  C09 g inf <df|ds|np> <nc|err|ok> <a> <b> <ttl ms> => valid= value= exp=<zero|in|off> named= pub=<dropped|sent|error>
  C09 g met <valid> <offset ms|ttl<d>|abs0|absmax|absmin> => exp= disc= neg=
cadence suite:
  C09 cad <inf|ping> <ttl ms> <error pattern> => pubs=<n> late=<l>
-/
namespace CV.C09
open CV.Parse

def parsePeerset (s : String) : Option Peerset :=
  if s == "n" then some .unknown
  else if s == "e" then some .error
  else (nats s).map .known

/-- expiry instants of the constant kinds: far in the future / at the epoch -/
def expireOfKind (c : Char) : Option Nat :=
  if c == 'f' || c == 'm' then some 1000000000000000
  else if c == 'e' || c == 'z' then some 0
  else none

/-- `<valid 0|1><kind>` or `<valid>@<expire>` -/
def parseVK (vk : String) : Option (Bool × Nat) := do
  let v ← bool01 ((vk.take 1).toString)
  let rest := (vk.drop 1).toString
  if rest.startsWith "@" then
    let e ← ((rest.drop 1).toString).toNat?
    pure (v, e)
  else if rest.length == 1 then
    let e ← expireOfKind rest.front
    pure (v, e)
  else none

/-- how the msgpack decoder treats a payload variant -/
def payloadOf (variant : String) (n p : Nat) (v : Bool) (e : Nat) : Option Payload :=
  if ["ok", "fu", "ex", "xx", "ar"].contains variant then some (.wellFormed n p v e)
  else if ["ni", "ma", "a0"].contains variant then some .zeroValue
  else if ["em", "ju", "st", "tn", "tp", "tv", "te", "td", "tt", "bp"].contains variant then some .malformed
  else if variant.startsWith "tr" && ((variant.drop 2).toString).toNat?.isSome then some .malformed
  else none

def parseOp (idx : Nat) (s : String) : Option ROp :=
  let body := (s.drop 1).toString
  match s.front with
  | 'a' =>
    match body.splitOn "." with
    | [n, p, vk] => do
      let n ← n.toNat?
      let p ← p.toNat?
      let (v, e) ← parseVK vk
      pure (.op (.add { id := idx, name := n, peer := p, valid := v, expire := e }))
    | _ => none
  | 'w' =>
    match body.splitOn "." with
    | [variant, n, p, vk] => do
      let n ← n.toNat?
      let p ← p.toNat?
      let (v, e) ← parseVK vk
      pure (.recv (← payloadOf variant n p v e))
    | _ => none
  | '+' => body.toNat?.map (fun d => .op (.advance d))
  | 'r' => body.toNat?.map (fun p => .op (.rmPeer p))
  | 'x' =>
    match body.splitOn "." with
    | [n, p] => do pure (.op (.rmMetrics (← n.toNat?) (← p.toNat?)))
    | _ => none
  | 's' => (parsePeerset body).map (fun ps => .op (.setPeers ps))
  | 'q' => body.toNat?.map (fun n => .op (.query n))
  | 't' => if body == "" then some (.op .tick) else none
  | 'k' => (nats body).map (fun l => .op (.checkPeers l))
  | _ => none

def parseROps : Nat → List String → Option (List ROp)
  | _, [] => some []
  | i, w :: ws => do
    let op ← parseOp i w
    let rest ← parseROps (i + 1) ws
    pure (op :: rest)

/-- the history the model runs: received messages go through `logFromPubsub` (`lower`) -/
def parseOps (i : Nat) (ws : List String) : Option (List Op) := (parseROps i ws).map (lower i)

/-- the case starts at this model instant -/
def caseT0 : Nat := 1000

def parsePair (sep : String) (s : String) : Option (Nat × Nat) :=
  match s.splitOn sep with
  | [a, b] => do pure (← a.toNat?, ← b.toNat?)
  | _ => none

def parseAlert (s : String) : Option Alert :=
  match s.splitOn "." with
  | [n, p, i] => do
    let n ← n.toNat?
    let p ← p.toNat?
    if i == "x" then pure (n, p, none) else pure (n, p, some (← i.toNat?))
  | _ => none

def parseObs (s : String) : Option Obs :=
  if s == "panic" then some .panic
  else if s.startsWith "q=" then
    match ((s.drop 2).toString).splitOn ";" with
    | [l, srt] => do pure (.metrics (← listOf (parsePair ":") l) (← bool01 srt))
    | _ => none
  else if s.startsWith "c=" then
    match ((s.drop 2).toString).splitOn ";" with
    | [a, f] => do pure (.check (← listOf parseAlert a) (← listOf (parsePair ".") f))
    | _ => none
  else none

/-- one observation per op: tokens are consumed by the observing ops -/
def alignObs : List Op → List Obs → Option (List Obs)
  | [], [] => some []
  | [], _ :: _ => none
  | op :: ops, os =>
    if isCheck op || (match op with | .query _ => true | _ => false) then
      match os with
      | o :: rest => (alignObs ops rest).map (o :: ·)
      | [] => none
    else (alignObs ops os).map (Obs.silent :: ·)

def kv (key : String) (s : String) : Option String :=
  if s.startsWith (key ++ "=") then some ((s.drop (key.length + 1)).toString) else none

/-- the oracle the implementation's answers reveal: "failed" iff alerted or forgotten at that check -/
def oracleOf (out : List Obs) : Nat → Nat → Nat → Bool := fun i n p =>
  match out[i]? with
  | some (.check a f) => (alertKeys a).contains (n, p) || f.contains (n, p)
  | _ => false

structure Case where
  input : Input
  mode  : String
  out   : List Obs
  orc   : Nat → Nat → Nat → Bool

def parseHistory (ws : List String) : Option Case := do
  let (pre, post) ← splitArrow ws
  match pre with
  | c :: a :: o :: ps :: ops =>
    let cap ← (← kv "cap" c).toNat?
    let maxA ← (← kv "max" a).toNat?
    let mode ← kv "orc" o
    let ps0 ← parsePeerset (← kv "ps" ps)
    let ops ← parseOps 0 ops
    let obs ← post.mapM parseObs
    let out ← alignObs ops obs
    let orc : Nat → Nat → Nat → Bool ←
      if mode == "T" then some (fun _ _ _ => true)
      else if mode == "F" then some (fun _ _ _ => false)
      else if mode == "R" then some (oracleOf out)
      else none
    pure { input := { cap := cap, maxA := maxA, ps0 := ps0, ops := ops, t0 := caseT0 }, mode := mode, out := out, orc := orc }
  | _ => none

def showPairs (sep : String) (l : List (Nat × Nat)) : String :=
  if l.isEmpty then "-" else ",".intercalate (l.map (fun (a, b) => toString a ++ sep ++ toString b))

def showObs : Obs → String
  | .silent => ""
  | .panic => "panic"
  | .metrics l s => "q=" ++ showPairs ":" l ++ ";" ++ (if s then "1" else "0")
  | .check a f =>
    "c=" ++ (if a.isEmpty then "-" else ",".intercalate (a.map (fun (n, p, i) =>
      toString n ++ "." ++ toString p ++ "." ++ (match i with | some v => toString v | none => "x")))) ++
    ";" ++ showPairs "." f

def dedupS : List String → List String
  | [] => []
  | x :: xs => x :: (dedupS xs).filter (· != x)

def insertS (x : String) : List String → List String
  | [] => [x]
  | y :: ys => if x < y then x :: y :: ys else y :: insertS x ys
def sortS (l : List String) : List String := l.foldr insertS []

/-- coverage labels of a history case -/
def arms (c : Case) : List String :=
  let adds := c.input.ops.filterMap (fun op => match op with | .add m => some (m.name, m.peer) | _ => none)
  let wrap := adds.any (fun k => (adds.filter (· == k)).length > c.input.cap)
  let alerts := c.out.any (fun o => match o with | .check a _ => !a.isEmpty | _ => false)
  let forgot := c.out.any (fun o => match o with | .check _ f => !f.isEmpty | _ => false)
  let shown := c.out.any (fun o => match o with | .metrics l _ => !l.isEmpty | _ => false)
  let rm := c.input.ops.any (fun op => match op with | .rmPeer _ => true | .rmMetrics _ _ => true | _ => false)
  let timed := c.input.ops.any (fun op => match op with | .advance d => d > 0 | _ => false)
  -- a metric seen fresh (returned by a query) or stored at one observation and alerted at a later one
  let expires := timed && alerts && c.input.ops.any (fun op => match op with
    | .add m => decide (caseT0 < m.expire) && decide (m.expire < 1000000) | _ => false)
  (if timed then ["timed"] else []) ++ (if expires then ["expires-inside"] else []) ++
  ["orc" ++ c.mode] ++ (if wrap then ["wrap"] else []) ++ (if alerts then ["alert"] else []) ++
  (if forgot then ["forget"] else []) ++ (if shown then ["metrics"] else []) ++ (if rm then ["removal"] else [])

def showArms (l : List String) : String := " ".intercalate (l.map ("arm=" ++ ·))

/-- an alert for the zero metric carries no `Value` the harness could print: compare it without its id -/
def normObs : Obs → Obs
  | .check a f => .check (a.map (fun x => if x.1 == emptyName && x.2.1 == emptyPeer then (x.1, x.2.1, none) else x)) f
  | o => o

def answerCase (oc : Option Case) (extra : List String) : String :=
  match oc with
  | none => "bad-case"
  | some c =>
    if !wf c.input then "bad-case not-wf" else
    let failed := dedupS (((clauses c.input c.orc c.out).filter (fun x => !x.2)).map (·.1))
    let model := (run c.input c.orc).map normObs
    let tags := sortS (dedupS (failTags c.input c.orc c.out))
    if !failed.isEmpty then
      "propfail " ++ ",".intercalate failed ++ " " ++ showArms (extra ++ arms c) ++
        (if tags.isEmpty then "" else " sig=" ++ ",".intercalate tags)
    else if c.input.maxA != Gen.maxAlertThreshold then
      -- the harness reports the running package's MaxAlertThreshold; the theorems are about the generated one
      "diff " ++ showArms (extra ++ arms c) ++ " model=max-alert-threshold-" ++ toString Gen.maxAlertThreshold
    else if !sameAll model (c.out.map normObs) then
      "diff " ++ showArms (extra ++ arms c) ++ " model=" ++ " ".intercalate ((model.map showObs).filter (· != ""))
    else
      let observing := c.input.ops.any (fun op => isCheck op || (match op with | .query _ => true | _ => false))
      "ok " ++ showArms (extra ++ arms c) ++ (if observing then "" else " trivial")

def answerHistory (ws : List String) : String :=
  let recv := ws.any (fun w => w.startsWith "w")
  answerCase (parseHistory ws) (if recv then ["recv"] else [])

/-! ### watch cases: the ticks come from `Checker.Watch` -/

/-- ids are positions: renumber after the ticks were put in; returns (original index, new position) too -/
def renumber : Nat → List Op → List Op × List (Nat × Nat)
  | _, [] => ([], [])
  | i, .add m :: ops =>
    let r := renumber (i + 1) ops
    (.add { m with id := i } :: r.1, (m.id, i) :: r.2)
  | i, op :: ops =>
    let r := renumber (i + 1) ops
    (op :: r.1, r.2)

/-- an operation right at a tick instant: its order with the tick is not determined -/
def eventAtTick : List Op → Bool
  | [] => false
  | .tick :: rest =>
    let rec skip : List Op → Bool
      | .advance 0 :: r => skip r
      | .advance _ :: _ => false
      | .tick :: _ => false
      | [] => false
      | _ :: _ => true
    skip rest || eventAtTick rest
  | _ :: rest => eventAtTick rest

structure WEvent where
  alert : Bool
  n : Nat
  p : Nat
  id : Option Nat
  tick : Nat

def parseWEvent (s : String) : Option WEvent :=
  match ((s.drop 1).toString).splitOn "/" with
  | [body, j] => do
    let j ← j.toNat?
    if s.startsWith "A" then
      match body.splitOn "." with
      | [n, p, i] => do
        let id ← if i == "x" then some none else i.toNat?.map some
        pure { alert := true, n := ← n.toNat?, p := ← p.toNat?, id := id, tick := j }
      | _ => none
    else if s.startsWith "G" then
      match body.splitOn "." with
      | [n, p] => do pure { alert := false, n := ← n.toNat?, p := ← p.toNat?, id := none, tick := j }
      | _ => none
    else none
  | _ => none

/-- observations aligned with the expanded history: the `j`-th tick gets the events reported for tick `j` -/
def watchObs (tbl : List (Nat × Nat)) (evs : List WEvent) : Nat → List Op → List Obs
  | _, [] => []
  | j, .tick :: ops =>
    let here := evs.filter (fun e => e.tick == j + 1)
    let al : List Alert := (here.filter (·.alert)).map (fun e =>
      (e.n, e.p, e.id.map (fun i => match tbl.find? (fun x => x.1 == i) with | some x => x.2 | none => 1000000 + i)))
    let fg : List Key := (here.filter (fun e => !e.alert)).map (fun e => (e.n, e.p))
    .check al fg :: watchObs tbl evs (j + 1) ops
  | j, _ :: ops => .silent :: watchObs tbl evs j ops

def parseWatch (ws : List String) : Option (Case × Bool × Bool) := do
  let (pre, post) ← splitArrow ws
  match pre with
  | c :: a :: o :: ps :: ivs :: ops =>
    let cap ← (← kv "cap" c).toNat?
    let maxA ← (← kv "max" a).toNat?
    let mode ← kv "orc" o
    let ps0 ← parsePeerset (← kv "ps" ps)
    let iv ← (← kv "iv" ivs).toNat?
    if iv == 0 then none else
    let ops0 ← parseOps 0 ops
    if ops0.any (fun op => isCheck op || (match op with | .query _ => true | _ => false)) then none else
    let (ops1, tbl) := renumber 0 (watchOps iv 0 ops0)
    let evs ← if post == ["-"] then some [] else post.mapM parseWEvent
    let nticks := (ops1.filter (· == .tick)).length
    let orc : Nat → Nat → Nat → Bool ←
      if mode == "T" then some (fun _ _ _ => true)
      else if mode == "F" then some (fun _ _ _ => false)
      else none
    let out := watchObs tbl evs 0 ops1
    pure ({ input := { cap := cap, maxA := maxA, ps0 := ps0, ops := ops1, t0 := caseT0 }, mode := mode, out := out, orc := orc },
          eventAtTick ops1, evs.any (fun e => e.tick == 0 || e.tick > nticks))
  | _ => none

def answerWatch (ws : List String) : String :=
  match parseWatch ws with
  | none => "bad-case"
  | some (c, amb, stray) =>
    if amb then "bad-case event-at-tick-instant"
    else if stray then
      -- an alert or a forgetting outside every tick of the case: nothing in the model can produce it
      "diff arm=watch model=event-outside-the-ticks"
    else answerCase (some c) ["watch"]

/-- round 8c: the outcomes of the 8 attempts a cadence line names (`n`, `p<k>`, `b`, `i<k>`) -/
def cadOutcomes (errs : String) : Option (List Glue.Pub) :=
  let idx := (List.range 8).map (· + 1)
  if errs == "n" then some (idx.map fun _ => Glue.Pub.sent)
  else if errs == "b" then some (idx.map fun n => if 3 ≤ n && n ≤ 5 then Glue.Pub.error else Glue.Pub.sent)
  else match (errs.drop 1).toNat? with
    | some k =>
      if k == 0 then none
      else if errs.startsWith "p" then some (idx.map fun n => if n % k == 0 then Glue.Pub.error else Glue.Pub.sent)
      else if errs.startsWith "i" then some (idx.map fun n => if n == k then Glue.Pub.dropped else Glue.Pub.sent)
      else none
    | none => none

def answerCadence (ws : List String) : String :=
  match splitArrow ws with
  | some ([kind, ttl, errs], [p, l]) =>
    match (kv "pubs" p).bind String.toNat?, (kv "late" l).bind String.toNat? with
    | some pubs, some late =>
      let failed := ((cadenceClauses pubs late).filter (fun x => !x.2)).map (·.1)
      -- informer loop: the nominal schedule of the regenerated loop body (Gen.rearmProg), interpreted
      let model : Option Nat :=
        if kind == "inf" && pubs == 8 then
          match ttl.toNat?, cadOutcomes errs with
          | some t, some outs => Glue.lateCount Gen.rearmProg ((t : Int) * 1000000) outs
          | _, _ => none
        else some 0
      match model with
      | none => "diff arm=cadence-" ++ kind ++ " model=loop-body-not-recognised"
      | some ml =>
        if !failed.isEmpty then
          "propfail " ++ ",".intercalate failed ++ " arm=cadence-" ++ kind ++
            (if kind == "inf" then (if ml == late then " sig=as-model" else " sig=other") else "")
        else if ml != 0 then "diff arm=cadence-" ++ kind ++ " model=late=" ++ toString ml
        else "ok arm=cadence-" ++ kind
    | _, _ => "bad-case"
  | _ => "bad-case"


/-! suite `chan` -/
def parseStampPair (s : String) : Option (Nat × Nat) :=
  match s.splitOn ":" with
  | [a, b] => do
    let a ← a.toNat?
    if b == "x" then pure (a, 0) else pure (a, ← b.toNat?)
  | _ => none

def parseChOp (s : String) : Option Chan.Op :=
  let rest := (s.drop 1).toString
  if s.startsWith "e" then rest.toNat?.map (Chan.Op.add · true)
  else if s.startsWith "f" then rest.toNat?.map (Chan.Op.add · false)
  else if s.startsWith "d" then rest.toNat?.map Chan.Op.drain
  else if s.startsWith "k" then (nats rest).map Chan.Op.check
  else none

def parseChObs (s : String) : Option Chan.Obs :=
  if s.startsWith "d=" then (listOf parseStampPair ((s.drop 2).toString)).map Chan.Obs.drained
  else if s.startsWith "k=" then
    match ((s.drop 2).toString).splitOn ";" with
    | [e, l] => do pure (Chan.Obs.check (← bool01 e) (← listOf parseStampPair l))
    | _ => none
  else none

def showChObs : Chan.Obs → String
  | .check e l => "k=" ++ (if e then "1" else "0") ++ ";" ++ showPairs ":" l
  | .drained l => "d=" ++ showPairs ":" l

def answerChan (ws : List String) : String :=
  match splitArrow ws with
  | some (c :: m :: opsW, obsW) =>
    match (kv "cap" c).bind String.toNat?, (kv "max" m).bind String.toNat?,
          opsW.mapM parseChOp, obsW.mapM parseChObs with
    | some cap, some maxA, some ops, some obs =>
      if cap == 0 then "bad-case cap" else
      if (Chan.peersOf ops).any (fun p => Gen.accrualMetricsNum ≤ Chan.arrivals p ops) then "bad-case accrual-regime" else
      let model := Chan.run (!Gen.alertCountsBeforeSend) cap Gen.maxAlertThreshold ops
      let full := model.any (fun o => match o with | .check true _ => true | _ => false)
      let lost := !(Chan.holds ops model)
      let arm := "arm=chan-" ++ (if lost then "lost" else if full then "full" else "room") ++
        (if cap == Gen.alertChannelCap then " arm=chan-shipped-cap" else "")
      let failed := Chan.failing ops obs
      -- sig=as-model: the implementation did exactly what the model of today's (regenerated) order does
      if !failed.isEmpty then "propfail " ++ ",".intercalate failed ++ " " ++ arm ++
        (if model == obs && maxA == Gen.maxAlertThreshold then " sig=as-model" else " sig=other")
      else if !Gen.alertOrderKnown then "diff " ++ arm ++ " model=alert-order-not-recognised"
      else if maxA != Gen.maxAlertThreshold then "diff " ++ arm ++ " model=max-alert-threshold-" ++ toString Gen.maxAlertThreshold
      else if model != obs then "diff " ++ arm ++ " model=" ++ " ".intercalate (model.map showChObs)
      else "ok " ++ arm ++ (if ops.any (fun o => match o with | .check _ => true | _ => false) then "" else " trivial")
    | _, _, _, _ => "bad-case"
  | _ => "bad-case"


/-! suite `glue` -/
def showPub : Glue.Pub → String
  | .dropped => "dropped" | .refused => "refused" | .sent => "sent" | .error => "error"

def parsePub (s : String) : Option Glue.Pub :=
  if s == "dropped" then some .dropped else if s == "sent" then some .sent
  else if s == "error" then some .error else if s == "refused" then some .refused else none

def parseExp (s : String) : Option Glue.Exp :=
  if s == "zero" then some .zero else if s == "in" then some .inTTL else if s == "off" then some .off else none

def showInf (o : Glue.InfOut) : String :=
  "valid=" ++ (if o.valid then "1" else "0") ++ " value=" ++ (match o.value with | some v => toString v | none => "-") ++
  " exp=" ++ (match o.exp with | .zero => "zero" | .inTTL => "in" | .off => "off") ++
  " named=" ++ (if o.named then "1" else "0") ++ " pub=" ++ showPub o.pub

def answerGlueInf (inp out : List String) : String :=
  match inp, out with
  | [kind, rp, a, b, ttl], [v, val, ex, nm, pb] =>
    let r : Option (Option Glue.DiskKind × Glue.Rpc × Int × Glue.InfOut) := do
      let disk : Option Glue.DiskKind ←
        if kind == "df" then some (some .freeSpace) else if kind == "ds" then some (some .repoSize)
        else if kind == "np" then some none else none
      let a ← a.toNat?
      let b ← b.toNat?
      let ttl ← ttl.toNat?
      let rpc : Glue.Rpc ← if rp == "nc" then some .noClient else if rp == "err" then some .failed
        else if rp == "ok" then some (.ok a b) else none
      let valid ← bool01 (← kv "valid" v)
      let vs ← kv "value" val
      let value : Option Nat ← if vs == "-" then some none else vs.toNat?.map some
      let exp ← parseExp (← kv "exp" ex)
      let named ← bool01 (← kv "named" nm)
      let pub ← parsePub (← kv "pub" pb)
      pure (disk, rpc, (ttl : Int), { valid := valid, value := value, exp := exp, named := named, pub := pub })
    match r with
    | none => "bad-case"
    | some (disk, rpc, ttl, o) =>
      if ttl ≤ 0 then "bad-case ttl" else
      let arm := "arm=glue-inf-" ++ rp
      let failed := Glue.failingOf (Glue.infClauses disk rpc ttl o)
      if !failed.isEmpty then "propfail " ++ ",".intercalate failed ++ " " ++ arm else
      let m := match disk with
        | some k => Glue.diskMetric k 0 ttl rpc
        | none => Glue.numpinMetric 0 ttl rpc
      match Glue.interpPublish 0 m true Gen.publishProg with
      | none => "diff " ++ arm ++ " model=publish-statements-not-recognised"
      | some pub =>
        let mo : Glue.InfOut := { valid := m.valid, value := m.value, exp := if m.expire == 0 then .zero else .inTTL,
                                  named := m.named, pub := pub }
        if mo != o then "diff " ++ arm ++ " model=" ++ showInf mo else "ok " ++ arm
  | _, _ => "bad-case"

def answerGlueMet (inp out : List String) : String :=
  match inp, out with
  | [v, offS], [e, d, n] =>
    let r : Option (Bool × Int × Glue.MetOut) := do
      let valid ← bool01 v
      let off : Int ←
        if offS == "abs0" || offS == "absmin" then some (-1000000000)
        else if offS == "absmax" then some 1000000000
        else if offS.startsWith "ttl" then ((offS.drop 3).toString).toInt?
        else offS.toInt?
      let ex ← bool01 (← kv "exp" e)
      let di ← bool01 (← kv "disc" d)
      let ng ← bool01 (← kv "neg" n)
      pure (valid, off, { expired := ex, discard := di, ttlNeg := ng })
    match r with
    | none => "bad-case"
    | some (valid, off, o) =>
      if off == 0 then "bad-case boundary-instant" else
      let arm := "arm=glue-met-" ++ (if off < 0 then "past" else "future") ++ (if valid then "" else "-invalid")
      let failed := Glue.failingOf (Glue.metClauses valid off o)
      if !failed.isEmpty then "propfail " ++ ",".intercalate failed ++ " " ++ arm else
      let m : Glue.M := { valid := valid, value := none, expire := off }
      let mo : Glue.MetOut := { expired := Glue.expired 0 off, discard := Glue.discard 0 m, ttlNeg := decide (Glue.getTTL 0 off < 0) }
      if mo != o then "diff " ++ arm ++ " model=other" else "ok " ++ arm
  | _, _ => "bad-case"

def answerGlue (ws : List String) : String :=
  match splitArrow ws with
  | some ("inf" :: inp, out) => answerGlueInf inp out
  | some ("met" :: inp, out) => answerGlueMet inp out
  | _ => "bad-case"

/-- answer for one case line (tokens after the leading "C09") -/
def answer (ws : List String) : String :=
  match ws with
  | "h" :: rest => answerHistory rest
  | "w" :: rest => answerWatch rest
  | "cad" :: rest => answerCadence rest
  | "ch" :: rest => answerChan rest
  | "g" :: rest => answerGlue rest
  | _ => "bad-case unknown-kind"

end CV.C09
