import ClusterVerif.Spec.C18
import Driver.Parse
namespace CV.C18
open CV.Parse

/-- `hi-lo` (descending run), a single id, comma separated; "-" = empty list -/
def parseRuns (s : String) : Option (List Nat) :=
  if s == "-" then some [] else
  (s.splitOn ",").foldlM (fun acc item =>
    match item.splitOn "-" with
    | [a] => do let n ← a.toNat?; pure (acc ++ [n])
    | [a, b] => do
      let hi ← a.toNat?; let lo ← b.toNat?
      if lo ≤ hi && hi - lo < 100000 then pure (acc ++ descFrom hi (hi - lo + 1)) else none
    | _ => none) []

def kv (key : String) (s : String) : Option Nat :=
  match s.splitOn "=" with
  | [k, v] => if k == key then v.toNat? else none
  | _ => none

def parseCase (ws : List String) : Option (Input × Output) := do
  let (pre, post) ← splitArrow ws
  match pre, post with
  | ["alerts", m], [runs] => pure (⟨.alerts (← kv "max" m)⟩, .list (← parseRuns runs))
  | ["window", c], [runs] => pure (⟨.window (← kv "cap" c)⟩, .list (← parseRuns runs))
  | ["idlist", w], [runs] => pure (⟨.idlist w⟩, .list (← parseRuns runs))
  | ["soak", w], [o, t, p, s, r] =>
    pure (⟨.soak w⟩, .summary (← kv "ops" o) (← kv "torn" t) (← kv "panics" p) (← kv "stalled" s) (← kv "races" r))
  | ["pininfo", w], [st, er] =>
    match st.splitOn "=", er.splitOn "=" with
    | ["status", v], ["error", e] => pure (⟨.pininfo w⟩, .pininfo v (← bool01 e))
    | _, _ => none
  | _, _ => none

/-- is the observation one the model admits? -/
def allowed (i : Input) (o : Output) : Bool × String :=
  match i.kind, o with
  | .alerts mx, .list l =>
    let want := alertsAfter mx (l.headD 0)
    (l == want, "len=" ++ toString want.length ++ " newest=" ++ toString (l.headD 0))
  | .window cap, .list l =>
    let want := windowAfter cap (l.headD 0)
    (l == want, "len=" ++ toString want.length ++ " newest=" ++ toString (l.headD 0))
  | _, _ => (true, "")

def arm (i : Input) (o : Output) : String :=
  match i.kind, o with
  | .alerts mx, .list l => if l.headD 0 > mx + 1 then "alerts-after-reset" else "alerts"
  | .window cap, .list l => if l.headD 0 > cap then "window-wrapped" else "window"
  | .idlist w, _ => "idlist-" ++ w
  | .soak w, _ => "soak-" ++ w
  | .pininfo w, .pininfo st e => "pininfo-" ++ w ++ "-" ++ st ++ (if e then "-err" else "")
  | _, _ => "other"

def trivial (o : Output) : Bool :=
  match o with
  | .list l => l.isEmpty
  | .summary ops _ _ _ _ => ops == 0
  | .pininfo _ _ => false

def answer (ws : List String) : String :=
  match parseCase ws with
  | none => "bad-case"
  | some (i, o) =>
    let failed := (clauses i o).filter (fun c => !c.2)
    let a := " arm=" ++ arm i o
    if !failed.isEmpty then
      "propfail " ++ ",".intercalate (failed.map (·.1)) ++ a
    else
      let (ok, want) := allowed i o
      if !ok then "diff" ++ a ++ " model=" ++ want
      else "ok" ++ a ++ (if trivial o then " trivial" else "")

end CV.C18
