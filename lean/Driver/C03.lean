import ClusterVerif.Spec.C03
import ClusterVerif.Spec.C03Block
import ClusterVerif.Model.C03Alloc
import ClusterVerif.Model.C03Wiring
import Driver.Parse
import Driver.PinParse
namespace CV.C03
open CV.Parse

def parseState (s : String) : Option MState :=
  if s == "a" then some .absent
  else if s == "e" then some .expired
  else if s == "i" then some .invalid
  else if s == "n" then some .nonNumeric
  else if s.startsWith "v" then (s.drop 1).toNat?.map .valid
  else none

def parsePeer (s : String) : Option (Nat × MState) :=
  match s.splitOn ":" with
  | [a, b] => do let n ← a.toNat?; let st ← parseState b; pure (n, st)
  | _ => none

def parseOut : List String → Option Output
  | ["err"] => some .err
  | ["panic"] => some .panic
  | ["ok", l] => (nats l).map .ok
  | _ => none

def parseCase (ws : List String) : Option (Input × Output) := do
  let (pre, post) ← splitArrow ws
  match pre with
  | [d, rmin, rmax, ps, cur, bl, pri] =>
    let i : Input := {
      desc := ← bool01 d, rmin := ← rmin.toInt?, rmax := ← rmax.toInt?,
      peers := ← listOf parsePeer ps, current := ← nats cur, blacklist := ← nats bl, priority := ← nats pri }
    let o ← parseOut post
    pure (i, o)
  | _ => none

def showOut : Output → String
  | .ok l => "ok " ++ showNats l
  | .err => "err"
  | .panic => "panic"

/-- which arm of the model the case reached (for the coverage histogram) -/
def arm (i : Input) : String :=
  if i.rmin + i.rmax == 0 then "sum0"
  else if i.rmin < 0 && i.rmax < 0 then "everywhere"
  else
    let nCur : Int := (curIds i).length
    if i.rmax - nCur < 0 then "truncate"
    else if i.rmin - nCur ≤ 0 then "keep"
    else if ((priM i).length + (candM i).length : Int) < i.rmin - nCur then "few-candidates"
    else if (((numerics (priM i)).length + (numerics (candM i)).length : Nat) : Int) < i.rmin - nCur then "few-numeric"
    else if (numerics (priM i)).length > 0 then "alloc-priority" else "alloc"

/-- `C03 valid <min> <max> => ok|err`: isReplicationFactorValid against `factorsValid`; the property
    side: the accepted pairs are exactly (-1,-1) and 0 < min ≤ max (the pairs `allocate` is proved safe for) -/
def answerValid (ws : List String) : String :=
  match ws with
  | [mn, mx, "=>", r] =>
    match mn.toInt?, mx.toInt? with
    | some a, some b =>
      let accepted := r == "ok"
      let specOk := (a == -1 && b == -1) || (decide (0 < a) && decide (a ≤ b))
      if accepted && !specOk then "propfail accepts_unsafe_factor_pair arm=valid"
      else if accepted != factorsValid a b then "diff arm=valid model=" ++ (if factorsValid a b then "ok" else "err")
      else "ok arm=valid" ++ (if accepted then "" else " trivial")
    | _, _ => "bad-case valid"
  | _ => "bad-case valid"

/-! ### raw metric arrivals (`C03 raw …`) -/

def parseArrival (s : String) : Option RawMetric :=
  match s.splitOn "/" with
  | [n, p, v, e, x] => do
    let val ← if x == "x" then some MVal.text else x.toNat?.map MVal.num
    pure { name := ← n.toNat?, peer := ← p.toNat?, valid := ← bool01 v, expired := ← bool01 e, val := val }
  | _ => none

def parseView (s : String) : Option PeersetView :=
  if s == "n" then some .noProvider
  else if s == "f" then some .failed
  else if s == "m" then some (.members [])
  else if s.startsWith "m" then (((s.drop 1).toString.splitOn ".").mapM String.toNat?).map .members
  else none

def parseLm (s : String) : Option (List (Nat × MState)) :=
  if !s.startsWith "lm=" then none else
  listOf (fun t => match t.splitOn ":" with
    | [p, v] => do
      let st ← if v == "x" then some MState.nonNumeric else v.toNat?.map MState.valid
      pure (← p.toNat?, st)
    | _ => none) (s.drop 3).toString

/-- `C03 raw d rmin rmax arrivals view cur bl pri => lm=… out` : the abstract input is COMPUTED from the raw arrivals
    (`rawInput`, order = first arrival per peer), the monitor's answer is compared with the pipeline model, and the
    allocation with the relation and the property on that input -/
def answerRaw (ws : List String) : String :=
  match splitArrow ws with
  | some ([d, rmin, rmax, arrs, view, cur, bl, pri], lm :: post) =>
    match bool01 d, rmin.toInt?, rmax.toInt?, listOf parseArrival arrs, parseView view, nats cur, nats bl, nats pri,
          parseLm lm, parseOut post with
    | some d, some rmin, some rmax, some arr, some view, some cur, some bl, some pri, some lm, some o =>
      -- peers with a window under the allocation metric's name (0), in order of last appearance
      let order := dedup ((arr.filter (fun m => m.name == 0)).map (·.peer))
      let i := rawInput order arr 0 view d rmin rmax cur bl pri
      let model := (latestMetrics order arr 0 view).map (fun m => (m.peer, m.state))
      let sameLm := lm.length == model.length && lm.all model.contains && model.all lm.contains
      -- the property on the monitor's answer itself: only fresh metrics of members, one per peer
      let lmOk := lm.all (fun q => (stateOfRaw arr 0 view q.1) == q.2 && q.2.healthy) && (lm.map (·.1)).Nodup
      let failed := (clauses i o).filter (fun c => !c.2)
      if !lmOk then "propfail metrics_fresh_members_only arm=raw-" ++ arm i
      else if !failed.isEmpty then "propfail " ++ ",".intercalate (failed.map (·.1)) ++ " arm=raw-" ++ arm i
      else if !sameLm then "diff arm=raw-" ++ arm i ++ " model-lm=" ++ showNats (model.map (·.1))
      else if !allowed i o then "diff arm=raw-" ++ arm i ++ " model=" ++ showOut (allocate i)
      else "ok arm=raw-" ++ arm i ++ (if positive i then "" else " trivial")
    | _, _, _, _, _, _, _, _, _, _ => "bad-case raw-parse"
  | _ => "bad-case raw"

/-! ### BlockAllocate (`C03 block …`) -/

def parseBlockCfg (s : String) : Option (Bool × Int × Int × Bool) :=
  match s.splitOn "/" with
  | [f, dm, st] => do
    let (a, b) ← PinParse.parseFactors (dm.drop 2).toString
    pure (f == "f1", a, b, st == "s1")
  | _ => none

def parsePing (s : String) : Option (List (Nat × MState)) :=
  listOf (fun t => match t.splitOn ":" with
    | [p, v] => do
      let st ← if v.startsWith "v" then some (MState.valid 0) else if v == "e" then some .expired
               else if v == "i" then some .invalid else if v == "a" then some .absent else none
      pure (← p.toNat?, st)
    | _ => none) s

def parseBlockOut : List String → Option BlockOut
  | ["err"] => some .err
  | ["ok", l] => (nats l).map .ok
  | _ => none

def answerBlock (ws : List String) : String :=
  if ws.contains "panic" then "propfail call_panicked arm=block" else
  match splitArrow ws with
  | some ([cfg, peers, ping, pre, undef, pin], post) =>
    match parseBlockCfg cfg, PinParse.parsePeers peers, parsePing ping, PinParse.parsePinset pre, bool01 undef,
          PinParse.parsePin pin, parseBlockOut post with
    | some (fol, dmin, dmax, desc), some peers, some ping, some pre, some undef, some pin, some o =>
      let c : C04.Cfg := { follower := fol, defMin := dmin, defMax := dmax, desc := desc, peers := peers, paths := [], blocks := [] }
      let k : BlockCase := { cfg := c, ping := ping, pre := pre, undef := undef, pin := pin }
      if !wf k.input then "bad-case not-wf" else
      let chosen := match o with | .ok l => l | .err => []
      let m := blockAllocate c pre undef pin (pingHealthy k) chosen
      let sub := (if k.input.rmin == -1 && k.input.rmax == -1 then "everywhere" else if positive k.input then arm k.input else "invalid")
      let a := "block-" ++ (if undef then "add-" else if k.existing.isSome then "repin-" else "new-") ++ sub
      let failed := (blockClauses k o).filter (fun c => !c.2)
      let agree := match m.out, o with
        | .err, .err => true
        | .ok l, .ok l' => (match m.alloc with
            | some ai => allowed ai (.ok l')
            | none => l.length == l'.length && l.all l'.contains && l'.all l.contains)
        | _, _ => false
      if !failed.isEmpty then "propfail " ++ ",".intercalate (failed.map (·.1)) ++ " arm=" ++ a
      else if !agree then "diff arm=" ++ a ++ " model=" ++ (match m.out with | .ok l => "ok " ++ showNats l | .err => "err")
      else "ok arm=" ++ a ++ (if blockMustRefuse k then " trivial" else "")
    | _, _, _, _, _, _, _ => "bad-case block-parse"
  | _ => "bad-case block"

/-! ### pin, re-pin with another name, a holder fails and is vacated (`C03 seq …`) -/

def parseStored (s : String) : Option (Option (List Nat)) :=
  if s == "none" || s == "err" then some none
  else if s.startsWith "ok:" then (nats (s.drop 3).toString).map some
  else none

/-- one allocation decision of the history: the implementation's answer `tok` (`err` / `ok:<list>`) against the
    relation and the clauses on `i` -/
def seqStep (i : Input) (tok : String) : Option (List String × Bool) :=
  if tok == "err" then some (((clauses i .err).filter (fun c => !c.2)).map (·.1), allowed i .err)
  else match parseStored tok with
    | some (some l) => some (((clauses i (.ok l)).filter (fun c => !c.2)).map (·.1), allowed i (.ok l))
    | _ => none

def answerSeq (ws : List String) : String :=
  if ws.contains "panic" then "propfail call_panicked arm=seq" else
  match splitArrow ws with
  | some ([d, rmin, rmax, ps, pri, f, fst], [s1, s2, s3]) =>
    match bool01 d, rmin.toInt?, rmax.toInt?, listOf parsePeer ps, nats pri, f.toNat?, parseState fst,
          parseStored s1, parseStored s2, parseStored s3 with
    | some d, some rmin, some rmax, some peers, some pri, some f, some fst, some st1, some st2, some st3 =>
      let i0 : Input := { desc := d, rmin := rmin, rmax := rmax, peers := peers, current := [], blacklist := [], priority := pri }
      if !wf i0 || !positive i0 then "bad-case seq-input" else
      -- step 1: a new pin
      match seqStep i0 s1, seqStep (reallocInput i0 (st1.getD []) []) s2 with
      | some (f1, a1), some (f2, a2) =>
        -- step 2: re-allocation from the stored pin must keep a stored allocation (allocate_idempotent)
        let stable := match st1 with | some l => s2 == "ok:" ++ showNats l | none => true
        let stored2 := match st2 with | some l => some l | none => st1
        -- step 3: f's metric replaced, vacatePeer(f): re-pin (stored holders current, f excluded, the STORED pin's
        -- user allocations — none: ProtoMarshal drops them) iff f is allocated
        let i2 : Input := { i0 with peers := setState peers f fst, priority := [] }
        let (f3, a3, arm3) := match stored2 with
          | none => ((if st3 == none then [] else ["untouched_if_not_allocated"]), true, "unpinned")
          | some l =>
            if !l.contains f then
              ((if st3 == some l then [] else ["untouched_if_not_allocated"]), true, "not-holder")
            else
              let i3 := reallocInput i2 l [f]
              if allowed i3 .err then
                ((if st3 == some l then [] else ["failed_repin_changes_nothing"]), true, "repin-err")
              else match st3 with
                | some l3 =>
                  let moved := !l3.contains f || (l3 == l && decide (i3.rmin ≤ ((healthyCurrent i3).length : Int)))
                  ((((clauses i3 (.ok l3)).filter (fun c => !c.2)).map (·.1)) ++ (if moved then [] else ["failed_peer_replaced"]),
                   allowed i3 (.ok l3), if l3.contains f then "repin-keep" else if l3 == l then "repin-same" else "repin-moved")
                | none => (["pin_lost"], true, "repin")
        let failed := f1 ++ (if stable then f2 else f2 ++ ["stable_reallocation"]) ++ f3
        let a := "seq-" ++ (if st1.isSome then "" else "err-") ++ arm3
        if !failed.isEmpty then "propfail " ++ ",".intercalate failed ++ " arm=" ++ a
        else if !a1 then "diff arm=" ++ a ++ " step=1 model=" ++ showOut (allocate i0)
        else if !a2 then "diff arm=" ++ a ++ " step=2 model=" ++ showOut (allocate (reallocInput i0 (st1.getD []) []))
        else if !a3 then "diff arm=" ++ a ++ " step=3"
        else "ok arm=" ++ a
      | _, _ => "bad-case seq-steps"
    | _, _, _, _, _, _, _, _, _, _ => "bad-case seq-parse"
  | _ => "bad-case seq"

/-! ### whole histories over several CIDs (`C03 hist …`), replayed on `Model/C03Wiring.hstep` -/

structure HistAcc where
  s : HState
  facs : List (Nat × Int × Int) := []      -- cid ↦ factors of the stored pin
  failed : List String := []
  diffs : List String := []
  flags : List String := []
  bad : Option String := none

def updPeers (peers upd : List (Nat × MState)) : List (Nat × MState) :=
  upd.foldl (fun ps u => if ps.any (·.1 == u.1) then ps.map (fun q => if q.1 == u.1 then u else q) else ps ++ [u]) peers

def parseListing (s : String) : Option (List (Nat × List Nat)) :=
  if s == "-" then some [] else
  (s.splitOn ";").mapM (fun e => match e.splitOn "=" with
    | [c, l] => do let c ← c.toNat?; let l ← nats l; pure (c, l)
    | _ => none)

def HistAcc.flag (a : HistAcc) (f : String) : HistAcc := if a.flags.contains f then a else { a with flags := a.flags ++ [f] }

def failedNames (i : Input) (o : Output) : List String := ((clauses i o).filter (fun c => !c.2)).map (·.1)

/-- one re-pin of `cid` (stored on `l`, factors `mn`/`mx`) away from `f`; `l3` = what is stored afterwards -/
def histRepin (a : HistAcc) (cid : Nat) (l : List Nat) (mn mx : Int) (f : Nat) (l3 : Option (List Nat)) : HistAcc :=
  let i3 := a.s.inputFor cid mn mx [f] []
  if allowed i3 .err && l3 == some l then
    -- the model's error arm: "the request fails and nothing changes"
    ({ a with s := hstep a.s (.repin cid mn mx f .err) }).flag "repinerr"
  else match l3 with
    | none => { a with failed := a.failed ++ ["pin_lost"] }
    | some l3 =>
      let moved := !l3.contains f || (l3 == l && decide (i3.rmin ≤ ((healthyCurrent i3).length : Int)))
      let a' := { a with s := hstep a.s (.repin cid mn mx f (.ok l3)),
                         failed := a.failed ++ failedNames i3 (.ok l3) ++ (if moved then [] else ["failed_peer_replaced"]) ++
                                   (if allowed i3 .err then ["failed_repin_changes_nothing"] else []),
                         diffs := a.diffs ++ (if allowed i3 (.ok l3) || allowed i3 .err then [] else ["V" ++ toString f ++ "/" ++ toString cid]) }
      a'.flag (if l3.contains f then "keep" else if l3 == l then "same" else "moved")

def histStep (a : HistAcc) (op res : String) : HistAcc :=
  if a.bad.isSome then a else
  let arg := (op.drop 1).toString
  if op.startsWith "M" then
    match listOf parsePeer arg with
    | some upd => { a with s := hstep a.s (.setPeers (updPeers a.s.peers upd)) }
    | none => { a with bad := some "hist-M" }
  else if op.startsWith "P" then
    match arg.splitOn ":" with
    | [c, mn, mx, ua] =>
      match c.toNat?, mn.toInt?, mx.toInt?, nats ua, (if res == "err" then some Output.err else ((parseStored res).bind id).map Output.ok) with
      | some cid, some mn, some mx, some ua, some o =>
        let i := a.s.inputFor cid mn mx [] ua
        if !positive i then { a with bad := some "hist-factors" } else
        let realloc := !(a.s.allocsOf cid).isEmpty
        -- (a stored allocation with between min and max healthy holders is a fixed point: `allowed` admits only that list — stable_of_count)
        let a' := { a with s := hstep a.s (.decide cid mn mx [] ua o),
                           facs := (match o with | .ok _ => (cid, mn, mx) :: a.facs.filter (·.1 != cid) | _ => a.facs),
                           failed := a.failed ++ failedNames i o,
                           diffs := a.diffs ++ (if allowed i o then [] else ["P" ++ toString cid ++ " model=" ++ showOut (allocate i)]) }
        (match o with
         | .ok _ => if realloc then a'.flag "realloc" else a'.flag "new"
         | _ => a'.flag "err")
      | _, _, _, _, _ => { a with bad := some "hist-P" }
    | _ => { a with bad := some "hist-P" }
  else if op.startsWith "V" then
    match arg.toNat?, parseListing res with
    | some f, some listing =>
      -- every stored pin: allocated to f ⇒ re-pinned (f excluded, no user allocations); otherwise untouched
      let a1 := a.s.stored.foldl (fun acc cl =>
        let l3 := (listing.find? (·.1 == cl.1)).map (·.2)
        if cl.2.contains f then
          match a.facs.find? (·.1 == cl.1) with
          | some (_, mn, mx) => histRepin acc cl.1 cl.2 mn mx f l3
          | none => { acc with bad := some "hist-facs" }
        else if l3 == some cl.2 then acc else { acc with failed := acc.failed ++ ["untouched_if_not_allocated"] }) a
      if listing.all (fun e => a.s.stored.any (·.1 == e.1)) then a1 else { a1 with failed := a1.failed ++ ["pin_appeared"] }
    | _, _ => { a with bad := some "hist-V" }
  else if op.startsWith "U" then
    match arg.toNat? with
    | some cid => { a with s := hstep a.s (.unpin cid), facs := a.facs.filter (·.1 != cid) }
    | none => { a with bad := some "hist-U" }
  else { a with bad := some "hist-op" }

def answerHist (ws : List String) : String :=
  if ws.contains "panic" then "propfail call_panicked arm=hist" else
  match splitArrow ws with
  | some (d :: ops, ress) =>
    match bool01 d with
    | some d =>
      if ops.length != ress.length then "bad-case hist-arity" else
      let a := (ops.zip ress).foldl (fun a (x : String × String) => histStep a x.1 x.2)
        { s := { desc := d, peers := [], stored := [], log := [] } }
      match a.bad with
      | some why => "bad-case " ++ why
      | none =>
        let arm := "hist" ++ String.join (a.flags.map ("-" ++ ·))
        if !(a.s.peers.map (·.1)).Nodup then "bad-case hist-peers" else
        if !a.failed.isEmpty then "propfail " ++ ",".intercalate a.failed.eraseDups ++ " arm=" ++ arm
        -- the theorem's conclusion, evaluated: every logged decision holds at the time it was made
        else if !a.s.log.all (fun io => holds io.1 io.2) then "propfail history_decision_fails arm=" ++ arm
        else if !a.diffs.isEmpty then "diff arm=" ++ arm ++ " step=" ++ ",".intercalate a.diffs
        else "ok arm=" ++ arm ++ (if a.s.log.isEmpty then " trivial" else "")
    | none => "bad-case hist-parse"
  | _ => "bad-case hist"

/-- answer for one case line (tokens after the leading "C03") -/
def answer (ws : List String) : String :=
  if ws.head? == some "valid" then answerValid ws.tail else
  if ws.head? == some "raw" then answerRaw ws.tail else
  if ws.head? == some "block" then answerBlock ws.tail else
  if ws.head? == some "seq" then answerSeq ws.tail else
  if ws.head? == some "hist" then answerHist ws.tail else
  match parseCase ws with
  | none => "bad-case"
  | some (i, o) =>
    if !wf i then "bad-case not-wf" else
    let failed := (clauses i o).filter (fun c => !c.2)
    if !failed.isEmpty then
      "propfail " ++ ",".intercalate (failed.map (·.1)) ++ " arm=" ++ arm i
    else if !allowed i o then
      "diff arm=" ++ arm i ++ " model=" ++ showOut (allocate i)
    else "ok arm=" ++ arm i ++ (if positive i then "" else " trivial")

end CV.C03
