import ClusterVerif.Spec.C03
import Driver.Parse
namespace CV.C03
open CV.Parse

def parseState (s : String) : Option MState :=
  if s == "a" then some .absent
  else if s == "e" then some .expired
  else if s == "i" then some .invalid
  else if s == "n" then some .nonNumeric
  else if s.startsWith "v" then (s.drop 1).toNat?.map .valid
  else none

def parsePeer (s : String) : Option (Nat × MState) :=
  match s.splitOn ":" with
  | [a, b] => do let n ← a.toNat?; let st ← parseState b; pure (n, st)
  | _ => none

def parseOut : List String → Option Output
  | ["err"] => some .err
  | ["panic"] => some .panic
  | ["ok", l] => (nats l).map .ok
  | _ => none

def parseCase (ws : List String) : Option (Input × Output) := do
  let (pre, post) ← splitArrow ws
  match pre with
  | [d, rmin, rmax, ps, cur, bl, pri] =>
    let i : Input := {
      desc := ← bool01 d, rmin := ← rmin.toInt?, rmax := ← rmax.toInt?,
      peers := ← listOf parsePeer ps, current := ← nats cur, blacklist := ← nats bl, priority := ← nats pri }
    let o ← parseOut post
    pure (i, o)
  | _ => none

def showOut : Output → String
  | .ok l => "ok " ++ showNats l
  | .err => "err"
  | .panic => "panic"

/-- which arm of the model the case reached (for the coverage histogram) -/
def arm (i : Input) : String :=
  if i.rmin + i.rmax == 0 then "sum0"
  else if i.rmin < 0 && i.rmax < 0 then "everywhere"
  else
    let nCur : Int := (curIds i).length
    if i.rmax - nCur < 0 then "truncate"
    else if i.rmin - nCur ≤ 0 then "keep"
    else if ((priM i).length + (candM i).length : Int) < i.rmin - nCur then "few-candidates"
    else if (((numerics (priM i)).length + (numerics (candM i)).length : Nat) : Int) < i.rmin - nCur then "few-numeric"
    else if (numerics (priM i)).length > 0 then "alloc-priority" else "alloc"

/-- `C03 valid <min> <max> => ok|err`: isReplicationFactorValid against `factorsValid`; the property
    side: the accepted pairs are exactly (-1,-1) and 0 < min ≤ max (the pairs `allocate` is proved safe for) -/
def answerValid (ws : List String) : String :=
  match ws with
  | [mn, mx, "=>", r] =>
    match mn.toInt?, mx.toInt? with
    | some a, some b =>
      let accepted := r == "ok"
      let specOk := (a == -1 && b == -1) || (decide (0 < a) && decide (a ≤ b))
      if accepted && !specOk then "propfail accepts_unsafe_factor_pair arm=valid"
      else if accepted != factorsValid a b then "diff arm=valid model=" ++ (if factorsValid a b then "ok" else "err")
      else "ok arm=valid" ++ (if accepted then "" else " trivial")
    | _, _ => "bad-case valid"
  | _ => "bad-case valid"

/-- answer for one case line (tokens after the leading "C03") -/
def answer (ws : List String) : String :=
  if ws.head? == some "valid" then answerValid ws.tail else
  match parseCase ws with
  | none => "bad-case"
  | some (i, o) =>
    if !wf i then "bad-case not-wf" else
    let failed := (clauses i o).filter (fun c => !c.2)
    if !failed.isEmpty then
      "propfail " ++ ",".intercalate (failed.map (·.1)) ++ " arm=" ++ arm i
    else if !allowed i o then
      "diff arm=" ++ arm i ++ " model=" ++ showOut (allocate i)
    else "ok arm=" ++ arm i ++ (if positive i then "" else " trivial")

end CV.C03
