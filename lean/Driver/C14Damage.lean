import ClusterVerif.Model.C14Damage
import ClusterVerif.Spec.C14Damage
import Driver.Parse
namespace CV.C14
open CV.Parse CV.C14.Snaps CV.C14.Damage

/-! Snaps suite, cases with a DAMAGED snapshot (`T.I.Cd`) or two snapshots of one (term, index) (round 8c; harness/c14/snaps.go):

  C14 snaps <items> <op> => pre=<f> meta=<t.i|-> off=<f> nmeta=<t.i|-> cnt=<k> old0=<f> old0cnt=<k> err=<0|1>
-/

def fieldD (key : String) (ws : List String) : Option String :=
  (ws.find? (fun w => w.startsWith (key ++ "="))).map (fun w => (w.drop (key.length + 1)).toString)

/-- `some none` = a leftover (t, m, f) -/
def parseItemD (s : String) : Option (Option DSnap) :=
  if s == "t" || s == "m" || s == "f" then some none else
  let bad := s.endsWith "d"
  let body := if bad then (s.dropEnd 1).toString else s
  match body.splitOn "." with
  | [a, b, c] => do pure (some ⟨⟨← a.toNat?, ← b.toNat?, ← c.toNat?⟩, bad⟩)
  | _ => none

def hasDupKey : List DSnap → Bool
  | [] => false
  | x :: t => t.any (fun y => y.s.term == x.s.term && y.s.index == x.s.index) || hasDupKey t

def showReadD : Damage.Read → String
  | .absent => "-" | .nosnap => "e" | .pins c => toString c | .broken => "?"

def parseSReadD (s : String) : Option SRead :=
  if s == "-" then some .absent else if s == "e" then some .nosnap else if s == "?" then some .broken
  else s.toNat?.map .pins

def showMetaD (f : DFolder) : String :=
  match newestD (f.getD []) with | none => "-" | some m => toString m.s.term ++ "." ++ toString m.s.index

def failedNamesD (cs : List (String × Bool)) : String :=
  ",".intercalate (((cs.filter (fun c => !c.2)).map (·.1)).eraseDups)

/-- `none` = not a damage/tie case: the round-8b path answers -/
def answerDamage (ws : List String) : Option String :=
  match splitArrow ws with
  | some ([itS, opS], post) =>
    let isImp := opS.startsWith "i"
    if (itS == "none" || itS == "-") && !isImp then none else
    match (if itS == "none" || itS == "-" then some [] else (itS.splitOn ",").mapM parseItemD) with
    | none => none
    | some its =>
      let l : List DSnap := its.filterMap id
      let junk := decide (its.length > l.length)
      if !(l.any (·.bad) || hasDupKey l || opS == "b" || isImp) then none else
      if opS == "b" then
        -- C14 snaps <items> b => pre=<f> meta=<t.i> start=<f> : the real peer started on the folder
        match fieldD "pre" post, fieldD "meta" post, fieldD "start" post with
        | some pre, some metaS, some st =>
          match parseSReadD pre, parseSReadD st with
          | some rp, some rs =>
            let f : DFolder := some l
            let newestBad := match newestD l with | some m => m.bad | none => false
            let arm := "snaps-boot" ++ (if newestBad then "-damaged-newest" else if l.any (·.bad) then "-damaged-older" else "") ++
              (if hasDupKey l then "-tie" else "") ++ (if junk then "-leftovers" else "")
            let obs : DObs := { pre := rp, off := rp, old0 := .absent, cnt := l.length, old0cnt := 0, failed := false, start := rs }
            let cs := damageClauses false (l.map (fun x => (x.s.term, x.s.index, x.s.pin, x.bad))) .boot obs
            if !cs.all (·.2) then some ("propfail " ++ failedNamesD cs ++ " arm=" ++ arm) else
            let mStart := match startD l with | some c => toString c | none => "?"
            let checks : List (String × Bool) :=
              [("pre", pre == showReadD (offlineD f)), ("meta", metaS == showMetaD f), ("start", st == mStart)]
            if !checks.all (·.2) then
              some ("diff " ++ failedNamesD checks ++ " arm=" ++ arm ++ " model=pre=" ++ showReadD (offlineD f) ++ ",meta=" ++ showMetaD f ++ ",start=" ++ mStart)
            else some ("ok arm=" ++ arm)
          | _, _ => some "bad-case snaps-read"
        | _, _, _ => some "bad-case snaps-parse"
      else
      let parsed := do
        let op : DOp ← (if opS == "o" then some .read else if opS == "c" then some .clean
                        else if opS.startsWith "s" then (opS.drop 1).toNat?.map .save
                        else if isImp then (opS.drop 1).toNat?.map .imp else none)
        let pre ← fieldD "pre" post
        let metaS ← fieldD "meta" post
        let off ← fieldD "off" post
        let nmeta ← fieldD "nmeta" post
        let cnt ← (← fieldD "cnt" post).toNat?
        let old0 ← fieldD "old0" post
        let old0cnt ← (← fieldD "old0cnt" post).toNat?
        let err ← fieldD "err" post
        pure (op, pre, metaS, off, nmeta, cnt, old0, old0cnt, err)
      match parsed with
      | none => some "bad-case snaps-parse"
      | some (op, pre, metaS, off, nmeta, cnt, old0, old0cnt, err) =>
        let f : DFolder := if itS == "none" then none else some l
        let newestBad := match newestD l with | some m => m.bad | none => false
        let arm := "snaps-" ++ (match op with | .read => "read" | .clean => "clean" | .save _ => "save" | .boot => "boot" | .imp _ => "import") ++
          (if itS == "none" then "-nofolder" else if l.isEmpty then "-nosnap" else "") ++
          (if newestBad then "-damaged-newest" else if l.any (·.bad) then "-damaged-older" else "") ++
          (if hasDupKey l then "-tie" else "") ++ (if junk then "-leftovers" else "")
        match parseSReadD pre, parseSReadD off, parseSReadD old0 with
        | some rp, some ro, some rb =>
          let obs : DObs := { pre := rp, off := ro, old0 := rb, cnt := cnt, old0cnt := old0cnt, failed := err != "0" }
          let cs := damageClauses (itS == "none") (l.map (fun x => (x.s.term, x.s.index, x.s.pin, x.bad))) op obs
          if !cs.all (·.2) then some ("propfail " ++ failedNamesD cs ++ " arm=" ++ arm) else
          let after : After := match op with
            | .read => ⟨f, none, false⟩
            | .boot => ⟨f, none, false⟩
            | .imp c => importD f c
            | .clean => cleanupD f
            | .save c => saveD f c
          let checks : List (String × Bool) :=
            [("pre", pre == showReadD (offlineD f)), ("meta", metaS == showMetaD f),
             ("off", off == showReadD (offlineD after.data)), ("nmeta", nmeta == showMetaD after.data),
             ("cnt", cnt == countD after.data),
             ("old0", old0 == showReadD (offlineD after.old0)), ("old0cnt", old0cnt == countD after.old0),
             ("err", (err != "0") == after.failed)]
          if !checks.all (·.2) then
            some ("diff " ++ failedNamesD checks ++ " arm=" ++ arm ++ " model=pre=" ++ showReadD (offlineD f) ++ ",meta=" ++ showMetaD f ++
              ",off=" ++ showReadD (offlineD after.data) ++ ",nmeta=" ++ showMetaD after.data ++ ",cnt=" ++ toString (countD after.data) ++
              ",old0=" ++ showReadD (offlineD after.old0) ++ ",old0cnt=" ++ toString (countD after.old0) ++
              ",err=" ++ (if after.failed then "1" else "0"))
          else some ("ok arm=" ++ arm)
        | _, _, _ => some "bad-case snaps-read"
  | _ => none

end CV.C14
