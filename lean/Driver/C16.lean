import ClusterVerif.Spec.C16
import Driver.Parse
import ClusterVerif.Model.C16Seq
/-!
Case line (after the leading `C16`):

  <op> <cid> <depth> <mode r|d> <src k|-> <norig> <unpinDisable 0|1> <table s,s,..> <script b,b,b> <swarm-beh> <wire>
     => <res> <trace r,r,..|-> <swarm k,k|-> <final s,s,..>

trace items: `ls:<c>:<r|d>`  `add:<c>:<r|d>:<maxdepth|->:<p|n>`  `upd:<f>:<t>:<0|1>`  `rm:<c>`  anything else = other
-/
namespace CV.C16
open CV.Parse

def parseState (s : String) : Option PState :=
  if s == "u" then some .u else if s == "d" then some .d
  else if s == "r" then some .r else if s == "i" then some .i else none

def parseCType (s : String) : Option CType :=
  match s with
  | "j" => some .json | "t" => some .text | "n" => some .none
  | _ => none

def parseBody (s : String) : Option Body :=
  match s with
  | "x" => some .expected | "xa" => some .expectedAny
  | "enp" => some (.errObj .notPinned) | "enx" => some (.errObj .near) | "eap" => some (.errObj .already)
  | "eo" => some (.errObj .other)
  | "nul" => some .jnull | "obj" => some .otherObj | "bm" => some .badMsg | "bt" => some .badType
  | "arr" => some .otherJson | "nj" => some .nonJson | "em" => some .empty
  | _ => none

def parseTransport (s : String) : Option Transport :=
  match s with
  | "f" => some .full | "d0" => some .noHeaders | "sh" => some .stallHeaders
  | "c0" => some (.cut false) | "c1" => some (.cut true) | "sb" => some .stallBody
  | _ => none

/-- a behaviour token: a named form of the first rounds (`ok`, `e`, `st`, …; the wire variant chooses
the status code of `nj` / `empty`) or a point of the product space `h.<status>.<ctype>.<body>.<transport>` -/
def parseBeh (wire : Nat) (s : String) : Option Beh :=
  match s.splitOn "." with
  | ["h", st, ct, bd, tr] => do
    let st ← st.toNat?
    pure ⟨st, ← parseCType ct, ← parseBody bd, ← parseTransport tr⟩
  | _ => Beh.named s wire

def parseOp (s : String) : Option Op :=
  if s == "pin" then some .pin else if s == "unpin" then some .unpin
  else if s == "ls" then some .ls else none

def parseRD (s : String) : Option Bool :=
  if s == "r" then some true else if s == "d" then some false else none

def parseReq (s : String) : Req :=
  match s.splitOn ":" with
  | ["ls", c, t] =>
    match c.toNat?, parseRD t with
    | some c, some t => .ls c t
    | _, _ => .other
  | ["add", c, t, md, p] =>
    match c.toNat?, parseRD t with
    | some c, some t =>
      let md? : Option (Option Nat) := if md == "-" then some none else md.toNat?.map some
      match md? with
      | some md => if p == "p" then .add c t md true else if p == "n" then .add c t md false else .other
      | none => .other
    | _, _ => .other
  | ["upd", f, t, u] =>
    match f.toNat?, t.toNat?, bool01 u with
    | some f, some t, some u => .upd f t u
    | _, _, _ => .other
  | ["rm", c] =>
    match c.toNat? with
    | some c => .rm c
    | none => .other
  | _ => .other

def parseRes (s : String) : Option Res :=
  match s with
  | "ok" => some .ok | "err" => some .err | "errctx" => some .errctx
  | "hang" => some .hang | "panic" => some .panic
  | "st:u" => some (.st .u) | "st:d" => some (.st .d) | "st:r" => some (.st .r) | "st:i" => some (.st .i)
  | "st:other" => some .stOther
  | _ => none

def tableOf (l : List PState) : Table := fun c => l.getD c .u

def parseCase (ws : List String) : Option (Input × Output) := do
  let (pre, post) ← splitArrow ws
  match pre, post with
  | [op, c, depth, mode, src, norig, ud, tab, script, _sw, wire], [res, trace, swarm, final] =>
    let tl ← listOf parseState tab
    let wire ← wire.toNat?
    let i : Input := {
      op := ← parseOp op, n := tl.length, cid := ← c.toNat?, depth := ← depth.toInt?,
      modeRec := ← parseRD mode,
      src := ← (if src == "-" then some none else src.toNat?.map some),
      norig := ← norig.toNat?, unpinDisable := ← bool01 ud,
      table := tableOf tl, script := ← listOf (parseBeh wire) script }
    let fl ← listOf parseState final
    if fl.length != tl.length then none else
    let o : Output := {
      res := ← parseRes res,
      trace := if trace == "-" then [] else (trace.splitOn ",").map parseReq,
      swarm := ← nats swarm, final := tableOf fl }
    pure (i, o)
  | _, _ => none

def showState : PState → String
  | .u => "u" | .d => "d" | .r => "r" | .i => "i"

def showRes : Res → String
  | .ok => "ok" | .st s => "st:" ++ showState s | .stOther => "st:other" | .err => "err"
  | .errctx => "errctx" | .hang => "hang" | .panic => "panic"

def showRD (b : Bool) : String := if b then "r" else "d"

def showReq : Req → String
  | .ls c t => s!"ls:{c}:{showRD t}"
  | .add c t md p => s!"add:{c}:{showRD t}:{match md with | some m => toString m | none => "-"}:{if p then "p" else "n"}"
  | .upd f t u => s!"upd:{f}:{t}:{if u then 1 else 0}"
  | .rm c => s!"rm:{c}"
  | .other => "other"

def showCls : Cls → String
  | .honest => "honest" | .honestAny => "honestAny" | .ipfsErr => "ipfsErr" | .notPinned => "notPinned" | .hardFail => "hardFail"
  | .lostReply => "lostReply" | .stall => "stall" | .noProgress => "noProgress" | .slowOk => "slowOk"
  | .streamErr => "streamErr" | .badBody => "badBody"

def reqKind : Req → String
  | .ls .. => "ls" | .add .. => "add" | .upd .. => "upd" | .rm .. => "rm" | .other => "other"

def showModel (i : Input) : String :=
  let m := ReqM.runReq Gen.ctxSites Gen.reqSites ReqM.genT i
  showRes m.res ++ " " ++ (if m.trace.isEmpty then "-" else ",".intercalate (m.trace.map showReq)) ++
    " swarm<" ++ toString m.swarmMax ++ " " ++ ",".intercalate ((List.range i.n).map (fun c => showState (m.final c)))

/-- model arm: op, kind of the last request, class of the answer it got, result -/
def arm (i : Input) : String :=
  let m := run i
  let opS := match i.op with | .pin => "pin" | .unpin => "unpin" | .ls => "ls"
  match m.trace.reverse with
  | [] => opS ++ "-norequest-" ++ showRes m.res
  | r :: _ =>
    let k := m.trace.length - 1
    opS ++ "-" ++ reqKind r ++ (if m.trace.length == 3 then "2" else "") ++ "-" ++
      showCls (match r with | .ls .. => clsFirst (i.beh k) | _ => clsAt r.isAdd (i.beh k)) ++ "-" ++ showRes m.res

def parseAuxOp (s : String) : Option Aux.Op :=
  match s with
  | "blockGet" => some .blockGet | "blockPut" => some .blockPut | "resolve" => some .resolve
  | "swarmPeers" => some .swarmPeers | "repoGC" => some .repoGC | "configKey" => some .configKey
  | _ => none

def parseAuxRes (s : String) : Option Aux.Res :=
  match s.splitOn ":" with
  | ["ok", a, b] => do pure (.ok (← a.toNat?) (← b.toNat?))
  | ["err"] => some .err | ["errctx"] => some .errctx | ["hang"] => some .hang | ["panic"] => some .panic
  | _ => none

def showAuxRes : Aux.Res → String
  | .ok a b => s!"ok:{a}:{b}" | .err => "err" | .errctx => "errctx" | .hang => "hang" | .panic => "panic"

/-- `aux <op> <beh> <variant> <wire> => <res>` -/
def answerAux (ws : List String) : String :=
  match splitArrow ws with
  | some ([op, beh, v, wire], [res]) =>
    match parseAuxOp op, wire.toNat?, v.toNat?, parseAuxRes res with
    | some op, some wire, some v, some r =>
      match parseBeh wire beh with
      | some b =>
        let i : Aux.In := ⟨op, b, v⟩
        let m := Aux.runCtx Gen.ctxSites i
        let opS := match op with
          | .blockGet => "blockGet" | .blockPut => "blockPut" | .resolve => "resolve"
          | .swarmPeers => "swarmPeers" | .repoGC => "repoGC" | .configKey => "configKey"
        let armS := "aux-" ++ opS ++ "-" ++
          (if b.status == 200 then "200" else if b.status / 100 == 2 then "2xx" else toString (b.status / 100) ++ "xx") ++ "-" ++
          (if m.isOk then "ok" else "err")
        let failed := (Aux.clauses i r).filter (fun c => !c.2)
        if !failed.isEmpty then "propfail " ++ ",".intercalate (failed.map (·.1)) ++ " arm=" ++ armS
        else if r != m then "diff arm=" ++ armS ++ " model=" ++ showAuxRes m
        else "ok arm=" ++ armS
      | none => "bad-case beh"
    | _, _, _, _ => "bad-case"
  | _ => "bad-case"

def parseSt (s : String) : Option ReqM.St :=
  match s with
  | "b" => some .bug | "e" => some .error | "d" => some .direct | "r" => some .recursive
  | "i" => some .indirect | "u" => some .unpinned
  | _ => none

def showSt : ReqM.St → String
  | .bug => "b" | .error => "e" | .direct => "d" | .recursive => "r" | .indirect => "i" | .unpinned => "u"

/-- `_` stands for a blank, `~` for the empty text -/
def decText (s : String) : String := if s == "~" then "" else s.replace "_" " "

def showTypes (o : ReqM.TypesOut) : String :=
  s!"{showSt o.parsed} {if o.pinnedParsed then 1 else 0} {if o.pinnedStatus then 1 else 0} {o.pinType} {o.roundTrip}"

/-- `types <text> <status> <depth> => <parsed> <IsPinned of parsed> <IsPinned of status> <pin type> <round trip>` -/
def answerTypes (ws : List String) : String :=
  match splitArrow ws with
  | some ([text, st, d], [parsed, pp, ps, pt, rt]) =>
    match parseSt st, d.toInt?, parseSt parsed, bool01 pp, bool01 ps with
    | some st, some d, some parsed, some pp, some ps =>
      let text := decText text
      let o : ReqM.TypesOut := ⟨parsed, pp, ps, decText pt, decText rt⟩
      let armS := "types-" ++ showSt parsed ++ "-" ++ (if d < 0 then "neg" else if d == 0 then "zero" else "pos") ++
        "-" ++ (if pp then "pinned" else "not") ++ "-" ++ showSt st ++ (if ps then "1" else "0")
      let failed := (ReqM.typesClauses text st d o).filter (fun c => !c.2)
      if !failed.isEmpty then "propfail " ++ ",".intercalate (failed.map (·.1)) ++ " arm=" ++ armS
      else
        match ReqM.typesT Gen.fromStringTable Gen.isPinnedTable Gen.toPinModeTable Gen.pinModeStringTable text st d with
        | none => "diff arm=" ++ armS ++ " model=none"
        | some m => if m != o then "diff arm=" ++ armS ++ " model=" ++ showTypes m else "ok arm=" ++ armS
    | _, _, _, _, _ => "bad-case"
  | _ => "bad-case"

def answer (ws : List String) : String :=
  if ws.head? == some "aux" then answerAux ws.tail else
  if ws.head? == some "types" then answerTypes ws.tail else
  match parseCase ws with
  | none => "bad-case"
  | some (i, o) =>
    if !wf i then
      -- outside the quantifier (lying daemon / self-contradictory pin): model agreement only
      if ReqM.allowedReq Gen.ctxSites Gen.reqSites ReqM.genT i o then "ok arm=" ++ arm i ++ " trivial"
      else "diff arm=" ++ arm i ++ " model=" ++ showModel i
    else
    let failed := (clauses i o).filter (fun c => !c.2)
    if !failed.isEmpty then
      "propfail " ++ ",".intercalate (failed.map (·.1)) ++ " arm=" ++ arm i
    else if !ReqM.allowedReq Gen.ctxSites Gen.reqSites ReqM.genT i o then
      "diff arm=" ++ arm i ++ " model=" ++ showModel i
    else if !Seq.allowedSeq Gen.pinSeq Gen.unpinSeq i o then
      -- the statement order read from today's source (round 8c) predicts something else
      "diff arm=" ++ arm i ++ " seq-model=" ++
        (match Seq.runSeq Gen.pinSeq Gen.unpinSeq i with | none => "none" | some (m, _) => reprStr m.res)
    else "ok arm=" ++ arm i

end CV.C16
