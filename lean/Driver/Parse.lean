/- Shared parsing helpers for the line protocol (core Lean only). -/
namespace CV.Parse

def words (s : String) : List String := (s.splitOn " ").filter (· ≠ "")

/-- comma separated list, "-" for empty -/
def listOf (f : String → Option α) (s : String) : Option (List α) :=
  if s == "-" then some [] else (s.splitOn ",").mapM f

def nats (s : String) : Option (List Nat) := listOf String.toNat? s
def ints (s : String) : Option (List Int) := listOf String.toInt? s

def bool01 (s : String) : Option Bool :=
  if s == "1" then some true else if s == "0" then some false else none

/-- split a token list at the first "=>" -/
def splitArrow (ws : List String) : Option (List String × List String) :=
  let pre := ws.takeWhile (· ≠ "=>")
  let post := ws.dropWhile (· ≠ "=>")
  match post with
  | _ :: rest => some (pre, rest)
  | [] => none

def showNats (l : List Nat) : String :=
  if l.isEmpty then "-" else ",".intercalate (l.map toString)

end CV.Parse
