import ClusterVerif.Spec.C14
import ClusterVerif.Spec.C14Crdt
import Driver.Parse
import Driver.C14Crash
import Driver.C14Start
import Driver.C14Snaps
namespace CV.C14
open CV.Parse

/-! Line protocol of the C14 harness (see harness/c14/main.go):

  C14 pins <damage> <gen> <prior> => src=<pins> exp=<rt> expc=<rt> mar=<rt> snap=<rt> start=<rt>
  C14 rot <keep> <m> <data> <olds> <ops> => <st> <st> …
  C14 ps <self> <known> <peers> => pinfos=<pinfos> file=<lines> loaded=<lines> order=<ids> after=<pinfos> panic=<0|1>
  C14 psfile <self> <lines, each with optional ~r|~rr> [nl|nonl|bom|bom-nonl] => loaded=<lines> order=<ids> panic=<0|1>
-/

/-- list with separator `sep`, "-" for empty -/
def listSep (sep : String) (f : String → Option α) (s : String) : Option (List α) :=
  if s == "-" then some [] else (s.splitOn sep).mapM f

def optOf (f : String → Option α) (s : String) : Option (Option α) :=
  if s == "-" then some none else (f s).map some

def parsePair (s : String) : Option (Nat × Nat) :=
  match s.splitOn "=" with
  | [a, b] => do pure (← a.toNat?, ← b.toNat?)
  | _ => none

def parsePin (s : String) : Option Pin :=
  match s.splitOn ":" with
  | [c, ty, al, d, rf, rn, rx, nm, mo, sh, ua, ex, me, pu, og] => do
    pure { cid := ← c.toNat?, ptype := ← ty.toNat?, allocs := ← listSep "." String.toNat? al,
           depth := ← d.toInt?, ref := ← optOf String.toNat? rf, rmin := ← rn.toInt?, rmax := ← rx.toInt?,
           name := ← nm.toNat?, mode := ← mo.toNat?, shard := ← sh.toNat?,
           ualloc := ← listSep "." String.toNat? ua, expire := ← ex.toNat?,
           pmeta := ← listSep "." parsePair me, pupdate := ← optOf String.toNat? pu,
           origins := ← listSep "." String.toNat? og }
  | _ => none

def parsePins (s : String) : Option (List Pin) := listSep "/" parsePin s

def parseRT (s : String) : Option (Option RT) :=
  if s == "-" then some none else
  match s.splitOn ";" with
  | [st, ps] => do
    let ok ← (if st == "ok" then some true else if st == "err" then some false else none)
    pure (some { ok := ok, pins := ← parsePins ps })
  | _ => none

/-- value of `key=` among the tokens -/
def field (key : String) (ws : List String) : Option String :=
  (ws.find? (fun w => w.startsWith (key ++ "="))).map (fun w => (w.drop (key.length + 1)).toString)

def showList (f : α → String) (sep : String) (l : List α) : String :=
  if l.isEmpty then "-" else sep.intercalate (l.map f)

def showOptNat : Option Nat → String
  | none => "-"
  | some n => toString n

def showPin (p : Pin) : String :=
  ":".intercalate [toString p.cid, toString p.ptype, showList toString "." p.allocs, toString p.depth,
    showOptNat p.ref, toString p.rmin, toString p.rmax, toString p.name, toString p.mode, toString p.shard,
    showList toString "." p.ualloc, toString p.expire,
    showList (fun (kv : Nat × Nat) => toString kv.1 ++ "=" ++ toString kv.2) "." p.pmeta,
    showOptNat p.pupdate, showList toString "." p.origins]

def showPins (l : List Pin) : String := showList showPin "/" l

def showRes (r : Res × PinMap) : String :=
  (match r.1 with | .ok _ => "ok;" | .err => "err;") ++ showPins r.2

/-! ### pins -/

/-- what the model says the round trip through export/import gives -/
def modelExp (i : PinsIn) (src : PinMap) : Res × PinMap :=
  match exportStream src with
  | none => (.err, fromList i.prior)                -- nothing is imported
  | some js => importState (fromList i.prior) js (!harmless i.damage)

/-- raft export → crdt import → crdt export → raft import into an empty folder -/
def modelExpc (i : PinsIn) (src : PinMap) : Res × PinMap :=
  let first : Res × PinMap :=
    match exportStream src with
    | none => (.err, fromList i.prior)
    | some js => importStateCrdt (fromList i.prior) js (!harmless i.damage)
  match first with
  | (.ok m, _) => (match exportStream m with
      | none => (.err, [])
      | some js => importState [] js false)
  | r => r

/-- raft export → the crdt manager's import onto a datastore that holds `prior` under the crdt namespace
    (and under another one) → offline read of the crdt namespace -/
def modelCrdt (i : PinsIn) (src : PinMap) : Res × PinMap :=
  let ds := Crdt.ofPins 0 (fromList i.prior) ++ Crdt.ofPins 1 (fromList i.prior)
  match exportStream src with
  | none => (.err, Crdt.offlineRead 0 ds)
  | some js => let r := Crdt.importCrdt 0 ds js (!harmless i.damage); (r.1, Crdt.offlineRead 0 r.2)

def modelOthersKept (i : PinsIn) (src : PinMap) : Bool :=
  let ds := Crdt.ofPins 0 (fromList i.prior) ++ Crdt.ofPins 1 (fromList i.prior)
  match exportStream src with
  | none => true
  | some js => (Crdt.importCrdt 0 ds js (!harmless i.damage)).2.filter (fun e => e.ns != 0) == Crdt.ofPins 1 (fromList i.prior)

def rtAgrees (obs : Option RT) (model : Res × PinMap) : Bool :=
  match obs with
  | none => true
  | some r => (r.ok == (match model.1 with | .ok _ => true | .err => false)) && r.pins == model.2

def dedupStr : List String → List String
  | [] => []
  | x :: xs => x :: (dedupStr xs).filter (· != x)

def failedNames (cs : List (String × Bool)) : String :=
  ",".intercalate (dedupStr ((cs.filter (fun c => !c.2)).map (·.1)))

def answerPins (ws : List String) : String :=
  match splitArrow ws with
  | some ([dm, g, pr], post) =>
    let parsed : Option (PinsIn × PinsOut) := do
      let i : PinsIn := { damage := (← dm.toNat?) % 100,  -- +100 / +1000 select extra routes
                            gen := ← parsePins g, prior := ← parsePins pr }
      let o : PinsOut := { src := ← (field "src" post).bind parsePins,
                           exp := ← (field "exp" post).bind parseRT, expc := ← (field "expc" post).bind parseRT,
                           mar := ← (field "mar" post).bind parseRT, snap := ← (field "snap" post).bind parseRT,
                           start := ← (field "start" post).bind parseRT }
      pure (i, o)
    -- a cut Marshal stream (only in damaged cases): whatever was loaded comes from the stream
    let marx : Option RT := ((field "marx" post).bind parseRT).getD none
    -- the crdt datastore read offline right after the real crdtStateManager.ImportState (only in the crdt chain)
    let crdtO : Option RT := ((field "crdt" post).bind parseRT).getD none
    match parsed with
    | none => "bad-case pins-parse"
    | some (i, o) =>
      let wf := pinsWf i
      let arm := "pins" ++ (if !wf then "-notwf" else "") ++
        (if i.gen.any (fun p => !p.origins.isEmpty) then "-origins" else "") ++
        (if !harmless i.damage then "-damaged" else if i.damage != 0 then "-reshaped" else "") ++
        (if i.prior.isEmpty then "" else "-prior") ++ (if i.gen.isEmpty then "-empty" else "") ++
        (if o.start.isSome then "-start" else "") ++ (if crdtO.isSome then "-crdtread" else "") ++
        (if ((dm.toNat?).getD 0) / 100 % 10 == 2 then "-badger" else if o.expc.isSome then "-leveldb" else "")
      let cs := pinsClauses i o ++ crdtClauses i o.src crdtO
      if !allHold cs then "propfail " ++ failedNames cs ++ " arm=" ++ arm else
      let src := fromList i.gen
      let same : Res × PinMap := (.ok src, unmarshal (fromList i.prior) src)
      let checks : List (String × Bool) :=
        [("src", o.src == src), ("exp", rtAgrees o.exp (modelExp i src)), ("expc", rtAgrees o.expc (modelExpc i src)),
         ("crdt", rtAgrees crdtO (modelCrdt i src)),
         -- the key outside the crdt namespace: the model's Clean keeps every entry of another namespace
         ("oth", match field "oth" post with
            | none => true
            | some w => w == "-" || (w == "1") == modelOthersKept i src),
         ("mar", rtAgrees o.mar same), ("snap", rtAgrees o.snap same), ("start", rtAgrees o.start same),
         ("marx", match marx with
            | none => true
            -- `unmarshalCut` for some arrangement and some k (the cut may also fall on an entry boundary: ok)
            | some r => (!r.ok && r.pins == fromList i.prior) ||
                        (sortedMap r.pins && r.pins.all (fun p => src.contains p) && (!r.ok || r.pins.length ≤ src.length)))]
      if !allHold checks then
        "diff " ++ failedNames checks ++ " arm=" ++ arm ++ " model=src=" ++ showPins src ++ " exp=" ++ showRes (modelExp i src)
      else "ok arm=" ++ arm ++ (if !wf || (i.gen.isEmpty && i.prior.isEmpty) then " trivial" else "")
  | _ => "bad-case pins-shape"

/-! ### rot -/

def parseFolder (s : String) : Option (Option (Folder Nat)) :=
  if s == "-" then some none else if s == "e" then some (some .nosnap) else (s.toNat?).map (fun n => some (.snap n))

def parseOp (s : String) : Option (Op Nat) :=
  if s == "c" then some .clean else if s == "m" then some .mkdir
  else if s.startsWith "s" then (s.drop 1).toNat?.map .save
  else if s.startsWith "k" then (s.drop 1).toNat?.map .setKeep
  else none

def parseODirs (s : String) : Option (Option ODirs) :=
  if s == "panic" then some none else
  match s.splitOn ";" with
  | [d, olds, ex] => do
    pure (some { data := ← parseFolder d, old := ← (olds.splitOn ",").mapM parseFolder, extra := ← bool01 ex })
  | _ => none

def showFolder : Option (Folder Nat) → String
  | none => "-"
  | some .nosnap => "e"
  | some (.snap n) => toString n

def showDirs (m : Nat) (d : Dirs Nat) : String :=
  showFolder d.data ++ ";" ++ ",".intercalate ((List.range m).map (fun i => showFolder (d.old i)))

def dirsAgree (m : Nat) (model : Option (Nat × Dirs Nat)) (obs : Option ODirs) : Bool :=
  match model, obs with
  | none, none => true
  | some (_, d), some o => o.data == d.data && !o.extra && o.old.length == m &&
      (List.range m).all (fun i => o.old.getD i none == d.old i)
  | _, _ => false

def listAgree (m : Nat) : List (Option (Nat × Dirs Nat)) → List (Option ODirs) → Bool
  | [], [] => true
  | a :: as, b :: bs => dirsAgree m a b && listAgree m as bs
  | _, _ => false

/-- coverage arm: which shapes of rotation the trace met -/
def rotArm (m : Nat) : List Nat → ODirs → List (Op Nat) → List (Option ODirs) → List String
  | k :: ks, b, op :: ops, a :: as =>
    let here : List String :=
      match b.data, op with
      | some (.snap _), .clean | some (.snap _), .save _ =>
        if k = 0 then [] else
        (if windowFull k b.dirs then ["drop"] else []) ++
        (if (List.range m).any (fun i => decide (i < k) && !runUpTo b.dirs i && (b.dirs.old i).isSome) then ["gap"] else []) ++
        (if (List.range m).any (fun i => decide (k ≤ i) && (b.dirs.old i).isSome) then ["outside"] else []) ++ ["rotate"]
      | _, _ => []
    here ++ (match a with | some a' => rotArm m ks a' ops as | none => ["panic"])
  | _, _, _, _ => []

def answerRot (ws : List String) : String :=
  match splitArrow ws with
  | some ([k, ms, d, olds, opss], post) =>
    let parsed : Option (Nat × Nat × ODirs × List (Op Nat) × List (Option ODirs)) := do
      let init : ODirs := { data := ← parseFolder d, old := ← (olds.splitOn ",").mapM parseFolder, extra := false }
      pure (← k.toNat?, (← ms.toNat?) % 100, init,  -- 100 * (folder name variant) + m
            ← listSep "," parseOp opss, ← post.mapM parseODirs)
    match parsed with
    | none => "bad-case rot-parse"
    | some (keep, m, init, ops, obs) =>
      if init.old.length != m then "bad-case rot-window" else
      let ks := keeps keep ops
      let seen := rotArm m ks init ops obs
      let tags := ["rotate", "drop", "gap", "outside", "panic"].filter seen.contains
      let arm := "rot" ++ String.join (tags.map (fun t => "-" ++ t)) ++
        (if ((ms.toNat?).getD 0) ≥ 100 then "-oddname" else "") ++
        (if ops.contains (.save 0) || init.data == some (.snap 0) then "-emptysnap" else "")
      let cs := rotTraceClauses m ks init ops obs
      if !allHold cs then "propfail " ++ failedNames cs ++ " arm=" ++ arm else
      let model := run (keep, init.dirs) ops
      if !listAgree m model obs then
        "diff arm=" ++ arm ++ " model=" ++ " ".intercalate (model.map (fun s => match s with
          | none => "panic" | some (_, dd) => showDirs m dd))
      else "ok arm=" ++ arm ++ (if tags.contains "rotate" then "" else " trivial")
  | _ => "bad-case rot-shape"

/-! ### peerstore -/

def parseKnown (s : String) : Option Known :=
  match s.splitOn ":" with
  | [i, p, a] => do pure { id := ← i.toNat?, prio := ← optOf String.toNat? p, addrs := ← listSep "." String.toNat? a }
  | _ => none

def parsePinfo (s : String) : Option (Nat × List Nat) :=
  match s.splitOn ":" with
  | [i, a] => do pure (← i.toNat?, ← listSep "." String.toNat? a)
  | _ => none

def parseLine (s : String) : Option (Option Line) :=
  if s == "nil" then some none
  else if s == "E" then some (some .empty)
  else if s == "L" then some (some .long)
  else if s.startsWith "f" then
    match (s.drop 1).toString.splitOn "p" with
    | [a, p] => do pure (some (.full (← a.toNat?) (← p.toNat?)))
    | _ => none
  else if s.startsWith "b" then (s.drop 1).toNat?.map (fun a => some (.bare a))
  else if s.startsWith "x" then (s.drop 1).toNat?.map (fun a => some (.slashBad a))
  else if s.startsWith "n" then (s.drop 1).toNat?.map (fun a => some (.noSlash a))
  else none

def parseLines (s : String) : Option (List (Option Line)) := listSep "," parseLine s
def parseRealLines (s : String) : Option (List Line) := do
  let l ← parseLines s
  l.mapM id

def showLine : Line → String
  | .full a p => "f" ++ toString a ++ "p" ++ toString p
  | .bare a => "b" ++ toString a
  | .slashBad k => "x" ++ toString k
  | .noSlash k => "n" ++ toString k
  | .empty => "E"
  | .long => "L"

def psUniverse : List Nat := List.range 24

def dedupNat : List Nat → List Nat
  | [] => []
  | x :: xs => x :: (dedupNat xs).filter (· != x)

def answerPs (ws : List String) : String :=
  match splitArrow ws with
  | some ([sf, kn, prs], post) =>
    let parsed : Option (PSInput × PSOut) := do
      let i : PSInput := { self := ← sf.toNat?, known := ← listSep "/" parseKnown kn, peers := ← nats prs }
      let o : PSOut := { pinfos := ← (field "pinfos" post).bind (listSep "/" parsePinfo),
                         file := ← (field "file" post).bind parseRealLines,
                         loaded := ← (field "loaded" post).bind parseLines,
                         order := ← (field "order" post).bind nats,
                         after := ← (field "after" post).bind (listSep "/" parsePinfo),
                         panic := ← (field "panic" post).bind bool01 }
      pure (i, o)
    match parsed with
    | none => "bad-case ps-parse"
    | some (i, o) =>
      let hasDns := (listed i).any (fun p => (addrsOf i.known p).any isDns)
      let ties := !(nodupNat ((listed i).map (prioOf i.known)))
      let arm := "ps" ++ (if hasDns then "-dns" else "") ++ (if ties then "-ties" else "") ++
        (if (listed i).length != i.peers.length then "-filtered" else "")
      let cs := psClauses i o
      if !allHold cs then "propfail " ++ failedNames cs ++ " arm=" ++ arm else
      let loadedM := load (save o.pinfos)
      let known2 := importPeers i.self loadedM psUniverse
      let i2 : PSInput := { self := i.self, known := known2, peers := psUniverse }
      let checks : List (String × Bool) :=
        [("pinfos", peerInfosAllowed i o.pinfos), ("file", o.file == save o.pinfos),
         ("loaded", o.loaded == loadedM.map some), ("order", o.order == (peerInfos i2).map (·.1)),
         ("after", o.after.length == known2.length &&
            known2.all (fun k => o.after.any (fun f => f.1 == k.id && sameMembers f.2 (dedupNat k.addrs))))]
      if !allHold checks then
        "diff " ++ failedNames checks ++ " arm=" ++ arm ++ " model=pinfos=" ++
          showList (fun (e : Nat × List Nat) => toString e.1 ++ ":" ++ showList toString "." e.2) "/" (peerInfos i)
      else "ok arm=" ++ arm ++ (if (listed i).isEmpty then " trivial" else "")
  | _ => "bad-case ps-shape"

/-- line token with an optional line-end suffix: `~r` = "\r\n", `~rr` = "\r\r\n" -/
def parseFLine (s : String) : Option FLine :=
  match s.splitOn "~" with
  | [t] => do let l ← parseLine t; pure { l := ← l, cr := 0 }
  | [t, c] => do
    let l ← parseLine t
    let cr ← (if c == "r" then some 1 else if c == "rr" then some 2 else none)
    pure { l := ← l, cr := cr }
  | _ => none

/-- file shape token: `nl` (default) | `nonl` | `bom` | `bom-nonl` -/
def parseShape (s : String) : Option FileShape :=
  if s == "nl" then some { finalNewline := true, bom := false }
  else if s == "nonl" then some { finalNewline := false, bom := false }
  else if s == "bom" then some { finalNewline := true, bom := true }
  else if s == "bom-nonl" then some { finalNewline := false, bom := true }
  else none

def answerPsFile (ws : List String) : String :=
  match splitArrow ws with
  | some (sf :: ls :: shp, post) =>
    let parsed : Option (Nat × FileShape × List FLine × FileOut) := do
      let o : FileOut := { loaded := ← (field "loaded" post).bind parseLines,
                           order := ← (field "order" post).bind nats,
                           panic := ← (field "panic" post).bind bool01 }
      let sh ← (match shp with
        | [] => some { finalNewline := true, bom := false }
        | [t] => parseShape t
        | _ => none)
      pure (← sf.toNat?, sh, ← listSep "," parseFLine ls, o)
    match parsed with
    | none => "bad-case psfile-parse"
    | some (self, sh, ffile, o) =>
      let file := ffile.map (·.l)
      let bad := ffile.any (fun l => !l.parses)
      let arm := "psfile" ++ (if file.any (fun l => match l with | .slashBad _ => true | _ => false) then "-slashbad" else "") ++
        (if file.any (fun l => match l with | .noSlash _ => true | .empty => true | _ => false) then "-noslash" else "") ++
        (if file.any (fun l => match l with | .bare _ => true | _ => false) then "-bare" else "") ++
        (if contiguous (linePeers self file) then "" else "-interleaved") ++
        (if file.contains .long then "-long" else "") ++
        (if ffile.any (fun l => l.cr == 1) then "-crlf" else "") ++ (if ffile.any (fun l => l.cr ≥ 2) then "-crcr" else "") ++
        (if sh.bom then "-bom" else "") ++
        (if sh.finalNewline then "" else match ffile.getLast? with
          | some l => if l.parses then "-nonl" else "-nonlbad"
          | none => "-nonl")
      let cs := fileClauses self sh ffile o
      if !allHold cs then "propfail " ++ failedNames cs ++ " arm=" ++ arm else
      let loadedM := loadShaped sh ffile
      let known2 := importPeers self loadedM psUniverse
      let i2 : PSInput := { self := self, known := known2, peers := psUniverse }
      let checks : List (String × Bool) :=
        [("loaded", !o.panic && o.loaded == loadedM.map some), ("order", o.order == (peerInfos i2).map (·.1))]
      if !allHold checks then
        "diff " ++ failedNames checks ++ " arm=" ++ arm ++ " model=loaded=" ++ showList showLine "," loadedM ++
          " order=" ++ showNats ((peerInfos i2).map (·.1))
      else "ok arm=" ++ arm ++ (if bad || !(linePeers self loadedM).isEmpty then "" else " trivial")
  | _ => "bad-case psfile-shape"

/-- answer for one case line (tokens after the leading "C14") -/
def answer (ws : List String) : String :=
  match ws with
  | "pins" :: rest => answerPins rest
  | "rot" :: rest => answerRot rest
  | "ps" :: rest => answerPs rest
  | "psfile" :: rest => answerPsFile rest
  | "crash" :: rest => answerCrash rest
  | "pscrash" :: rest => answerPsCrash rest
  | "start" :: rest => answerStart rest
  | "snaps" :: rest => answerSnaps rest
  | _ => "bad-case unknown-suite"

end CV.C14
