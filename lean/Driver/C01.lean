import ClusterVerif.Spec.C01
import ClusterVerif.Model.C01Commit
import ClusterVerif.Gen.C01Shutdown
import ClusterVerif.Spec.C01Folder
import ClusterVerif.Model.C01FolderTerm
import Driver.PinParse
/-!
C01 driver. One case = one history:

  C01 <kind> <nrep> <ops> <events> => G<bits> <obs> <obs> ...

* kind: fsm (FSM-level harness), fsmraw (the same, the ops fed to the FSM as raw log entries WITHOUT passing
  the gate of commit(): a robustness stream, not reachable through LogPin / LogUnpin), raft1 (one real Raft
  node), kill (real node killed), net (several real nodes)
* ops: `;`-separated `P<pin>` / `U<pin>` (`-` = none) — the SUBMITTED sequence
* G<bits>: one character per submitted op, what the real `commit()` answered before any attempt
  (1 = went on, 0 = refused with an error); `G-` for no op. The committed sequence is the submitted ops the
  implementation let through; the model's `Op.decodable` must agree with every bit.
* events: `,`-separated `<replica><code>`: a apply (of the next COMMITTED entry), b Snapshot(), p Persist(),
  s = b+p, i<src> install, d shutdown, k kill, r restart, o offline read, x (real-Raft kinds) the next
  submitted op was refused by LogPin / LogUnpin with an error (obs `fail~…`: nothing changed);
  dl / dt / de / dc (real Raft, kind shut): `Consensus.Shutdown(ctx)` with a live context, one with a deadline
  ahead, one whose deadline has passed, one that was cancelled before the call — the model event is what
  `Shut.shutEv` makes of the shape EXTRACTED from raft.go (`Shut.Gen.shape`): shutdown with snapshot, or
  stop without one; the Spec is told that a Shutdown happened
* one obs per event (an `s` event has ONE obs, after the Persist): `res~applied~view~calls`,
  res ok|noop|err|crash, view D|E|<pinset>, calls `-` or `T<pin>`/`U<pin>` joined by `+`;
  a replay observation of the real-Raft harness has a fifth field: the number of entries its snapshot covered.
-/
namespace CV.C01
open CV CV.Parse CV.PinParse

def parseOp (s : String) : Option Op :=
  if s.startsWith "P" then (parsePin (s.drop 1).toString).map .pin
  else if s.startsWith "U" then (parsePin (s.drop 1).toString).map .unpin
  else none

def parseOps (s : String) : Option (List Op) :=
  if s == "-" then some [] else (s.splitOn ";").mapM parseOp

/-- an event token: model events (`s` = Snapshot() then Persist()), or a composite of the real-Raft
    harness, of which only the end is observed: `R<c>` restart and replay up to `c` entries,
    `I<src>:<c>` restart, install the newest snapshot of `src`, replay up to `c`, `A<c>` apply up to `c` -/
inductive Tok where
  | evs (l : List Ev)
  | upTo (pre : List Ev) (c : Nat)
  | burst (c : Nat)     -- FSM harness: entries applied back to back up to `c`, tracker calls in arrival order
  | refused             -- real Raft: LogPin / LogUnpin of the next submitted op returned an error (the gate)
  | snapIfNew           -- real Raft: Snapshot() is only attempted when something was applied since the last one
  | shut (ctx : Shut.Ctx)  -- real Raft: Consensus.Shutdown(ctx)

def parseEvent (s0 : String) : Option (Nat × Tok) := do
  -- `@<k>:<input token>` (kind net) only tells a replay which script token produced this one
  let s := (s0.splitOn "@").headD s0
  let r ← (s.take 1).toString.toNat?
  let rest := (s.drop 1).toString
  if rest == "a" then pure (r, .evs [.apply])
  else if rest == "b" then pure (r, .evs [.snapBegin])
  else if rest == "p" then pure (r, .evs [.snapPersist])
  else if rest == "s" then pure (r, .evs [.snapBegin, .snapPersist])
  else if rest == "d" || rest == "D" then pure (r, .evs [.shutdown])     -- D: the peer was the leader
  else if rest == "k" || rest == "K" then pure (r, .evs [.kill])
  else if rest == "r" then pure (r, .evs [.restart])
  else if rest == "o" then pure (r, .evs [.offline])
  else if rest == "dl" then pure (r, .shut .live)
  else if rest == "dt" then pure (r, .shut .deadline)
  else if rest == "de" then pure (r, .shut .expired)
  else if rest == "dc" then pure (r, .shut .cancelled)
  else if rest.startsWith "i" then do pure (r, .evs [.install (← (rest.drop 1).toString.toNat?)])
  else if rest.startsWith "R" then do pure (r, .upTo [.restart] (← (rest.drop 1).toString.toNat?))
  else if rest.startsWith "A" then do pure (r, .upTo [] (← (rest.drop 1).toString.toNat?))
  else if rest.startsWith "B" || rest.startsWith "S" then do pure (r, .burst (← (rest.drop 1).toString.toNat?))
  else if rest == "n" then pure (r, .snapIfNew)
  else if rest == "x" then pure (r, .refused)
  else if rest.startsWith "I" then
    match (rest.drop 1).toString.splitOn ":" with
    | [a, b] => do pure (r, .upTo [.restart, .install (← a.toNat?)] (← b.toNat?))
    | _ => none
  else none

def parseEvents (s : String) : Option (List (Nat × Tok)) :=
  if s == "-" then some [] else (s.splitOn ",").mapM parseEvent

def parseRes (s : String) : Option Res :=
  if s == "ok" then some .ok else if s == "noop" then some .noop else if s == "err" then some .err
  else if s == "crash" then some .crash else none

def parseView (s : String) : Option View :=
  if s == "D" then some .down else if s == "E" then some .error else (parsePinset s).map .pins

def parseCall (s : String) : Option Call :=
  if s.startsWith "T" then (parsePin (s.drop 1).toString).map .track
  else if s.startsWith "U" then (parsePin (s.drop 1).toString).map .untrack
  else none

def parseCalls (s : String) : Option (List Call) :=
  if s == "-" then some [] else (s.splitOn "+").mapM parseCall

structure RawObs where
  res : Res
  applied : Nat
  view : View
  calls : List Call
  first : Option Nat := none   -- a replay: entries first..applied-1 were re-applied back to back, calls in arrival order
  failed : Bool := false       -- the call (LogPin / LogUnpin) itself returned an error

def parseObs (s : String) : Option RawObs :=
  match s.splitOn "~" with
  | [r, a, v, c] =>
    if r == "fail" then do pure { res := .noop, applied := ← a.toNat?, view := ← parseView v, calls := ← parseCalls c, failed := true }
    else do pure { res := ← parseRes r, applied := ← a.toNat?, view := ← parseView v, calls := ← parseCalls c }
  | [r, a, v, c, f] => do pure { res := ← parseRes r, applied := ← a.toNat?, view := ← parseView v, calls := ← parseCalls c,
                                 first := some (← f.toNat?) }
  | _ => none

def parseGate (s : String) : Option (List Bool) :=
  if s.startsWith "G" then
    let r := (s.drop 1).toString
    if r == "-" then some []
    else r.toList.mapM (fun c => if c == '1' then some true else if c == '0' then some false else none)
  else none

def canonCall : Call → Call
  | .track p => .track (canonPin p)
  | .untrack p => .untrack (canonPin p)

def canonView : View → View
  | .pins m => .pins (canonMap m)
  | v => v

/-- shadow bookkeeping for the snapshot replay window (K09): per replica the highest entry index whose
    effect may be in the store, and the same for each stored snapshot (parallel to `Replica.snaps`) -/
structure Shadow where
  hi : Nat := 0
  snapHi : List (Nat × Nat) := []     -- (snapshot index, hi of its content), most recently written first

def newestHi : List (Nat × Nat) → Option (Nat × Nat)
  | [] => none
  | s :: rest =>
    match newestHi rest with
    | none => some s
    | some t => if t.1 > s.1 then some t else some s

def shadowStep (sh : List Shadow) (pre post : Sys) (i : Nat) (e : Ev) (res : Res) : List Shadow :=
  match sh[i]?, post[i]? with
  | some x, some r' =>
    let x' : Shadow :=
      if res != .ok then x else
      match e with
      | .apply => { x with hi := max x.hi r'.applied }
      | .snapPersist => { x with snapHi := ((((pre[i]?).bind (·.pending)).getD 0), x.hi) :: x.snapHi }
      | .shutdown => if ((pre[i]?).map (·.canSnapshot)).getD false
                     then { x with snapHi := ((((pre[i]?).map (·.applied)).getD 0), x.hi) :: x.snapHi } else x
      | .install j =>
        let h := (((sh[j]?).bind (fun y => newestHi y.snapHi))).getD (0, 0)
        { hi := h.2, snapHi := h :: x.snapHi }
      | .restart => { x with hi := ((newestHi x.snapHi).map (·.2)).getD 0 }
      | _ => x
    sh.set i x'
  | _, _ => sh

structure Acc where
  sys : Sys
  shadow : List Shadow
  trace : List Obs := []            -- implementation observations (reverse order)
  inWindow : List Bool := []        -- per observation: peer inside a snapshot replay window (reverse order)
  firstDiff : Option String := none
  firstDiffAt : Nat := 0
  undecAt : List Bool := []         -- per observation: the model says the entry could not be decoded / the FSM crashed (reverse order)
  beyond : Bool := false            -- the script entered a branch the correspondence does not cover
  nApply : Nat := 0
  feats : List String := []

def addFeat (fs : List String) (f : String) : List String := if fs.contains f then fs else fs ++ [f]


def showRes : Res → String
  | .ok => "ok" | .noop => "noop" | .err => "err" | .crash => "crash"

def oneEvent (ops : List Op) (a : Acc) (i : Nat) (tok : Tok) (o : RawObs) (k : Nat) : Acc :=
  -- run the model events of this token; the observation belongs to the last one
  let pre := a.sys
  let composite := match tok with | .upTo .. => true | .burst _ => true | _ => false
  let isBurst := match tok with | .burst _ => true | .upTo [] _ => true | _ => false
  let preApplied := ((a.sys[i]?).map (·.applied)).getD 0
  let evs : List Ev := match tok with
    | .evs l => l
    | .upTo preEvs c =>
      -- how many applies the model needs after the preamble to reach `c`
      let s1 := preEvs.foldl (fun s e => (step ops s i e).1) a.sys
      let ap := ((s1[i]?).map (·.applied)).getD 0
      preEvs ++ List.replicate (c - ap) .apply
    | .burst c => List.replicate (c - preApplied) .apply
    | .snapIfNew =>
      match a.sys[i]? with
      | some r => if r.up && r.applied == r.offlineIdx then [] else [.snapBegin, .snapPersist]
      | none => []
    -- a refused submission is no event of any replica: the peer is only read
    | .refused => [.offline]
    -- a quiescent node: Raft has applied its whole log when Shutdown is called
    | .shut ctx => [Shut.shutEv Shut.Gen.shape ctx true]
  let (sys', out, sh', beyond, lastEv) := evs.foldl
    (fun (st : Sys × StepOut × List Shadow × Bool × Ev) e =>
      let (s, prev, sh, b, _) := st
      -- Persist() after a refused Snapshot() does not happen
      if e == .snapPersist && evs.length == 2 && prev.res != .ok then (s, prev, sh, b, e) else
      let b' := b || (match e, s[i]? with
        | .apply, some r => r.up && r.poisoned &&
            (match ops[r.applied]? with | some op => !(op.isPin && op.decodable) | none => false)
        | _, _ => false)
      let (s', out) := step ops s i e
      -- a composite reports ok when every part happened, and all tracker calls together
      let out' : StepOut := if composite then
          { res := if prev.res == .ok then out.res else prev.res, calls := prev.calls ++ out.calls }
        else out
      (s', out', shadowStep sh s s' i e out.res, b', e))
    (a.sys, { res := if composite then .ok else .noop }, a.shadow, a.beyond, Ev.apply)
  let r' := (sys'[i]?).getD {}
  let (ev, ea) := observe r' lastEv
  -- whatever the code makes of it, the Spec judges a Shutdown
  let lastEv := match tok with | .shut _ => Ev.shutdown | _ => lastEv
  let isRefused := match tok with | .refused => true | _ => false
  -- the tracker is called synchronously (2ba6875): the calls arrive in the order the model makes them
  let agree := out.res == o.res && ea == o.applied && canonView ev == canonView o.view &&
               arrivalAllowed (out.calls.map canonCall) (o.calls.map canonCall) && o.failed == isRefused
  -- for the Spec a composite is one non-acknowledging observation (its tracker calls are compared with the model's above)
  let obs : Obs := if isBurst
    then { rep := i, ev := .restart, res := o.res, applied := o.applied, view := o.view, calls := o.calls,
           burst := true, first := preApplied }
    else if composite && o.first.isSome
    then { rep := i, ev := .restart, res := o.res, applied := o.applied, view := o.view, calls := o.calls,
           burst := true, first := o.first.getD 0 }
    else if composite
    then { rep := i, ev := .restart, res := o.res, applied := o.applied, view := o.view, calls := [] }
    else { rep := i, ev := lastEv, res := o.res, applied := o.applied, view := o.view, calls := o.calls }
  let win := match sh'[i]? with | some x => decide (x.hi > r'.applied) | none => false
  let feats := a.feats
  let feats := match lastEv with
    | .apply => if out.res == .err then addFeat feats "undecodable" else if out.res == .crash then addFeat feats "crash" else feats
    | .snapPersist => if !composite && evs.length == 1 && ((pre[i]?).bind (·.pending)).any (fun k => decide (k < ((pre[i]?).map (·.applied)).getD 0))
                      then addFeat feats "late-persist" else addFeat feats "snapshot"
    | .install _ => if out.res == .ok then
                      (if ((pre[i]?).map (fun r => !r.store.isEmpty)).getD false then addFeat feats "install-nonempty" else addFeat feats "install") else feats
    | .shutdown => addFeat feats "shutdown"
    | .kill => addFeat feats "kill"
    | .restart => if out.res == .ok then addFeat feats "restart" else feats
    | .offline => if isRefused then feats else addFeat feats "offline"
    | _ => feats
  let feats := match tok with
    | .burst _ => if ea > preApplied + 1 then addFeat feats "burst" else feats
    | .upTo [] _ => addFeat feats "follower-catch-up"
    | .upTo [.restart] _ => addFeat feats "restart-replay"
    | .upTo _ _ => if ((pre[i]?).map (fun r => !(r.offlineView).isEmpty)).getD false
                   then addFeat feats "restart-install-nonempty" else addFeat feats "restart-install"
    | _ => feats
  let feats := match tok with
    | .shut .live => addFeat feats "shutdown-ctx-live"
    | .shut .deadline => addFeat feats "shutdown-ctx-deadline"
    | .shut .expired => addFeat feats "shutdown-ctx-expired"
    | .shut .cancelled => addFeat feats "shutdown-ctx-cancelled"
    | _ => feats
  let feats := if win then addFeat feats "replay-window" else feats
  let feats := if isRefused then addFeat feats "refused-by-commit" else feats
  { sys := sys', shadow := sh', trace := obs :: a.trace, inWindow := win :: a.inWindow,
    firstDiff := match a.firstDiff with
      | some d => some d
      | none => if agree then none else
          some ("ev" ++ toString k ++ ":model=" ++ showRes out.res ++ "~" ++ toString ea ++
                (match ev with | .down => "~D" | .error => "~E" | .pins m => "~size" ++ toString m.length) ++
                "~calls" ++ toString out.calls.length),
    firstDiffAt := (match a.firstDiff with | some _ => a.firstDiffAt | none => k),
    undecAt := (out.res == .err && lastEv == .apply || out.res == .crash) :: a.undecAt,
    beyond := beyond, nApply := a.nApply + (if lastEv == .apply && out.res == .ok then 1 else 0), feats := feats }

def runCase (ops : List Op) (n : Nat) (evs : List (Nat × Tok)) (obs : List RawObs) : Acc :=
  let init : Acc := { sys := initSys n, shadow := List.replicate n {} }
  ((evs.zip obs).foldl (fun (st : Acc × Nat) eo => (oneEvent ops st.1 eo.1.1 eo.1.2 eo.2 st.2, st.2 + 1)) (init, 0)).1

/-! ### kind redir: `C01 redir <CommitRetries> <where><method><nfail>,… => <res>~<forwarded>~<effect> …` -/

structure RedirStep where
  atLeader : Bool
  method : Char
  nfail : Nat

def parseRedirStep (s : String) : Option RedirStep :=
  match s.toList with
  | w :: m :: rest =>
    if (w == 'f' || w == 'l') && (m == 'P' || m == 'U' || m == 'A' || m == 'R' || m == 'X' || m == 'Y') then
      (String.ofList rest).toNat?.map (fun n => { atLeader := w == 'l', method := m, nfail := n })
    else none
  | _ => none

def parseCallObs (s : String) : Option CallObs :=
  match s.splitOn "~" with
  | [r, f, e] => do
    let ok ← if r == "ok" then some true else if r == "err" then some false else none
    let eff ← if e == "1" then some Effect.all else if e == "0" then some Effect.none else if e == "m" then some Effect.mixed else none
    pure { ok := ok, forwarded := ← f.toNat?, effect := eff }
  | _ => none

/-- the oracle the fault injector realises: `nfail` forwards fail, the next one is executed by the leader -/
def redirOracle (st : RedirStep) : List Commit.Outcome :=
  if st.atLeader then [.selfApplyOk] else List.replicate st.nfail .fwdErr ++ [.fwdOk]

/-- X = LogPin of a pin with origins, Y = LogUnpin carrying such a pin: operations the gate refuses -/
def RedirStep.decodable (st : RedirStep) : Bool := !(st.method == 'X' || st.method == 'Y')

def redirExpected (retries : Nat) (st : RedirStep) : CallObs :=
  let r := if st.method == 'A' || st.method == 'R'
    then Commit.commit Commit.expectedRedir Commit.expectedOuter retries (redirOracle st)
    else Commit.commitOp Commit.expectedGate Commit.expectedRedir Commit.expectedOuter retries st.decodable (redirOracle st)
  { ok := !r.err,
    forwarded := (r.consumed.filter (fun x => x == .fwdOk || x == .fwdErr)).length,
    effect := if r.consumed.any (·.success) then .all else .none }

def answerRedir (pre post : List String) : String :=
  match pre with
  | [r, stepsT] =>
    match r.toNat?, (stepsT.splitOn ",").mapM parseRedirStep, post.mapM parseCallObs with
    | some retries, some steps, some obs =>
      if steps.length != obs.length then "bad-case obs-count" else
      let failed := (callClauses obs).filter (fun c => !c.2)
      let arms := (steps.zip obs).map (fun so =>
        "arm=redir+" ++ (if so.1.atLeader then "leader" else "follower") ++ "-" ++ String.singleton so.1.method ++
          (if !so.1.decodable then "-undecodable" else if so.1.atLeader then "" else if so.1.nfail == 0 then "-direct" else if so.1.nfail ≤ retries then "-retried" else "-exhausted") ++
          (if so.2.ok then "-ok" else "-err"))
      let arm := "arm=redir " ++ " ".intercalate arms.eraseDups
      let diffs := ((steps.zip obs).zipIdx).filter (fun soi => redirExpected retries soi.1.1 != soi.1.2)
      if !failed.isEmpty then
        "propfail " ++ ",".intercalate (failed.map (·.1)) ++ " " ++ arm ++ " window=0 origins=0 order=1 agree=" ++
          (if diffs.isEmpty then "1" else "0")
      else match diffs.head? with
        | some d =>
          let e := redirExpected retries d.1.1
          "diff " ++ arm ++ " step" ++ toString d.2 ++ ":model=" ++ (if e.ok then "ok" else "err") ++ "~" ++
            toString e.forwarded ++ "~" ++ (match e.effect with | .all => "1" | .none => "0" | .mixed => "m")
        | none => "ok " ++ arm
    | _, _, _ => "bad-case parse"
  | _ => "bad-case shape"

/-! ### kind fold: `C01 fold <k> <step>,… => <res>~<visible>[~<meta>] …` (data-folder tools, `Model/C01Folder`) -/

def parseCidSet (s : String) : Option (List Nat) :=
  if s == "-" then some [] else (s.splitOn ".").mapM (·.toNat?)

def parseFoldStep (s : String) : Option Folder.Step :=
  match s.toList with
  | ['R'] => some .restart
  | ['n'] => some .snapshot
  | ['d'] => some .shutdown
  | ['o'] => some .offline
  | ['c'] => some .clean
  | 'p' :: rest => (String.ofList rest).toNat?.map .pin
  | 'u' :: rest => (String.ofList rest).toNat?.map .unpin
  | 'i' :: rest => (parseCidSet (String.ofList rest)).map .importSt
  | _ => none

def parseFoldObs (so : Folder.Step × String) : Option Folder.Obs :=
  let isImport := match so.1 with | .importSt _ => true | _ => false
  match so.2.splitOn "~" with
  | [r, v] => do
    let res ← if r == "ok" then some Folder.Res.ok else if r == "err" then some .refused else if r == "noop" then some .noop else none
    if isImport && r == "ok" then none else pure ⟨so.1, res, ← parseCidSet v⟩
  | [r, v, m] => do
    if !isImport || r != "ok" then none
    let res ← if m == "k" then some Folder.Res.kept else if m == "f" then some .fresh else if m == "x" then some .ok else none
    pure ⟨so.1, res, ← parseCidSet v⟩
  | _ => none

def foldResTok : Folder.Res → String
  | .ok => "ok" | .kept => "kept" | .fresh => "fresh" | .refused => "refused" | .noop => "noop"

def foldStepArm (up : Bool) (o : Folder.Obs) : String :=
  "arm=fold+" ++ (match o.step with
    | .pin _ => "pin" | .unpin _ => "unpin" | .snapshot => "snapshot" | .shutdown => "shutdown" | .offline => "offline"
    | .importSt m => if m.isEmpty then "import-empty" else "import" | .clean => if up then "clean-live" else "clean-down"
    | .restart => "start") ++ "-" ++ foldResTok o.res

def foldArms : Bool → List Folder.Obs → List String
  | _, [] => []
  | up, o :: rest => foldStepArm up o :: foldArms (Folder.upAfter up o.step) rest

/-- per observation: (a node runs after the step, the observation shows the acknowledged state, an import over an
    existing snapshot happened before or at this step) -/
def foldMarks : Bool → List Nat → Bool → List Folder.Obs → List (Bool × Bool × Bool)
  | _, _, _, [] => []
  | up, ref, kept, o :: rest =>
    let ref' := Folder.refStep ref o.step o.res
    let up' := Folder.upAfter up o.step
    let kept' := kept || o.res == .kept
    (up', o.vis == ref', kept') :: foldMarks up' ref' kept' rest

def answerFold (pre post : List String) : String :=
  match pre with
  | [_, stepsT] =>
    match (stepsT.splitOn ",").mapM parseFoldStep with
    | none => "bad-case parse-steps"
    | some steps =>
      if steps.length != post.length then "bad-case obs-count" else
      match (steps.zip post).mapM parseFoldObs with
      | none => "bad-case parse-obs"
      | some obs =>
        -- the TERM-AWARE model (`Model/C01FolderTerm`: snapshots ordered by (term, index) as FileSnapshotStore.List does,
        -- CurrentTerm restarting after CleanupRaft) is what the implementation is compared with; the spec stays the intended one
        let model := Folder.runTraceT {} steps
        let stale := Folder.staleShutdowns {} steps
        let arm := "arm=fold " ++ " ".intercalate ((foldArms false model).eraseDups ++
          (if stale > 0 then ["arm=fold+shutdown-snapshot-not-newest"] else []) ++
          (if model != Folder.runTrace {} steps then ["arm=fold+term-model-differs-from-intended"] else []))
        let failed := (Folder.foldClauses obs).filter (fun c => !c.2)
        let diffs := ((model.zip obs).zipIdx).filter (fun mo => mo.1.1 != mo.1.2)
        -- signature of proposal K01e: every wrong observation is an OFFLINE read (node down) after an import that took
        -- over the metadata of an existing snapshot
        let bad := (foldMarks false [] false obs).filter (fun m => !m.2.1)
        let sigK := !bad.isEmpty && bad.all (fun m => !m.1 && m.2.2)
        if !failed.isEmpty then
          "propfail " ++ ",".intercalate (failed.map (·.1)) ++ " " ++ arm ++ " window=0 origins=0 order=1" ++
            (if sigK then " offline-after-import-kept=1" else "") ++ " agree=" ++ (if diffs.isEmpty then "1" else "0")
        else match diffs.head? with
          | some d => "diff " ++ arm ++ " step" ++ toString d.2 ++ ":model=" ++ foldResTok d.1.1.res ++ "~" ++ showNats d.1.1.vis
          | none => "ok " ++ arm ++ (if steps.any (fun st => match st with | .pin _ => true | .importSt _ => true | _ => false) then "" else " trivial")
  | _ => "bad-case shape"

def answer (ws : List String) : String :=
  match splitArrow ws with
  | none => "bad-case no-arrow"
  | some ("redir" :: pre, post) => answerRedir pre post
  | some ("fold" :: pre, post) => answerFold pre post
  | some (pre, []) => "bad-case no-gate-token " ++ toString pre.length
  | some (pre, g :: post) =>
    match pre with
    | [kind, n, opsT, evT] =>
      match n.toNat?, parseOps opsT, parseEvents evT, post.mapM parseObs, parseGate g with
      | some n, some submitted, some evs, some obs, some gate =>
        if gate.length != submitted.length then "bad-case gate-bits " ++ toString gate.length ++ "/" ++ toString submitted.length else
        if evs.length != obs.length then "bad-case obs-count " ++ toString evs.length ++ "/" ++ toString obs.length else
        if evs.any (fun e => e.1 ≥ n) then "bad-case replica-index" else
        let raw := kind == "fsmraw"
        let fsmLevel := raw || kind == "fsm"
        let nRefusedToks := (evs.filter (fun e => match e.2 with | .refused => true | _ => false)).length
        if !fsmLevel && nRefusedToks != (gate.filter (fun b => !b)).length then "bad-case refused-count" else
        if fsmLevel && nRefusedToks != 0 then "bad-case refused-token-in-fsm-case" else
        -- the committed sequence: what the IMPLEMENTATION's commit() let through (fsmraw: the entries as fed)
        let ops := if raw then submitted else ((submitted.zip gate).filter (·.2)).map (·.1)
        -- the model's gate must agree with the real one on every submitted op
        let gateDiff := ((submitted.zip gate).zipIdx).find? (fun x => x.1.1.decodable != x.1.2)
        let a := runCase ops n evs obs
        let origins := ops.any (fun o => !o.thePin.opts.origins.isEmpty)
        let undef := ops.any (fun o => o.thePin.cid == undefCid || o.thePin.ref == some undefCid)
        let feats := a.feats
        let feats := if !raw && gate.any (fun b => !b) then addFeat feats "gate-refused" else feats
        let feats := if raw then addFeat feats "not-reachable-through-commit" else feats
        let evToks := evT.splitOn ","
        let feats := if evToks.any (fun t => ((t.splitOn "@").headD t).endsWith "D") then addFeat feats "leader-shutdown" else feats
        let feats := if evToks.any (fun t => ((t.splitOn "@").headD t).endsWith "K") then addFeat feats "leader-stopped-no-snapshot" else feats
        let feats := if evToks.any (fun t => t.endsWith ":3C" && (((t.splitOn "@").headD t).drop 1).startsWith "R") then addFeat feats "old-leader-back-replay" else feats
        let feats := if evToks.any (fun t => t.endsWith ":3C" && (((t.splitOn "@").headD t).drop 1).startsWith "I") then addFeat feats "old-leader-back-install" else feats
        let arm := "arm=" ++ kind ++ " " ++ " ".intercalate (feats.map (fun f => "arm=" ++ kind ++ "+" ++ f))
        if a.beyond then "bad-case beyond-model (op applied on a poisoned FSM)" else
        -- fsmraw: from the first entry the FSM cannot decode on, the history is not one `commit` can produce:
        -- the property is judged on the part before it, the rest is only compared with the model
        let cutU := if raw then (a.undecAt.reverse.takeWhile (fun b => !b)).length else a.trace.length
        let trace := a.trace.reverse.take cutU
        let wins := a.inWindow.reverse.take cutU
        let undec := a.undecAt.reverse.take cutU
        -- The part of the history before the first observation touched by a recorded defect (a peer inside
        -- a snapshot replay window; an entry the FSM refused, which only a broken gate lets through) is an
        -- ordinary history: it is judged first, on its own.
        let touched := (undec.zip wins).map (fun uw => uw.1 || uw.2)
        let cut := (touched.takeWhile (fun b => !b)).length
        let report := fun (tr : List Obs) (ws : List Bool) (orig : Bool) (failed : List (String × Bool)) =>
          let bad := (tr.zip ws).filter (fun ow =>
            !(prefixOk ops ow.1 && ackVisibleOk ops ow.1 && ackDurableOk ops ow.1))
          let window := !bad.isEmpty && bad.all (·.2)
          "propfail " ++ ",".intercalate (failed.map (·.1)) ++ " " ++ arm ++
            " window=" ++ (if window then "1" else "0") ++ " origins=" ++ (if orig then "1" else "0") ++
            (if undef then " undef=1" else "") ++
            " order=" ++ (if tr.all (trackerOrderOk ops) then "1" else "0") ++
            -- does the implementation behave exactly as the model (which includes the recorded defects) predicts?
            " agree=" ++ (if a.firstDiff.isNone then "1" else "0")
        let failedPre := (clauses ops (trace.take cut) ++ shutdownClauses (trace.take cut)).filter (fun c => !c.2)
        let failed := (clauses ops trace ++ shutdownClauses trace).filter (fun c => !c.2)
        if !failedPre.isEmpty then report (trace.take cut) (wins.take cut) false failedPre
        else if a.firstDiff.isSome && a.firstDiffAt < cut then "diff " ++ arm ++ " " ++ a.firstDiff.getD ""
        else if !failed.isEmpty then report trace wins origins failed
        else match gateDiff with
          | some d => "diff " ++ arm ++ " gate:op" ++ toString d.2 ++ ":model=" ++
                        (if d.1.1.decodable then "decodable" else "undecodable") ++ ",commit=" ++ (if d.1.2 then "went-on" else "refused")
          | none =>
            match a.firstDiff with
            | some d => "diff " ++ arm ++ " " ++ d
            | none => "ok " ++ arm ++ (if a.nApply == 0 then " trivial" else "")
      | _, _, _, _, _ => "bad-case parse"
    | _ => "bad-case shape"

end CV.C01
