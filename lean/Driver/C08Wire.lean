import ClusterVerif.Spec.C08
import ClusterVerif.Model.C08Wire
import ClusterVerif.Model.C08Mp
import Driver.Parse
/-! C08 driver, suite `wire`: the byte-level models of `Model/C08Wire.lean` against the real
`Pin.ProtoMarshal`, `proto.Unmarshal`/`Pin.ProtoUnmarshal`, `url.QueryEscape/QueryUnescape/ParseQuery`.
Core Lean only. -/
namespace CV.C08
open CV.Parse
open CV.C08.Wire

def hexNib (c : Char) : Option Nat :=
  if c.isDigit then some (c.toNat - '0'.toNat)
  else if 'a' ≤ c && c ≤ 'f' then some (c.toNat - 'a'.toNat + 10)
  else if 'A' ≤ c && c ≤ 'F' then some (c.toNat - 'A'.toNat + 10) else none

def unhexChars : List Char → Option Bytes
  | [] => some []
  | a :: b :: rest => do
    let x ← hexNib a; let y ← hexNib b; let r ← unhexChars rest
    pure (UInt8.ofNat (x * 16 + y) :: r)
  | _ => none

/-- `x<hex>` or `h<hex>` -/
def unhexTok (s : String) : Option Bytes :=
  if s.startsWith "x" || s.startsWith "h" then unhexChars (s.drop 1).toString.toList else none

def hexChar (n : Nat) : Char := if n < 10 then Char.ofNat (48 + n) else Char.ofNat (87 + n)
def hexOf (bs : Bytes) : String := String.ofList (bs.flatMap fun b => [hexChar (b.toNat / 16), hexChar (b.toNat % 16)])

/-- bytes of a string token `~…` (the harness's percent-encoding; other characters are ASCII) -/
def pctBytes : List Char → Bytes
  | '%' :: a :: b :: rest =>
    match hexNib a, hexNib b with
    | some x, some y => UInt8.ofNat (x * 16 + y) :: pctBytes rest
    | _, _ => 37 :: pctBytes (a :: b :: rest)
  | c :: rest => UInt8.ofNat c.toNat :: pctBytes rest
  | [] => []

def tokBytes (tok : String) : Bytes := pctBytes (tok.drop 1).toString.toList

def upHex (n : Nat) : Char := if n < 10 then Char.ofNat (48 + n) else Char.ofNat (55 + n)

/-- the harness's string token of a byte string (`wire.StrTok`) -/
def strTok (bs : Bytes) : String :=
  "~" ++ String.ofList (bs.flatMap fun b =>
    let c := Char.ofNat b.toNat
    if b.toNat < 128 && (c.isAlphanum || c == '_') then [c] else ['%', upHex (b.toNat / 16), upHex (b.toNat % 16)])

abbrev Dict := List (String × Bytes)

def parseDict (w : String) : Option Dict :=
  if !w.startsWith "dict=" then none else
  let body := (w.drop 5).toString
  if body == "-" then some [] else
  (body.splitOn ",").mapM fun e => match e.splitOn ":" with
    | [t, h] => (unhexChars h.toList).map fun b => (t, b)
    | _ => none

def dictGet (d : Dict) (t : String) : Option Bytes := (d.find? fun e => e.1 == t).map (·.2)

/-! ## pbenc -/

/-- the `pb.Pin` message `ProtoMarshal` builds, leaves as bytes; `none` = a token without byte form -/
def rawOfPin (d : Dict) (p : Pin) : Option PinRaw := do
  let m := protoEncode p
  let cidB := fun (c : Option String) => match c with | none => some [] | some t => dictGet d t
  let allocs ← m.allocs.mapM fun t => if t == emptyPeer then some [] else dictGet d t
  let origins ← m.opts.origins.mapM fun o => dictGet d o.tok
  pure { cid := ← cidB m.cid, type := m.type, allocs := allocs, maxDepth := m.maxDepth, reference := ← cidB m.reference,
         opts := some { rmin := m.opts.rmin, rmax := m.opts.rmax, name := tokBytes m.opts.name, shardSize := m.opts.shardSize,
                        metadata := m.opts.metadata.map fun kv => (tokBytes kv.1, tokBytes kv.2),
                        pinUpdate := ← cidB m.opts.pinUpdate, expireAt := m.opts.expireAt, origins := origins } }

def sortMeta (p : PinRaw) : PinRaw := { p with opts := p.opts.map fun o => { o with metadata := sortKV o.metadata } }

def answerPbEnc (pre post : List String) : String :=
  let kvw := pre.filter fun w => !w.startsWith "dict="
  match parseKVs kvw, (pre.find? fun w => w.startsWith "dict=").bind parseDict, post with
  | some kvs, some d, [res] =>
    -- a nil element of Origins: `orig.Bytes()` is a method call on a nil interface (a Go value no decoder or
    -- producer builds; outside well-formedness) — the modelled outcome is the panic
    if ((getF kvs "PinOptions.Origins").map fun t => (t.splitOn ",").contains "m-").getD false then
      (if res == "encpanic" then "ok arm=pbenc-nil-origin-panic trivial" else "diff arm=pbenc model=encpanic")
    else
    match parsePin kvs "" with
    | none => "bad-case pbenc-pin"
    | some p =>
      match rawOfPin d p with
      | none => "bad-case pbenc-dict"
      | some raw =>
        match encodePin raw with
        | none => if res == "encerr" then "ok arm=pbenc-invalid-utf8" else "diff arm=pbenc model=encerr"
        | some mb =>
          match unhexTok res with
          | none => if res == "encpanic" then "propfail no_crash arm=pbenc-panic" else "diff arm=pbenc model=bytes real=" ++ res
          | some rb =>
            -- the real bytes, read by the model decoder, are the message; re-encoded in the map order they came in
            -- they are the real bytes exactly; with at most one map entry the model's bytes are the real bytes
            match decodePin rb with
            | none => "diff arm=pbenc model-decoder-rejects-real-bytes"
            | some r =>
              if sortMeta r != sortMeta raw then "diff arm=pbenc message-differs model=" ++ (reprStr (sortMeta raw)).take 200
              else if encodeToks (toksPin r) != rb then "diff arm=pbenc bytes-differ model=x" ++ (hexOf (encodeToks (toksPin r))).take 200
              else if (raw.opts.map (·.metadata.length)).getD 0 ≤ 1 && mb != rb then "diff arm=pbenc bytes-differ-exact model=x" ++ (hexOf mb).take 200
              else "ok arm=pbenc-bytes" ++ (if wfMsgD raw then "" else " trivial")
  | _, _, _ => "bad-case pbenc-shape"
where
  wfMsgD (raw : PinRaw) : Bool := wfPinRaw raw && fitsWire raw

/-! ## pbdec -/

/-- `h<hex>:<tok>` -/
def parseLeaf (e : String) : Option (Bytes × String) :=
  match e.splitOn ":" with
  | [h, t] => (unhexTok h).map fun b => (b, t)
  | _ => none

def parseLeaves (tok : String) : Option (List (Bytes × String)) :=
  if tok == "-" then some [] else (tok.splitOn ",").mapM parseLeaf

structure RawDump where
  raw : PinRaw
  cid : String
  allocs : List String
  reference : String
  pinUpdate : String
  origins : List String

def parseRawDump (kvs : KVs) : Option RawDump := do
  let g := fun n => getF kvs n
  let cid ← parseLeaf (← g "Cid")
  let allocs ← parseLeaves (← g "Allocations")
  let ref ← parseLeaf (← g "Reference")
  let upd ← parseLeaf (← g "PinUpdate")
  let origins ← parseLeaves (← g "Origins")
  let md ← (← g "Metadata")
  let meta' ← if md == "-" then some [] else (md.splitOn ",").mapM fun e => match e.splitOn ":" with
    | [k, v] => do pure ((← unhexTok k), (← unhexTok v))
    | _ => none
  let o : OptsRaw := { rmin := ← (← g "Rmin").toInt?, rmax := ← (← g "Rmax").toInt?, name := ← unhexTok (← g "Name"),
                        shardSize := ← (← g "ShardSize").toNat?, metadata := meta', pinUpdate := upd.1,
                        expireAt := ← (← g "ExpireAt").toNat?, origins := origins.map (·.1) }
  let has ← g "HasOptions"
  pure { raw := { cid := cid.1, type := ← (← g "Type").toInt?, allocs := allocs.map (·.1), maxDepth := ← (← g "MaxDepth").toInt?,
                  reference := ref.1, opts := if has == "1" then some o else none },
         cid := cid.2, allocs := allocs.map (·.2), reference := ref.2, pinUpdate := upd.2, origins := origins.map (·.2) }

/-- `ProtoUnmarshal` after `proto.Unmarshal`, on whatever message came out: a CID that does not parse is
    `cid.Undef` / a nil reference, a peer or a multiaddress that does not parse is an error, the type is
    `1 << uint64(enum)` (0 for a negative or ≥ 64 enum value) -/
def protoDecodeJunk (rd : RawDump) : Res Pin :=
  if rd.allocs.any (· == "p!") || rd.origins.any (· == "m!") then .decErr else
  let cidOf := fun (t : String) => if t == "c!" || t == "c-" then none else some t
  let o := rd.raw.opts.getD OptsRaw.zero
  let ty : Nat := if rd.raw.type < 0 || rd.raw.type ≥ 64 then 0 else 2 ^ rd.raw.type.toNat
  .ok { cid := cidOf rd.cid, type := ty, allocs := rd.allocs, maxDepth := rd.raw.maxDepth, reference := cidOf rd.reference,
        opts := { rmin := o.rmin, rmax := o.rmax, name := strTok o.name, mode := toPinMode rd.raw.maxDepth, shardSize := o.shardSize,
                  userAllocs := [], expireAt := if o.expireAt > 0 then ⟨toI64 o.expireAt, 0⟩ else Time.zero,
                  metadata := o.metadata.map fun kv => (strTok kv.1, strTok kv.2), pinUpdate := cidOf rd.pinUpdate,
                  origins := rd.origins.map fun t => ⟨t, t.startsWith "mp"⟩ } }

def pbdecClass (r : PinRaw) : String :=
  if r.opts.isNone then "no-options" else "message"

def answerPbDec (pre post : List String) : String :=
  match pre with
  | [hx] =>
    match unhexTok hx with
    | none => "bad-case pbdec-hex"
    | some bs =>
      let m := decodePin bs
      match post with
      | ["panic"] => "propfail decoder_no_panic arm=pbdec-panic"
      | ["inconsistent"] => "diff arm=pbdec proto.Unmarshal-and-ProtoUnmarshal-disagree"
      | ["err"] => (match m with
          | none => "ok arm=pbdec-err"
          | some r => "diff arm=pbdec-err model=ok " ++ (reprStr r).take 200)
      | "ok" :: rest =>
        let rawW := rest.takeWhile (· ≠ "|")
        let pinW := (rest.dropWhile (· ≠ "|")).drop 1
        match (parseKVs rawW).bind parseRawDump, m with
        | none, _ => "bad-case pbdec-raw"
        | some _, none => "diff arm=pbdec-ok model=err"
        | some rd, some r =>
          if sortMeta r != sortMeta rd.raw then "diff arm=pbdec-ok message-differs model=" ++ (reprStr (sortMeta r)).take 300 else
          if !wfPinRaw r then "propfail decode_total_wf arm=pbdec-ok" else
          match pinW with
          | ["decpanic"] => "propfail decoder_no_panic arm=pbdec-ProtoUnmarshal-panic"
          | ["dumppanic"] => "propfail decoder_no_panic arm=pbdec-dump-panic"
          | ["decerr"] => (match protoDecodeJunk rd with
              | .decErr => "ok arm=pbdec-" ++ pbdecClass r ++ "-decerr"
              | _ => "diff arm=pbdec-decerr model=ok")
          | "ok" :: outW =>
            (match parseKVs outW, protoDecodeJunk { rd with raw := sortMeta rd.raw } with
            | some out, .ok p => if showPin p == out then "ok arm=pbdec-" ++ pbdecClass r ++ "-ok"
                                 else "diff arm=pbdec-pin first=" ++ firstDiffW (showPin p) out
            | some _, _ => "diff arm=pbdec-pin model=decerr"
            | none, _ => "bad-case pbdec-pin-tokens")
          | _ => "bad-case pbdec-pin-shape"
      | _ => "bad-case pbdec-outcome"
  | _ => "bad-case pbdec-shape"
where
  firstDiffW : KVs → KVs → String
    | (p, a) :: xs, (q, b) :: ys => if p == q && a == b then firstDiffW xs ys else p ++ "=" ++ a ++ "/" ++ q ++ "=" ++ b
    | [], [] => "-"
    | (p, a) :: _, [] => p ++ "=" ++ a ++ "/missing"
    | [], (q, b) :: _ => "missing/" ++ q ++ "=" ++ b

/-! ## query text -/

def answerQEsc (pre post : List String) : String :=
  match pre, post with
  | [hx], [esc, un] =>
    match unhexTok hx, unhexTok esc with
    | some bs, some e =>
      let mu := unescape bs
      let okU := match mu with | none => un == "err" | some u => un == "x" ++ hexOf u
      if escape bs != e then "diff arm=qesc-escape model=x" ++ hexOf (escape bs)
      else if !okU then "diff arm=qesc-unescape model=" ++ (match mu with | none => "err" | some u => "x" ++ hexOf u)
      else if unescape (escape bs) != some bs then "propfail roundtrip_query arm=qesc-left-inverse"
      else "ok arm=qesc-" ++ (if validUtf8 bs then "utf8" else "invalid-utf8") ++ (if mu.isNone then "-unescape-err" else "")
    | _, _ => "bad-case qesc-hex"
  | _, _ => "bad-case qesc-shape"

def answerQParse (pre post : List String) : String :=
  match pre with
  | [hx] =>
    match unhexTok hx with
    | none => "bad-case qparse-hex"
    | some bs =>
      match parseQuery bs, post with
      | _, ["panic"] => "propfail decoder_no_panic arm=qparse-panic"
      | none, ["err"] => "ok arm=qparse-err"
      | none, _ => "diff arm=qparse model=err"
      | some _, ["err"] => "diff arm=qparse-err model=ok"
      | some l, "ok" :: ws =>
        let got := ws.mapM fun w => match w.splitOn "=" with
          | [k, v] => do pure ((← unhexTok k), (← unhexTok v))
          | _ => none
        (match got with
        | none => "bad-case qparse-pairs"
        | some g => if sortKV l == g then "ok arm=qparse-ok" else "diff arm=qparse-ok model=" ++ (reprStr (sortKV l)).take 200)
      | _, _ => "bad-case qparse-outcome"
  | _ => "bad-case qparse-shape"

/-! ## msgpack envelope of dsstate (`Model/C08Mp.lean`) -/

def asciiBytes (s : String) : Bytes := s.toUTF8.toList

/-- `key=x<hex>` or `key=nil` -/
def parseMpEnt (w : String) : Option Mp.Entry :=
  match w.splitOn "=" with
  | [k, v] => if v == "nil" then some { key := asciiBytes k, value := none }
              else (unhexTok v).map fun b => { key := asciiBytes k, value := some b }
  | _ => none

def decodeAll : Nat → Bytes → Option (List Mp.Entry)
  | 0, _ => none
  | f + 1, bs =>
    match Mp.decodeEntry bs with
    | .eof => some []
    | .ok e r => (decodeAll f r).map (e :: ·)
    | _ => none

def sameEntries (a b : List Mp.Entry) : Bool :=
  a.length == b.length && a.all (fun e => b.contains e)

def answerMpEnc (pre post : List String) : String :=
  match pre.mapM parseMpEnt, post with
  | none, _ => "bad-case mpenc-entries"
  | some _, ["panic"] => "propfail no_crash arm=mpenc-panic"
  | some _, ["err"] => "diff arm=mpenc model=ok"
  | some es, [hx] =>
    (match unhexTok hx with
    | none => "bad-case mpenc-hex"
    | some bs =>
      match decodeAll (bs.length + 1) bs with
      | none => "diff arm=mpenc-model-cannot-read model=entries"
      | some ds =>
        if !sameEntries es ds then "diff arm=mpenc-entries model=" ++ (reprStr ds).take 200
        else if Mp.marshal ds != bs then "diff arm=mpenc-bytes model=x" ++ (hexOf (Mp.marshal ds)).take 200
        else match Mp.unmarshal [(asciiBytes "zz", [1])] bs with
          | .ok s => if s.length == es.length && es.all (fun e => s.contains (e.key, Mp.valBytes e.value))
                     then "ok arm=mpenc-" ++ (if es.isEmpty then "empty" else if es.any (fun e => e.key.length ≥ 32 || (Mp.valBytes e.value).length ≥ 32) then "long-raw" else "fixraw")
                     else "propfail roundtrip_snapshot arm=mpenc-model-roundtrip"
          | _ => "propfail roundtrip_snapshot arm=mpenc-model-roundtrip")
  | _, _ => "bad-case mpenc-shape"

def parseStoreTok (w : String) : Option (Bytes × Bytes) :=
  match w.splitOn "=" with
  | [k, v] => (unhexTok v).map fun b => (asciiBytes k, b)
  | _ => none

def showStore (s : Mp.Store) : String :=
  " ".intercalate (s.map fun e => String.ofList (e.1.map fun b => Char.ofNat b.toNat) ++ "=x" ++ hexOf e.2)

def answerMpDec (pre post : List String) : String :=
  match pre, post with
  | [o, hx], status :: dump =>
    let oldToks := if o == "old=-" then [] else ((o.drop 4).toString.splitOn ",")
    (match oldToks.mapM parseMpEnt, unhexTok hx, dump.mapM parseStoreTok with
    | some old, some bs, some got =>
      if status == "panic" then "propfail no_crash arm=mpdec-panic" else
      let oldS : Mp.Store := old.map fun e => (e.key, Mp.valBytes e.value)
      let same (s : Mp.Store) : Bool := s.length == got.length && s.all (fun e => got.contains e)
      let trunc := match decodeAll (bs.length + 1) bs with | some _ => false | none => true
      (match Mp.unmarshal oldS bs with
      | .outside => "ok arm=mpdec-outside-model trivial"
      | .ok s =>
        if status != "ok" then "diff arm=mpdec-ok model=ok " ++ showStore s
        else if !same s then "diff arm=mpdec-ok-store model=ok " ++ showStore s
        else "ok arm=mpdec-ok" ++ (if bs.isEmpty then "-empty-stream" else if trunc then "-cut-stream-accepted" else "")
      | .err s =>
        if status != "err" then "diff arm=mpdec-err model=err " ++ showStore s
        else if !same s then "diff arm=mpdec-err-store model=err " ++ showStore s
        else "ok arm=mpdec-err-no-key" ++ (if s == oldS then "-store-kept" else "-store-partial"))
    | _, _, _ => "bad-case mpdec-tokens")
  | _, _ => "bad-case mpdec-shape"

def answerWire (kind : String) (ws : List String) : String :=
  match splitArrow ws with
  | none => "bad-case arrow"
  | some (pre, post) =>
    if kind == "mpenc" then answerMpEnc pre post
    else if kind == "mpdec" then answerMpDec pre post
    else if kind == "pbenc" then answerPbEnc pre post
    else if kind == "pbdec" then answerPbDec pre post
    else if kind == "qesc" then answerQEsc pre post
    else answerQParse pre post

end CV.C08
