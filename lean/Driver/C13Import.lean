import ClusterVerif.Model.C13Import
import Driver.Parse
/-! C13 driver, content part: runs the importer model (Model/C13Import.lean) on the case's tree and import
    parameters and compares with the structure dump of the DAG the destinations received (`dag=`, `files=`
    tokens written by harness/c13/dump.go). File contents are not on the case line: a file is a list of
    `Unit`s of its length (structure depends on lengths only). Core Lean only. -/
namespace CV.C13.Imp
open CV CV.Parse

/-! ### rendering (same syntax as harness/c13/dump.go without the `#id`s) -/

def commaJoin (l : List String) : String := ",".intercalate l

mutual
def renderF {α : Type} (len : α → Nat) : FNode α → String
  | .leaf k d => kindTag k ++ toString (len d)
  | .inner [] _ => "f0"   -- the unixfs File node without data or links: one encoding for the empty leaf and the empty root
  | .inner (k :: ks) s => "(" ++ commaJoin (renderFL len (k :: ks)) ++ ")[" ++ natsTok s ++ "]"
def renderFL {α : Type} (len : α → Nat) : List (FNode α) → List String
  | [] => []
  | k :: ks => renderF len k :: renderFL len ks
end

mutual
def renderU {α : Type} (len : α → Nat) : UNode α → String
  | .file n => renderF len n
  | .symlink t => "l" ++ t
  | .dir ls => "{" ++ commaJoin (renderUL len ls) ++ "}"
def renderUL {α : Type} (len : α → Nat) : List (String × UNode α) → List String
  | [] => []
  | (n, u) :: rest => (n ++ "=" ++ renderU len u) :: renderUL len rest
end

/-! ### the tree token: name=node,…  node := f<size>[s<seed>] | z<size> | l<target> | d[entries] -/

def isNameChar (c : Char) : Bool := c.isAlphanum || c == '.' || c == '_'

def takeWhileC (p : Char → Bool) : List Char → List Char × List Char
  | [] => ([], [])
  | c :: cs => if p c then let r := takeWhileC p cs; (c :: r.1, r.2) else ([], c :: cs)

def numOf (cs : List Char) : Option Nat := if cs.isEmpty then none else (String.ofList cs).toNat?

mutual
def pNode : Nat → List Char → Option (Entry Unit × List Char)
  | 0, _ => none
  | fuel + 1, 'f' :: cs =>
    let (ds, rest) := takeWhileC Char.isDigit cs
    match numOf ds with
    | none => none
    | some n =>
      match rest with
      | 's' :: r2 => let (_, r3) := takeWhileC Char.isDigit r2; some (.file (List.replicate n ()), r3)
      | _ => some (.file (List.replicate n ()), rest)
  | fuel + 1, 'z' :: cs =>
    let (ds, rest) := takeWhileC Char.isDigit cs
    (numOf ds).map (fun n => (.file (List.replicate n ()), rest))
  | fuel + 1, 'l' :: cs =>
    let (t, rest) := takeWhileC isNameChar cs
    some (.symlink (String.ofList t), rest)
  | fuel + 1, 'd' :: '[' :: cs =>
    match pEntries fuel cs with
    | some (es, ']' :: rest) => some (.dir es, rest)
    | _ => none
  | _ + 1, _ => none
def pEntries : Nat → List Char → Option (List (String × Entry Unit) × List Char)
  | 0, _ => none
  | fuel + 1, cs =>
    match cs with
    | [] => some ([], [])
    | ']' :: _ => some ([], cs)
    | _ =>
      let (nm, rest) := takeWhileC isNameChar cs
      match rest with
      | '=' :: r2 =>
        match pNode fuel r2 with
        | none => none
        | some (e, r3) =>
          match r3 with
          | ',' :: r4 =>
            match pEntries fuel r4 with
            | some (es, r5) => some ((String.ofList nm, e) :: es, r5)
            | none => none
          | _ => some ([(String.ofList nm, e)], r3)
      | _ => none
end

def parseTreeTok (s : String) : Option (List (String × Entry Unit)) :=
  if s == "-" then some [] else
  match pEntries (s.length + 2) s.toList with
  | some (es, []) => some es
  | _ => none

-- the client sends the entries of a directory in name order
mutual
def sortEntry : Entry Unit → Entry Unit
  | .file b => .file b
  | .symlink t => .symlink t
  | .dir es => .dir (sortLinks (sortEntries es))
def sortEntries : List (String × Entry Unit) → List (String × Entry Unit)
  | [] => []
  | (n, e) :: rest => (n, sortEntry e) :: sortEntries rest
end

/-! ### the dump: ids read left to right are the post-order -/

/-- strips the `#id`s; returns the shape and the (id, is-directory) list in order -/
def stripIdsAux : Nat → List Char → Char → List Char → List (Nat × Bool) → String × List (Nat × Bool)
  | 0, _, _, out, ids => (String.ofList out.reverse, ids.reverse)
  | _ + 1, [], _, out, ids => (String.ofList out.reverse, ids.reverse)
  | fuel + 1, '#' :: cs, prev, out, ids =>
    let (ds, rest) := takeWhileC Char.isDigit cs
    stripIdsAux fuel rest prev out (((String.ofList ds).toNat?.getD 0, prev == '}') :: ids)
  | fuel + 1, c :: cs, _, out, ids => stripIdsAux fuel cs c (c :: out) ids

def stripIds (s : String) : String × List (Nat × Bool) := stripIdsAux (s.length + 1) s.toList ' ' [] []

/-- chunk lengths of a file shape: the numbers after the leaf tags, left to right (the recorded sizes in `[…]` are skipped) -/
def leafLensAux : Nat → List Char → List Nat → List Nat
  | 0, _, acc => acc.reverse
  | _ + 1, [], acc => acc.reverse
  | fuel + 1, c :: cs, acc =>
    if c == 'r' || c == 'f' || c == 'w' then
      let (ds, _) := takeWhileC Char.isDigit cs
      match numOf ds with
      | some n => leafLensAux fuel cs (n :: acc)
      | none => leafLensAux fuel cs acc
    else if c == '[' then leafLensAux fuel ((takeWhileC (fun x => x != ']') cs).2) acc
    else leafLensAux fuel cs acc

def leafLens (s : String) : List Nat := leafLensAux (s.length + 1) s.toList []

def natCodec : Codec Nat := { len := id, empty := 0 }

def dedupNat (l : List Nat) : List Nat := firsts [] l

/-- chunker token → size of the size splitter, if it is one -/
def sizeChunker (s : String) : Option Nat :=
  if s == "def" || s == "default" then some 262144
  else match s.splitOn "-" with
    | ["size", n] => n.toNat?
    | _ => none

structure ContentCase where
  params : Params
  sizeChunk : Option Nat
  car : Bool
  tree : String
  streamIds : List Nat
  dag : String
  files : String

/-- `none` = agrees; `some why` = the delivered DAG or the stream is not what the model builds -/
def contentDiff (c : ContentCase) : Option String :=
  if c.dag == "-" || c.dag == "big" then none else
  let (shape, ids) := stripIds c.dag
  if shape.contains '?' then some "dag-block-missing" else
  if shape.contains '!' then some ("dag-node-malformed") else
  -- every file DAG is what the layout builds from its own leaves
  let fileShapes := if c.files == "-" then [] else c.files.splitOn ";"
  let badFile := fileShapes.find? (fun s =>
    let lens := leafLens s
    let chunks := if lens == [0] then [] else lens
    renderF id (layoutOf natCodec c.params chunks).node != s)
  match badFile with
  | some s => some ("file-layout:" ++ (s.take 60).toString)
  | none =>
    -- the whole DAG, when the chunker is the size splitter
    let whole : Option String :=
      match c.sizeChunk, parseTreeTok c.tree with
      | some n, some top =>
        if n == 0 then none else
        match importRoot { c.params with chunkSize := n } (sortEntries top) with
        | some r => if renderU List.length r != shape then some "dag-shape" else none
        | none => none
      | _, _ => none
    match whole with
    | some w => some w
    | none =>
      if c.car then none else
      -- the stream: every block of the DAG was offered; new non-directory blocks come in post-order; besides the DAG only
      -- the MFS scaffold of a lone file and the empty directory go-mfs creates on Mkdir
      let dagIds := ids.map (·.1)
      let fs := dedupNat c.streamIds
      if !(dagIds.all (fun i => c.streamIds.contains i)) then some "dag-block-not-offered" else
      let nonDir := dedupNat ((ids.filter (fun x => !x.2)).map (·.1))
      if fs.filter (fun i => nonDir.contains i) != nonDir then some "stream-not-postorder" else
      let extra := fs.filter (fun i => !dagIds.contains i)
      let scaffoldN := if c.params.wrap || shape.startsWith "{" then 0 else 1
      if extra.length > scaffoldN + 1 then some s!"stream-extra-blocks={extra.length}" else none

end CV.C13.Imp
