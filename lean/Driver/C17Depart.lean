import ClusterVerif.Spec.C17Depart
import ClusterVerif.Gen.C17
import Driver.Parse
namespace CV.C17
open CV CV.Parse

def parseDEv (s : String) : Option DEv :=
  match s.splitOn "@" with
  | ["w"] => some (.write false)
  | ["rmo"] => some .removedByOther
  | ["self", r] => if r == "ok" then some (.selfRemove true true true) else if r == "err" then some (.selfRemove false true true) else none
  | ["tick", b] => do pure (.tick (← bool01 b) true true)
  | ["stop", pr] =>
    match pr.toList with
    | [p, r] => do pure (.stop (← bool01 (String.singleton p)) (← bool01 (String.singleton r)))
    | _ => none
  | ["restart", _] => some .restart
  | _ => none

def dkv (k : String) (ws : List String) : Option String :=
  (ws.find? (·.startsWith (k ++ "="))).map (fun t => (t.drop (k.length + 1)).toString)

def dKind : DEv → String
  | .removedByOther => "rmo" | .selfRemove ok _ _ => if ok then "self-ok" else "self-err"
  | .tick .. => "tick" | .stop .. => "stop" | .write _ => "w" | .restart => "restart"

/-- the sites the departure machine interprets: regenerated from cluster.go -/
def driverSites : List Site := Gen.shutdownSites.map Site.ofGen

/-- whether `Shutdown` itself looks at the peerset: read off the regenerated structure of `(*Cluster).Shutdown` -/
def driverConsult : Bool := effectsConsult Gen.shutdownEffects

/-- every stop of the history, run through the INTERPRETED `Gen.shutdownEffects`, does what the closed form does -/
def stopsAgree (keep : Nat) : PSt → List DEv → Bool
  | _, [] => true
  | st, e :: rest =>
    (match e with
     | .stop p r =>
       st.f.shutdown ||
         interpShutdown Gen.shutdownEffects ⟨st.f, st.member, p, r⟩ == some (closedShutdown st.consult ⟨st.f, st.member, p, r⟩)
     | _ => true) && stopsAgree keep (depStep driverSites keep false st e) rest

/-- `restart@b`: the peer reported ready iff the model says it came back as a member -/
def restartsAgree (keep : Nat) (leave : Bool) : PSt → List (DEv × String) → Bool
  | _, [] => true
  | st, (e, tok) :: rest =>
    (match e with
     | .restart => tok == (if st.member then "restart@1" else "restart@0")
     | _ => true) && restartsAgree keep leave (depStep driverSites keep false st e) rest

def answerDepart (ws : List String) : String :=
  match splitArrow ws with
  | none => "bad-case parse"
  | some (pre, post) =>
    match pre with
    | lv :: br :: toks =>
      match toks.mapM parseDEv, (br.drop 3).toNat?, dkv "st" post >>= bool01, dkv "mem" post >>= bool01,
            dkv "data" post >>= bool01, dkv "left" post >>= bool01 with
      | some evs, some keep, some st, some mem, some data, some left =>
        let leave := lv == "lv=1"
        let o : DObs := ⟨st, mem, data, left⟩
        let m := depRun driverSites keep false (freshPeer leave 0 driverConsult) evs
        let b (x : Bool) := if x then "1" else "0"
        let arm := "d:" ++ (match evs.reverse with | e :: _ => dKind e | [] => "none") ++ (if leave then ":lv" else "") ++
                   (if m.outside then ":outside:" else ":in:") ++ b m.f.shutdown ++ b m.member ++ b m.disk.data
        let failed := (dClauses leave evs o).filter (fun c => !c.2)
        if evs.isEmpty then "bad-case no-events"
        else if !failed.isEmpty then "propfail " ++ ",".intercalate (failed.map (·.1)) ++ " arm=" ++ arm
        else if m.f.shutdown != st || m.member != mem || m.disk.data != data || m.acts.contains .rmSelf != left
                || !stopsAgree keep (freshPeer leave 0 driverConsult) evs
                || !restartsAgree keep leave (freshPeer leave 0 driverConsult) (evs.zip toks) then
          "diff arm=" ++ arm ++ " model=st=" ++ b m.f.shutdown ++ ",mem=" ++ b m.member ++ ",data=" ++ b m.disk.data ++
            ",left=" ++ b (m.acts.contains .rmSelf)
        else "ok arm=" ++ arm
      | _, _, _, _, _, _ => "bad-case parse-depart"
    | _ => "bad-case parse"

end CV.C17
