import ClusterVerif.Spec.C05
import ClusterVerif.Model.C05R
import Driver.Parse
/-!
C05 driver. One case line = one schedule on the real tracker:

  C05 q=<cap> w=<workers> n=<cids> <act> ... => <obs> | ret=<..> <obs> | ret=<..> <obs> ...

acts   t:<pin>  u:<c>  r:<c>  R  G  Rs  e[P|U]:<c>  k[P|U]:<c>  x[P|U]:<c>  l:<c>  F:<0|1>  <k|x>..&<instr>      pin = c.k.m.t  (k ∈ h e g r z m 0, m ∈ r d)
obs    s=<status per cid>  a=<StatusAll entry per cid>  d=<daemon per cid>  h=<shared per cid>
       f=<failed flag per cid>  p=<parked live calls>  g=<Track calls still running>  L=<1: the daemon's reads fail>
The first group is the observation before any action; then one group per act, taken at the stable point after it.
Core Lean only.
-/
namespace CV.C05
open CV CV.Parse

/-! ### tokens -/

def kindLetters : List (String × Kind × Nat) :=
  [("0", .remote, 0), ("h", .here, 1), ("e", .here, 2), ("g", .here, 3), ("r", .remote, 4), ("z", .remote, 5), ("m", .sharded, 6)]

def parseModeTok (s : String) : Option Mode :=
  if s == "r" then some .recursive else if s == "d" then some .direct else none

def showMode : Mode → String
  | .recursive => "r"
  | .direct => "d"

/-- pin token `c.k.m.t` ; tag = 10 * (index of k) + t -/
def parsePinTok (s : String) : Option PinSpec :=
  match s.splitOn "." with
  | [c, k, m, t] => do
    let (_, kind, idx) ← kindLetters.find? (fun e => e.1 == k)
    let tn ← t.toNat?
    if tn ≥ 10 then none
    pure { cid := ← c.toNat?, kind := kind, mode := ← parseModeTok m, tag := 10 * idx + tn }
  | _ => none

def showPin (p : PinSpec) : String :=
  let k := match kindLetters.find? (fun e => e.2.2 == p.tag / 10) with
    | some e => e.1
    | none => "?"
  s!"{p.cid}.{k}.{showMode p.mode}.{p.tag % 10}"

def statusCodes : List (String × Status) :=
  [("pd", .pinned), ("pg", .pinning), ("pq", .pinQueued), ("pe", .pinError),
   ("ud", .unpinned), ("ug", .unpinning), ("uq", .unpinQueued), ("ue", .unpinError),
   ("rm", .remote), ("sh", .sharded), ("uu", .unexpectedlyUnpinned), ("ce", .clusterError), ("un", .undefined)]

def parseStatus (s : String) : Option Status := (statusCodes.find? (fun e => e.1 == s)).map (·.2)
def showStatus (st : Status) : String :=
  match statusCodes.find? (fun e => e.2 == st) with
  | some e => e.1
  | none => "??"

def parseSimpleAct (s : String) : Option Act :=
  if s == "R" then some .recoverAll else
  if s == "G" then some .snapList else
  if s == "Rs" then some .recoverAllRest else
  match s.splitOn ":" with
  | ["t", p] => (parsePinTok p).map .track
  | ["u", c] => c.toNat?.map .untrack
  | ["r", c] => c.toNat?.map .recover
  | ["e", c] => c.toNat?.map (.effect · none)
  | ["k", c] => c.toNat?.map (.ok · none)
  | ["x", c] => c.toNat?.map (.err · none)
  | ["eP", c] => c.toNat?.map (.effect · (some .pin))
  | ["kP", c] => c.toNat?.map (.ok · (some .pin))
  | ["xP", c] => c.toNat?.map (.err · (some .pin))
  | ["eU", c] => c.toNat?.map (.effect · (some .unpin))
  | ["kU", c] => c.toNat?.map (.ok · (some .unpin))
  | ["xU", c] => c.toNat?.map (.err · (some .unpin))
  | ["l", c] => c.toNat?.map .lose
  | ["F", b] => if b == "1" then some (.lsFail true) else if b == "0" then some (.lsFail false) else none
  | _ => none

/-- `<k|x>:<c>&<t|u|r>:<..>` = the daemon's answer races with the instruction -/
def parseAct (s : String) : Option Act :=
  match s.splitOn "&" with
  | [a] => parseSimpleAct a
  | [d, i] => do
    let da ← parseSimpleAct d
    let ia ← parseSimpleAct i
    match da, ia with
    | .ok _ _, .track _ | .ok _ _, .untrack _ | .ok _ _, .recover _
    | .err _ _, .track _ | .err _ _, .untrack _ | .err _ _, .recover _ => pure (.race da ia)
    | _, _ => none
  | _ => none

/-! ### observations as token strings (the comparison is on these canonical strings) -/

def perCid (n : Nat) (f : Nat → String) : String :=
  if n == 0 then "-" else ",".intercalate ((List.range n).map f)

def showDaemonEntry : Option (Mode × Nat) → String
  | none => "-"
  | some (m, t) => s!"{showMode m}.{t}"

def showCall (k : CallObs) : String :=
  match k.kind, k.pin with
  | .pin, some p => "P." ++ showPin p
  | .pin, none => s!"P.{k.cid}.?"
  | .unpin, _ => s!"U.{k.cid}"

def callKey (k : CallObs) : Nat × Nat := (k.cid, match k.kind with | .pin => 0 | .unpin => 1)

def insertCall (k : CallObs) : List CallObs → List CallObs
  | [] => [k]
  | x :: xs =>
    let a := callKey k
    let b := callKey x
    if a.1 < b.1 || (a.1 == b.1 && a.2 ≤ b.2) then k :: x :: xs else x :: insertCall k xs

def sortCalls (l : List CallObs) : List CallObs := l.foldr insertCall []

/-- the observation tokens, in the fixed order s a d h f p g L -/
def showObs (n : Nat) (o : Obs) : List String :=
  [ "s=" ++ perCid n (fun c => showStatus (o.status c)),
    "a=" ++ perCid n (fun c => match o.statusAll c with | some st => showStatus st | none => "-"),
    "d=" ++ perCid n (fun c => showDaemonEntry (o.daemon c)),
    "h=" ++ perCid n (fun c => match o.shared c with | some p => showPin p | none => "-"),
    "f=" ++ perCid n (fun c => if o.failed c then "1" else "0"),
    "p=" ++ (let cs := sortCalls o.calls; if cs.isEmpty then "-" else ";".intercalate (cs.map showCall)),
    s!"g={o.pending}", "L=" ++ (if o.lsDown then "1" else "0") ]

def field (ws : List String) (key : String) : Option String :=
  (ws.find? (fun w => w.startsWith (key ++ "="))).map (fun w => (w.drop (key.length + 1)).toString)

def getAt {α : Type} (l : List α) (d : α) (i : Nat) : α := l.getD i d

def parseDaemonEntry (s : String) : Option (Option (Mode × Nat)) :=
  if s == "-" then some none else
  match s.splitOn "." with
  | [m, t] => do pure (some (← parseModeTok m, ← t.toNat?))
  | _ => none

def parseCallTok (s : String) : Option CallObs :=
  match s.splitOn "." with
  | ["U", c] => do pure { kind := .unpin, cid := ← c.toNat?, pin := none }
  | ["P", c, k, m, t] => do
    let p ← parsePinTok (".".intercalate [c, k, m, t])
    pure { kind := .pin, cid := p.cid, pin := some p }
  | ["P", c, "?"] => do pure { kind := .pin, cid := ← c.toNat?, pin := none }
  | _ => none

def optTok {α : Type} (f : String → Option α) (s : String) : Option (Option α) :=
  if s == "-" then some none else (f s).map some

def parseObs (n : Nat) (ws : List String) : Option Obs := do
  let sts ← (← field ws "s").splitOn "," |>.mapM parseStatus
  let all ← (← field ws "a").splitOn "," |>.mapM (optTok parseStatus)
  let dm ← (← field ws "d").splitOn "," |>.mapM parseDaemonEntry
  let sh ← (← field ws "h").splitOn "," |>.mapM (optTok parsePinTok)
  let fl ← (← field ws "f").splitOn "," |>.mapM bool01
  let ptok ← field ws "p"
  let calls ← if ptok == "-" then some [] else (ptok.splitOn ";").mapM parseCallTok
  let g ← (← field ws "g").toNat?
  let lsd ← bool01 ((field ws "L").getD "0")
  if sts.length != n || all.length != n || dm.length != n || sh.length != n || fl.length != n then none
  pure { status := getAt sts .undefined, statusAll := getAt all none, daemon := getAt dm none,
         shared := getAt sh none, failed := getAt fl false, calls := calls, pending := g, lsDown := lsd }

def parseInfo (s : String) : Option (Nat × Status) :=
  match s.splitOn "." with
  | [c, st] => do pure (← c.toNat?, ← parseStatus st)
  | _ => none

def parseRet (s : String) : Option (RetCode × List (Nat × Status)) := do
  let parts := s.splitOn ":"
  let code ← match parts.head? with
    | some "n" => some RetCode.nil
    | some "f" => some RetCode.full
    | some "o" => some RetCode.other
    | some "p" => some RetCode.pending
    | some "-" => some RetCode.na
    | _ => none
  let infos ← match parts with
    | [_] => some []
    | [_, l] => listOf parseInfo l
    | _ => none
  pure (code, infos)

def showRetCode : RetCode → String
  | .nil => "n" | .full => "f" | .other => "o" | .pending => "p" | .na => "-"

def splitGroups (ws : List String) : List (List String) :=
  let (cur, acc) := ws.foldl (fun (st : List String × List (List String)) w =>
    if w == "|" then ([], st.1.reverse :: st.2) else (w :: st.1, st.2)) ([], [])
  (cur.reverse :: acc).reverse

structure Case where
  cfg : Cfg
  acts : List Act
  obs0 : Obs
  frames : List Frame

def parseCase (ws : List String) : Except String Case := do
  let some (pre, post) := splitArrow ws | throw "no-arrow"
  match pre with
  | q :: w :: n :: actToks =>
    let some cap := (field [q] "q").bind String.toNat? | throw "cap"
    let some wk := (field [w] "w").bind String.toNat? | throw "workers"
    let some nc := (field [n] "n").bind String.toNat? | throw "ncids"
    if cap == 0 || wk == 0 || nc == 0 || nc > 16 then throw "cfg-range"
    let some acts := actToks.mapM parseAct | throw "acts"
    match splitGroups post with
    | g0 :: gs =>
      let some o0 := parseObs nc g0 | throw "obs0"
      if gs.length != acts.length then throw "frame-count"
      let frames ← (acts.zip gs).mapM (fun (a, g) => do
        let some rt := (field g "ret").bind parseRet | throw "ret"
        let some o := parseObs nc g | throw "obs"
        pure ({ act := a, ret := rt.1, infos := rt.2, obs := o } : Frame))
      pure { cfg := { cap := cap, workers := wk, ncids := nc }, acts := acts, obs0 := o0, frames := frames }
    | [] => throw "no-groups"
  | _ => throw "short"

/-! ### running the model to the same stable points -/

/-- Recover returns `Status` right after enqueueing: a worker may or may not have picked the
    operation up already -/
def normInfo : Status → Status
  | .pinning => .pinQueued
  | .unpinning => .unpinQueued
  | st => st

structure ModelOut where
  s : State
  ls : Bool := true       -- the daemon's reads work
  snap : Option (Nat → Option PinSpec) := none   -- the pinset a RecoverAll in progress has already read
  ret : RetCode
  infos : List (Nat × Status)
  note : String := ""     -- non-empty: the model cannot follow the implementation's RecoverAll report

/-- one entry of RecoverAll's loop (`recoverWithPinInfo` with the status read at listing time), letting free workers take
    work first when (and only when) the queue would be full -/
def recoverLazy (cfg : Cfg) (s : State) (c : Nat) (st : Status) : Nat → State × Ret
  | 0 => recoverWith cfg s c st
  | fuel + 1 =>
    let r := recoverWith cfg s c st
    if r.2 == .full then
      let s' := deqUnpin (deqPin cfg s)
      if s'.pinQ.length == s.pinQ.length && s'.unpinQ.length == s.unpinQ.length then r
      else recoverLazy cfg s' c st fuel
    else r

def obsStrings (cfg : Cfg) (s : State) (ls : Bool) : List String := showObs cfg.ncids (observeR (stabilize cfg s) ls)

def applyAct (cfg : Cfg) (s : State) (ls : Bool) (snap : Option (Nat → Option PinSpec)) (f : Frame) : ModelOut :=
  (fun (m : ModelOut) => match f.act with
    | .lsFail on => { m with ls := !on, snap := snap }
    | .snapList => { m with ls := ls, snap := some s.shared }
    | .recoverAllRest => { m with ls := ls, snap := none }
    | _ => { m with ls := ls, snap := snap }) <|
  match f.act with
  | .track p =>
    let r := track cfg s p
    let pend := p.kind == .remote && r.1.calls.length > s.calls.length
    { s := r.1, ret := if pend then .pending else (if r.2 == .full then .full else .nil), infos := [] }
  | .untrack c =>
    let r := untrack cfg s c
    { s := r.1, ret := if r.2 == .full then .full else .nil, infos := [] }
  | .recover c =>
    let r := recoverR cfg s ls c
    { s := r.1, ret := if r.2 == .full then .full else .nil, infos := [(c, normInfo (statusR r.1 ls c))] }
  | .recoverAll | .recoverAllRest =>
    let snap := match f.act with | .recoverAllRest => snap | _ => none
    -- PinLs fails: StatusAll has nothing, RecoverAll reports the failure and recovers nothing
    if !ls then { s := s, ret := .other, infos := [] } else
    -- the statuses are those of the listing taken first (`recoverAllR`); follow the order the implementation reports
    -- (a listing of the pinset read earlier by this RecoverAll — action G — is the one it uses)
    let snap := listingR (match snap with | some sh => { s with shared := sh } | none => s) ls
    let listed := (List.range cfg.ncids).filter (fun c => (snap c).isSome)
    let go := f.infos.foldl (fun (acc : State × List (Nat × Status) × String) ci =>
      let (st, out, note) := acc
      if note != "" then acc else
      let r := recoverLazy cfg st ci.1 ((snap ci.1).getD .undefined) (cfg.workers + 2)
      if r.2 == .full then (st, out, s!"model-full-at-{ci.1}")
      else (r.1, out ++ [(ci.1, normInfo (statusOf r.1 ci.1))], note)) (s, [], "")
    let (s1, out, note) := go
    let unlisted := f.infos.filter (fun ci => !listed.contains ci.1)
    if note != "" then { s := s1, ret := .nil, infos := out, note := note }
    else if !unlisted.isEmpty then { s := s1, ret := .nil, infos := out, note := "reports-unlisted-cid" }
    else if f.ret == .full then
      let rec1 (c : Nat) := recoverWith cfg s1 c ((snap c).getD .undefined)
      let cands := listed.filter (fun c => !(f.infos.any (fun ci => ci.1 == c)) && (rec1 c).2 == .full)
      match cands.find? (fun c => obsStrings cfg (rec1 c).1 ls == showObs cfg.ncids f.obs) with
      | some c => { s := (rec1 c).1, ret := .full, infos := out }
      | none =>
        match cands with
        | c :: _ => { s := (rec1 c).1, ret := .full, infos := out }
        | [] => { s := s1, ret := .nil, infos := out, note := "model-has-no-full-queue" }
    else
      let missing := listed.filter (fun c => !(f.infos.any (fun ci => ci.1 == c)))
      if missing.isEmpty then { s := s1, ret := .nil, infos := out }
      else { s := s1, ret := .nil, infos := out, note := "listed-cid-not-reported" }
  | .effect c sel =>
    match liveCallFor s c sel with
    | some i => { s := effect s i, ret := .na, infos := [] }
    | none => { s := s, ret := .na, infos := [] }
  | .ok c sel =>
    match liveCallFor s c sel with
    | some i => { s := retOk (effect s i) i, ret := .na, infos := [] }
    | none => { s := s, ret := .na, infos := [] }
  | .err c sel =>
    match liveCallFor s c sel with
    | some i => { s := retErr s i, ret := .na, infos := [] }
    | none => { s := s, ret := .na, infos := [] }
  | .lose c => { s := lose s c, ret := .na, infos := [] }
  | .lsFail _ => { s := s, ret := .na, infos := [] }
  | .snapList => { s := s, ret := .na, infos := [] }
  | .race _ _ => { s := s, ret := .na, infos := [], note := "race-not-expanded" }

/-- the outcomes the model allows for one action, each already run to its stable point. A race has up to
    three: answer processed first (and a freed worker already at work), answer processed first (worker not
    yet), instruction first (the answer then meets a possibly cancelled operation). The daemon's effect has
    landed before either. -/
def candidates (cfg : Cfg) (s : State) (ls : Bool) (snap : Option (Nat → Option PinSpec)) (f : Frame) : List ModelOut :=
  let fin (m : ModelOut) : ModelOut := { m with s := stabilize cfg m.s }
  match f.act with
  | .race d i =>
    let c := match d with | .ok c _ => c | .err c _ => c | _ => 0
    let sel := match d with | .ok _ sl => sl | .err _ sl => sl | _ => none
    let isOk := match d with | .ok _ _ => true | _ => false
    match liveCallFor s c sel with
    | none => [fin (applyAct cfg s ls snap { f with act := i })]
    | some op =>
      let s0 := if isOk then effect s op else s
      let retStep (st : State) : State := if isOk then retOk st op else retErr st op
      let a1 := applyAct cfg (stabilize cfg (retStep s0)) ls snap { f with act := i }
      let a2 := applyAct cfg (retStep s0) ls snap { f with act := i }
      let b0 := applyAct cfg s0 ls snap { f with act := i }
      let b := { b0 with s := retStep b0.s }
      -- the daemon's failure log is written when the answer is released, i.e. before the instruction
      let kindUnpin := match s.calls.find? (fun k => k.op == op) with
        | some k => k.kind == .unpin
        | none => false
      let fl0 := if !isOk && kindUnpin then upd s.failed c true else s.failed
      let fl1 := match i with
        | .track p => if p.kind == .here then upd fl0 p.cid false else fl0
        | .untrack x => upd fl0 x false
        | _ => fl0
      -- Recover reads the status it returns after enqueueing: before or after the racing answer is processed
      let patch (m : ModelOut) : ModelOut :=
        { m with s := { m.s with failed := fl1 },
                 infos := match i with | .recover _ => f.infos.map (fun ci => (ci.1, normInfo ci.2)) | _ => m.infos }
      [fin (patch a1), fin (patch a2), fin (patch b)]
  | _ => [fin (applyAct cfg s ls snap f)]

def showInfos (l : List (Nat × Status)) : String :=
  if l.isEmpty then "-" else ",".intercalate (l.map (fun ci => s!"{ci.1}.{showStatus ci.2}"))

def frameStrings (n : Nat) (ret : RetCode) (infos : List (Nat × Status)) (o : Obs) : List String :=
  ("ret=" ++ showRetCode ret ++ ":" ++ showInfos (infos.map (fun ci => (ci.1, normInfo ci.2)))) :: showObs n o

/-- first frame where the model and the implementation part (none = agreement). Races are resolved by
    trying the allowed outcomes in turn, backtracking when a later frame cannot be followed. -/
partial def firstDiff (cfg : Cfg) : Nat → State → Bool → Option (Nat → Option PinSpec) → List Frame → Option (Nat × String)
  | _, _, _, _, [] => none
  | k, s, ls, snap, f :: rest =>
    let got := frameStrings cfg.ncids f.ret f.infos f.obs
    let cands := candidates cfg s ls snap f
    let matching := cands.filter (fun m => m.note == "" && frameStrings cfg.ncids m.ret m.infos (observeR m.s m.ls) == got)
    match matching with
    | [] =>
      match cands with
      | m :: _ =>
        if m.note != "" then some (k, "note:" ++ m.note)
        else some (k, " ".intercalate (frameStrings cfg.ncids m.ret m.infos (observeR m.s m.ls)))
      | [] => some (k, "no-candidate")
    | _ =>
      let rec tryAll : List ModelOut → Option (Nat × String) → Option (Nat × String)
        | [], deepest => deepest
        | m :: more, deepest =>
          match firstDiff cfg (k + 1) m.s m.ls m.snap rest with
          | none => none
          | some d =>
            let best := match deepest with
              | some d0 => if d.1 > d0.1 then some d else some d0
              | none => some d
            tryAll more best
      tryAll matching none

/-! ### coverage arms -/

def healedSomewhere (n : Nat) : Obs → List Frame → Bool
  | _, [] => false
  | o, f :: rest => (quiescent n o && (healedCids n (f :: rest)).isSome) || healedSomewhere n f.obs rest

def arms (c : Case) : List String :=
  let has (p : Frame → Bool) := c.frames.any p
  let isInstr (a : Act) : Bool := match a with
    | .track _ | .untrack _ | .recover _ | .recoverAll | .recoverAllRest => true
    | _ => false
  let quiesced := (c.frames.dropWhile (fun f => !isInstr (instrOf f.act))).any (fun f => quiescent c.cfg.ncids f.obs)
  let healed := healedSomewhere c.cfg.ncids c.obs0 c.frames
  let l := (if has (fun f => f.ret == .full) then ["full"] else [])
    ++ (if has (fun f => match f.act with | .err _ _ | .race (.err _ _) _ => true | _ => false) then ["fault"] else [])
    ++ (if has (fun f => f.ret == .pending) then ["remote"] else [])
    ++ (if has (fun f => match f.act with | .race _ _ => true | _ => false) then ["race"] else [])
    ++ (if has (fun f => match instrOf f.act with | .recover _ | .recoverAll => true | _ => false) then ["recover"] else [])
    ++ (if has (fun f => f.obs.lsDown && (match instrOf f.act with | .recover _ | .recoverAll => true | _ => false)) then ["lserr"] else [])
    ++ (if has (fun f => match f.act with | .snapList => true | _ => false) then ["concurrent"] else [])
    ++ (if healed then ["heal"] else [])
    ++ (if quiesced then ["quiesce"] else [])
  if l.isEmpty then ["plain"] else l

def showArms (c : Case) : String := " ".intercalate ((arms c).map ("arm=" ++ ·))

def trivial (c : Case) : Bool :=
  !(c.frames.any (fun f => match instrOf f.act with
    | .track _ | .untrack _ | .recover _ | .recoverAll | .recoverAllRest => true
    | _ => false))

/-- the shared pinset must record what the script instructed (harness sanity, not a property clause) -/
def sharedFollowsScript (c : Case) : Bool :=
  let step (sh : Nat → Option PinSpec) (a : Act) : Nat → Option PinSpec :=
    match a with
    | .track p => upd sh p.cid (some p)
    | .untrack x => upd sh x none
    | _ => sh
  let rec go (sh : Nat → Option PinSpec) : List Frame → Bool
    | [] => true
    | f :: rest =>
      let sh' := step sh (instrOf f.act)
      (List.range c.cfg.ncids).all (fun x => f.obs.shared x == sh' x) && go sh' rest
  go (fun _ => none) c.frames

/-- answer for one case line (tokens after the leading "C05") -/
def answer (ws : List String) : String :=
  match parseCase ws with
  | .error e => "bad-case " ++ e
  | .ok c =>
    if !sharedFollowsScript c then "bad-case shared-pinset-does-not-follow-script" else
    let failed := (clauses c.cfg.ncids c.obs0 c.frames).filter (fun cl => !cl.2)
    if !failed.isEmpty then
      "propfail " ++ ",".intercalate (failed.map (·.1)) ++ " " ++ showArms c
    else
      let want0 := showObs c.cfg.ncids (observe (stabilize c.cfg init))
      if want0 != showObs c.cfg.ncids c.obs0 then
        "diff " ++ showArms c ++ " at=init model=" ++ " ".intercalate want0
      else
        match firstDiff c.cfg 1 (stabilize c.cfg init) true none c.frames with
        | some (k, m) => s!"diff {showArms c} at={k} model={m}"
        | none => "ok " ++ showArms c ++ (if trivial c then " trivial" else "")

end CV.C05
