import ClusterVerif.Model.C14Start
import ClusterVerif.Spec.C14Start
import Driver.Parse
namespace CV.C14
open CV.Parse CV.C14.Start

/-! Start suite (harness/c14/start.go):

  C14 start <ops> <end k|g> <act i|r> <imp> => built=<cids> pre=<snap|->:<last> preoff=<cids> off=<cids|err|->
                                               post=<snap|->:<last> old0=<cids|none|-> start=<cids|?>
-/

def fieldS (key : String) (ws : List String) : Option String :=
  (ws.find? (fun w => w.startsWith (key ++ "="))).map (fun w => (w.drop (key.length + 1)).toString)

def parseCidsS (s : String) : Option (List Nat) :=
  if s == "e" then some [] else (s.splitOn ",").mapM String.toNat?

def showCidsS (l : List Nat) : String :=
  if l.isEmpty then "e" else ",".intercalate (l.map toString)

def parseOpS (s : String) : Option Op :=
  if s == "S" then some .restart
  else if s.startsWith "p" then (s.drop 1).toNat?.map .pin
  else if s.startsWith "u" then (s.drop 1).toNat?.map .unpin
  else none

def parseIdxS (s : String) : Option (Option Nat × Nat) :=
  match s.splitOn ":" with
  | [a, b] => do pure ((← (if a == "-" then some none else a.toNat?.map some)), ← b.toNat?)
  | _ => none

def showIdxS (p : Option Nat × Nat) : String :=
  (match p.1 with | none => "-" | some i => toString i) ++ ":" ++ toString p.2

def dedupStrS : List String → List String
  | [] => []
  | x :: xs => x :: (dedupStrS xs).filter (· != x)

def failedNamesS (cs : List (String × Bool)) : String :=
  ",".intercalate (dedupStrS ((cs.filter (fun c => !c.2)).map (·.1)))

def answerStart (ws : List String) : String :=
  match splitArrow ws with
  | some ([opsS, endS, act, impS], post) =>
    if fieldS "start" post == some "?" || fieldS "built" post == some "?" then "ok arm=start-not-run trivial" else
    let parsed := do
      let ops ← (if opsS == "none" then some none else if opsS == "-" then some (some [])
                 else ((opsS.splitOn ",").mapM parseOpS).map some)
      let imp ← parseCidsS impS
      let built ← parseCidsS (← fieldS "built" post)
      let pre ← parseIdxS (← fieldS "pre" post)
      let preoff ← parseCidsS (← fieldS "preoff" post)
      let offS ← fieldS "off" post
      let off ← (if offS == "err" || offS == "-" then some none else (parseCidsS offS).map some)
      let postI ← parseIdxS (← fieldS "post" post)
      let oldS ← fieldS "old0" post
      let old0 ← (if oldS == "none" || oldS == "-" || oldS == "?" then some none else (parseCidsS oldS).map some)
      let started ← parseCidsS (← fieldS "start" post)
      pure (ops, imp, built, pre, preoff, off, postI, old0, started)
    match parsed with
    | none => "bad-case start-parse"
    | some (ops, imp, built, pre, preoff, off, postI, old0, started) =>
      if (endS != "k" && endS != "g") || (act != "i" && act != "r") then "bad-case start-shape" else
      let d : Data := match ops with
        | none => none
        | some l => build l (endS == "g")
      let arm := "start-" ++ (if act == "r" then "restart-" else "import-") ++
        (match d with
         | none => "nofolder"
         | some r => (if r.snap.isSome then "snap" else "nosnap") ++
                     (if decide (lastLog r.log > (r.snap.map (·.1)).getD 0) then
                        (if (r.log.filter (fun e => decide (e.1 > (r.snap.map (·.1)).getD 0))).any
                              (fun e => match e.2 with | .pin _ => true | .unpin _ => true | _ => false)
                         then "-logpins" else "-log") else ""))
      let obs : Obs := { preSnap := pre.1.map (fun _ => preoff), built := built, off := off, old0 := old0, started := started }
      let cs := if act == "i" then importClauses imp obs else restartClauses obs
      if !allHoldS cs then "propfail " ++ failedNamesS cs ++ " arm=" ++ arm else
      -- model agreement
      let after : Data × Option Raft := if act == "i" then importState d (norm imp) else (d, none)
      let checks : List (String × Bool) :=
        [("built", built == start d),
         ("pre", pre == idxPair d),
         ("preoff", preoff == offline d),
         ("off", act != "i" || off == some (offline after.1)),
         ("post", postI == idxPair after.1),
         ("old0", act != "i" || old0 == after.2.map (fun b => offline (some b))),
         ("start", started == start after.1)]
      if !allHoldS checks then
        "diff " ++ failedNamesS checks ++ " arm=" ++ arm ++ " model=built=" ++ showCidsS (start d) ++ ",pre=" ++ showIdxS (idxPair d) ++
          ",post=" ++ showIdxS (idxPair after.1) ++ ",start=" ++ showCidsS (start after.1)
      else "ok arm=" ++ arm ++ (if d.isNone && imp.isEmpty then " trivial" else "")
  | _ => "bad-case start-shape"

end CV.C14
