import ClusterVerif.Lemmas.C02
import ClusterVerif.Model.C02Source
import ClusterVerif.Gen.C02

/-!
# C02 — CRDT: replicas converge; batching neither loses nor reorders operations

Property theorems only (helpers in `Lemmas/C02.lean`).

Replicated set (model of go-ds-crdt v0.1.21, `Rep`): a replica executes an arbitrary
interleaving `l : List Ph` of the tombstone phases and element phases of the deltas it
processes (any order, any repetition — this covers every delivery order, every grouping and the
concurrent DAG workers). Two replicas "have exchanged all updates" when their schedules
contain the same events.
-/
namespace CV.C02

/-! ## the replicated set -/

/-- **members converge**: two replicas that processed the same set of deltas — in any order,
    with any repetition, phases interleaved in any way — contain the same keys. -/
theorem members_converge (l1 l2 : List Ph) (hset : ∀ ph, ph ∈ l1 ↔ ph ∈ l2)
    (hprio : ∀ d, Ph.E d ∈ l1 → 1 ≤ d.prio) (k : Key) :
    (runPh l1 {}).member k = (runPh l2 {}).member k := by
  have h1 := HV_runPh l1 {} HV_empty hprio
  have h2 := HV_runPh l2 {} HV_empty (fun d hd => hprio d ((hset _).2 hd))
  rw [member_eq_alive_of_HV h1, member_eq_alive_of_HV h2]
  have := memberP_congr hset k
  rw [← alive_runPh_empty, ← alive_runPh_empty] at this
  cases ha : (runPh l1 {}).alive k <;> cases hb : (runPh l2 {}).alive k <;> simp_all

/-- the same for replicas that merged delta lists one delta after the other (`set.Merge`) -/
theorem members_converge_merge (a b : List Delta) (hset : ∀ d, d ∈ a ↔ d ∈ b)
    (hprio : ∀ d ∈ a, 1 ≤ d.prio) (k : Key) :
    (mergeAll a {}).member k = (mergeAll b {}).member k := by
  rw [mergeAll_eq_runPh, mergeAll_eq_runPh]
  exact members_converge _ _ (phasesOf_congr hset) (fun d hd => hprio d ((mem_phasesOf_E a d).1 hd)) k

/-- full value convergence: what the property asks of the pinset contents -/
def values_converge_full : Prop :=
  ∀ (l1 l2 : List Ph), (∀ ph, ph ∈ l1 ↔ ph ∈ l2) → (∀ d, Ph.E d ∈ l1 → 1 ≤ d.prio) →
    ∀ k, (runPh l1 {}).viewAt k = (runPh l2 {}).viewAt k

/-- **values converge (partial)**: under (H1) no delta puts one key twice and (H2, DESIGN A.2)
    the greatest (priority, value) ever put for a member key belongs to an element that is never
    tombstoned, the two replicas hold the same value for every key. -/
theorem values_converge_partial (l1 l2 : List Ph) (hset : ∀ ph, ph ∈ l1 ↔ ph ∈ l2)
    (hprio : ∀ d, Ph.E d ∈ l1 → 1 ≤ d.prio)
    (H1 : ∀ d, Ph.E d ∈ l1 → nodupKeys d) (H2 : MaxSurvives l1) (k : Key) :
    (runPh l1 {}).viewAt k = (runPh l2 {}).viewAt k := by
  have hm := members_converge l1 l2 hset hprio k
  unfold Rep.viewAt
  rw [← hm]
  cases hmem : (runPh l1 {}).member k with
  | false => simp
  | true =>
    simp only [if_true]
    have hal : memberP l1 k := by
      rw [← alive_runPh_empty, ← member_eq_alive_of_HV (HV_runPh l1 {} HV_empty hprio)]
      exact hmem
    obtain ⟨d, v, hd, hv, hnt, hmax⟩ := H2 k hal
    rw [prioVal_runPh_of_max l1 H1 k d v hd hv hnt hmax,
      prioVal_runPh_of_max l2 (fun d hd => H1 d ((hset _).2 hd)) k d v ((hset _).1 hd) hv
        (fun d' hd' => hnt d' ((hset _).2 hd')) (fun d'' v'' hd'' => hmax d'' v'' ((hset _).2 hd''))]

/-- the hypotheses are satisfiable by a history with a delete, a later re-put and concurrent puts,
    and the theorem's conclusion is then visible on two opposite merge orders -/
abbrev exHist : List Delta :=
  [⟨0, 1, [(0, 3), (1, 4)], []⟩, ⟨1, 2, [], [(0, 0)]⟩, ⟨2, 3, [(0, 2)], []⟩, ⟨3, 1, [(1, 9)], []⟩]

example : (∀ d ∈ exHist, 1 ≤ d.prio) ∧ (∀ d ∈ exHist, nodupKeys d) ∧ (∀ k ∈ [0, 1], maxSurvivesK exHist k = true) := by
  decide
example : (mergeAll exHist {}).viewAt 0 = some 2 ∧ (mergeAll exHist.reverse {}).viewAt 0 = some 2 ∧
    (mergeAll exHist {}).viewAt 1 = some 9 ∧ (mergeAll exHist.reverse {}).viewAt 1 = some 9 := by decide

/-- values converge for merges of delta lists whose decidable hypotheses check -/
theorem values_converge_merge (a b : List Delta) (hset : ∀ d, d ∈ a ↔ d ∈ b)
    (hprio : ∀ d ∈ a, 1 ≤ d.prio) (H1 : ∀ d ∈ a, nodupKeys d) (H2 : ∀ k, maxSurvivesK a k = true) (k : Key) :
    (mergeAll a {}).viewAt k = (mergeAll b {}).viewAt k := by
  rw [mergeAll_eq_runPh, mergeAll_eq_runPh]
  exact values_converge_partial _ _ (phasesOf_congr hset) (fun d hd => hprio d ((mem_phasesOf_E a d).1 hd))
    (fun d hd => H1 d ((mem_phasesOf_E a d).1 hd)) (maxSurvivesK_sound a H2) k

/-- the witness of DESIGN A.2: puts `a = (k, 9)` and `b = (k, 1)` made concurrently at priority 1
    and a tombstone `t` of `a` only. -/
def witA : Delta := { id := 0, prio := 1, elems := [(0, 9)], tombs := [] }
def witB : Delta := { id := 1, prio := 1, elems := [(0, 1)], tombs := [] }
def witT : Delta := { id := 2, prio := 2, elems := [], tombs := [(0, 0)] }

/-- **full value convergence is false of go-ds-crdt v0.1.21**: merging `a, b, t` leaves value 9,
    merging `t, a, b` (the head-first walk of a replica that syncs late) leaves value 1.
    Replayed on real replicas: corpus/C02/set.txt, finding K05. -/
theorem values_converge_full_fails : ¬ values_converge_full := by
  intro h
  have := h (phasesOf [witA, witB, witT]) (phasesOf [witT, witA, witB])
    (phasesOf_congr (by intro d; simp only [List.mem_cons, List.not_mem_nil, or_false]; tauto))
    (by intro d hd; rw [mem_phasesOf_E] at hd; revert d; decide) 0
  revert this
  decide

/-- (H1) cannot be dropped either: one delta putting a key twice (pin and re-pin of a CID inside
    one batch) and one concurrent put, no delete at all. Finding K05b. -/
theorem values_converge_needs_single_put :
    ∃ l1 l2 : List Ph, (∀ ph, ph ∈ l1 ↔ ph ∈ l2) ∧ (∀ d, Ph.E d ∈ l1 → 1 ≤ d.prio) ∧ MaxSurvives l1 ∧
      (runPh l1 {}).viewAt 0 ≠ (runPh l2 {}).viewAt 0 := by
  refine ⟨phasesOf [⟨0, 1, [(0, 9), (0, 1)], []⟩, ⟨1, 1, [(0, 5)], []⟩],
          phasesOf [⟨1, 1, [(0, 5)], []⟩, ⟨0, 1, [(0, 9), (0, 1)], []⟩],
          phasesOf_congr (by intro d; simp only [List.mem_cons, List.not_mem_nil, or_false]; tauto),
          (by intro d hd; rw [mem_phasesOf_E] at hd; revert d; decide), ?_, by decide⟩
  intro k hk
  obtain ⟨d, hd, ⟨v, hv⟩, _⟩ := hk
  rw [mem_phasesOf_E] at hd
  have hk0 : k = 0 := by
    simp only [List.mem_cons, List.not_mem_nil, or_false] at hd
    rcases hd with rfl | rfl
    · simp at hv; rcases hv with ⟨h, _⟩ | ⟨h, _⟩ <;> exact h
    · simp at hv; exact hv.1
  subst hk0
  refine ⟨⟨0, 1, [(0, 9), (0, 1)], []⟩, 9, by rw [mem_phasesOf_E]; simp, by simp, ?_, ?_⟩
  · intro d' hd'
    rw [mem_phasesOf_T] at hd'
    simp only [List.mem_cons, List.not_mem_nil, or_false] at hd'
    rcases hd' with rfl | rfl <;> simp
  · intro d'' v'' hd'' hv''
    rw [mem_phasesOf_E] at hd''
    simp only [List.mem_cons, List.not_mem_nil, or_false] at hd''
    rcases hd'' with rfl | rfl
    · simp at hv''; rcases hv'' with rfl | rfl <;> exact Or.inr ⟨rfl, by decide⟩
    · simp at hv''; subst hv''; exact Or.inr ⟨rfl, by decide⟩

/-- **every change of the view is handed over, except a revival**: after merging a delta, for
    every key whose entry changed, the hook saying what the pinset now holds (PutHook with the new
    value → Track, DeleteHook → Untrack) was called — or the key was absent, had a stored value left
    over from a deleted element, and came back holding exactly that value. -/
theorem hooks_cover_changes_or_revival (r : Rep) (d : Delta) (k : Key)
    (hch : r.viewAt k ≠ (r.merge d).1.viewAt k) :
    hookFor ((r.merge d).1.viewAt k) k ∈ (r.merge d).2 ∨
    (r.viewAt k = none ∧ (r.vals.lookup k).isSome = true ∧ (r.merge d).1.viewAt k = some (r.prioVal k).2) :=
  hooks_cover_or_revival r d k hch

/-- what the property asks: every change of a reachable replica's view is handed to the tracker -/
def hooks_cover_changes_full : Prop :=
  ∀ (l : List Delta) (d : Delta) (k : Key),
    (mergeAll l {}).viewAt k ≠ ((mergeAll l {}).merge d).1.viewAt k →
    hookFor (((mergeAll l {}).merge d).1.viewAt k) k ∈ ((mergeAll l {}).merge d).2

/-- **false of go-ds-crdt v0.1.21**: after put (0,9) and its delete, a concurrent put (0,1) brings
    key 0 back holding 9 and no hook runs. Replayed on real replicas: corpus/C02/set.txt, K05c. -/
theorem hooks_cover_changes_full_fails : ¬ hooks_cover_changes_full := by
  intro h
  have := h [witA, witT] witB 0
  revert this
  decide

/-- **hooks cover changes (partial)**: on a replica where no absent key has a stored value left
    over (no key was ever deleted), every change of the view comes with its hook. -/
theorem hooks_cover_changes_partial (r : Rep) (d : Delta) (k : Key)
    (hclean : ∀ k, r.viewAt k = none → r.vals.lookup k = none)
    (hch : r.viewAt k ≠ (r.merge d).1.viewAt k) :
    hookFor ((r.merge d).1.viewAt k) k ∈ (r.merge d).2 := by
  rcases hooks_cover_or_revival r d k hch with h | ⟨h1, h2, _⟩
  · exact h
  · rw [hclean k h1] at h2; cases h2

/-- a local write — one operation, or the operations of one datastore batch — published as a new
    node on top of everything the replica has merged changes its view exactly as the operations
    say, in order (a later put of a key wins, a delete drops earlier puts of the key). -/
theorem local_write_effect (r : Rep) (h n : Nat) (hi : RepInv r h n) (ops : List BOp) (k : Key) :
    viewAfter r (ops.foldl (fun p o => p.add r o) {}) n (h + 1) k = replayAt ops r.viewAt k := by
  have hf := fold_add_formula r n hi.eid ops {} r.viewAt (fun t ht => by cases ht) (viewFormula_empty r)
  rw [viewAfter_eq_formula r _ h n hi hf.1]
  exact hf.2 k

/-! ## the batching worker -/

/-- an operation refused because the queue is full leaves the whole state unchanged -/
theorem reject_no_effect (cfg : Cfg) (s : St) (o : BOp) (s' : St)
    (h : step cfg s (.log o) = some (s', .rejected)) : s' = s := by
  simp only [step] at h
  split at h
  · simp at h
  · simp at h; exact h.symm

/-- **pending view**: in every run without a failed Add and without a head-write failure, the
    accepted operations are the ones the worker has taken followed by the ones still queued, and
    publishing the pending delta yields exactly the replay of the taken ones. -/
theorem order_per_cid_pending (cfg : Cfg) (evs : List Ev) (s : St) (rs : List Res)
    (hr : run cfg {} evs = some (s, rs)) (hb : ∀ e ∈ evs, Ev.benign e = true) :
    ∃ taken, acceptedOps evs rs = taken ++ s.queue ∧
      ∀ k, viewAfter s.rep s.pend s.nextId (s.height + 1) k = (replay taken []).get k := by
  obtain ⟨taken, h1, _, h3⟩ := run_invariant cfg evs {} s rs [] core_init_inv
    (fun k => by rw [core_init_PV]; rfl) hb hr
  refine ⟨taken, by simpa using h1, fun k => ?_⟩
  rw [replay_get]
  exact h3 k

/-- **order per CID (partial)**: … and once the queue is drained and the pending delta committed,
    the pinset is the replay of all accepted operations in submission order: per CID the last
    accepted pin's content, or absent after an unpin; refused operations do not appear.
    Extra hypothesis, explicit: no publish failed at the head write (`Ev.benign`). -/
theorem order_per_cid_partial (cfg : Cfg) (evs : List Ev) (s : St) (rs : List Res)
    (hr : run cfg {} evs = some (s, rs)) (hb : ∀ e ∈ evs, Ev.benign e = true)
    (hq : s.queue = []) (he : s.pend.elems = []) (ht : s.pend.tombs = []) (k : Key) :
    s.rep.viewAt k = (replay (acceptedOps evs rs) []).get k := by
  obtain ⟨taken, h1, hi, h3⟩ := run_invariant cfg evs {} s rs [] core_init_inv
    (fun k => by rw [core_init_PV]; rfl) hb hr
  rw [hq] at h1
  simp only [List.nil_append, List.append_nil] at h1
  rw [h1, replay_get, ← viewFormula_flushed s.rep s.pend he ht k]
  exact (Core.PV_eq s.core hi k).symm.trans (h3 k)

/-- a run with a refusal (queue of 1), a delete inside the batch and a failed element commit meets
    the hypotheses: every event is enabled and benign, and the state ends flushed -/
abbrev exRun : List Ev :=
  [.log (.put 0 5), .log (.put 1 6), .take true, .log (.del 0), .take true, .commit .failElems,
   .log (.put 0 7), .take true, .commit .ok]

example : ((run ⟨2, 1⟩ {} exRun).map fun p =>
      p.1.queue.isEmpty && p.1.pend.elems.isEmpty && p.1.pend.tombs.isEmpty &&
      (p.2 == [.accepted, .rejected, .silent, .accepted, .silent, .hooks [], .accepted, .silent, .hooks [.put 0 7]]) &&
      (p.1.rep.viewAt 0 == some 7) && (p.1.rep.viewAt 1 == none)) = some true ∧
    exRun.all Ev.benign = true := by decide

/-- the full statement: the same without excluding head-write failures -/
def order_per_cid_full : Prop :=
  ∀ (cfg : Cfg) (evs : List Ev) (s : St) (rs : List Res),
    run cfg {} evs = some (s, rs) → (∀ e ∈ evs, e ≠ Ev.take false) →
    s.queue = [] → s.pend.elems = [] → s.pend.tombs = [] →
    ∀ k, s.rep.viewAt k = (replay (acceptedOps evs rs) []).get k

def witEvs : List Ev :=
  [.log (.put 0 9), .take true, .commit .failHeads, .log (.put 0 1), .take true, .commit .ok]

def witChk (p : St × List Res) : Bool :=
  p.1.queue.isEmpty && p.1.pend.elems.isEmpty && p.1.pend.tombs.isEmpty &&
    (p.1.rep.viewAt 0 != (replay (acceptedOps witEvs p.2) []).get 0)

/-- **false**: batch size 1; pin (0 ↦ 9) is published but the head write fails; pin (0 ↦ 1) is
    then published at the same height and loses against the stored 9. Replayed on a real
    crdt.Consensus: corpus/C02/batch.txt, finding K05d. -/
theorem order_per_cid_full_fails : ¬ order_per_cid_full := by
  intro h
  have hc : (run ⟨1, 5⟩ {} witEvs).map witChk = some true := by decide
  cases hr : run ⟨1, 5⟩ {} witEvs with
  | none => rw [hr] at hc; cases hc
  | some p =>
    obtain ⟨s, rs⟩ := p
    rw [hr] at hc
    simp only [Option.map_some, Option.some.injEq, witChk, Bool.and_eq_true, List.isEmpty_iff, bne_iff_ne, ne_eq] at hc
    obtain ⟨⟨⟨hq, he⟩, ht⟩, hne⟩ := hc
    exact hne (h ⟨1, 5⟩ witEvs s rs hr (by decide) hq he ht 0)

/-- **timer armed while pending** (holds since fix 4da18ed): in every reachable state with a
    non-empty pending delta the age timer is armed, or the worker is already inside the
    age-triggered commit. -/
theorem timer_armed_while_pending (cfg : Cfg) (evs : List Ev) (s : St) (rs : List Res)
    (hr : run cfg {} evs = some (s, rs)) (hp : s.pend.isNil = false) :
    s.timer = true ∨ s.phase = .due true := by
  have := run_timerInv cfg evs {} s rs timerInv_init hr
  exact this.2 (this.1 hp)

/-- **a full batch is committed next**: the item that fills the batch puts the worker in front
    of `Commit`, where no further item and no timer event is processed first. -/
theorem full_batch_commit_is_next (cfg : Cfg) (s s' : St) (r : Res)
    (hs : step cfg s (.take true) = some (s', r)) (hfull : cfg.maxSize ≤ s'.curSize) :
    s'.phase = .due false ∧ ∀ ev x, step cfg s' ev = some x → (∃ o, ev = .log o) ∨ (∃ out, ev = .commit out) := by
  have hph : s'.phase = .due false := by
    simp only [step, Bool.not_true, Bool.false_eq_true, if_false] at hs
    split at hs
    · cases hs
    split at hs
    · split at hs
      · simp only [Option.some.injEq, Prod.mk.injEq] at hs
        obtain ⟨rfl, _⟩ := hs
        simp only at hfull
        omega
      · simp only [Option.some.injEq, Prod.mk.injEq] at hs
        obtain ⟨rfl, _⟩ := hs
        rfl
    · cases hs
  refine ⟨hph, fun ev x hx => ?_⟩
  cases ev with
  | log o => exact Or.inl ⟨o, rfl⟩
  | commit out => exact Or.inr ⟨out, rfl⟩
  | take b =>
    simp only [step, hph] at hx
    split at hx <;> cases hx
  | timerFire =>
    simp only [step, hph] at hx
    split at hx <;> cases hx

/-- **an aged batch is committed next**: receiving from the timer puts the worker in front of `Commit`. -/
theorem aged_batch_commit_is_next (cfg : Cfg) (s s' : St) (r : Res)
    (hs : step cfg s .timerFire = some (s', r)) : s'.phase = .due true := by
  simp only [step] at hs
  repeat' split at hs
  all_goals first
    | (cases hs; done)
    | (simp only [Option.some.injEq, Prod.mk.injEq] at hs
       obtain ⟨rfl, _⟩ := hs
       rfl)

/-- **a successful commit flushes the batch**: nothing stays pending, the size counter restarts,
    and the pinset is what publishing the pending delta yields. -/
theorem commit_ok_flushes (cfg : Cfg) (s s' : St) (r : Res) (hs : step cfg s (.commit .ok) = some (s', r))
    (hn : s.pend.isNil = false) :
    s'.pend = {} ∧ s'.curSize = 0 ∧ s'.phase = .idle ∧
    ∀ k, s'.rep.viewAt k = viewAfter s.rep s.pend s.nextId (s.height + 1) k := by
  simp only [step, hn] at hs
  split at hs
  · cases hs
  split at hs
  · cases hs
  · rename_i age _
    cases age <;>
    · simp only [Bool.false_eq_true, if_false, Option.some.injEq, Prod.mk.injEq] at hs
      obtain ⟨rfl, _⟩ := hs
      exact ⟨rfl, rfl, rfl, fun _ => rfl⟩

/-! ## trust -/

/-- **untrusted ignored**: a message signed by a peer for which `IsTrustedPeer` is false never
    changes the replica, whatever it announces and whoever forwarded it. -/
theorem untrusted_ignored (t : Trust) (r : Rep) (forwarder : Nat) (m : Msg)
    (h : t.isTrusted m.signer = false) : recv t r forwarder m = r := by
  simp [recv, validate, h]

/-- … and a replica that only ever hears untrusted signers stays as it was. -/
theorem untrusted_ignored_run (t : Trust) (r : Rep) (msgs : List (Nat × Msg))
    (h : ∀ m ∈ msgs, t.isTrusted m.2.signer = false) :
    msgs.foldl (fun r m => recv t r m.1 m.2) r = r := by
  induction msgs generalizing r with
  | nil => rfl
  | cons m tl ih =>
    simp only [List.foldl_cons]
    rw [untrusted_ignored t r m.1 m.2 (h m List.mem_cons_self)]
    exact ih r (fun x hx => h x (List.mem_cons_of_mem _ hx))

/-- **the forwarder does not matter**: the validator's verdict, hence what the replica becomes, is
    a function of the SIGNER of the message; two deliveries of one message through different
    forwarders have the same effect. -/
theorem forwarder_irrelevant (t : Trust) (r : Rep) (f1 f2 : Nat) (m : Msg) :
    validate t f1 m = validate t f2 m ∧ recv t r f1 m = recv t r f2 m := ⟨rfl, rfl⟩

/-- **the delivery path does not matter**: whatever chain of relays a message travelled along. -/
theorem delivery_path_irrelevant (t : Trust) (r : Rep) (p1 p2 : List Nat) (m : Msg) :
    deliver t r p1 m = deliver t r p2 m := rfl

/-- a trusted signer's update is merged even when it arrives through a relay the receiver does
    not trust (follower behind NAT: chain A – B – C, C trusts only A) … -/
theorem trusted_signer_through_untrusted_relay (t : Trust) (r : Rep) (relay : Nat) (m : Msg)
    (hs : t.isTrusted m.signer = true) (_hr : t.isTrusted relay = false) :
    deliver t r [relay] m = mergeAll m.walk r := by
  simp [deliver, recv, validate, hs]

/-- … and an untrusted signer's update is dropped even when a trusted peer forwards it. -/
theorem untrusted_signer_through_trusted_relay (t : Trust) (r : Rep) (relay : Nat) (m : Msg)
    (hs : t.isTrusted m.signer = false) (_hr : t.isTrusted relay = true) :
    deliver t r [relay] m = r := by
  simp [deliver, recv, validate, hs]

/-- both situations exist: peer 2 trusting only peer 0, relay 1 -/
example : let t : Trust := ⟨2, false, [0]⟩
    t.isTrusted 0 = true ∧ t.isTrusted 1 = false ∧
    (deliver t {} [1] ⟨0, [witA]⟩).viewAt 0 = some 9 ∧ (deliver ⟨2, false, [1]⟩ {} [1] ⟨0, [witA]⟩).viewAt 0 = none := by
  decide

/-! ### The anchored functions still read as the model was transcribed (regenerated from /repo on every run) -/

theorem gen_source_setup : Gen.setup = Expected.setup := rfl
theorem gen_source_isTrustedPeer : Gen.isTrustedPeer = Expected.isTrustedPeer := rfl
theorem gen_source_trust : Gen.trust = Expected.trust := rfl
theorem gen_source_distrust : Gen.distrust = Expected.distrust := rfl
theorem gen_source_logPin : Gen.logPin = Expected.logPin := rfl
theorem gen_source_logUnpin : Gen.logUnpin = Expected.logUnpin := rfl
theorem gen_source_batchWorker : Gen.batchWorker = Expected.batchWorker := rfl
theorem gen_source_stateFn : Gen.stateFn = Expected.stateFn := rfl


end CV.C02
