import ClusterVerif.Spec.C02

/-! # C02 — property theorems (first instalment) -/
namespace CV.C02

/-- an operation refused because the queue is full leaves the whole state unchanged -/
theorem reject_no_effect (cfg : Cfg) (s : St) (o : BOp) (s' : St)
    (h : step cfg s (.log o) = some (s', .rejected)) : s' = s := by
  simp only [step] at h
  split at h
  · simp at h
  · simp at h; exact h.symm

end CV.C02
