import ClusterVerif.Lemmas.C02
import ClusterVerif.Lemmas.C02Compose
import ClusterVerif.Lemmas.C02Ctx
import ClusterVerif.Model.C02Source
import ClusterVerif.Gen.C02
import ClusterVerif.Model.C02Hooks
import ClusterVerif.Lemmas.C02Keys

/-!
# C02 — CRDT: replicas converge; batching neither loses nor reorders operations

Property theorems only (helpers in `Lemmas/C02.lean`).

Replicated set (model of go-ds-crdt v0.1.21, `Rep`): a replica executes an arbitrary
interleaving `l : List Ph` of the tombstone phases and element phases of the deltas it
processes (any order, any repetition — this covers every delivery order, every grouping and the
concurrent DAG workers). Two replicas "have exchanged all updates" when their schedules
contain the same events.
-/
namespace CV.C02

/-! ## the replicated set -/

/-- **members converge**: two replicas that processed the same set of deltas — in any order,
    with any repetition, phases interleaved in any way — contain the same keys. -/
theorem members_converge (l1 l2 : List Ph) (hset : ∀ ph, ph ∈ l1 ↔ ph ∈ l2)
    (hprio : ∀ d, Ph.E d ∈ l1 → 1 ≤ d.prio) (k : Key) :
    (runPh l1 {}).member k = (runPh l2 {}).member k := by
  have h1 := HV_runPh l1 {} HV_empty hprio
  have h2 := HV_runPh l2 {} HV_empty (fun d hd => hprio d ((hset _).2 hd))
  rw [member_eq_alive_of_HV h1, member_eq_alive_of_HV h2]
  have := memberP_congr hset k
  rw [← alive_runPh_empty, ← alive_runPh_empty] at this
  cases ha : (runPh l1 {}).alive k <;> cases hb : (runPh l2 {}).alive k <;> simp_all

/-- the same for replicas that merged delta lists one delta after the other (`set.Merge`) -/
theorem members_converge_merge (a b : List Delta) (hset : ∀ d, d ∈ a ↔ d ∈ b)
    (hprio : ∀ d ∈ a, 1 ≤ d.prio) (k : Key) :
    (mergeAll a {}).member k = (mergeAll b {}).member k := by
  rw [mergeAll_eq_runPh, mergeAll_eq_runPh]
  exact members_converge _ _ (phasesOf_congr hset) (fun d hd => hprio d ((mem_phasesOf_E a d).1 hd)) k

/-- full value convergence: what the property asks of the pinset contents -/
def values_converge_full : Prop :=
  ∀ (l1 l2 : List Ph), (∀ ph, ph ∈ l1 ↔ ph ∈ l2) → (∀ d, Ph.E d ∈ l1 → 1 ≤ d.prio) →
    ∀ k, (runPh l1 {}).viewAt k = (runPh l2 {}).viewAt k

/-- **values converge (partial)**: under (H1) no delta puts one key twice and (H2, DESIGN A.2)
    the greatest (priority, value) ever put for a member key belongs to an element that is never
    tombstoned, the two replicas hold the same value for every key. -/
theorem values_converge_partial (l1 l2 : List Ph) (hset : ∀ ph, ph ∈ l1 ↔ ph ∈ l2)
    (hprio : ∀ d, Ph.E d ∈ l1 → 1 ≤ d.prio)
    (H1 : ∀ d, Ph.E d ∈ l1 → nodupKeys d) (H2 : MaxSurvives l1) (k : Key) :
    (runPh l1 {}).viewAt k = (runPh l2 {}).viewAt k := by
  have hm := members_converge l1 l2 hset hprio k
  unfold Rep.viewAt
  rw [← hm]
  cases hmem : (runPh l1 {}).member k with
  | false => simp
  | true =>
    simp only [if_true]
    have hal : memberP l1 k := by
      rw [← alive_runPh_empty, ← member_eq_alive_of_HV (HV_runPh l1 {} HV_empty hprio)]
      exact hmem
    obtain ⟨d, v, hd, hv, hnt, hmax⟩ := H2 k hal
    rw [prioVal_runPh_of_max l1 H1 k d v hd hv hnt hmax,
      prioVal_runPh_of_max l2 (fun d hd => H1 d ((hset _).2 hd)) k d v ((hset _).1 hd) hv
        (fun d' hd' => hnt d' ((hset _).2 hd')) (fun d'' v'' hd'' => hmax d'' v'' ((hset _).2 hd''))]

/-- the hypotheses are satisfiable by a history with a delete, a later re-put and concurrent puts,
    and the theorem's conclusion is then visible on two opposite merge orders -/
abbrev exHist : List Delta :=
  [⟨0, 1, [(0, 3), (1, 4)], []⟩, ⟨1, 2, [], [(0, 0)]⟩, ⟨2, 3, [(0, 2)], []⟩, ⟨3, 1, [(1, 9)], []⟩]

example : (∀ d ∈ exHist, 1 ≤ d.prio) ∧ (∀ d ∈ exHist, nodupKeys d) ∧ (∀ k ∈ [0, 1], maxSurvivesK exHist k = true) := by
  decide
example : (mergeAll exHist {}).viewAt 0 = some 2 ∧ (mergeAll exHist.reverse {}).viewAt 0 = some 2 ∧
    (mergeAll exHist {}).viewAt 1 = some 9 ∧ (mergeAll exHist.reverse {}).viewAt 1 = some 9 := by decide

/-- values converge for merges of delta lists whose decidable hypotheses check -/
theorem values_converge_merge (a b : List Delta) (hset : ∀ d, d ∈ a ↔ d ∈ b)
    (hprio : ∀ d ∈ a, 1 ≤ d.prio) (H1 : ∀ d ∈ a, nodupKeys d) (H2 : ∀ k, maxSurvivesK a k = true) (k : Key) :
    (mergeAll a {}).viewAt k = (mergeAll b {}).viewAt k := by
  rw [mergeAll_eq_runPh, mergeAll_eq_runPh]
  exact values_converge_partial _ _ (phasesOf_congr hset) (fun d hd => hprio d ((mem_phasesOf_E a d).1 hd))
    (fun d hd => H1 d ((mem_phasesOf_E a d).1 hd)) (maxSurvivesK_sound a H2) k

/-- the witness of DESIGN A.2: puts `a = (k, 9)` and `b = (k, 1)` made concurrently at priority 1
    and a tombstone `t` of `a` only. -/
def witA : Delta := { id := 0, prio := 1, elems := [(0, 9)], tombs := [] }
def witB : Delta := { id := 1, prio := 1, elems := [(0, 1)], tombs := [] }
def witT : Delta := { id := 2, prio := 2, elems := [], tombs := [(0, 0)] }

/-- **full value convergence is false of go-ds-crdt v0.1.21**: merging `a, b, t` leaves value 9,
    merging `t, a, b` (the head-first walk of a replica that syncs late) leaves value 1.
    Replayed on real replicas: corpus/C02/set.txt, finding K05. -/
theorem values_converge_full_fails : ¬ values_converge_full := by
  intro h
  have := h (phasesOf [witA, witB, witT]) (phasesOf [witT, witA, witB])
    (phasesOf_congr (by intro d; simp only [List.mem_cons, List.not_mem_nil, or_false]; tauto))
    (by intro d hd; rw [mem_phasesOf_E] at hd; revert d; decide) 0
  revert this
  decide

/-- (H1) cannot be dropped either: one delta putting a key twice (pin and re-pin of a CID inside
    one batch) and one concurrent put, no delete at all. Finding K05b. -/
theorem values_converge_needs_single_put :
    ∃ l1 l2 : List Ph, (∀ ph, ph ∈ l1 ↔ ph ∈ l2) ∧ (∀ d, Ph.E d ∈ l1 → 1 ≤ d.prio) ∧ MaxSurvives l1 ∧
      (runPh l1 {}).viewAt 0 ≠ (runPh l2 {}).viewAt 0 := by
  refine ⟨phasesOf [⟨0, 1, [(0, 9), (0, 1)], []⟩, ⟨1, 1, [(0, 5)], []⟩],
          phasesOf [⟨1, 1, [(0, 5)], []⟩, ⟨0, 1, [(0, 9), (0, 1)], []⟩],
          phasesOf_congr (by intro d; simp only [List.mem_cons, List.not_mem_nil, or_false]; tauto),
          (by intro d hd; rw [mem_phasesOf_E] at hd; revert d; decide), ?_, by decide⟩
  intro k hk
  obtain ⟨d, hd, ⟨v, hv⟩, _⟩ := hk
  rw [mem_phasesOf_E] at hd
  have hk0 : k = 0 := by
    simp only [List.mem_cons, List.not_mem_nil, or_false] at hd
    rcases hd with rfl | rfl
    · simp at hv; rcases hv with ⟨h, _⟩ | ⟨h, _⟩ <;> exact h
    · simp at hv; exact hv.1
  subst hk0
  refine ⟨⟨0, 1, [(0, 9), (0, 1)], []⟩, 9, by rw [mem_phasesOf_E]; simp, by simp, ?_, ?_⟩
  · intro d' hd'
    rw [mem_phasesOf_T] at hd'
    simp only [List.mem_cons, List.not_mem_nil, or_false] at hd'
    rcases hd' with rfl | rfl <;> simp
  · intro d'' v'' hd'' hv''
    rw [mem_phasesOf_E] at hd''
    simp only [List.mem_cons, List.not_mem_nil, or_false] at hd''
    rcases hd'' with rfl | rfl
    · simp at hv''; rcases hv'' with rfl | rfl <;> exact Or.inr ⟨rfl, by decide⟩
    · simp at hv''; subst hv''; exact Or.inr ⟨rfl, by decide⟩

/-- **every change of the view is handed over, except a revival**: after merging a delta, for
    every key whose entry changed, the hook saying what the pinset now holds (PutHook with the new
    value → Track, DeleteHook → Untrack) was called — or the key was absent, had a stored value left
    over from a deleted element, and came back holding exactly that value. -/
theorem hooks_cover_changes_or_revival (r : Rep) (d : Delta) (k : Key)
    (hch : r.viewAt k ≠ (r.merge d).1.viewAt k) :
    hookFor ((r.merge d).1.viewAt k) k ∈ (r.merge d).2 ∨
    (r.viewAt k = none ∧ (r.vals.lookup k).isSome = true ∧ (r.merge d).1.viewAt k = some (r.prioVal k).2) :=
  hooks_cover_or_revival r d k hch

/-- what the property asks: every change of a reachable replica's view is handed to the tracker -/
def hooks_cover_changes_full : Prop :=
  ∀ (l : List Delta) (d : Delta) (k : Key),
    (mergeAll l {}).viewAt k ≠ ((mergeAll l {}).merge d).1.viewAt k →
    hookFor (((mergeAll l {}).merge d).1.viewAt k) k ∈ ((mergeAll l {}).merge d).2

/-- **false of go-ds-crdt v0.1.21**: after put (0,9) and its delete, a concurrent put (0,1) brings
    key 0 back holding 9 and no hook runs. Replayed on real replicas: corpus/C02/set.txt, K05c. -/
theorem hooks_cover_changes_full_fails : ¬ hooks_cover_changes_full := by
  intro h
  have := h [witA, witT] witB 0
  revert this
  decide

/-- **hooks cover changes (partial)**: on a replica where no absent key has a stored value left
    over (no key was ever deleted), every change of the view comes with its hook. -/
theorem hooks_cover_changes_partial (r : Rep) (d : Delta) (k : Key)
    (hclean : ∀ k, r.viewAt k = none → r.vals.lookup k = none)
    (hch : r.viewAt k ≠ (r.merge d).1.viewAt k) :
    hookFor ((r.merge d).1.viewAt k) k ∈ (r.merge d).2 := by
  rcases hooks_cover_or_revival r d k hch with h | ⟨h1, h2, _⟩
  · exact h
  · rw [hclean k h1] at h2; cases h2

/-- a local write — one operation, or the operations of one datastore batch — published as a new
    node on top of everything the replica has merged changes its view exactly as the operations
    say, in order (a later put of a key wins, a delete drops earlier puts of the key). -/
theorem local_write_effect (r : Rep) (h n : Nat) (hi : RepInv r h n) (ops : List BOp) (k : Key) :
    viewAfter r (ops.foldl (fun p o => p.add r o) {}) n (h + 1) k = replayAt ops r.viewAt k := by
  have hf := fold_add_formula r n hi.eid ops {} r.viewAt (fun t ht => by cases ht) (viewFormula_empty r)
  rw [viewAfter_eq_formula r _ h n hi hf.1]
  exact hf.2 k

/-! ## the batching worker -/

/-- an operation refused because the queue is full leaves the whole state unchanged -/
theorem reject_no_effect (cfg : Cfg) (s : St) (o : BOp) (s' : St)
    (h : step cfg s (.log o) = some (s', .rejected)) : s' = s := by
  simp only [step] at h
  split at h
  · simp at h
  · simp at h; exact h.symm

/-- **pending view**: in every run without a failed Add and without a head-write failure, the
    accepted operations are the ones the worker has taken followed by the ones still queued, and
    publishing the pending delta yields exactly the replay of the taken ones. -/
theorem order_per_cid_pending (cfg : Cfg) (evs : List Ev) (s : St) (rs : List Res)
    (hr : run cfg {} evs = some (s, rs)) (hb : ∀ e ∈ evs, Ev.benign e = true) :
    ∃ taken, acceptedOps evs rs = taken ++ s.queue ∧
      ∀ k, viewAfter s.rep s.pend s.nextId (s.height + 1) k = (replay taken []).get k := by
  obtain ⟨taken, h1, _, h3⟩ := run_invariant cfg evs {} s rs [] core_init_inv
    (fun k => by rw [core_init_PV]; rfl) hb hr
  refine ⟨taken, by simpa using h1, fun k => ?_⟩
  rw [replay_get]
  exact h3 k

/-- **order per CID (partial)**: … and once the queue is drained and the pending delta committed,
    the pinset is the replay of all accepted operations in submission order: per CID the last
    accepted pin's content, or absent after an unpin; refused operations do not appear.
    Extra hypothesis, explicit: no publish failed at the head write (`Ev.benign`). -/
theorem order_per_cid_partial (cfg : Cfg) (evs : List Ev) (s : St) (rs : List Res)
    (hr : run cfg {} evs = some (s, rs)) (hb : ∀ e ∈ evs, Ev.benign e = true)
    (hq : s.queue = []) (he : s.pend.elems = []) (ht : s.pend.tombs = []) (k : Key) :
    s.rep.viewAt k = (replay (acceptedOps evs rs) []).get k := by
  obtain ⟨taken, h1, hi, h3⟩ := run_invariant cfg evs {} s rs [] core_init_inv
    (fun k => by rw [core_init_PV]; rfl) hb hr
  rw [hq] at h1
  simp only [List.nil_append, List.append_nil] at h1
  rw [h1, replay_get, ← viewFormula_flushed s.rep s.pend he ht k]
  exact (Core.PV_eq s.core hi k).symm.trans (h3 k)

/-- a run with a refusal (queue of 1), a delete inside the batch and a failed element commit meets
    the hypotheses: every event is enabled and benign, and the state ends flushed -/
abbrev exRun : List Ev :=
  [.log (.put 0 5), .log (.put 1 6), .take true, .log (.del 0), .take true, .commit .failElems,
   .log (.put 0 7), .take true, .commit .ok]

example : ((run ⟨2, 1⟩ {} exRun).map fun p =>
      p.1.queue.isEmpty && p.1.pend.elems.isEmpty && p.1.pend.tombs.isEmpty &&
      (p.2 == [.accepted, .rejected, .silent, .accepted, .silent, .hooks [], .accepted, .silent, .hooks [.put 0 7]]) &&
      (p.1.rep.viewAt 0 == some 7) && (p.1.rep.viewAt 1 == none)) = some true ∧
    exRun.all Ev.benign = true := by decide

/-- the full statement: the same without excluding head-write failures -/
def order_per_cid_full : Prop :=
  ∀ (cfg : Cfg) (evs : List Ev) (s : St) (rs : List Res),
    run cfg {} evs = some (s, rs) → (∀ e ∈ evs, e ≠ Ev.take false) →
    s.queue = [] → s.pend.elems = [] → s.pend.tombs = [] →
    ∀ k, s.rep.viewAt k = (replay (acceptedOps evs rs) []).get k

def witEvs : List Ev :=
  [.log (.put 0 9), .take true, .commit .failHeads, .log (.put 0 1), .take true, .commit .ok]

def witChk (p : St × List Res) : Bool :=
  p.1.queue.isEmpty && p.1.pend.elems.isEmpty && p.1.pend.tombs.isEmpty &&
    (p.1.rep.viewAt 0 != (replay (acceptedOps witEvs p.2) []).get 0)

/-- **false**: batch size 1; pin (0 ↦ 9) is published but the head write fails; pin (0 ↦ 1) is
    then published at the same height and loses against the stored 9. Replayed on a real
    crdt.Consensus: corpus/C02/batch.txt, finding K05d. -/
theorem order_per_cid_full_fails : ¬ order_per_cid_full := by
  intro h
  have hc : (run ⟨1, 5⟩ {} witEvs).map witChk = some true := by decide
  cases hr : run ⟨1, 5⟩ {} witEvs with
  | none => rw [hr] at hc; cases hc
  | some p =>
    obtain ⟨s, rs⟩ := p
    rw [hr] at hc
    simp only [Option.map_some, Option.some.injEq, witChk, Bool.and_eq_true, List.isEmpty_iff, bne_iff_ne, ne_eq] at hc
    obtain ⟨⟨⟨hq, he⟩, ht⟩, hne⟩ := hc
    exact hne (h ⟨1, 5⟩ witEvs s rs hr (by decide) hq he ht 0)

/-- **timer armed while pending** (holds since fix 4da18ed): in every reachable state with a
    non-empty pending delta the age timer is armed, or the worker is already inside the
    age-triggered commit. -/
theorem timer_armed_while_pending (cfg : Cfg) (evs : List Ev) (s : St) (rs : List Res)
    (hr : run cfg {} evs = some (s, rs)) (hp : s.pend.isNil = false) :
    s.timer = true ∨ s.phase = .due true := by
  have := run_timerInv cfg evs {} s rs timerInv_init hr
  exact this.2 (this.1 hp)

/-- **a full batch is committed next**: the item that fills the batch puts the worker in front
    of `Commit`, where no further item and no timer event is processed first. -/
theorem full_batch_commit_is_next (cfg : Cfg) (s s' : St) (r : Res)
    (hs : step cfg s (.take true) = some (s', r)) (hfull : cfg.maxSize ≤ s'.curSize) :
    s'.phase = .due false ∧ ∀ ev x, step cfg s' ev = some x → (∃ o, ev = .log o) ∨ (∃ out, ev = .commit out) := by
  have hph : s'.phase = .due false := by
    simp only [step, Bool.not_true, Bool.false_eq_true, if_false] at hs
    split at hs
    · cases hs
    split at hs
    · split at hs
      · simp only [Option.some.injEq, Prod.mk.injEq] at hs
        obtain ⟨rfl, _⟩ := hs
        simp only at hfull
        omega
      · simp only [Option.some.injEq, Prod.mk.injEq] at hs
        obtain ⟨rfl, _⟩ := hs
        rfl
    · cases hs
  refine ⟨hph, fun ev x hx => ?_⟩
  cases ev with
  | log o => exact Or.inl ⟨o, rfl⟩
  | commit out => exact Or.inr ⟨out, rfl⟩
  | take b =>
    simp only [step, hph] at hx
    split at hx <;> cases hx
  | timerFire =>
    simp only [step, hph] at hx
    split at hx <;> cases hx

/-- **an aged batch is committed next**: receiving from the timer puts the worker in front of `Commit`. -/
theorem aged_batch_commit_is_next (cfg : Cfg) (s s' : St) (r : Res)
    (hs : step cfg s .timerFire = some (s', r)) : s'.phase = .due true := by
  simp only [step] at hs
  repeat' split at hs
  all_goals first
    | (cases hs; done)
    | (simp only [Option.some.injEq, Prod.mk.injEq] at hs
       obtain ⟨rfl, _⟩ := hs
       rfl)

/-- **a successful commit flushes the batch**: nothing stays pending, the size counter restarts,
    and the pinset is what publishing the pending delta yields. -/
theorem commit_ok_flushes (cfg : Cfg) (s s' : St) (r : Res) (hs : step cfg s (.commit .ok) = some (s', r))
    (hn : s.pend.isNil = false) :
    s'.pend = {} ∧ s'.curSize = 0 ∧ s'.phase = .idle ∧
    ∀ k, s'.rep.viewAt k = viewAfter s.rep s.pend s.nextId (s.height + 1) k := by
  simp only [step, hn] at hs
  split at hs
  · cases hs
  split at hs
  · cases hs
  · rename_i age _
    cases age <;>
    · simp only [Bool.false_eq_true, if_false, Option.some.injEq, Prod.mk.injEq] at hs
      obtain ⟨rfl, _⟩ := hs
      exact ⟨rfl, rfl, rfl, fun _ => rfl⟩

/-! ## trust -/

/-- **untrusted ignored**: a message signed by a peer for which `IsTrustedPeer` is false never
    changes the replica, whatever it announces and whoever forwarded it. -/
theorem untrusted_ignored (t : Trust) (r : Rep) (forwarder : Nat) (m : Msg)
    (h : t.isTrusted m.signer = false) : recv t r forwarder m = r := by
  simp [recv, validate, h]

/-- … and a replica that only ever hears untrusted signers stays as it was. -/
theorem untrusted_ignored_run (t : Trust) (r : Rep) (msgs : List (Nat × Msg))
    (h : ∀ m ∈ msgs, t.isTrusted m.2.signer = false) :
    msgs.foldl (fun r m => recv t r m.1 m.2) r = r := by
  induction msgs generalizing r with
  | nil => rfl
  | cons m tl ih =>
    simp only [List.foldl_cons]
    rw [untrusted_ignored t r m.1 m.2 (h m List.mem_cons_self)]
    exact ih r (fun x hx => h x (List.mem_cons_of_mem _ hx))

/-- **the forwarder does not matter**: the validator's verdict, hence what the replica becomes, is
    a function of the SIGNER of the message; two deliveries of one message through different
    forwarders have the same effect. -/
theorem forwarder_irrelevant (t : Trust) (r : Rep) (f1 f2 : Nat) (m : Msg) :
    validate t f1 m = validate t f2 m ∧ recv t r f1 m = recv t r f2 m := ⟨rfl, rfl⟩

/-- **the delivery path does not matter**: whatever chain of relays a message travelled along. -/
theorem delivery_path_irrelevant (t : Trust) (r : Rep) (p1 p2 : List Nat) (m : Msg) :
    deliver t r p1 m = deliver t r p2 m := rfl

/-- a trusted signer's update is merged even when it arrives through a relay the receiver does
    not trust (follower behind NAT: chain A – B – C, C trusts only A) … -/
theorem trusted_signer_through_untrusted_relay (t : Trust) (r : Rep) (relay : Nat) (m : Msg)
    (hs : t.isTrusted m.signer = true) (_hr : t.isTrusted relay = false) :
    deliver t r [relay] m = mergeAll m.walk r := by
  simp [deliver, recv, validate, hs]

/-- … and an untrusted signer's update is dropped even when a trusted peer forwards it. -/
theorem untrusted_signer_through_trusted_relay (t : Trust) (r : Rep) (relay : Nat) (m : Msg)
    (hs : t.isTrusted m.signer = false) (_hr : t.isTrusted relay = true) :
    deliver t r [relay] m = r := by
  simp [deliver, recv, validate, hs]

/-- both situations exist: peer 2 trusting only peer 0, relay 1 -/
example : let t : Trust := ⟨2, false, [0]⟩
    t.isTrusted 0 = true ∧ t.isTrusted 1 = false ∧
    (deliver t {} [1] ⟨0, [witA]⟩).viewAt 0 = some 9 ∧ (deliver ⟨2, false, [1]⟩ {} [1] ⟨0, [witA]⟩).viewAt 0 = none := by
  decide

/-! ## the composed replica: worker + set + remote deliveries (`CSt`, `cstep`) -/

/-- **local order preserved**: in every run of a composed replica — any interleaving of LogPin/LogUnpin,
    worker steps, commits failing at any write any number of times, and remote walks merged between any two
    of them — the accepted operations are, in submission order, the operations of the committed batches
    followed by the taken ones followed by the queued ones; the i-th delta of the replica's stream carries
    exactly the elements of the i-th batch (puts in submission order, a delete dropping the earlier puts
    of its key); stream priorities strictly increase, so every later local delta overrides every earlier
    one wherever it is merged; and the stream's node ids are the replica's own, strictly increasing. Only a
    failed `batchingState.Add/Rm` (the worker drops the item) is excluded. -/
theorem local_order_preserved (cfg : Cfg) (me : Who) (evs : List CEv) (c : CSt) (rs : List Res)
    (hr : crun cfg { me := me } evs = some (c, rs)) (hne : ∀ e ∈ evs, e ≠ CEv.loc (.take false)) :
    cAccepted evs rs = c.done.flatten ++ c.batch ++ c.queue ∧
    c.out.map (·.elems) = c.done.map elemsOf ∧ c.pend.elems = elemsOf c.batch ∧
    (c.out.map (·.prio)).Pairwise (· < ·) ∧
    ∃ cs : List Nat, c.out.map (·.id) = cs.map me.mkId ∧ cs.Pairwise (· < ·) := by
  obtain ⟨hi, h⟩ := crun_stream cfg evs _ c rs (streamInv_init me) hne hr
  have hme : c.me = me := (crun_sched_me cfg evs _ c rs hr)
  obtain ⟨cs, e1, e2, _⟩ := hi.ids
  exact ⟨by simpa using h.symm, hi.elems, hi.pendE, hi.prios, cs, by rw [← hme]; exact e1, e2⟩

/-- a run with remote deliveries while a batch is open and in front of `Commit`, a refusal and two failed
    commits meets the hypothesis; its stream holds one delta carrying the four accepted operations, at the priority raised by the walks -/
abbrev exCRun : List CEv :=
  [.loc (.log (.put 0 5)), .loc (.take true), .recv [⟨1, 1, [(0, 3)], []⟩], .loc (.log (.del 0)), .loc (.log (.put 1 2)),
   .loc (.take true), .recv [⟨3, 2, [(2, 4)], []⟩], .loc (.commit .failElems), .loc (.take true), .loc (.commit .failBlock),
   .loc (.log (.put 0 7)), .loc (.take true), .loc (.commit .ok), .recv []]

example : ((crun ⟨2, 2⟩ { me := ⟨0, 2⟩ } exCRun).map fun p =>
      (p.1.done == [[.put 0 5, .del 0, .put 1 2, .put 0 7]]) && (p.1.out.map (·.elems) == [[(1, 2), (0, 7)]]) &&
      (p.1.out.map (·.prio) == [3]) && p.1.queue.isEmpty && p.1.batch.isEmpty) = some true ∧
    exCRun.all (fun e => e != CEv.loc (.take false)) = true := by decide

/-- **a remote merge commutes with the pending batch**: merging a remote walk — at any moment, also while
    a batch is open or the worker stands in front of `Commit` — changes neither the queue, nor the pending
    delta (its elements and the tombstones read by the deletes already taken), nor the worker's counters,
    timer and phase, nor the stream. What it does change for the pending batch: the node the next `Commit`
    builds gets priority `max height (priority of the walk's root) + 1` instead of `height + 1` (and the
    remote heads as parents), and nothing else. -/
theorem remote_merge_commutes_with_pending (cfg : Cfg) (c c' : CSt) (ds : List Delta) (r : Res)
    (hs : cstep cfg c (.recv ds) = some (c', r)) :
    c'.queue = c.queue ∧ c'.pend = c.pend ∧ c'.batch = c.batch ∧ c'.curSize = c.curSize ∧ c'.timer = c.timer ∧
    c'.phase = c.phase ∧ c'.out = c.out ∧ c'.ctr = c.ctr ∧
    c'.delta = { c.delta with prio := max c.height (maxPrio ds) + 1 } ∧
    c'.rep = mergeAll ds c.rep := by
  simp only [cstep, Option.some.injEq, Prod.mk.injEq] at hs
  obtain ⟨rfl, _⟩ := hs
  exact ⟨rfl, rfl, rfl, rfl, rfl, rfl, rfl, rfl, rfl, mergeWalk_fst ds _ _⟩

/-- … hence the delta a successful commit appends to the stream after a remote merge is the one it would
    have appended before, at the raised priority -/
theorem commit_after_remote_merge (c : CSt) (ds : List Delta) (c1 : CSt) (r : Res) (cfg : Cfg)
    (hs : cstep cfg c (.recv ds) = some (c1, r)) :
    (c1.publish .ok).1.out = c.out ++ [{ c.delta with prio := max c.height (maxPrio ds) + 1 }] := by
  obtain ⟨_, _, _, _, _, _, ho, _, hd, _⟩ := remote_merge_commutes_with_pending cfg c c1 ds r hs
  simp only [CSt.publish, ho, hd]

/-- what DOES depend on the moment of the merge: the tombstones of a delete are read when the worker takes
    it. Replica 0 holds key 0 (own element); `del 0` is taken, THEN the remote put `(0 ↦ 3)` arrives, then
    the batch commits: key 0 stays in the pinset with the remote content (the remote element is not
    tombstoned — add wins). With the arrival before the take, key 0 is gone. -/
theorem pending_delete_spares_later_remote_put :
    let pre : List CEv := [.loc (.log (.put 0 5)), .loc (.take true), .loc (.commit .ok)]
    let d : CEv := .recv [⟨1, 1, [(0, 3)], []⟩]
    ((crun ⟨1, 9⟩ { me := ⟨0, 2⟩ } (pre ++ [.loc (.log (.del 0)), .loc (.take true), d, .loc (.commit .ok)])).map
        (fun p => (p.1.rep.viewAt 0, p.1.out.map (·.tombs)))) = some (some 5, [[], [(0, 0)]]) ∧
    ((crun ⟨1, 9⟩ { me := ⟨0, 2⟩ } (pre ++ [d, .loc (.log (.del 0)), .loc (.take true), .loc (.commit .ok)])).map
        (fun p => (p.1.rep.viewAt 0, p.1.out.map (·.tombs)))) = some (none, [[], [(0, 1), (0, 0)]]) := by decide

/-- **composed replicas converge (members)**: two composed replicas — every interleaving of their local
    events and deliveries, batches of any shape, commits failing before anything is stored any number of
    times — that have received each other's whole delta stream (and nothing else) hold the same keys.
    Any joint run of a two-replica system projects to two such runs. Publishes that fail AFTER storing
    part of the delta (element batch, head) are excluded by `CEv.clean`: the orphaned node is never
    announced (K05d). -/
theorem composed_members_converge_partial (cfgA cfgB : Cfg) (evsA evsB : List CEv) (a b : CSt) (rsA rsB : List Res)
    (hA : crun cfgA { me := ⟨0, 2⟩ } evsA = some (a, rsA)) (hB : crun cfgB { me := ⟨1, 2⟩ } evsB = some (b, rsB))
    (hcA : ∀ e ∈ evsA, CEv.clean e = true) (hcB : ∀ e ∈ evsB, CEv.clean e = true)
    (hab : ∀ d, d ∈ a.got ↔ d ∈ b.out) (hba : ∀ d, d ∈ b.got ↔ d ∈ a.out) (k : Key) :
    a.rep.member k = b.rep.member k := by
  obtain ⟨ia, _, _⟩ := crun_sched cfgA evsA _ a rsA (schedInv_init _) hcA hA
  obtain ⟨ib, _, _⟩ := crun_sched cfgB evsB _ b rsB (schedInv_init _) hcB hB
  rw [ia.rep, ib.rep]
  refine members_converge a.sched b.sched (sched_same_events ia ib hab hba) ?_ k
  intro d hd
  obtain ⟨d', hd', h⟩ := ia.sound _ hd
  have : d' = d := by rcases h with h | h <;> cases h; rfl
  subst this
  rw [List.mem_append] at hd'
  rcases hd' with h | h
  · exact ia.prio _ h
  · exact ib.prio _ ((hab _).1 h)

/-- the full statement, without restricting how a publish may fail -/
def composed_members_converge_full : Prop :=
  ∀ (cfgA cfgB : Cfg) (evsA evsB : List CEv) (a b : CSt) (rsA rsB : List Res),
    crun cfgA { me := ⟨0, 2⟩ } evsA = some (a, rsA) → crun cfgB { me := ⟨1, 2⟩ } evsB = some (b, rsB) →
    (∀ d, d ∈ a.got ↔ d ∈ b.out) → (∀ d, d ∈ b.got ↔ d ∈ a.out) → ∀ k, a.rep.member k = b.rep.member k

def witC : List CEv := [.loc (.log (.put 0 5)), .loc (.take true), .loc (.commit .failHeads)]
def witCChk (p : CSt × List Res) : Bool := p.1.got.isEmpty && p.1.out.isEmpty && (p.1.rep.member 0 == true)

/-- **false**: a publish of replica 0 that stores the delta and fails at the head write leaves an element
    nobody else ever receives (the node is not a head, is not announced, and the next node does not link
    to it) while LogPin had returned nil. Same root as K05d. -/
theorem composed_members_converge_full_fails : ¬ composed_members_converge_full := by
  intro h
  have hc : (crun ⟨1, 9⟩ { me := ⟨0, 2⟩ } witC).map witCChk = some true := by decide
  cases hr : crun ⟨1, 9⟩ { me := ⟨0, 2⟩ } witC with
  | none => rw [hr] at hc; cases hc
  | some p =>
    obtain ⟨a, rs⟩ := p
    rw [hr] at hc
    simp only [Option.map_some, Option.some.injEq, witCChk, Bool.and_eq_true, List.isEmpty_iff, beq_iff_eq] at hc
    obtain ⟨⟨hg, ho⟩, hm⟩ := hc
    have := h ⟨1, 9⟩ ⟨1, 9⟩ witC [] a { me := ⟨1, 2⟩ } rs [] hr rfl
      (by intro d; rw [hg]) (by intro d; rw [ho]) 0
    rw [hm] at this
    revert this
    decide

/-- **composed replicas converge (values)** under the hypotheses of `values_converge_partial` on the
    joint history: (H1) no batch pins one CID twice, (H2) the greatest (priority, value) of a member key
    belongs to a never-tombstoned element. -/
theorem composed_values_converge_partial (cfgA cfgB : Cfg) (evsA evsB : List CEv) (a b : CSt) (rsA rsB : List Res)
    (hA : crun cfgA { me := ⟨0, 2⟩ } evsA = some (a, rsA)) (hB : crun cfgB { me := ⟨1, 2⟩ } evsB = some (b, rsB))
    (hcA : ∀ e ∈ evsA, CEv.clean e = true) (hcB : ∀ e ∈ evsB, CEv.clean e = true)
    (hab : ∀ d, d ∈ a.got ↔ d ∈ b.out) (hba : ∀ d, d ∈ b.got ↔ d ∈ a.out)
    (H1 : ∀ d ∈ a.out ++ b.out, nodupKeys d) (H2 : MaxSurvives a.sched) (k : Key) :
    a.rep.viewAt k = b.rep.viewAt k := by
  obtain ⟨ia, _, _⟩ := crun_sched cfgA evsA _ a rsA (schedInv_init _) hcA hA
  obtain ⟨ib, _, _⟩ := crun_sched cfgB evsB _ b rsB (schedInv_init _) hcB hB
  have hsrc : ∀ d, Ph.E d ∈ a.sched → d ∈ a.out ++ b.out := by
    intro d hd
    obtain ⟨d', hd', h⟩ := ia.sound _ hd
    have : d' = d := by rcases h with h | h <;> cases h; rfl
    subst this
    rw [List.mem_append] at hd' ⊢
    exact hd'.elim Or.inl (fun x => Or.inr ((hab _).1 x))
  rw [ia.rep, ib.rep]
  refine values_converge_partial a.sched b.sched (sched_same_events ia ib hab hba) ?_ (fun d hd => H1 d (hsrc d hd)) H2 k
  intro d hd
  have := hsrc d hd
  rw [List.mem_append] at this
  exact this.elim (ia.prio d) (ib.prio d)

/-- two replicas with a batch each, a delete, crossing deliveries while batches are open: the hypotheses
    are satisfiable and the pinsets agree -/
abbrev exA : List CEv :=
  [.loc (.log (.put 0 5)), .loc (.log (.put 1 6)), .loc (.take true), .loc (.take true), .loc (.commit .failBlock),
   .loc (.log (.put 2 1)), .loc (.take true), .loc (.commit .ok), .recv [⟨1, 2, [(0, 3)], []⟩], .loc (.log (.del 1)),
   .loc (.take true), .loc (.timerFire), .loc (.commit .ok)]
abbrev exB : List CEv :=
  [.loc (.log (.put 0 3)), .loc (.take true), .recv [⟨0, 1, [(0, 5), (1, 6), (2, 1)], []⟩], .loc (.commit .ok),
   .recv [⟨2, 3, [], [(1, 0)]⟩]]

example : (match crun ⟨2, 9⟩ { me := ⟨0, 2⟩ } exA, crun ⟨1, 9⟩ { me := ⟨1, 2⟩ } exB with
    | some (a, _), some (b, _) =>
      a.got.all b.out.contains && b.out.all a.got.contains && b.got.all a.out.contains && a.out.all b.got.contains &&
      (a.rep.viewAt 0 == some 3) && (b.rep.viewAt 0 == some 3) && (a.rep.viewAt 1 == none) && (b.rep.viewAt 1 == none) &&
      (a.rep.viewAt 2 == some 1) && (b.rep.viewAt 2 == some 1)
    | _, _ => false) = true ∧ exA.all CEv.clean = true ∧ exB.all CEv.clean = true := by decide

/-! ## batch boundaries (age mode) -/

/-- **hooks determined by the boundaries**: in every run of the worker in which every commit succeeds and
    nothing is merged from outside — any interleaving of submissions, takes, timer and commits — the
    tracker calls, in order, and the replica are those of `runBatches` over the committed batches: a
    function of the operations and of where the batch boundaries fell, and of nothing else. -/
theorem hooks_determined_by_boundaries (cfg : Cfg) (me : Who) (evs : List CEv) (c : CSt) (rs : List Res)
    (hr : crun cfg { me := me } evs = some (c, rs)) (hp : ∀ e ∈ evs, CEv.plain e = true) :
    runBatches me c.done (({}, 0, 0), []) = ((c.rep, c.height, c.ctr), hooksOf rs) := by
  obtain ⟨hi, hme⟩ := crun_bnd cfg evs _ c rs [] (bndInv_init me) hp hr
  have := hi.st
  rw [hme] at this
  simpa using this

/-- … so two runs with the same batches make the same tracker calls in the same order -/
theorem hooks_same_boundaries (cfg1 cfg2 : Cfg) (me : Who) (e1 e2 : List CEv) (c1 c2 : CSt) (r1 r2 : List Res)
    (h1 : crun cfg1 { me := me } e1 = some (c1, r1)) (h2 : crun cfg2 { me := me } e2 = some (c2, r2))
    (p1 : ∀ e ∈ e1, CEv.plain e = true) (p2 : ∀ e ∈ e2, CEv.plain e = true) (hd : c1.done = c2.done) :
    hooksOf r1 = hooksOf r2 ∧ c1.rep = c2.rep := by
  have a := hooks_determined_by_boundaries cfg1 me e1 c1 r1 h1 p1
  have b := hooks_determined_by_boundaries cfg2 me e2 c2 r2 h2 p2
  rw [hd, b] at a
  simp only [Prod.mk.injEq] at a
  exact ⟨a.2.symm, a.1.1.symm⟩

/-- the boundaries DO matter for the calls: pin, unpin, pin of one CID in one batch is one `Track`
    (the delete drops the earlier put from the delta), in three batches it is `Track, Untrack, Track` -/
example : (runBatches ⟨0, 1⟩ [[.put 0 5, .del 0, .put 0 7]] (({}, 0, 0), [])).2 = [.put 0 7] ∧
    (runBatches ⟨0, 1⟩ [[.put 0 5], [.del 0], [.put 0 7]] (({}, 0, 0), [])).2 = [.put 0 5, .del 0, .put 0 7] ∧
    (runBatches ⟨0, 1⟩ [[.put 0 5, .put 0 7]] (({}, 0, 0), [])).2 = [.put 0 5, .put 0 7] := by decide

/-- **the pinset does not depend on the boundaries**: whatever the placement of the batch boundaries
    (`bs` is any way of cutting the accepted operations into consecutive batches), the committed pinset
    is the replay of the operations in submission order. What does depend on them: the tracker calls
    (above) and the delta stream — inside one batch a delete removes the earlier puts of its CID from the
    delta and two pins of one CID travel as two elements of one delta (K05b). -/
theorem pinset_boundary_independent (me : Who) (hs : 0 < me.stride) (bs : List (List BOp)) (k : Key) :
    (runBatches me bs (({}, 0, 0), [])).1.1.viewAt k = (replay bs.flatten []).get k := by
  rw [replay_get]
  refine runBatches_view me hs bs {} 0 0 [] _ ?_ (fun k => ?_) k
  · refine ⟨fun k => Nat.zero_le _, HV_empty, ?_, ?_⟩ <;> intro t ht <;> cases ht
  · simp [Rep.viewAt, Rep.member, View.get]

theorem pinset_same_for_all_cuts (me : Who) (hs : 0 < me.stride) (bs bs' : List (List BOp))
    (h : bs.flatten = bs'.flatten) (k : Key) :
    (runBatches me bs (({}, 0, 0), [])).1.1.viewAt k = (runBatches me bs' (({}, 0, 0), [])).1.1.viewAt k := by
  rw [pinset_boundary_independent me hs, pinset_boundary_independent me hs, h]

/-! ## the validator gate in front of `recv` -/

/-- **the view depends only on trusted authors**: in the composed replica with the topic validator in
    front of `recv`, for every interleaving of local events, messages and Trust/Distrust calls, the whole
    state (hence the pinset) is the one reached by the history from which every message whose signer was
    not trusted WHEN IT ARRIVED has been removed … -/
theorem view_depends_only_on_trusted (cfg : Cfg) (g : GSt) (evs : List GEv) :
    grun cfg g evs = grun cfg g (passing g.t evs) := (grun_passing cfg evs g).symm

/-- … and two histories that agree on what trusted signers authored — whatever else untrusted peers
    signed, through whichever forwarders anything arrived — end in the same state. -/
theorem same_trusted_history_same_view (cfg : Cfg) (g : GSt) (e1 e2 : List GEv)
    (h : (passing g.t e1).map GEv.authored = (passing g.t e2).map GEv.authored) :
    grun cfg g e1 = grun cfg g e2 := by
  rw [view_depends_only_on_trusted cfg g e1, view_depends_only_on_trusted cfg g e2,
    ← grun_authored cfg (passing g.t e1), ← grun_authored cfg (passing g.t e2), h]

/-- a history with a Distrust between two messages of one signer, an untrusted signer behind a trusted
    forwarder and a trusted one behind an untrusted forwarder: only the first and the last pass -/
example : passing ⟨2, false, [0]⟩ [.msg 0 0 [witA], .distrust 0, .msg 0 0 [witB], .msg 0 1 [witT], .trust 0, .msg 1 0 [witB]] =
    [.msg 0 0 [witA], .distrust 0, .trust 0, .msg 1 0 [witB]] := by decide

/-! ## `Clean` and restart on the same datastore -/

/-- **clean, then redelivery, converges**: a replica that processed any history `pre`, was cleaned
    (`crdt.Clean` as it is: set, heads AND blockstore wiped) and then received the deltas `l2` — any order,
    any repetition — holds the same pinset as a replica that never cleaned and received `l1`, whenever `l1`
    and `l2` contain the same deltas; hypotheses as in `values_converge_partial` (priorities ≥ 1, (H1), (H2))
    plus: a node id identifies its delta. -/
theorem clean_then_redeliver_converges (pre l1 l2 : List Delta) (hset : ∀ d, d ∈ l1 ↔ d ∈ l2)
    (hinj : ∀ d ∈ l1, ∀ d' ∈ l1, d.id = d'.id → d = d')
    (hprio : ∀ d ∈ l1, 1 ≤ d.prio) (H1 : ∀ d ∈ l1, nodupKeys d) (H2 : MaxSurvives (phasesOf l1)) (k : Key) :
    (handleAll l2 (handleAll pre {}).clean).rep.viewAt k = (handleAll l1 {}).rep.viewAt k := by
  have hinj2 : ∀ d ∈ l2, ∀ d' ∈ l2, d.id = d'.id → d = d' :=
    fun d hd d' hd' => hinj d ((hset d).2 hd) d' ((hset d').2 hd')
  obtain ⟨m1, e1, s1⟩ := handleAll_fresh l1 hinj
  obtain ⟨m2, e2, s2⟩ := handleAll_fresh l2 hinj2
  show (handleAll l2 {}).rep.viewAt k = _
  rw [e1, e2, mergeAll_eq_runPh, mergeAll_eq_runPh]
  have h12 : ∀ d, d ∈ m1 ↔ d ∈ m2 := fun d => by rw [s1, s2, hset]
  have hc : ∀ ph, ph ∈ phasesOf l1 ↔ ph ∈ phasesOf m1 := phasesOf_congr (fun d => (s1 d).symm)
  exact (values_converge_partial (phasesOf m1) (phasesOf m2) (phasesOf_congr h12)
    (fun d hd => hprio d ((s1 d).1 ((mem_phasesOf_E m1 d).1 hd)))
    (fun d hd => H1 d ((s1 d).1 ((mem_phasesOf_E m1 d).1 hd))) (MaxSurvives_congr hc H2) k).symm

/-- the members version needs neither (H1) nor (H2) -/
theorem clean_then_redeliver_members (pre l1 l2 : List Delta) (hset : ∀ d, d ∈ l1 ↔ d ∈ l2)
    (hinj : ∀ d ∈ l1, ∀ d' ∈ l1, d.id = d'.id → d = d') (hprio : ∀ d ∈ l1, 1 ≤ d.prio) (k : Key) :
    (handleAll l2 (handleAll pre {}).clean).rep.member k = (handleAll l1 {}).rep.member k := by
  have hinj2 : ∀ d ∈ l2, ∀ d' ∈ l2, d.id = d'.id → d = d' :=
    fun d hd d' hd' => hinj d ((hset d).2 hd) d' ((hset d').2 hd')
  obtain ⟨m1, e1, s1⟩ := handleAll_fresh l1 hinj
  obtain ⟨m2, e2, s2⟩ := handleAll_fresh l2 hinj2
  show (handleAll l2 {}).rep.member k = _
  rw [e1, e2]
  exact (members_converge_merge m1 m2 (fun d => by rw [s1, s2, hset]) (fun d hd => hprio d ((s1 d).1 hd)) k).symm

example : (handleAll exHist.reverse (handleAll [witA, witB] {}).clean).rep.viewAt 0 = (handleAll exHist {}).rep.viewAt 0 ∧
    (handleAll exHist {}).rep.viewAt 0 = some 2 := by decide

/-- the alternative `Clean` that keeps the DAG nodes: the statement above with `cleanKeepBlocks` -/
def clean_keeping_blocks_converges : Prop :=
  ∀ (pre l1 l2 : List Delta), (∀ d, d ∈ l1 ↔ d ∈ l2) → (∀ d ∈ l1, ∀ d' ∈ l1, d.id = d'.id → d = d') →
    (∀ d ∈ l1, 1 ≤ d.prio) → ∀ k,
    (handleAll l2 (handleAll pre {}).cleanKeepBlocks).rep.member k = (handleAll l1 {}).rep.member k

/-- **refuted**: with the blocks kept, the old deltas count as processed and are never merged again: a
    replica that held key 0, was cleaned and received everything again (plus a new delta) holds only
    what was published after the clean. -/
theorem clean_keeping_blocks_fails : ¬ clean_keeping_blocks_converges := by
  intro h
  have := h [witA] [witA, ⟨5, 2, [(1, 4)], []⟩] [⟨5, 2, [(1, 4)], []⟩, witA] (by intro d; simp [or_comm])
    (by decide) (by decide) 0
  revert this
  decide

/-! ## the caller's context of an accepted operation (round 8)

`LogPin`/`LogUnpin` store the caller's context in the `batchItem`; the worker hands it to
`batchingState.Add/Rm` later. `Ctx.xrun` is the worker with that context made explicit: every `log`
carries a context id, `cancel c` (the caller's context is cancelled / expires) may occur ANYWHERE in the
schedule, `take` succeeds or not according to what the state layer (`Ctx.Layer`) does with a done context. -/

section CallerContext
open Ctx

/-- **the caller's context is irrelevant** (state layer as it is): every run with contexts — any
    context per operation, cancellations at any points — is, on the worker state and on the results, the
    run with the contexts erased (every `take` succeeding, no `cancel`). -/
theorem ctx_irrelevant_as_is (cfg : Cfg) (evs : List XEv) (x : XSt) :
    (xrun cfg Layer.asIs x evs).map proj = run cfg x.s (erase evs) :=
  xrun_asIs_eq_run cfg evs x

/-- … hence WHEN a context is cancelled (before the call, while the item is queued, while the worker is
    held inside `Commit`, after the take, never) and WHICH context an operation was submitted with changes
    nothing: two schedules that differ only in that reach the same state with the same results -/
theorem cancel_position_irrelevant (cfg : Cfg) (e1 e2 : List XEv) (x : XSt) (h : erase e1 = erase e2) :
    (xrun cfg Layer.asIs x e1).map proj = (xrun cfg Layer.asIs x e2).map proj := by
  rw [ctx_irrelevant_as_is, ctx_irrelevant_as_is, h]

/-- **accepted ⇒ committed, whatever happens to the caller's context afterwards**: in every run with
    contexts (no head-write failure, K05d), once the queue is drained and the pending delta committed the
    pinset is the replay of ALL accepted operations in submission order. -/
theorem accepted_committed_whatever_ctx (cfg : Cfg) (evs : List XEv) (x : XSt) (rs : List Res)
    (hr : xrun cfg Layer.asIs {} evs = some (x, rs)) (hb : ∀ e ∈ evs, XEv.benign e = true)
    (hq : x.s.queue = []) (he : x.s.pend.elems = []) (ht : x.s.pend.tombs = []) (k : Key) :
    x.s.rep.viewAt k = (replay (acceptedOps (erase evs) rs) []).get k := by
  have h := ctx_irrelevant_as_is cfg evs {}
  rw [hr] at h
  exact order_per_cid_partial cfg (erase evs) x.s rs h.symm (erase_benign evs hb) hq he ht k

/-- a pin submitted with a context that is already done, an unpin whose context is cancelled while it is
    queued, a pin whose context is cancelled after the take: all enabled, benign, flushed, and the pinset is
    the replay -/
abbrev exCtxRun : List XEv :=
  [.cancel 1, .log (.put 0 5) 1, .log (.del 0) 2, .cancel 2, .take, .take, .commit .ok,
   .log (.put 1 6) 3, .take, .cancel 3, .log (.put 0 7) 4, .cancel 4, .take, .commit .ok]

example : ((xrun ⟨2, 5⟩ Layer.asIs {} exCtxRun).map fun p =>
      p.1.s.queue.isEmpty && p.1.s.pend.elems.isEmpty && p.1.s.pend.tombs.isEmpty &&
      (p.1.s.rep.viewAt 0 == some 7) && (p.1.s.rep.viewAt 1 == some 6)) = some true ∧
    exCtxRun.all XEv.benign = true := by decide

/-- the same statement for a state layer that returns `ctx.Err()` for a done context -/
def accepted_committed_honouring_ctx : Prop :=
  ∀ (cfg : Cfg) (evs : List XEv) (x : XSt) (rs : List Res),
    xrun cfg ⟨true⟩ {} evs = some (x, rs) → (∀ e ∈ evs, XEv.benign e = true) →
    x.s.queue = [] → x.s.pend.elems = [] → x.s.pend.tombs = [] →
    ∀ k, x.s.rep.viewAt k = (replay (acceptedOps (erase evs) rs) []).get k

def witCtx : List XEv := [.log (.put 0 5) 1, .cancel 1, .take]

def witCtxChk (p : XSt × List Res) : Bool :=
  p.1.s.queue.isEmpty && p.1.s.pend.elems.isEmpty && p.1.s.pend.tombs.isEmpty &&
    (p.1.s.rep.viewAt 0 != (replay (acceptedOps (erase witCtx) p.2) []).get 0)

/-- **false** for such a layer: pin (0 ↦ 5) accepted, its context cancelled while the item is queued, the
    worker's `Add` fails and the item is dropped: queue and batch are empty and the pin is not in the pinset.
    (What the check reports when state/dsstate starts honouring the context: corpus/C02/batch.txt, the
    `c`/`k`/`x` cases.) -/
theorem accepted_committed_honouring_ctx_fails : ¬ accepted_committed_honouring_ctx := by
  intro h
  have hc : (xrun ⟨1, 5⟩ ⟨true⟩ {} witCtx).map witCtxChk = some true := by decide
  cases hr : xrun ⟨1, 5⟩ ⟨true⟩ {} witCtx with
  | none => rw [hr] at hc; cases hc
  | some p =>
    obtain ⟨x, rs⟩ := p
    rw [hr] at hc
    simp only [Option.map_some, Option.some.injEq, witCtxChk, Bool.and_eq_true, List.isEmpty_iff, bne_iff_ne, ne_eq] at hc
    obtain ⟨⟨⟨hq, he⟩, ht⟩, hne⟩ := hc
    exact hne (h ⟨1, 5⟩ witCtx x rs hr (by decide) hq he ht 0)

/-- … and with such a layer a dropped FIRST item of a batch leaves the age timer armed over a nil delta:
    the timer-triggered `Commit` is the nil-delta publish (worker crash, see notes "Observations") -/
theorem honouring_ctx_dropped_first_item_crashes_worker :
    (xrun ⟨3, 5⟩ ⟨true⟩ {} [.log (.put 0 5) 1, .cancel 1, .take, .timerFire, .commit .ok]).map
      (fun p => p.1.s.crashed) = some true := by decide

/-- **as the code is the worker never reaches the nil-delta publish, whatever the callers' contexts do**:
    in every run with contexts (any commit failures, head writes included) `crashed` stays false — the only
    way into it is a failed `Add/Rm`, and no context can make one fail -/
theorem worker_never_crashes_as_is (cfg : Cfg) (evs : List XEv) (x : XSt) (rs : List Res)
    (hr : xrun cfg Layer.asIs {} evs = some (x, rs)) : x.s.crashed = false := by
  have h := ctx_irrelevant_as_is cfg evs {}
  rw [hr] at h
  exact (run_noCrash cfg (erase evs) {} x.s rs noCrash_init (erase_no_failed_take evs) h.symm).1

/-- the state layer regenerated from state/dsstate/datastore.go (`Add`, `Rm`, `Get`, `Has`, `List`,
    `BatchingState.Commit`: every use of the context parameter other than feeding the trace span) IS the
    layer of the theorems above -/
theorem gen_state_layer_ignores_ctx : layerOf Gen.dsstateCtxUses = Layer.asIs := by decide

/-- the worker hands the ITEM's context to `Add`/`Rm` and the component's own to `Commit` (regenerated) -/
theorem gen_worker_ctx_wiring :
    Gen.workerStateCalls = ["Add batchItem.ctx", "Rm batchItem.ctx", "Commit css.ctx", "Commit css.ctx"] := rfl

/-- `LogPin`/`LogUnpin` enqueue or refuse and consult nothing else — in particular not the context
    (the select has the send arm and `default` only; regenerated) -/
theorem gen_log_select : Gen.logPinSelect = ["send css.batchItemCh", "default"] ∧
    Gen.logUnpinSelect = ["send css.batchItemCh", "default"] := ⟨rfl, rfl⟩

end CallerContext

/-! ## Round 8b: hooks → tracker hand-off, batching configuration, shutdown (`Model/C02Hooks.lean`) -/
section HooksCfg
open Hk

/-- the PutHook regenerated from `setup()` (go/ast shape, interpreted) IS the model's `putHook`, for every raw key
    and value: `Track` gets the pin decoded from the value; an undecodable value reaches nobody -/
theorem gen_put_hook_is_model (k : RKey) (v : RVal) :
    runHook Gen.putHookShape k (some v) = some (putHook k v) := by
  cases k <;> cases v <;> rfl

/-- the DeleteHook regenerated from `setup()` IS the model's `delHook`: `Untrack(PinCid(c))` for a cid key,
    nothing for a key that is not base32 or not a cid -/
theorem gen_delete_hook_is_model (k : RKey) : runHook Gen.deleteHookShape k none = some (delHook k) := by
  cases k <;> rfl

example : runHook Gen.putHookShape (.cidKey 3) (some (.pin (some 3) 7)) = some [.track (some 3) 7] := by decide
example : runHook Gen.deleteHookShape (.notCid 1) none = some [] := by decide
/-- a PutHook that forgets the `return` after a failed decode is not understood (fail-closed) -/
example : runHook [.unmarshalVal, .logOnErr, .callTrack] (.cidKey 0) (some (.garbage 0)) = none := by decide

theorem trackerCalls_append (enc : Enc) (a b : List Hook) :
    trackerCalls enc (a ++ b) = trackerCalls enc a ++ trackerCalls enc b := by
  induction a with
  | nil => rfl
  | cons h t ih => cases h <;> simp [trackerCalls, ih]

/-- **hand-off**: every hook invocation that concerns an entry as `State.Add/Rm` write it (cid key; value
    decodable and carrying the key's cid) produces exactly the tracker call the property asks for — `Track`
    with the key's cid and the value's content, `Untrack` with the key's cid — wherever it stands in the
    sequence of hooks of a merge, a batch or a whole walk -/
theorem tracker_gets_every_hook (enc : Enc) (hs : List Hook) (h : Hook) (hin : h ∈ hs)
    (hwf : wfHook enc h = true) : ∃ c, wantCall enc h = some c ∧ c ∈ trackerCalls enc hs := by
  induction hs with
  | nil => cases hin
  | cons x t ih =>
    rcases List.mem_cons.1 hin with rfl | hin'
    · cases h with
      | put k v =>
        simp only [wfHook] at hwf
        cases hk : enc.key k <;> cases hv : enc.val v <;> simp [hk, hv] at hwf
        rename_i c c' n
        cases c' with
        | none => simp at hwf
        | some c' =>
          simp at hwf
          subst hwf
          exact ⟨.track (some c) n, by simp [wantCall, hk, hv], by simp [trackerCalls, putHook, hv]⟩
      | del k =>
        simp only [wfHook] at hwf
        cases hk : enc.key k <;> simp [hk, cidOfKey] at hwf
        rename_i c
        exact ⟨.untrack c, by simp [wantCall, hk, cidOfKey], by simp [trackerCalls, delHook, hk]⟩
    · obtain ⟨c, h1, h2⟩ := ih hin'
      refine ⟨c, h1, ?_⟩
      cases x <;> simp [trackerCalls, h2]

/-- **every change is handed to the tracker** (composition with `hooks_cover_changes_or_revival`): after any
    merge, a key whose entry changed and whose hook concerns a well-formed entry got the tracker call saying
    what the pinset now holds (`Track(cid, content)` / `Untrack(cid)`) — or it is the revival case (K05c) -/
theorem tracker_informed_of_change (enc : Enc) (r : Rep) (d : Delta) (k : Key)
    (hch : r.viewAt k ≠ (r.merge d).1.viewAt k)
    (hwf : wfHook enc (hookFor ((r.merge d).1.viewAt k) k) = true) :
    (∃ c, wantCall enc (hookFor ((r.merge d).1.viewAt k) k) = some c ∧ c ∈ trackerCalls enc (r.merge d).2) ∨
    (r.viewAt k = none ∧ (r.vals.lookup k).isSome = true ∧ (r.merge d).1.viewAt k = some (r.prioVal k).2) := by
  rcases hooks_cover_changes_or_revival r d k hch with h | h
  · exact Or.inl (tracker_gets_every_hook enc _ _ h hwf)
  · exact Or.inr h

example : wfHook ⟨fun k => .cidKey k, fun v => .pin (some (v / 10)) (v % 10)⟩ (.put 2 27) = true := by decide

/-- what the property would want of ANY entry that `State.List` shows: the tracker was told about the cid
    the pinset lists -/
def track_matches_list_full : Prop :=
  ∀ (k : RKey) (v : RVal) (c n : Nat), listEntry k v = some (c, n) → Call.track (some c) n ∈ putHook k v

/-- **false as the code is**: `Track` carries the cid stored INSIDE the value while `List` shows the cid of the
    KEY; an entry whose value carries another cid (or none that casts) is listed under one cid and tracked
    under another. `State.Add` never writes one (`st.key(c.Cid)`, `serializePin(c)`), a foreign writer can. -/
theorem track_matches_list_full_fails : ¬ track_matches_list_full := by
  intro h
  have := h (.cidKey 0) (.pin (some 1) 5) 0 5 rfl
  simp [putHook] at this

/-- … and it holds for every entry whose value carries the key's cid -/
theorem track_matches_list_partial (c n : Nat) (k : RKey) (v : RVal)
    (hk : k = .cidKey c) (hv : v = .pin (some c) n) :
    listEntry k v = some (c, n) ∧ putHook k v = [.track (some c) n] := by
  subst hk; subst hv; exact ⟨rfl, rfl⟩

/-- a value that does not decode is neither listed nor tracked; a delete of a key absent from the store
    changes nothing and calls nobody; a foreign key is never listed -/
theorem undecodable_neither_listed_nor_tracked (k : RKey) (n : Nat) :
    listEntry k (.garbage n) = none ∧ putHook k (.garbage n) = [] := by
  cases k <;> exact ⟨rfl, rfl⟩

theorem delete_absent_no_effect (s : RStore) (k : RKey) (h : s.any (fun e => e.1 == k) = false) :
    rawStep s (.del k) = (s, []) := by
  simp [rawStep, h]

/-- every local raw write: what `List` shows for a cid afterwards and what the tracker got agree whenever the
    written entry is well-formed (`put (cidKey c) (pin (some c) n)`: head of the list, `Track(c, n)`) -/
theorem raw_put_listed_and_tracked (s : RStore) (c n : Nat) :
    (rawStep s (.put (.cidKey c) (.pin (some c) n))).2 = [.track (some c) n] ∧
    (c, n) ∈ rawList (rawStep s (.put (.cidKey c) (.pin (some c) n))).1 := by
  simp [rawStep, rawList, putHook, listEntry]

/-! ### batching configuration -/

/-- `Config.batchingEnabled` regenerated (conjuncts, operators, constants) IS `BCfg.enabled`, for every configuration -/
theorem gen_batching_enabled_is_model (c : BCfg) : evalConj c Gen.batchingEnabledConj = some c.enabled := by
  simp [Gen.batchingEnabledConj, evalConj, evalCmp, BCfg.get, BCfg.enabled]

/-- the batching arm of `Config.Validate` regenerated IS `BCfg.valid` -/
theorem gen_validate_batching_is_model (c : BCfg) : evalArms c Gen.validateBatchingArms = some c.valid := by
  simp [Gen.validateBatchingArms, evalArms, evalCmp, BCfg.get, BCfg.valid]

/-- **every configuration** is either "batching disabled" (size ≤ 0 or age ≤ 0: LogPin/LogUnpin write directly,
    `St.direct`) or a worker configuration with size limit ≥ 1 — and, when `Validate` accepted it, a queue of
    capacity ≥ 1 -/
theorem cfg_mode_dichotomy (c : BCfg) :
    (c.mode = none ∧ (c.size ≤ 0 ∨ c.age ≤ 0)) ∨
    (∃ m, c.mode = some m ∧ 1 ≤ m.maxSize ∧ 0 < c.age ∧ (c.valid = true → 1 ≤ m.qcap)) := by
  by_cases h1 : 0 < c.size
  · by_cases h2 : 0 < c.age
    · right
      refine ⟨⟨c.size.toNat, c.queue.toNat⟩, by simp [BCfg.mode, BCfg.enabled, h1, h2], ?_, h2, ?_⟩
      · show 1 ≤ c.size.toNat
        omega
      · intro hv
        simp [BCfg.valid] at hv
        show 1 ≤ c.queue.toNat
        omega
    · left
      exact ⟨by simp [BCfg.mode, BCfg.enabled, h2], Or.inr (by omega)⟩
  · left
    exact ⟨by simp [BCfg.mode, BCfg.enabled, h1], Or.inl (by omega)⟩

/-- in every valid configuration with batching enabled (degenerate ones included: size 1, age 1 ns, queue 1) an
    operation submitted to an empty queue is ACCEPTED: no valid configuration refuses everything -/
theorem valid_cfg_accepts_on_empty_queue (c : BCfg) (m : Cfg) (hv : c.valid = true) (hm : c.mode = some m)
    (s : St) (hq : s.queue = []) (o : BOp) :
    step m s (.log o) = some ({ s with queue := [o] }, .accepted) := by
  rcases cfg_mode_dichotomy c with ⟨h, _⟩ | ⟨m', h, _, _, hc⟩
  · rw [h] at hm; cases hm
  · rw [h] at hm; cases hm
    have := hc hv
    simp [step, hq]; omega

/-- `LoadJSON`: an omitted / empty `max_batch_age` (or a zero one) disables batching WHATEVER the size; a zero or
    omitted `max_queue_size` becomes the default and is valid; a negative one is refused by `Validate` -/
theorem loadJSON_cases (size : Int) (age : Option Int) (queue : Int) :
    ((age = none ∨ age = some 0) → (loadJSON size age queue).enabled = false) ∧
    (queue = 0 → (loadJSON size age queue).valid = true) ∧
    (queue < 0 → (loadJSON size age queue).valid = false) := by
  refine ⟨?_, ?_, ?_⟩
  · rintro (rfl | rfl) <;> simp [loadJSON, BCfg.enabled]
  · rintro rfl; simp [loadJSON, BCfg.valid, defaultQueue]
  · intro h
    have hq : queue ≠ 0 := by omega
    simp [loadJSON, BCfg.valid, hq]; omega

example : (loadJSON 1 (some 1) 1).mode = some ⟨1, 1⟩ := by decide
example : (loadJSON 5 none 0).mode = none := by decide

/-! ### shutdown -/

/-- "accepted ⇒ committed, also across `Shutdown`" -/
def accepted_committed_across_shutdown : Prop :=
  ∀ (cfg : Cfg) (evs : List Ev) (s : St) (rs : List Res), run cfg {} evs = some (s, rs) →
    (∀ e ∈ evs, Ev.benign e = true) →
    ∀ k, (shutdown s).rep.viewAt k = (replay (acceptedOps evs rs) []).get k

/-- **false as the code is**: the worker leaves through `<-css.ctx.Done()` without a final flush, so an accepted
    operation still queued (or taken into an uncommitted batch) at `Shutdown` never lands. The property's
    commit clause ("committed when the batch reaches its size limit or its age limit") does not cover it:
    recorded as an observation in notes/C02.md. -/
theorem accepted_committed_across_shutdown_fails : ¬ accepted_committed_across_shutdown := by
  intro h
  have := h ⟨2, 5⟩ [.log (.put 0 5)] _ _ rfl (by decide) 0
  revert this
  decide

/-- a shutdown after the queue was drained and the batch committed loses nothing -/
theorem shutdown_after_flush_loses_nothing (s : St) (hq : s.queue = []) (hp : s.pend = {}) :
    (shutdown s).rep = s.rep ∧ (shutdown s).queue = s.queue ∧ (shutdown s).pend = s.pend := by
  simp [shutdown, hq, hp]

/-- **what a Shutdown can lose is a SUFFIX of the accepted operations**: in every run of the composed replica (any
    interleaving, commits failing any number of times, remote walks anywhere) the operations of the committed
    batches are a prefix of the accepted ones, in submission order, and they are exactly what the delta stream
    carries; `Shutdown` drops the rest (open batch ++ queue) and leaves replica and stream as they are — no hole,
    no reordering across a shutdown -/
theorem shutdown_loses_only_a_suffix (cfg : Cfg) (me : Who) (evs : List CEv) (c : CSt) (rs : List Res)
    (hr : crun cfg { me := me } evs = some (c, rs)) (hne : ∀ e ∈ evs, e ≠ CEv.loc (.take false)) :
    cAccepted evs rs = (cshutdown c).done.flatten ++ (c.batch ++ c.queue) ∧
    (cshutdown c).out.map (·.elems) = (cshutdown c).done.map elemsOf ∧
    (cshutdown c).rep = c.rep ∧ (cshutdown c).out = c.out ∧
    (cshutdown c).queue = [] ∧ (cshutdown c).batch = [] := by
  obtain ⟨h1, h2, _⟩ := local_order_preserved cfg me evs c rs hr hne
  exact ⟨by simpa [cshutdown, List.append_assoc] using h1, by simpa [cshutdown] using h2, rfl, rfl, rfl, rfl⟩

end HooksCfg


/-! ### Round 8c: who writes which (key, value) pairs; the dsstate key namespace -/
section Writers
open Hk

/-- **no history of peers running this code produces a key/value cid mismatch or an undecodable value**: take ANY
    sequence of events at a replica — local batches of LogPin/LogUnpin operations (`State.Add/Rm` pairs: cid key,
    value carrying the key's cid; a batch of one = batching off) and merges of deltas written the same way by other
    peers, in any order, any ids and priorities —: every stored (key, value) is a `State.Add` pair, every element and
    tombstone sits on a cid key, and EVERY hook fired on the way is `wfHook`. This discharges the well-formedness
    hypothesis of `tracker_gets_every_hook` / `track_matches_list_partial` for the quantifier of the property; the
    mismatch / undecodable entries of round 8b need a writer that does not run this code. -/
theorem wellformed_writers_keep_kv_consistent (enc : Enc) (es : List WEv) (hes : ∀ e ∈ es, e.wf enc = true) :
    wfRep enc (wrun es {}).1 = true ∧ ∀ h ∈ (wrun es {}).2, wfHook enc h = true :=
  wrun_wf enc es {} (by simp [wfRep]) hes

example : ∀ e ∈ [WEv.localBatch [.put 1 1005, .del 1, .put 2 2007] 0 1, .remote ⟨7, 1, [(1, 1009)], []⟩, .localBatch [.del 1] 1 2],
    e.wf encStd = true := by decide

/-- … hence every tracker call of such a history is exactly the one the property asks for -/
theorem wellformed_writers_tracker_calls (enc : Enc) (es : List WEv) (hes : ∀ e ∈ es, e.wf enc = true)
    (pre post : List Hook) (h : Hook) (hh : (wrun es {}).2 = pre ++ h :: post) :
    wfHook enc h = true :=
  (wellformed_writers_keep_kv_consistent enc es hes).2 h (by rw [hh]; simp)

/-- the same for a plain list of remote deltas merged in list order (`mergeAll`) from any well-formed replica -/
theorem wellformed_deltas_merge (enc : Enc) (l : List Delta) (r : Rep) (hr : wfRep enc r = true)
    (hl : ∀ d ∈ l, wfDelta enc d = true) :
    wfRep enc (mergeAll l r) = true ∧ ∀ h ∈ mergeAllHooks l r, wfHook enc h = true :=
  mergeAll_wf enc l r hr hl

/-- a single foreign delta is enough to leave the invariant: it is NOT a property of the merge -/
theorem foreign_delta_breaks_kv : ¬ ∀ (d : Delta), wfRep encStd (({} : Rep).merge d).1 = true := by
  intro h
  have := h ⟨0, 1, [(0, 1005)], []⟩
  revert this
  decide

/-- `unkey (key c) = c` in every namespace; `key` is injective; a state key is under the state's prefix -/
theorem ns_key_roundtrip (ns : DsKey) (c c' : Nat) :
    unkey (stKey ns c) = some c ∧ underPrefix ns (stKey ns c) = true ∧ (stKey ns c = stKey ns c' → c = c') :=
  ⟨unkey_stKey ns c, stKey_under ns c, stKey_inj ns c c'⟩

/-- `List` and `Get` agree on an entry written by `State.Add` -/
theorem ns_list_get_agree_on_state_entry (ns : DsKey) (c n : Nat) (oc : Option Nat) :
    stList ns [(stKey ns c, .pin oc n)] = [(c, n)] ∧ stGet ns [(stKey ns c, .pin oc n)] c = some n := by
  constructor
  · simp [stList, stKey_under, unkey_stKey]
  · simp [stGet, List.lookup]

/-- "`List` shows only what `Get` can read" is FALSE for foreign keys under the prefix: `unkey` looks at the last
    component only, so a nested key `/x/<cid 0>` is LISTED as cid 0 while `Get(0)`/`Has(0)` read `/<cid 0>` and find
    nothing; its delete never untracks (`BinaryFromDsKey` of a two-component key fails) -/
theorem ns_list_subset_get_fails :
    ¬ ∀ (ns : DsKey) (s : KStore) (c n : Nat), (c, n) ∈ stList ns s → stGet ns s c = some n := by
  intro h
  have := h [] [([.name 7, .cid 0], .pin (some 0) 5)] 0 5 (by decide)
  revert this
  decide

theorem ns_nested_key_listed_not_untracked :
    stList [] [([.name 7, .cid 0], .pin (some 0) 5)] = [(0, 5)] ∧ delHookK [.name 7, .cid 0] = [] ∧
    delHookK (stKey [] 0) = [.untrack 0] := by decide

end Writers

/-! ### The anchored functions still read as the model was transcribed (regenerated from /repo on every run) -/

theorem gen_source_setup : Gen.setup = Expected.setup := rfl
theorem gen_source_isTrustedPeer : Gen.isTrustedPeer = Expected.isTrustedPeer := rfl
theorem gen_source_trust : Gen.trust = Expected.trust := rfl
theorem gen_source_distrust : Gen.distrust = Expected.distrust := rfl
theorem gen_source_logPin : Gen.logPin = Expected.logPin := rfl
theorem gen_source_logUnpin : Gen.logUnpin = Expected.logUnpin := rfl
theorem gen_source_batchWorker : Gen.batchWorker = Expected.batchWorker := rfl
theorem gen_source_stateFn : Gen.stateFn = Expected.stateFn := rfl


end CV.C02
