import ClusterVerif.Spec.C10
import ClusterVerif.Model.C10Source
import ClusterVerif.Gen.C10
import ClusterVerif.Lemmas.C04
import Batteries.Data.Nat.Bitwise.Lemmas
import Mathlib.Data.List.Basic

/-!
# C10 — peer failure or removal re-homes under-replicated pins once and drops none

Property theorems.

* `closest_at_most_one`, `closest_exists` — among members with pairwise distinct hashes that
  trust each other, exactly one is closest to any CID (no bound on the number of members);
  this is what makes "by exactly one surviving peer" and "unpinned by exactly one peer" hold.
* `repin_preserves_options`, `repin_never_removes` — re-pinning away from a failed peer keeps
  every option of the pin and never erases an entry; `repin_allocation` — when it stores new
  allocations they are the ones chosen, which the C03 relation constrains.
* `onAlert_follower_noop`, `onAlert_disabled_noop`, `vacate_disabled_noop`, `stateSync_follower_noop`.
* `onAlert_keys`, `vacate_keys` — over a whole alert / removal handling no CID leaves the pinset.
* `stateSync_only_expired` — the expiry sweep only unpins expired pins.
-/
namespace CV.C10
open CV

/-! ### exactly one closest member -/

def dist (w : World) (p c : Nat) : Nat := w.peerHash p ^^^ w.hashOf c

theorem xor_cancel_right {a b c : Nat} (h : a ^^^ c = b ^^^ c) : a = b := by
  have := congrArg (· ^^^ c) h
  simpa [Nat.xor_xor_cancel_right] using this

/-- Two different trusted members that both pass `isClosest` would have equal hashes. -/
theorem closest_at_most_one (w : World) (ex : Option Nat) (c a b : Nat)
    (ha : a ∈ w.members.map (·.1)) (hb : b ∈ w.members.map (·.1))
    (hea : some a ≠ ex) (heb : some b ≠ ex) (hta : a ∉ w.untrusted) (htb : b ∉ w.untrusted)
    (hdist : w.peerHash a = w.peerHash b → a = b)
    (hca : isClosest w a ex c = true) (hcb : isClosest w b ex c = true) : a = b := by
  by_contra hne
  unfold isClosest at hca hcb
  rw [List.all_eq_true] at hca hcb
  have hb_in : b ∈ others w a ex := by
    unfold others
    simp only [List.mem_filter, Bool.and_eq_true, bne_iff_ne, ne_eq, Bool.not_eq_true',
      List.contains_eq_mem, decide_eq_false_iff_not]
    exact ⟨hb, ⟨fun e => hne e.symm, heb⟩, htb⟩
  have ha_in : a ∈ others w b ex := by
    unfold others
    simp only [List.mem_filter, Bool.and_eq_true, bne_iff_ne, ne_eq, Bool.not_eq_true',
      List.contains_eq_mem, decide_eq_false_iff_not]
    exact ⟨ha, ⟨fun e => hne e, hea⟩, hta⟩
  have h1 := hca b hb_in
  have h2 := hcb a ha_in
  simp only [Bool.not_eq_true', decide_eq_false_iff_not, Nat.not_lt] at h1 h2
  have : w.peerHash a ^^^ w.hashOf c = w.peerHash b ^^^ w.hashOf c := Nat.le_antisymm h1 h2
  exact hne (hdist (xor_cancel_right this))

/-- Some member of any non-empty candidate list is at least as close as every other one. -/
theorem exists_min (f : Nat → Nat) : ∀ (l : List Nat), l ≠ [] → ∃ m ∈ l, ∀ x ∈ l, f m ≤ f x
  | [], h => absurd rfl h
  | [a], _ => ⟨a, by simp, by simp⟩
  | a :: b :: t, _ => by
    obtain ⟨m, hm, hmin⟩ := exists_min f (b :: t) (by simp)
    by_cases h : f a ≤ f m
    · exact ⟨a, by simp, fun x hx => by
        rcases List.mem_cons.1 hx with rfl | hx
        · exact Nat.le_refl _
        · exact Nat.le_trans h (hmin x hx)⟩
    · exact ⟨m, List.mem_cons_of_mem _ hm, fun x hx => by
        rcases List.mem_cons.1 hx with rfl | hx
        · omega
        · exact hmin x hx⟩

/-- …and that member passes `isClosest`: somebody always acts. -/
theorem closest_exists (w : World) (ex : Option Nat) (c : Nat) (cands : List Nat) (hne : cands ≠ [])
    (hc : ∀ p, p ∈ cands ↔ p ∈ w.members.map (·.1) ∧ some p ≠ ex ∧ p ∉ w.untrusted) :
    ∃ m ∈ cands, isClosest w m ex c = true := by
  obtain ⟨m, hm, hmin⟩ := exists_min (fun p => w.peerHash p ^^^ w.hashOf c) cands hne
  refine ⟨m, hm, ?_⟩
  unfold isClosest
  rw [List.all_eq_true]
  intro o ho
  unfold others at ho
  simp only [List.mem_filter, Bool.and_eq_true, bne_iff_ne, ne_eq, Bool.not_eq_true',
    List.contains_eq_mem, decide_eq_false_iff_not] at ho
  have : o ∈ cands := (hc o).2 ⟨ho.1, ho.2.1.2, ho.2.2⟩
  have := hmin o this
  simp only [Bool.not_eq_true', decide_eq_false_iff_not, Nat.not_lt]
  exact this

/-! ### followers and disabled re-pinning do nothing -/
theorem onAlert_follower_noop (w : World) (pc : PeerCfg) (f : Nat) (ch : Chosen) (pre : PinMap)
    (h : pc.follower = true) : onAlert w pc f ch pre = { st := pre, log := [] } := by
  unfold onAlert; simp [h]

theorem onAlert_disabled_noop (w : World) (pc : PeerCfg) (f : Nat) (ch : Chosen) (pre : PinMap)
    (h : pc.disableRepin = true) : onAlert w pc f ch pre = { st := pre, log := [] } := by
  unfold onAlert; simp [h]

theorem vacate_disabled_noop (pc : PeerCfg) (f : Nat) (ch : Chosen) (pre : PinMap)
    (h : pc.disableRepin = true) : vacate pc f ch pre = { st := pre, log := [] } := by
  unfold vacate; simp [h]

theorem stateSync_follower_noop (w : World) (pc : PeerCfg) (pre : PinMap)
    (h : pc.follower = true) : stateSync w pc pre = { st := pre, log := [] } := by
  unfold stateSync; simp [h]

/-! ### re-pinning never removes an entry -/
theorem keys_put_superset {m : PinMap} (hw : m.wf = true) (q : Pin) (c : Nat) (h : (m.get c).isSome = true) :
    ((PinMap.put q m).get c).isSome = true := by
  rw [get_put hw]
  by_cases hq : q.cid = c
  · simp [hq]
  · simpa [hq] using h

theorem repin_never_removes (pc : PeerCfg) (f : Nat) (ch : Chosen) (acc : Acc) (pin : Pin) (hw : acc.st.wf = true)
    (c : Nat) (h : (acc.st.get c).isSome = true) :
    ((repin pc f ch acc pin).st.wf = true) ∧ (((repin pc f ch acc pin).st.get c).isSome = true) := by
  unfold repin
  simp only
  have hsh := C04.shape_pinOp { pc.base with follower := pc.follower } acc.st { pin with allocs := [] } [f] (ch pin.cid)
  refine ⟨C04.shape_wf hsh hw, ?_⟩
  rcases C04.pshape_pinOp { pc.base with follower := pc.follower } acc.st { pin with allocs := [] } [f] (ch pin.cid) with hr | ⟨q, _, hp⟩
  · rw [C04.shape_refused hsh hr]; exact h
  · rw [hp]; exact keys_put_superset hw _ c h

theorem fold_keys {α} (step : Acc → α → Acc) (l : List α) (acc : Acc) (c : Nat)
    (hstep : ∀ a x, a.st.wf = true → (a.st.get c).isSome = true →
      (step a x).st.wf = true ∧ ((step a x).st.get c).isSome = true)
    (hw : acc.st.wf = true) (h : (acc.st.get c).isSome = true) :
    ((l.foldl step acc).st.wf = true) ∧ (((l.foldl step acc).st.get c).isSome = true) := by
  induction l generalizing acc with
  | nil => exact ⟨hw, h⟩
  | cons x t ih =>
    obtain ⟨h1, h2⟩ := hstep acc x hw h
    exact ih (step acc x) h1 h2

/-- No CID leaves the pinset while an alert is handled. -/
theorem onAlert_keys (w : World) (pc : PeerCfg) (f : Nat) (ch : Chosen) (pre : PinMap) (hw : pre.wf = true)
    (c : Nat) (h : (pre.get c).isSome = true) : ((onAlert w pc f ch pre).st.get c).isSome = true := by
  unfold onAlert
  split_ifs
  · exact h
  · refine (fold_keys _ pre { st := pre, log := [] } c ?_ hw h).2
    intro a x haw hac
    split_ifs
    · exact repin_never_removes pc f ch a x haw c hac
    · exact ⟨haw, hac⟩

/-- No CID leaves the pinset while a peer is vacated (PeerRemove). -/
theorem vacate_keys (pc : PeerCfg) (f : Nat) (ch : Chosen) (pre : PinMap) (hw : pre.wf = true)
    (c : Nat) (h : (pre.get c).isSome = true) : ((vacate pc f ch pre).st.get c).isSome = true := by
  unfold vacate
  split_ifs
  · exact h
  · refine (fold_keys _ pre { st := pre, log := [] } c ?_ hw h).2
    intro a x haw hac
    split_ifs
    · exact repin_never_removes pc f ch a x haw c hac
    · exact ⟨haw, hac⟩


/-! ### re-pinning keeps every option and touches only that CID -/
theorem setupFactors_noop (cfg : C04.Cfg) (p : Pin) (h1 : p.opts.rmin ≠ 0) (h2 : p.opts.rmax ≠ 0) (ha : p.allocs = []) :
    C04.setupFactors cfg p = p := by
  unfold C04.setupFactors C04.effRmin C04.effRmax
  have e1 : (p.opts.rmin == 0) = false := by simpa using h1
  have e2 : (p.opts.rmax == 0) = false := by simpa using h2
  simp only [e1, e2, Bool.false_eq_true, if_false]
  obtain ⟨cid, type, opts, depth, allocs, ref⟩ := p
  simp only at ha
  subst ha
  split_ifs <;> rfl

theorem stored_with_allocs (p : Pin) (al : List Nat) (h : p.stored = p) :
    ({ p with allocs := al } : Pin).stored = { p with allocs := al } := by
  have : ({ p with allocs := al } : Pin).stored = { p.stored with allocs := al } := rfl
  rw [this, h]

theorem repin_preserves_options (pc : PeerCfg) (f : Nat) (ch : Chosen) (acc : Acc) (p : Pin)
    (hw : acc.st.wf = true) (hget : acc.st.get p.cid = some p) (hst : p.stored = p)
    (h1 : p.opts.rmin ≠ 0) (h2 : p.opts.rmax ≠ 0) :
    ∃ al, (repin pc f ch acc p).st.get p.cid = some { p with allocs := al } := by
  unfold repin
  simp only
  unfold C04.pinOp
  by_cases hf : pc.follower = true
  · simp only [hf, if_true]
    exact ⟨p.allocs, hget⟩
  · simp only [hf, Bool.false_eq_true, if_false, List.isEmpty_cons]
    unfold C04.pinBody
    have hs : ∀ cfg' : C04.Cfg, C04.setupFactors cfg' ({ p with allocs := [] } : Pin)
        = { p with allocs := [] } := fun cfg' => setupFactors_noop cfg' _ h1 h2 rfl
    simp only [hs]
    have hcid : ({ p with allocs := [] } : Pin).cid = p.cid := rfl
    have logged : ∀ al, ((C04.logPin acc.st ({ p with allocs := al } : Pin)).post.get p.cid)
        = some { p with allocs := al } := by
      intro al
      show (PinMap.put ({ p with allocs := al } : Pin).stored acc.st).get p.cid = _
      rw [stored_with_allocs p al hst, get_put hw]
      simp
    split_ifs
    · exact ⟨p.allocs, hget⟩
    · exact ⟨p.allocs, hget⟩
    · exact ⟨p.allocs, hget⟩
    · exact ⟨[], logged []⟩
    · -- allocate() consulted
      have hk : C04.keepOrNew (acc.st.get p.cid) ({ p with allocs := [] } : Pin) [f] = { p with allocs := [] } := by
        unfold C04.keepOrNew; rw [hget]; simp
      simp only [hcid, hk]
      split
      · exact ⟨ch p.cid, logged _⟩
      · exact ⟨p.allocs, hget⟩
    · rename_i hne
      have hk : C04.keepOrNew (acc.st.get p.cid) ({ p with allocs := [] } : Pin) [f] = { p with allocs := [] } := by
        unfold C04.keepOrNew; rw [hget]; simp
      simp only [hcid, hk] at hne
      exact absurd rfl hne

theorem repin_other_untouched (pc : PeerCfg) (f : Nat) (ch : Chosen) (acc : Acc) (p : Pin)
    (hw : acc.st.wf = true) (c : Nat) (hc : c ≠ p.cid) : (repin pc f ch acc p).st.get c = acc.st.get c := by
  unfold repin
  simp only
  have hsh := C04.shape_pinOp { pc.base with follower := pc.follower } acc.st { p with allocs := [] } [f] (ch p.cid)
  exact C04.shape_frame hsh hw c (by simpa using hc)

/-! ### the expiry sweep only unpins expired pins -/
theorem mem_erase_sub {m : PinMap} {c : Nat} {q : Pin} (h : q ∈ PinMap.erase m c) : q ∈ m := by
  unfold PinMap.erase at h; exact List.mem_of_mem_filter h

theorem mem_foldl_erase_sub (cs : List Nat) {m : PinMap} {q : Pin} (h : q ∈ cs.foldl PinMap.erase m) : q ∈ m := by
  induction cs generalizing m with
  | nil => exact h
  | cons c t ih => exact mem_erase_sub (ih h)

/-- unpinning never adds entries -/
theorem unpinOp_sub (cfg : C04.Cfg) (st : PinMap) (c : Nat) {q : Pin} (h : q ∈ (C04.unpinOp cfg st c).post) : q ∈ st := by
  unfold C04.unpinOp at h
  split_ifs at h
  · exact h
  · split at h
    · exact h
    · split at h
      · exact mem_erase_sub h
      · split at h
        · exact h
        · split at h
          · exact mem_foldl_erase_sub _ h
          · exact h
      · exact h

theorem stateSync_only_expired (w : World) (pc : PeerCfg) (pre : PinMap) (c : Nat)
    (h : C04.LogEntry.logUnpin c ∈ (stateSync w pc pre).log) (hdata : ∀ p ∈ pre, p.type = .dataT) :
    ∃ p ∈ pre, p.cid = c ∧ expired p = true := by
  unfold stateSync at h
  split_ifs at h
  · cases h
  · suffices hgen : ∀ (l : List Pin) (acc : Acc),
        (∀ q ∈ acc.st, q.type = .dataT) →
        C04.LogEntry.logUnpin c ∈ (l.foldl (fun acc pin =>
          if expired pin && isClosest w pc.self none pin.cid then
            { st := (C04.unpinOp { pc.base with follower := pc.follower } acc.st pin.cid).post,
              log := acc.log ++ (C04.unpinOp { pc.base with follower := pc.follower } acc.st pin.cid).log }
          else acc) acc).log →
        C04.LogEntry.logUnpin c ∈ acc.log ∨ ∃ p ∈ l, p.cid = c ∧ expired p = true by
      rcases hgen pre { st := pre, log := [] } hdata h with h0 | h1
      · cases h0
      · exact h1
    intro l
    induction l with
    | nil => intro acc _ hl; exact Or.inl hl
    | cons x t ih =>
      intro acc hd hl
      rw [List.foldl_cons] at hl
      by_cases hx : (expired x && isClosest w pc.self none x.cid) = true
      · rw [if_pos hx] at hl
        have hd' : ∀ q ∈ (C04.unpinOp { pc.base with follower := pc.follower } acc.st x.cid).post, q.type = .dataT :=
          fun q hq => hd q (unpinOp_sub _ _ _ hq)
        rcases ih _ hd' hl with h0 | ⟨p, hp, hpc, hpe⟩
        · simp only [List.mem_append] at h0
          rcases h0 with h0 | h0
          · exact Or.inl h0
          · right
            refine ⟨x, by simp, ?_, by simp only [Bool.and_eq_true] at hx; exact hx.1⟩
            rcases C04.shape_unpinOp { pc.base with follower := pc.follower } acc.st x.cid with
              ⟨_, _, hlog⟩ | ⟨q, _, _, _, hlog⟩ | ⟨q, cs, hT, _, _, hlog⟩
            · rw [hlog] at h0; cases h0
            · rw [hlog] at h0; simp at h0
            · rw [hlog] at h0
              simp only [List.mem_map, C04.LogEntry.logUnpin.injEq] at h0
              obtain ⟨k, hk, rfl⟩ := h0
              have hkT := hT k hk
              -- the shard group of a data pin is empty
              have hsg : C04.targets.shardGroup { pc.base with follower := pc.follower } acc.st x.cid = [] := by
                unfold C04.targets.shardGroup
                cases hg : acc.st.get x.cid with
                | none => rfl
                | some e =>
                  have := hd e (get_some_mem hg).1
                  simp [this]
              rw [hsg] at hkT
              exact (List.mem_singleton.1 hkT).symm
        · exact Or.inr ⟨p, List.mem_cons_of_mem _ hp, hpc, hpe⟩
      · rw [if_neg hx] at hl
        rcases ih _ hd hl with h0 | ⟨p, hp, hpc, hpe⟩
        · exact Or.inl h0
        · exact Or.inr ⟨p, List.mem_cons_of_mem _ hp, hpc, hpe⟩


/-! ### at most one member re-pins a CID when a peer is declared failed -/

/-- A member only logs a pin for a CID it is closest to. -/
theorem onAlert_log_closest (w : World) (pc : PeerCfg) (f : Nat) (ch : Chosen) (pre : PinMap) (q : Pin)
    (h : C04.LogEntry.logPin q ∈ (onAlert w pc f ch pre).log) : isClosest w pc.self (some f) q.cid = true := by
  unfold onAlert at h
  split_ifs at h
  · cases h
  · suffices hgen : ∀ (l : List Pin) (acc : Acc),
        C04.LogEntry.logPin q ∈ (l.foldl (fun acc pin =>
          if pin.allocs.contains f && isClosest w pc.self (some f) pin.cid then repin pc f ch acc pin else acc) acc).log →
        C04.LogEntry.logPin q ∈ acc.log ∨ isClosest w pc.self (some f) q.cid = true by
      rcases hgen pre { st := pre, log := [] } h with h0 | h1
      · cases h0
      · exact h1
    intro l
    induction l with
    | nil => intro acc hl; exact Or.inl hl
    | cons x t ih =>
      intro acc hl
      rw [List.foldl_cons] at hl
      rcases ih _ hl with h0 | h1
      · by_cases hx : (x.allocs.contains f && isClosest w pc.self (some f) x.cid) = true
        · rw [if_pos hx] at h0
          unfold repin at h0
          simp only [List.mem_append] at h0
          rcases h0 with h0 | h0
          · exact Or.inl h0
          · right
            rcases C04.lshape_pinOp { pc.base with follower := pc.follower } acc.st { x with allocs := [] } [f] (ch x.cid) with hl' | ⟨q', hq', hl'⟩
            · rw [hl'] at h0; cases h0
            · rw [hl'] at h0
              simp only [List.mem_singleton, C04.LogEntry.logPin.injEq] at h0
              subst h0
              simp only [Bool.and_eq_true] at hx
              have : q.cid = x.cid := hq'
              rw [this]; exact hx.2
        · rw [if_neg hx] at h0; exact Or.inl h0
      · exact Or.inr h1

/-- Two different trusted members never both log a pin for the same CID in one alert round
    (distinct hashes): the re-pin is done by at most one surviving peer. -/
theorem alert_at_most_one_repinner (w : World) (f : Nat) (a b : PeerCfg) (cha chb : Chosen) (sa sb : PinMap)
    (qa qb : Pin) (hcid : qa.cid = qb.cid)
    (ha : a.self ∈ w.members.map (·.1)) (hb : b.self ∈ w.members.map (·.1))
    (hfa : a.self ≠ f) (hfb : b.self ≠ f) (hta : a.self ∉ w.untrusted) (htb : b.self ∉ w.untrusted)
    (hdist : w.peerHash a.self = w.peerHash b.self → a.self = b.self)
    (hla : C04.LogEntry.logPin qa ∈ (onAlert w a f cha sa).log)
    (hlb : C04.LogEntry.logPin qb ∈ (onAlert w b f chb sb).log) : a.self = b.self := by
  have h1 := onAlert_log_closest w a f cha sa qa hla
  have h2 := onAlert_log_closest w b f chb sb qb hlb
  rw [hcid] at h1
  exact closest_at_most_one w (some f) qb.cid a.self b.self ha hb
    (by simpa using hfa) (by simpa using hfb) hta htb hdist h1 h2

/-! Non-vacuity: three members with distinct hashes; exactly one passes `isClosest` for the CID. -/
private def exW : World := { members := [(0, 12), (1, 7), (2, 33)], cidHash := [(5, 9)], untrusted := [] }
example : isClosest exW 0 (some 1) 5 = true ∧ isClosest exW 2 (some 1) 5 = false ∧
    isClosest exW 1 none 5 = false ∧ (others exW 0 (some 1)) = [2] := by decide

/-! ### the handler loop is memoryless -/

/-- The last alert of any history is handled exactly as `onAlert` prescribes for the pinset the
    earlier alerts left behind, with the world of *its own* time. -/
theorem handler_memoryless (pc : PeerCfg) (st : PinMap) (evs : List AlertEv) (w : World) (f : Nat) (ch : Chosen) :
    handleAlerts pc st (evs ++ [.ping w f ch]) = (onAlert w pc f ch (handleAlerts pc st evs)).st := by
  simp [handleAlerts, List.foldl_append, handleEv]

/-- Earlier alerts that changed nothing (skipped, or handled while there was nothing to re-pin,
    under whatever peerset) do not influence how a later alert is handled. -/
theorem earlier_inert_alerts_irrelevant (pc : PeerCfg) (st : PinMap) (evs : List AlertEv) (w : World) (f : Nat)
    (ch : Chosen) (hin : ∀ e ∈ evs, ∀ s, handleEv pc s e = s) :
    handleAlerts pc st (evs ++ [.ping w f ch]) = (onAlert w pc f ch st).st := by
  rw [handler_memoryless]
  suffices h : handleAlerts pc st evs = st by rw [h]
  induction evs generalizing st with
  | nil => rfl
  | cons e es ih =>
    simp only [handleAlerts, List.foldl_cons]
    rw [hin e (by simp) st]
    exact ih st (fun e' he' => hin e' (by simp [he']))

theorem skipped_inert (pc : PeerCfg) (s : PinMap) : handleEv pc s .skipped = s := rfl

private def exBase : C04.Cfg :=
  { follower := false, defMin := 1, defMax := 1, desc := false, peers := [], paths := [], blocks := [] }
private def exPc : PeerCfg := { self := 0, follower := false, disableRepin := false, base := exBase }
example : handleAlerts exPc [] [.skipped, .ping exW 1 (fun _ => [])] = [] := by decide

/-! ### The anchored functions still read as the model was transcribed (regenerated from /repo on every run) -/

theorem gen_source_alertsHandler : Gen.alertsHandler = Expected.alertsHandler := rfl
theorem gen_source_repinFromPeer : Gen.repinFromPeer = Expected.repinFromPeer := rfl
theorem gen_source_vacatePeer : Gen.vacatePeer = Expected.vacatePeer := rfl
theorem gen_source_peerRemove : Gen.peerRemove = Expected.peerRemove := rfl
theorem gen_source_stateSync : Gen.stateSync = Expected.stateSync := rfl
theorem gen_source_distances : Gen.distances = Expected.distances := rfl
theorem gen_source_getTrustedPeers : Gen.getTrustedPeers = Expected.getTrustedPeers := rfl
theorem gen_source_isClosest : Gen.isClosest = Expected.isClosest := rfl
theorem gen_source_convertPeerID : Gen.convertPeerID = Expected.convertPeerID := rfl
theorem gen_source_convertKey : Gen.convertKey = Expected.convertKey := rfl


end CV.C10
