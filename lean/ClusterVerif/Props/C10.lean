import ClusterVerif.Spec.C10
import ClusterVerif.Model.C10Source
import ClusterVerif.Gen.C10
import ClusterVerif.Gen.C10Sem
import ClusterVerif.Lemmas.C04
import ClusterVerif.Lemmas.C10
import ClusterVerif.Lemmas.C10Dist
import Batteries.Data.Nat.Bitwise.Lemmas
import Mathlib.Data.List.Basic

/-!
# C10 — peer failure or removal re-homes under-replicated pins once and drops none

Property theorems (helper lemmas: `Lemmas/C10.lean`; the engine there: every per-pin call of the three sweeps is
*local* to its cid, so a round decomposes cid by cid).

* `closest_at_most_one`, `closest_exists` — among members with pairwise distinct hashes that trust each other,
  exactly one is closest to any CID (no bound on the number of members).
* **Round composition** (`AgreedRound`: the members share the view of the peerset, any schedule):
  `round_cid`, `round_by_decider` (per cid the round is the decider acting alone on the pre-state),
  `round_at_most_one_repin`, `round_exactly_one_repin`, `round_result_allocs`, `round_untouched_not_held`,
  `round_untouched_min_met`, `round_never_removes`, `round_idempotent`, `round_rehomed_once`,
  `snap_same_state` (snapshot discipline, commits in any order = serial discipline),
  `round_schedule_irrelevant`, `round_state_is_commit`.
* **Without agreement** (outside the property's quantifier): `disagreement_two_repinners`, `disagreement_nobody`.
* **Peer removal**: `vacate_rehomes_all_or_reports`, `vacate_untouched_not_held`, `vacate_never_removes`,
  `vacate_then_remove_order`, `peerRemove_not_aborted`.
* **Expiry**: `expiry_once` (all orders, both disciplines), `expired_iff_clock`, `expiry_boundary` (all clock values).
* per-member facts independent of the others: `onAlert_log_closest`, `alert_at_most_one_repinner`,
  `repin_preserves_options`, `repin_other_untouched`, `stateSync_only_expired`, the four no-op theorems,
  `handler_memoryless`.
-/
namespace CV.C10
open CV

/-! ### exactly one closest member -/

def dist (w : World) (p c : Nat) : Nat := w.peerHash p ^^^ w.hashOf c

theorem xor_cancel_right {a b c : Nat} (h : a ^^^ c = b ^^^ c) : a = b := by
  have := congrArg (· ^^^ c) h
  simpa [Nat.xor_xor_cancel_right] using this

/-- Two different trusted members that both pass `isClosest` would have equal hashes. -/
theorem closest_at_most_one (w : World) (ex : Option Nat) (c a b : Nat)
    (ha : a ∈ w.members.map (·.1)) (hb : b ∈ w.members.map (·.1))
    (hea : some a ≠ ex) (heb : some b ≠ ex) (hta : a ∉ w.untrusted) (htb : b ∉ w.untrusted)
    (hdist : w.peerHash a = w.peerHash b → a = b)
    (hca : isClosest w a ex c = true) (hcb : isClosest w b ex c = true) : a = b := by
  by_contra hne
  unfold isClosest at hca hcb
  rw [List.all_eq_true] at hca hcb
  have hb_in : b ∈ others w a ex := by
    unfold others
    simp only [List.mem_filter, Bool.and_eq_true, bne_iff_ne, ne_eq, Bool.not_eq_true',
      List.contains_eq_mem, decide_eq_false_iff_not]
    exact ⟨hb, ⟨fun e => hne e.symm, heb⟩, htb⟩
  have ha_in : a ∈ others w b ex := by
    unfold others
    simp only [List.mem_filter, Bool.and_eq_true, bne_iff_ne, ne_eq, Bool.not_eq_true',
      List.contains_eq_mem, decide_eq_false_iff_not]
    exact ⟨ha, ⟨fun e => hne e, hea⟩, hta⟩
  have h1 := hca b hb_in
  have h2 := hcb a ha_in
  simp only [Bool.not_eq_true', decide_eq_false_iff_not, Nat.not_lt] at h1 h2
  have : w.peerHash a ^^^ w.hashOf c = w.peerHash b ^^^ w.hashOf c := Nat.le_antisymm h1 h2
  exact hne (hdist (xor_cancel_right this))

/-- Some member of any non-empty candidate list is at least as close as every other one. -/
theorem exists_min (f : Nat → Nat) : ∀ (l : List Nat), l ≠ [] → ∃ m ∈ l, ∀ x ∈ l, f m ≤ f x
  | [], h => absurd rfl h
  | [a], _ => ⟨a, by simp, by simp⟩
  | a :: b :: t, _ => by
    obtain ⟨m, hm, hmin⟩ := exists_min f (b :: t) (by simp)
    by_cases h : f a ≤ f m
    · exact ⟨a, by simp, fun x hx => by
        rcases List.mem_cons.1 hx with rfl | hx
        · exact Nat.le_refl _
        · exact Nat.le_trans h (hmin x hx)⟩
    · exact ⟨m, List.mem_cons_of_mem _ hm, fun x hx => by
        rcases List.mem_cons.1 hx with rfl | hx
        · omega
        · exact hmin x hx⟩

/-- …and that member passes `isClosest`: somebody always acts. -/
theorem closest_exists (w : World) (ex : Option Nat) (c : Nat) (cands : List Nat) (hne : cands ≠ [])
    (hc : ∀ p, p ∈ cands ↔ p ∈ w.members.map (·.1) ∧ some p ≠ ex ∧ p ∉ w.untrusted) :
    ∃ m ∈ cands, isClosest w m ex c = true := by
  obtain ⟨m, hm, hmin⟩ := exists_min (fun p => w.peerHash p ^^^ w.hashOf c) cands hne
  refine ⟨m, hm, ?_⟩
  unfold isClosest
  rw [List.all_eq_true]
  intro o ho
  unfold others at ho
  simp only [List.mem_filter, Bool.and_eq_true, bne_iff_ne, ne_eq, Bool.not_eq_true',
    List.contains_eq_mem, decide_eq_false_iff_not] at ho
  have : o ∈ cands := (hc o).2 ⟨ho.1, ho.2.1.2, ho.2.2⟩
  have := hmin o this
  simp only [Bool.not_eq_true', decide_eq_false_iff_not, Nat.not_lt]
  exact this

/-! ### followers and disabled re-pinning do nothing -/
theorem onAlert_follower_noop (w : World) (pc : PeerCfg) (f : Nat) (ch : Chosen) (pre : PinMap)
    (h : pc.follower = true) : onAlert w pc f ch pre = { st := pre, log := [] } := by
  unfold onAlert; simp [h]

theorem onAlert_disabled_noop (w : World) (pc : PeerCfg) (f : Nat) (ch : Chosen) (pre : PinMap)
    (h : pc.disableRepin = true) : onAlert w pc f ch pre = { st := pre, log := [] } := by
  unfold onAlert; simp [h]

theorem vacate_disabled_noop (pc : PeerCfg) (f : Nat) (ch : Chosen) (pre : PinMap)
    (h : pc.disableRepin = true) : vacate pc f ch pre = { st := pre, log := [] } := by
  unfold vacate; simp [h]

theorem stateSync_follower_noop (w : World) (pc : PeerCfg) (pre : PinMap)
    (h : pc.follower = true) : stateSync w pc pre = { st := pre, log := [] } := by
  unfold stateSync; simp [h]

/-! ### one member, one event: the pinset afterwards is the commit of what was logged; nothing leaves it -/

/-- what `repinFromPeer` logs: nothing, or one pin for that cid -/
theorem repin_logs_at_most_one (pc : PeerCfg) (f : Nat) (ch : Chosen) (st : PinMap) (x : Pin) :
    (repinOut pc f ch st x).log = [] ∨ ∃ q : Pin, q.cid = x.cid ∧ (repinOut pc f ch st x).log = [.logPin q] :=
  C04.lshape_pinOp pc.cfg st { x with allocs := [] } [f] (ch x.cid)

/-- any sweep of re-pins keeps the key set of the pinset: no cid leaves, none appears -/
theorem sweep_repin_keys (cond : Pin → Bool) (pc : PeerCfg) (f : Nat) (ch : Chosen) (st : PinMap) (hw : st.wf = true) (c : Nat) :
    ((sweepAll cond (repinOut pc f ch) st).st.get c).isSome = (st.get c).isSome := by
  have hl := repinOut_local pc f ch
  rw [(sweepAll_spec hl cond st hw).2.1, get_commitAll hw, sweepAll_forCid hl cond st hw c]
  cases hg : st.get c with
  | none => rfl
  | some x =>
    simp only
    by_cases hx : cond x = true
    · rw [if_pos hx]
      rcases repin_logs_at_most_one pc f ch st x with h | ⟨q, _, h⟩ <;> rw [h] <;> rfl
    · rw [if_neg hx]; rfl

/-- No CID leaves the pinset while an alert is handled, and none is added. -/
theorem onAlert_keys (w : World) (pc : PeerCfg) (f : Nat) (ch : Chosen) (pre : PinMap) (hw : pre.wf = true) (c : Nat) :
    ((onAlert w pc f ch pre).st.get c).isSome = (pre.get c).isSome := by
  unfold onAlert
  split_ifs
  · rfl
  · exact sweep_repin_keys _ pc f ch pre hw c

/-- No CID leaves the pinset while a peer is vacated (PeerRemove), and none is added. -/
theorem vacate_keys (pc : PeerCfg) (f : Nat) (ch : Chosen) (pre : PinMap) (hw : pre.wf = true) (c : Nat) :
    ((vacate pc f ch pre).st.get c).isSome = (pre.get c).isSome := by
  unfold vacate
  split_ifs
  · rfl
  · exact sweep_repin_keys _ pc f ch pre hw c

/-! ### the members of a round as sweepers -/

/-- the test a member applies to a pin when an alert for `f` arrives, with the two configuration switches -/
def alertCondFull (f : Nat) (a : Actor) (x : Pin) : Bool :=
  !(a.pc.follower || a.pc.disableRepin) && alertCond a.w a.pc f x

def alertAct (f : Nat) (a : Actor) (st : PinMap) : Acc := onAlert a.w a.pc f a.ch st

def alertSweeper (f : Nat) : Sweeper (fun st => st.wf = true) (alertAct f) where
  cond := alertCondFull f
  run := fun a => repinOut a.pc f a.ch
  isLocal := fun a => repinOut_local a.pc f a.ch
  eq := fun a st => by
    unfold alertAct onAlert
    by_cases h : (a.pc.follower || a.pc.disableRepin) = true
    · rw [if_pos h]
      have : alertCondFull f a = fun _ => false := by funext x; simp [alertCondFull, h]
      rw [this, sweepAll_false]
    · rw [if_neg h]
      have : alertCondFull f a = alertCond a.w a.pc f := by
        funext x
        have h' : (a.pc.follower || a.pc.disableRepin) = false := by simpa using h
        simp [alertCondFull, h']
      rw [this]

def syncCondFull (a : Actor) (x : Pin) : Bool := !a.pc.follower && syncCond a.w a.pc x
def syncAct (a : Actor) (st : PinMap) : Acc := stateSync a.w a.pc st

def syncSweeper : Sweeper allData syncAct where
  cond := syncCondFull
  run := fun a => unpinOut a.pc
  isLocal := fun a => unpinOut_local a.pc
  eq := fun a st => by
    unfold syncAct stateSync
    by_cases h : a.pc.follower = true
    · rw [if_pos h]
      have : syncCondFull a = fun _ => false := by funext x; simp [syncCondFull, h]
      rw [this, sweepAll_false]
    · rw [if_neg h]
      have : syncCondFull a = syncCond a.w a.pc := by
        funext x
        have h' : a.pc.follower = false := by simpa using h
        simp [syncCondFull, h']
      rw [this]

theorem roundSeq_eq (f : Nat) (sched : List Actor) (pre : PinMap) : roundSeq f sched pre = roundWith (alertAct f) sched pre := rfl
theorem snapLogs_eq (f : Nat) (sched : List Actor) (pre : PinMap) : snapLogs f sched pre = snapLogsWith (alertAct f) sched pre := rfl
theorem roundSync_eq (sched : List Actor) (pre : PinMap) : roundSync sched pre = roundWith syncAct sched pre := rfl
theorem snapLogsSync_eq (sched : List Actor) (pre : PinMap) : snapLogsSync sched pre = snapLogsWith syncAct sched pre := rfl

/-- One member handling one alert: the pinset it leaves is the commit of what it logged, and what it logged
    for a cid is what `repinFromPeer` logs for the entry the pre-state holds, if the member's test passes. -/
theorem onAlert_spec (a : Actor) (f : Nat) (pre : PinMap) (hw : pre.wf = true) (c : Nat) :
    (alertAct f a pre).st = commitAll pre (alertAct f a pre).log ∧
    forCid c (alertAct f a pre).log =
      match pre.get c with
      | some x => if alertCondFull f a x then (repinOut a.pc f a.ch pre x).log else []
      | none => [] := by
  rw [(alertSweeper f).eq]
  exact ⟨(sweepAll_spec ((alertSweeper f).isLocal a) _ pre hw).2.1,
    sweepAll_forCid ((alertSweeper f).isLocal a) _ pre hw c⟩

/-! ### rounds: who decides -/

/-- "given members agree on the peerset": the members taking part in the round share one view `w` of the
    peerset and of who is trusted, are trusted members of it other than the failed (or excluded) one, appear
    once, and have pairwise distinct hashes (blake2b collision-freeness is this hypothesis) -/
structure AgreedRound (w : World) (ex : Option Nat) (sched : List Actor) : Prop where
  view : ∀ a ∈ sched, a.w = w
  mem : ∀ a ∈ sched, a.pc.self ∈ w.members.map (·.1) ∧ some a.pc.self ≠ ex ∧ a.pc.self ∉ w.untrusted
  once : (sched.map (·.pc.self)).Nodup
  hashes : ∀ a ∈ sched, ∀ b ∈ sched, w.peerHash a.pc.self = w.peerHash b.pc.self → a.pc.self = b.pc.self

theorem AgreedRound.perm {w : World} {ex : Option Nat} {s s' : List Actor} (h : AgreedRound w ex s) (hp : s'.Perm s) :
    AgreedRound w ex s' where
  view := fun a ha => h.view a (hp.mem_iff.1 ha)
  mem := fun a ha => h.mem a (hp.mem_iff.1 ha)
  once := (hp.map _).nodup_iff.2 h.once
  hashes := fun a ha b hb => h.hashes a (hp.mem_iff.1 ha) b (hp.mem_iff.1 hb)

/-- in an agreed round at most one member is closest to a cid -/
theorem agreed_unique {w : World} {ex : Option Nat} {sched : List Actor} (hA : AgreedRound w ex sched) (c : Nat)
    (a : Actor) (ha : a ∈ sched) (b : Actor) (hb : b ∈ sched)
    (hca : isClosest w a.pc.self ex c = true) (hcb : isClosest w b.pc.self ex c = true) : a.pc.self = b.pc.self := by
  obtain ⟨ma, ea, ta⟩ := hA.mem a ha
  obtain ⟨mb, eb, tb⟩ := hA.mem b hb
  exact closest_at_most_one w ex c a.pc.self b.pc.self ma mb ea eb ta tb (hA.hashes a ha b hb) hca hcb

/-- a schedule splits at the one member that is closest to `c`, if there is one -/
theorem decider_split {w : World} {ex : Option Nat} {sched : List Actor} (hA : AgreedRound w ex sched) (c : Nat) :
    (∀ a ∈ sched, isClosest w a.pc.self ex c = false) ∨
    ∃ s1 d s2, sched = s1 ++ d :: s2 ∧ isClosest w d.pc.self ex c = true ∧
      (∀ a ∈ s1, isClosest w a.pc.self ex c = false) ∧ (∀ a ∈ s2, isClosest w a.pc.self ex c = false) := by
  rcases split_at_unique (fun a : Actor => isClosest w a.pc.self ex c = true) (fun a => a.pc.self) sched hA.once
      (fun a ha b hb => agreed_unique hA c a ha b hb) with h | ⟨s1, d, s2, e, hd, h1, h2⟩
  · exact Or.inl (fun a ha => by simpa using h a ha)
  · exact Or.inr ⟨s1, d, s2, e, hd, fun a ha => by simpa using h1 a ha, fun a ha => by simpa using h2 a ha⟩

theorem alert_idle {w : World} {f : Nat} {a : Actor} (hv : a.w = w) {c : Nat}
    (h : isClosest w a.pc.self (some f) c = false) : ∀ x : Pin, x.cid = c → alertCondFull f a x = false := by
  intro x hx
  unfold alertCondFull alertCond
  rw [hv, hx, h]; simp

theorem sync_idle {w : World} {a : Actor} (hv : a.w = w) {c : Nat}
    (h : isClosest w a.pc.self none c = false) : ∀ x : Pin, x.cid = c → syncCondFull a x = false := by
  intro x hx
  unfold syncCondFull syncCond
  rw [hv, hx, h]; simp
/-! ### the round, cid by cid -/

/-- **Round composition.** In an agreed round, for every schedule (= order in which the members handle the
    alert) and every cid `c`: either one member `d` is closest to `c`, and then over the whole round the
    operations logged for `c` are exactly those `d` logs handling the alert alone on the pre-state, the entry
    the round leaves for `c` is the one `d` alone leaves, and the snapshot discipline logs the same; or no
    member of the schedule is closest, nothing is logged for `c` and its entry stays. -/
theorem round_cid (w : World) (f : Nat) (sched : List Actor) (pre : PinMap)
    (hA : AgreedRound w (some f) sched) (hw : pre.wf = true) (c : Nat) :
    (∃ d ∈ sched, isClosest w d.pc.self (some f) c = true ∧
      roundFor c (roundSeq f sched pre).2 = (forCid c (alertAct f d pre).log).map (fun e => (d.pc.self, e)) ∧
      (roundSeq f sched pre).1.get c = (alertAct f d pre).st.get c ∧
      roundFor c (snapLogs f sched pre) = roundFor c (roundSeq f sched pre).2) ∨
    ((∀ a ∈ sched, isClosest w a.pc.self (some f) c = false) ∧
      roundFor c (roundSeq f sched pre).2 = [] ∧ (roundSeq f sched pre).1.get c = pre.get c ∧
      roundFor c (snapLogs f sched pre) = []) := by
  rw [roundSeq_eq, snapLogs_eq]
  rcases decider_split hA c with h | ⟨s1, d, s2, e, hd, h1, h2⟩
  · right
    have hid : ∀ a ∈ sched, ∀ x : Pin, x.cid = c → (alertSweeper f).cond a x = false :=
      fun a ha => alert_idle (hA.view a ha) (h a ha)
    obtain ⟨j1, j2⟩ := roundWith_idle (alertSweeper f) c sched pre hw hid
    exact ⟨h, j1, j2, snap_idle (alertSweeper f) c sched pre hw hid⟩
  · left
    subst e
    have hid1 : ∀ a ∈ s1, ∀ x : Pin, x.cid = c → (alertSweeper f).cond a x = false :=
      fun a ha => alert_idle (hA.view a (by simp [ha])) (h1 a ha)
    have hid2 : ∀ a ∈ s2, ∀ x : Pin, x.cid = c → (alertSweeper f).cond a x = false :=
      fun a ha => alert_idle (hA.view a (by simp [ha])) (h2 a ha)
    obtain ⟨j1, j2⟩ := roundWith_decider (alertSweeper f) c s1 s2 d pre hw hid1 hid2
    refine ⟨d, by simp, hd, j1, j2, ?_⟩
    rw [snap_decider (alertSweeper f) c s1 s2 d pre hw hid1 hid2, j1]

/-- the same, naming the decider: whoever of the schedule is closest to `c` is the one -/
theorem round_by_decider (w : World) (f : Nat) (sched : List Actor) (pre : PinMap)
    (hA : AgreedRound w (some f) sched) (hw : pre.wf = true) (c : Nat)
    (d : Actor) (hd : d ∈ sched) (hc : isClosest w d.pc.self (some f) c = true) :
    roundFor c (roundSeq f sched pre).2 = (forCid c (alertAct f d pre).log).map (fun e => (d.pc.self, e)) ∧
    (roundSeq f sched pre).1.get c = (alertAct f d pre).st.get c ∧
    roundFor c (snapLogs f sched pre) = roundFor c (roundSeq f sched pre).2 := by
  rcases round_cid w f sched pre hA hw c with ⟨d', hd', hc', r⟩ | ⟨hn, _⟩
  · have hs := agreed_unique hA c d hd d' hd' hc hc'
    have : d = d' := List.inj_on_of_nodup_map hA.once hd hd' hs
    subst this; exact r
  · rw [hn d hd] at hc; cases hc

/-- the pinset a serial round leaves is the commit, in acting order, of everything the members logged -/
theorem round_state_is_commit (f : Nat) (sched : List Actor) (pre : PinMap) (hw : pre.wf = true) :
    (roundSeq f sched pre).1.wf = true ∧
    (roundSeq f sched pre).1 = commitAll pre (allEntries (roundSeq f sched pre).2) :=
  roundWith_commit (alertSweeper f) sched pre hw

/-- what a member logs for one cid in one alert: at most one operation, and a pin -/
theorem alertAct_forCid_shape (f : Nat) (a : Actor) (pre : PinMap) (hw : pre.wf = true) (c : Nat) :
    forCid c (alertAct f a pre).log = [] ∨ ∃ q : Pin, q.cid = c ∧ forCid c (alertAct f a pre).log = [.logPin q] := by
  rw [(onAlert_spec a f pre hw c).2]
  cases hg : pre.get c with
  | none => exact Or.inl rfl
  | some x =>
    simp only
    by_cases hx : alertCondFull f a x = true
    · rw [if_pos hx]
      rcases repin_logs_at_most_one a.pc f a.ch pre x with h | ⟨q, hq, h⟩
      · exact Or.inl h
      · exact Or.inr ⟨q, by rw [hq, (get_some_mem hg).2], h⟩
    · rw [if_neg hx]; exact Or.inl rfl

/-- **Re-homed once.** Over a whole agreed round, in any order and under both commit disciplines, at most one
    LogPin is issued for any cid, never an unpin, and only by the member closest to it. -/
theorem round_at_most_one_repin (w : World) (f : Nat) (sched : List Actor) (pre : PinMap)
    (hA : AgreedRound w (some f) sched) (hw : pre.wf = true) (c : Nat) :
    roundFor c (roundSeq f sched pre).2 = [] ∨
    ∃ d ∈ sched, ∃ q : Pin, q.cid = c ∧ isClosest w d.pc.self (some f) c = true ∧
      roundFor c (roundSeq f sched pre).2 = [(d.pc.self, .logPin q)] := by
  rcases round_cid w f sched pre hA hw c with ⟨d, hd, hc, r, _, _⟩ | ⟨_, r, _⟩
  · rcases alertAct_forCid_shape f d pre hw c with h | ⟨q, hq, h⟩
    · left; rw [r, h]; rfl
    · right; exact ⟨d, hd, q, hq, hc, by rw [r, h]; rfl⟩
  · exact Or.inl r

/-- **Both commit disciplines agree.** Every member handles the alert against the same pre-state and the
    logged operations reach the shared pinset afterwards in *any* order: the pinset is the one the serial
    round leaves, and member by member the same operations were logged. -/
theorem snap_same_state (w : World) (f : Nat) (sched : List Actor) (pre : PinMap)
    (hA : AgreedRound w (some f) sched) (hw : pre.wf = true)
    (order : List C04.LogEntry) (hp : order.Perm (allEntries (snapLogs f sched pre))) :
    commitAll pre order = (roundSeq f sched pre).1 := by
  obtain ⟨hwf, hcm⟩ := round_state_is_commit f sched pre hw
  apply ext_of_wf (wf_commitAll hw _) hwf
  intro c
  rw [hcm, get_commitAll hw, get_commitAll hw]
  have hsnap : forCid c (allEntries (snapLogs f sched pre)) = forCid c (allEntries (roundSeq f sched pre).2) := by
    rw [← roundFor_entries, ← roundFor_entries]
    rcases round_cid w f sched pre hA hw c with ⟨_, _, _, _, _, r⟩ | ⟨_, r1, _, r2⟩
    · rw [r]
    · rw [r1, r2]
  have hperm : (forCid c order).Perm (forCid c (allEntries (roundSeq f sched pre).2)) := by
    rw [← hsnap]; exact hp.filter _
  have hshort : forCid c (allEntries (roundSeq f sched pre).2) = [] ∨
      ∃ e, forCid c (allEntries (roundSeq f sched pre).2) = [e] := by
    rw [← roundFor_entries]
    rcases round_at_most_one_repin w f sched pre hA hw c with h | ⟨d, _, q, _, _, h⟩
    · left; rw [h]; rfl
    · right; exact ⟨_, by rw [h]; rfl⟩
  rcases hshort with h | ⟨e, h⟩
  · rw [h] at hperm ⊢; rw [hperm.eq_nil]
  · rw [h] at hperm ⊢; rw [List.perm_singleton.1 hperm]

/-- **The schedule does not matter.** Any two orders of the same members leave the same pinset. -/
theorem round_schedule_irrelevant (w : World) (f : Nat) (sched sched' : List Actor) (pre : PinMap)
    (hA : AgreedRound w (some f) sched) (hw : pre.wf = true) (hp : sched'.Perm sched) :
    (roundSeq f sched' pre).1 = (roundSeq f sched pre).1 := by
  have hA' := hA.perm hp
  rw [← snap_same_state w f sched' pre hA' hw (allEntries (snapLogs f sched' pre)) (List.Perm.refl _)]
  apply snap_same_state w f sched pre hA hw
  unfold allEntries snapLogs snapLogsWith
  exact (hp.map _).flatMap_right _

/-- **No pin is ever removed (and none appears)**: the key set of the pinset is preserved by a round — whatever
    the members' views, flags, order, allocator choices. -/
theorem round_never_removes (f : Nat) (sched : List Actor) (pre : PinMap) (hw : pre.wf = true) (c : Nat) :
    (roundSeq f sched pre).1.wf = true ∧ ((roundSeq f sched pre).1.get c).isSome = (pre.get c).isSome := by
  rw [roundSeq_eq]
  induction sched generalizing pre with
  | nil => exact ⟨hw, rfl⟩
  | cons a t ih =>
    rw [roundWith_cons]
    have hw' : (alertAct f a pre).st.wf = true := act_inv (alertSweeper f) a pre hw
    obtain ⟨i1, i2⟩ := ih (alertAct f a pre).st hw'
    exact ⟨i1, by rw [i2]; exact onAlert_keys a.w a.pc f a.ch pre hw c⟩

/-- …and under the snapshot discipline no unpin is ever committed: every logged operation is a pin of a cid
    the pre-state holds -/
theorem round_logs_only_pins (f : Nat) (a : Actor) (pre : PinMap) (hw : pre.wf = true) :
    ∀ e ∈ (alertAct f a pre).log, ∃ q : Pin, e = .logPin q ∧ (pre.get q.cid).isSome = true := by
  intro e he
  have hmem : e ∈ forCid (entryCid e) (alertAct f a pre).log := mem_forCid.2 ⟨he, rfl⟩
  rw [(onAlert_spec a f pre hw (entryCid e)).2] at hmem
  cases hg : pre.get (entryCid e) with
  | none => rw [hg] at hmem; cases hmem
  | some x =>
    rw [hg] at hmem
    simp only at hmem
    split_ifs at hmem
    · rcases repin_logs_at_most_one a.pc f a.ch pre x with h | ⟨q, hq, h⟩
      · rw [h] at hmem; cases hmem
      · rw [h, List.mem_singleton] at hmem
        refine ⟨q, hmem, ?_⟩
        have : q.cid = entryCid e := by rw [hmem]; rfl
        rw [this, hg]; rfl
    · cases hmem

theorem setupFactors_noop (cfg : C04.Cfg) (p : Pin) (h1 : p.opts.rmin ≠ 0) (h2 : p.opts.rmax ≠ 0) (ha : p.allocs = []) :
    C04.setupFactors cfg p = p := by
  unfold C04.setupFactors C04.effRmin C04.effRmax
  have e1 : (p.opts.rmin == 0) = false := by simpa using h1
  have e2 : (p.opts.rmax == 0) = false := by simpa using h2
  simp only [e1, e2, Bool.false_eq_true, if_false]
  obtain ⟨cid, type, opts, depth, allocs, ref⟩ := p
  simp only at ha
  subst ha
  split_ifs <;> rfl

def repinInput (pc : PeerCfg) (f : Nat) (x : Pin) : C03.Input :=
  { desc := pc.base.desc, rmin := x.opts.rmin, rmax := x.opts.rmax, peers := pc.base.peers,
    current := x.allocs, blacklist := [f], priority := x.opts.ualloc }

structure Repinnable (x : Pin) : Prop where
  rmin : x.opts.rmin ≠ 0
  rmax : x.opts.rmax ≠ 0
  valid : C03.factorsValid x.opts.rmin x.opts.rmax = true
  live : x.opts.expire.beforeNow = false
  data : x.type = .dataT
  noref : x.ref = none
  stored : x.stored = x

theorem repinOut_data' (pc : PeerCfg) (f : Nat) (ch : Chosen) (st : PinMap) (x : Pin)
    (hget : st.get x.cid = some x) (hfol : pc.follower = false) (hr : Repinnable x) :
    repinOut pc f ch st x =
      (match C03.allocate (repinInput pc f x) with
       | .ok _ => { C04.logPin st { x with allocs := ch x.cid } with alloc := some (repinInput pc f x) }
       | _ => { C04.err st with alloc := some (repinInput pc f x) }) := by
  unfold repinOut C04.pinOp
  have hcf : pc.cfg.follower = false := hfol
  simp only [hcf, Bool.false_eq_true, if_false, List.isEmpty_cons]
  unfold C04.pinBody
  have hs : C04.setupFactors pc.cfg ({ x with allocs := [] } : Pin) = { x with allocs := [] } :=
    setupFactors_noop _ _ hr.rmin hr.rmax rfl
  have e1 : C04.effRmin pc.cfg ({ x with allocs := [] } : Pin) = x.opts.rmin := by
    unfold C04.effRmin; simp [hr.rmin]
  have e2 : C04.effRmax pc.cfg ({ x with allocs := [] } : Pin) = x.opts.rmax := by
    unfold C04.effRmax; simp [hr.rmax]
  have hk : C04.keepOrNew (some x) ({ x with allocs := [] } : Pin) [f] = { x with allocs := [] } := by
    unfold C04.keepOrNew; simp
  have hty : C04.typeOk (some x) ({ x with allocs := [] } : Pin) = true := by
    unfold C04.typeOk C04.checkPinType; cases hmo : x.opts.mode <;> simp [hr.data, hr.noref, hmo]
  have hm : (x.type == PinType.metaT) = false := by rw [hr.data]; rfl
  have hin : C04.allocIn pc.cfg (some x) ({ x with allocs := [] } : Pin) [f] = repinInput pc f x := rfl
  simp only [hs, e1, e2, hr.valid, hget, hr.live, hk, hty, hm, hin, Bool.not_true, Bool.false_eq_true, if_false,
    List.isEmpty_nil, if_true]
  generalize C03.allocate (repinInput pc f x) = o
  cases o <;> rfl

theorem repinOut_data (pc : PeerCfg) (f : Nat) (ch : Chosen) (st : PinMap) (x : Pin)
    (hget : st.get x.cid = some x) (hfol : pc.follower = false) (hr : Repinnable x) :
    (repinOut pc f ch st x).log =
      (match C03.allocate (repinInput pc f x) with
       | .ok _ => [.logPin { x with allocs := ch x.cid }]
       | _ => []) := by
  rw [repinOut_data' pc f ch st x hget hfol hr]
  generalize C03.allocate (repinInput pc f x) = o
  cases o <;> rfl

/-! C03 arms -/
theorem keep_arm (i : C03.Input) (hpos : 0 < i.rmin) (hle : i.rmin ≤ i.rmax)
    (h1 : i.rmin ≤ ((C03.curIds i).length : Int)) (h2 : ((C03.curIds i).length : Int) ≤ i.rmax) :
    C03.allocate i = .ok i.current ∧ ∀ l, C03.allowed i (.ok l) = true → l = i.current := by
  have c1 : ¬ (i.rmin + i.rmax == 0) = true := by simp only [beq_iff_eq]; omega
  have c2 : ¬ (decide (i.rmin < 0) && decide (i.rmax < 0)) = true := by
    simp only [Bool.and_eq_true, decide_eq_true_eq]; omega
  have c3 : ¬ (i.rmax - ((C03.curIds i).length : Int) < 0) := by omega
  have c4 : i.rmin - ((C03.curIds i).length : Int) ≤ 0 := by omega
  constructor
  · unfold C03.allocate
    simp only [c1, c2, c3, c4, Bool.false_eq_true, if_false, if_true]
  · intro l hl
    unfold C03.allowed at hl
    simp only [c1, c2, c3, c4, Bool.false_eq_true, if_false, if_true, beq_iff_eq, C03.Output.ok.injEq] at hl
    exact hl

theorem alloc_arm_good (i : C03.Input) (hw : C03.wf i = true) (hpos : 0 < i.rmin) (hle : i.rmin ≤ i.rmax)
    (hunder : ((C03.curIds i).length : Int) < i.rmin) (l : List Nat) (hl : C03.allowed i (.ok l) = true) :
    ∀ p ∈ l, C03.good i p = true := by
  have c1 : ¬ (i.rmin + i.rmax == 0) = true := by simp only [beq_iff_eq]; omega
  have c2 : ¬ (decide (i.rmin < 0) && decide (i.rmax < 0)) = true := by
    simp only [Bool.and_eq_true, decide_eq_true_eq]; omega
  have c3 : ¬ (i.rmax - ((C03.curIds i).length : Int) < 0) := by omega
  have c4 : ¬ (i.rmin - ((C03.curIds i).length : Int) ≤ 0) := by omega
  unfold C03.allowed at hl
  simp only [c1, c2, c3, c4, Bool.false_eq_true, if_false] at hl
  split_ifs at hl
  · simp at hl
  · simp at hl
  · rw [C03.okWith_iff] at hl
    obtain ⟨l', e, hok⟩ := hl
    cases e
    rw [C03.okAlloc_iff] at hok
    obtain ⟨hhead, _, ha, hb⟩ := hok
    obtain ⟨a1, _, _⟩ := C03.isTopK_spec ha
    obtain ⟨b1, _, _⟩ := C03.isTopK_spec hb
    intro p hp
    rw [← List.take_append_drop (C03.curIds i).length l, List.mem_append] at hp
    rcases hp with hp | hp
    · exact ((C03.mem_curIds hw).1 (hhead.mem_iff.1 hp)).2
    · rw [← List.take_append_drop (min (min (i.rmax - ((C03.curIds i).length : Int)).toNat
          ((C03.numerics (C03.priM i)).length + (C03.numerics (C03.candM i)).length)) (C03.numerics (C03.priM i)).length)
          (List.drop (C03.curIds i).length l), List.mem_append] at hp
      rcases hp with hp | hp
      · obtain ⟨v, hv⟩ := a1 p hp
        obtain ⟨hs, hb', _, _⟩ := (C03.priNum_spec hw).1 (C03.lookupVal_some hv)
        rw [C03.good_iff]; exact ⟨by rw [hs]; rfl, hb'⟩
      · obtain ⟨v, hv⟩ := b1 p hp
        obtain ⟨hs, hb', _, _⟩ := (C03.candNum_spec hw).1 (C03.lookupVal_some hv)
        rw [C03.good_iff]; exact ⟨by rw [hs]; rfl, hb'⟩

theorem stored_with_allocs (p : Pin) (al : List Nat) (h : p.stored = p) :
    ({ p with allocs := al } : Pin).stored = { p with allocs := al } := by
  have : ({ p with allocs := al } : Pin).stored = { p.stored with allocs := al } := rfl
  rw [this, h]

/-- the entry a member leaves for `c` is decided by what it logged for `c` -/
theorem alertAct_get (f : Nat) (a : Actor) (pre : PinMap) (hw : pre.wf = true) (c : Nat) :
    (alertAct f a pre).st.get c = (forCid c (alertAct f a pre).log).foldl effect (pre.get c) := by
  rw [(onAlert_spec a f pre hw c).1, get_commitAll hw]

theorem alertCondFull_true {w : World} {f : Nat} {d : Actor} (hv : d.w = w) {x : Pin}
    (hheld : x.allocs.contains f = true) (hc : isClosest w d.pc.self (some f) x.cid = true)
    (hact : canAct d.pc = true) : alertCondFull f d x = true := by
  unfold canAct at hact
  unfold alertCondFull alertCond
  rw [hv, hheld, hc]
  simp only [Bool.and_eq_true, Bool.not_eq_true'] at hact
  simp [hact.1, hact.2]

/-- **Exactly one.** A pin held by the failed peer, which can be re-pinned (stored data pin with valid
    factors, not expired, allocation possible in the decider's view of the metrics), whose closest member can
    act: in every schedule and under both commit disciplines exactly one LogPin is issued for its cid over the
    whole round, by that closest member, and the round leaves the pin with exactly its allocations changed. -/
theorem round_exactly_one_repin (w : World) (f : Nat) (sched : List Actor) (pre : PinMap)
    (hA : AgreedRound w (some f) sched) (hw : pre.wf = true) (x : Pin) (hx : pre.get x.cid = some x)
    (hheld : x.allocs.contains f = true) (d : Actor) (hd : d ∈ sched)
    (hc : isClosest w d.pc.self (some f) x.cid = true) (hact : canAct d.pc = true) (hr : Repinnable x)
    (l0 : List Nat) (hal : C03.allocate (repinInput d.pc f x) = .ok l0) :
    roundFor x.cid (roundSeq f sched pre).2 = [(d.pc.self, .logPin { x with allocs := d.ch x.cid })] ∧
    (roundSeq f sched pre).1.get x.cid = some { x with allocs := d.ch x.cid } ∧
    roundFor x.cid (snapLogs f sched pre) = [(d.pc.self, .logPin { x with allocs := d.ch x.cid })] := by
  obtain ⟨r1, r2, r3⟩ := round_by_decider w f sched pre hA hw x.cid d hd hc
  have hfol : d.pc.follower = false := by
    unfold canAct at hact; simp only [Bool.and_eq_true, Bool.not_eq_true'] at hact; exact hact.1
  have hlog : forCid x.cid (alertAct f d pre).log = [.logPin { x with allocs := d.ch x.cid }] := by
    rw [(onAlert_spec d f pre hw x.cid).2, hx]
    simp only
    rw [if_pos (alertCondFull_true (hA.view d hd) hheld hc hact), repinOut_data d.pc f d.ch pre x hx hfol hr, hal]
  have hst : (alertAct f d pre).st.get x.cid = some { x with allocs := d.ch x.cid } := by
    rw [alertAct_get f d pre hw, hlog]
    show some ({ x with allocs := d.ch x.cid } : Pin).stored = _
    rw [stored_with_allocs x _ hr.stored]
  refine ⟨?_, ?_, ?_⟩
  · rw [r1, hlog]; rfl
  · rw [r2, hst]
  · rw [r3, r1, hlog]; rfl

/-- **Where it goes.** If moreover the pin is under-replicated in the decider's view (fewer healthy holders
    other than the failed peer than its minimum) and the decider's allocator made a choice the C03 relation
    admits, the pin the round leaves has every option of the old one, is allocated to healthy peers only, never to
    the failed one, and satisfies every clause of C03. -/
theorem round_result_allocs (w : World) (f : Nat) (sched : List Actor) (pre : PinMap)
    (hA : AgreedRound w (some f) sched) (hw : pre.wf = true) (x : Pin) (hx : pre.get x.cid = some x)
    (hheld : x.allocs.contains f = true) (d : Actor) (hd : d ∈ sched)
    (hc : isClosest w d.pc.self (some f) x.cid = true) (hact : canAct d.pc = true) (hr : Repinnable x)
    (l0 : List Nat) (hal : C03.allocate (repinInput d.pc f x) = .ok l0)
    (hwf : C03.wf (repinInput d.pc f x) = true) (hpos : 0 < x.opts.rmin) (hle : x.opts.rmin ≤ x.opts.rmax)
    (hunder : ((C03.curIds (repinInput d.pc f x)).length : Int) < x.opts.rmin)
    (hadm : C03.allowed (repinInput d.pc f x) (.ok (d.ch x.cid)) = true) :
    ∃ q, (roundSeq f sched pre).1.get x.cid = some q ∧ q = { x with allocs := q.allocs } ∧
      (∀ p ∈ q.allocs, p ≠ f ∧ (C03.stateOf (repinInput d.pc f x) p).healthy = true) ∧
      C03.holds (repinInput d.pc f x) (.ok q.allocs) = true := by
  obtain ⟨_, r2, _⟩ := round_exactly_one_repin w f sched pre hA hw x hx hheld d hd hc hact hr l0 hal
  refine ⟨_, r2, rfl, ?_, C03.allowed_holds _ _ hwf hadm⟩
  intro p hp
  have hg := alloc_arm_good (repinInput d.pc f x) hwf hpos hle hunder _ hadm p hp
  rw [C03.good_iff] at hg
  refine ⟨?_, hg.1⟩
  intro e; subst e
  exact hg.2 (by simp [repinInput])

/-- **Untouched (1).** A pin the failed peer does not hold: nothing is logged for it by anybody and its entry
    stays, in every schedule and under both disciplines. -/
theorem round_untouched_not_held (w : World) (f : Nat) (sched : List Actor) (pre : PinMap)
    (hA : AgreedRound w (some f) sched) (hw : pre.wf = true) (x : Pin) (hx : pre.get x.cid = some x)
    (hnot : x.allocs.contains f = false) :
    roundFor x.cid (roundSeq f sched pre).2 = [] ∧ (roundSeq f sched pre).1.get x.cid = some x ∧
    roundFor x.cid (snapLogs f sched pre) = [] := by
  rcases round_cid w f sched pre hA hw x.cid with ⟨d, hd, hc, r1, r2, r3⟩ | ⟨_, r1, r2, r3⟩
  · have hlog : forCid x.cid (alertAct f d pre).log = [] := by
      rw [(onAlert_spec d f pre hw x.cid).2, hx]
      simp only
      have : alertCondFull f d x = false := by unfold alertCondFull alertCond; rw [hnot]; simp
      rw [this]; rfl
    refine ⟨by rw [r1, hlog]; rfl, ?_, by rw [r3, r1, hlog]; rfl⟩
    rw [r2, alertAct_get f d pre hw, hlog, hx]; rfl
  · exact ⟨r1, by rw [r2, hx], r3⟩

/-- **Untouched (2).** A pin the failed peer holds but which every member sees still meeting its minimum (and
    not above its maximum: K08) with the remaining healthy holders: its entry stays as it is. (The closest
    member does issue one LogPin — of the identical pin: `allocate` returns the current allocations.) -/
theorem round_untouched_min_met (w : World) (f : Nat) (sched : List Actor) (pre : PinMap)
    (hA : AgreedRound w (some f) sched) (hw : pre.wf = true) (x : Pin) (hx : pre.get x.cid = some x)
    (hr : Repinnable x) (hpos : 0 < x.opts.rmin) (hle : x.opts.rmin ≤ x.opts.rmax)
    (hmet : ∀ a ∈ sched, x.opts.rmin ≤ ((C03.curIds (repinInput a.pc f x)).length : Int) ∧
      ((C03.curIds (repinInput a.pc f x)).length : Int) ≤ x.opts.rmax ∧
      C03.allowed (repinInput a.pc f x) (.ok (a.ch x.cid)) = true) :
    (roundSeq f sched pre).1.get x.cid = some x := by
  rcases round_cid w f sched pre hA hw x.cid with ⟨d, hd, hc, _, r2, _⟩ | ⟨_, _, r2, _⟩
  · rw [r2, alertAct_get f d pre hw, (onAlert_spec d f pre hw x.cid).2, hx]
    simp only
    by_cases hcond : alertCondFull f d x = true
    · rw [if_pos hcond]
      have hfol : d.pc.follower = false := by
        unfold alertCondFull at hcond
        simp only [Bool.and_eq_true, Bool.not_eq_true', Bool.or_eq_false_iff] at hcond
        exact hcond.1.1
      obtain ⟨m1, m2, m3⟩ := hmet d hd
      obtain ⟨k1, k2⟩ := keep_arm (repinInput d.pc f x) hpos hle m1 m2
      rw [repinOut_data d.pc f d.ch pre x hx hfol hr, k1]
      have : d.ch x.cid = x.allocs := k2 _ m3
      rw [this]
      show some ({ x with allocs := x.allocs } : Pin).stored = some x
      rw [stored_with_allocs x _ hr.stored]
    · rw [if_neg hcond]; rfl
  · rw [r2, hx]

/-- **Idempotent.** Once the failed peer no longer holds a pin (which is what a re-home achieves:
    `round_result_allocs`), any further round for the same peer — repeated alert, other order, other allocator
    choices, other flags — logs nothing for it and leaves it as it is. -/
theorem round_idempotent (w : World) (f : Nat) (sched sched2 : List Actor) (pre : PinMap)
    (hA2 : AgreedRound w (some f) sched2) (hw : pre.wf = true) (q : Pin)
    (hq : (roundSeq f sched pre).1.get q.cid = some q) (hgone : q.allocs.contains f = false) :
    roundFor q.cid (roundSeq f sched2 (roundSeq f sched pre).1).2 = [] ∧
    (roundSeq f sched2 (roundSeq f sched pre).1).1.get q.cid = some q :=
  let h := round_untouched_not_held w f sched2 _ hA2 (round_never_removes f sched pre hw q.cid).1 q hq hgone
  ⟨h.1, h.2.1⟩

/-- the re-homed pin of `round_exactly_one_repin` / `round_result_allocs` is re-homed once: a second round logs nothing for it -/
theorem round_rehomed_once (w : World) (f : Nat) (sched sched2 : List Actor) (pre : PinMap)
    (hA : AgreedRound w (some f) sched) (hA2 : AgreedRound w (some f) sched2) (hw : pre.wf = true)
    (x : Pin) (hx : pre.get x.cid = some x)
    (hheld : x.allocs.contains f = true) (d : Actor) (hd : d ∈ sched)
    (hc : isClosest w d.pc.self (some f) x.cid = true) (hact : canAct d.pc = true) (hr : Repinnable x)
    (l0 : List Nat) (hal : C03.allocate (repinInput d.pc f x) = .ok l0)
    (hwf : C03.wf (repinInput d.pc f x) = true) (hpos : 0 < x.opts.rmin) (hle : x.opts.rmin ≤ x.opts.rmax)
    (hunder : ((C03.curIds (repinInput d.pc f x)).length : Int) < x.opts.rmin)
    (hadm : C03.allowed (repinInput d.pc f x) (.ok (d.ch x.cid)) = true) :
    roundFor x.cid (roundSeq f sched2 (roundSeq f sched pre).1).2 = [] := by
  obtain ⟨q, hq, hqe, hgood, _⟩ := round_result_allocs w f sched pre hA hw x hx hheld d hd hc hact hr l0 hal hwf hpos hle hunder hadm
  have hcid : q.cid = x.cid := by rw [hqe]
  have hgone : q.allocs.contains f = false := by
    rw [Bool.eq_false_iff]; intro hcon
    have := (hgood f (by simpa using hcon)).1
    exact this rfl
  have := (round_idempotent w f sched sched2 pre hA2 hw q (by rw [hcid]; exact hq) hgone).1
  rw [hcid] at this; exact this

/-! ### members that do NOT agree on the peerset (outside the property's quantifier) -/

private def dBase : C04.Cfg :=
  { follower := false, defMin := 1, defMax := 1, desc := false,
    peers := [(0, .valid 1), (1, .valid 1), (3, .valid 1)], paths := [], blocks := [] }
private def dPin : Pin :=
  { cid := 7, type := .dataT, depth := -1, allocs := [2], ref := none,
    opts := { rmin := 1, rmax := 1, name := 0, mode := .recursive, shard := 0, expire := .zero,
              metadata := [], update := none, origins := [], ualloc := [] } }
private def wA : World := { members := [(0, 1), (1, 2), (2, 100)], cidHash := [(7, 0)], untrusted := [] }
private def wB : World := { members := [(1, 2), (2, 100), (3, 3)], cidHash := [(7, 0)], untrusted := [] }
private def actA : Actor :=
  { w := wA, pc := { self := 0, follower := false, disableRepin := false, base := dBase }, ch := fun _ => [0] }
private def actB : Actor :=
  { w := wB, pc := { self := 1, follower := false, disableRepin := false, base := dBase }, ch := fun _ => [1] }

/-- **Without agreement "exactly one" fails.** Two members whose views of the peerset differ (member 0 does not
    yet see member 3; member 1 no longer sees member 0) both consider themselves closest to cid 7: handling the
    alert against the same pre-state (snapshot discipline — with the CRDT consensus every member reads its own
    replica) each logs a pin, with different allocations, and the pinset that results depends on the order in
    which the two commits arrive. -/
theorem disagreement_two_repinners :
    (fun w : World => w.peerHash 0) actA.w ≠ (fun w : World => w.peerHash 0) actB.w ∧
    roundFor 7 (snapLogs 2 [actA, actB] [dPin]) =
      [(0, .logPin { dPin with allocs := [0] }), (1, .logPin { dPin with allocs := [1] })] ∧
    commitAll [dPin] [.logPin { dPin with allocs := [0] }, .logPin { dPin with allocs := [1] }] ≠
    commitAll [dPin] [.logPin { dPin with allocs := [1] }, .logPin { dPin with allocs := [0] }] := by
  decide

private def wA' : World := { members := [(0, 5), (1, 2), (2, 100)], cidHash := [(7, 0)], untrusted := [] }
private def wB' : World := { members := [(1, 2), (2, 100), (3, 1)], cidHash := [(7, 0)], untrusted := [] }
private def actA' : Actor := { actA with w := wA', pc := { actA.pc with self := 0 } }
private def actB' : Actor := { actB with w := wB' }

/-- …and "at least one" fails too: member 0 sees member 1 closer, member 1 sees a member 3 closer that is not
    there to act (it is not among the members the alert reaches): nobody re-homes the pin, which stays allocated
    to the failed peer only, under either discipline. -/
theorem disagreement_nobody :
    roundFor 7 (roundSeq 2 [actA', actB'] [dPin]).2 = [] ∧ roundFor 7 (snapLogs 2 [actA', actB'] [dPin]) = [] ∧
    (roundSeq 2 [actA', actB'] [dPin]).1 = [dPin] := by
  decide

/-! ### peer removal: `PeerRemove` = vacate, then the membership change -/

/-- One member vacating a peer: the pinset it leaves is the commit of what it logged; for a cid it logged what
    `repinFromPeer` logs for the entry the pre-state holds, if the peer holds the pin (no closest test). -/
theorem vacate_spec (pc : PeerCfg) (f : Nat) (ch : Chosen) (pre : PinMap) (hw : pre.wf = true) (c : Nat) :
    (vacate pc f ch pre).st = commitAll pre (vacate pc f ch pre).log ∧
    forCid c (vacate pc f ch pre).log =
      match pre.get c with
      | some x => if !pc.disableRepin && x.allocs.contains f then (repinOut pc f ch pre x).log else []
      | none => [] := by
  unfold vacate
  by_cases h : pc.disableRepin = true
  · rw [if_pos h]
    refine ⟨rfl, ?_⟩
    cases pre.get c <;> simp [h, forCid]
  · rw [if_neg h]
    have h' : pc.disableRepin = false := by simpa using h
    have hl := repinOut_local pc f ch
    refine ⟨(sweepAll_spec hl _ pre hw).2.1, ?_⟩
    rw [sweepAll_forCid hl _ pre hw c]
    cases pre.get c <;> simp [h']

/-- **Vacate re-homes every pin of the peer, or the re-pin reports an error and the pin is kept as it was.**
    For every re-pinnable pin the removed peer holds: if an allocation exists (in this member's view of the
    metrics) exactly one LogPin is committed and the entry afterwards is the old one with the chosen
    allocations; otherwise `pin()` returns an error (which `repinFromPeer` drops after `allocate` has logged it),
    nothing is logged for the cid and the entry is unchanged — the loop goes on with the next pin. -/
theorem vacate_rehomes_all_or_reports (pc : PeerCfg) (f : Nat) (ch : Chosen) (pre : PinMap) (hw : pre.wf = true)
    (x : Pin) (hx : pre.get x.cid = some x) (hheld : x.allocs.contains f = true)
    (hact : canAct pc = true) (hr : Repinnable x) :
    ((∃ l0, C03.allocate (repinInput pc f x) = .ok l0) →
        forCid x.cid (vacate pc f ch pre).log = [.logPin { x with allocs := ch x.cid }] ∧
        (vacate pc f ch pre).st.get x.cid = some { x with allocs := ch x.cid }) ∧
    ((∀ l0, C03.allocate (repinInput pc f x) ≠ .ok l0) →
        (repinOut pc f ch pre x).res = none ∧
        forCid x.cid (vacate pc f ch pre).log = [] ∧ (vacate pc f ch pre).st.get x.cid = some x) := by
  unfold canAct at hact
  simp only [Bool.and_eq_true, Bool.not_eq_true'] at hact
  obtain ⟨hfol, hdis⟩ := hact
  obtain ⟨s1, s2⟩ := vacate_spec pc f ch pre hw x.cid
  rw [hx] at s2
  simp only [hdis, hheld, Bool.not_false, Bool.and_self, if_true] at s2
  have hget : (vacate pc f ch pre).st.get x.cid = (forCid x.cid (vacate pc f ch pre).log).foldl effect (some x) := by
    rw [s1, get_commitAll hw, hx]
  constructor
  · rintro ⟨l0, hal⟩
    have hlog : forCid x.cid (vacate pc f ch pre).log = [.logPin { x with allocs := ch x.cid }] := by
      rw [s2, repinOut_data pc f ch pre x hx hfol hr, hal]
    refine ⟨hlog, ?_⟩
    rw [hget, hlog]
    show some ({ x with allocs := ch x.cid } : Pin).stored = _
    rw [stored_with_allocs x _ hr.stored]
  · intro hno
    have hout := repinOut_data' pc f ch pre x hx hfol hr
    have hlog : forCid x.cid (vacate pc f ch pre).log = [] := by
      rw [s2, repinOut_data pc f ch pre x hx hfol hr]
      cases hal : C03.allocate (repinInput pc f x) with
      | ok l0 => exact absurd hal (hno l0)
      | err => rfl
      | panic => rfl
    refine ⟨?_, hlog, by rw [hget, hlog]; rfl⟩
    rw [hout]
    cases hal : C03.allocate (repinInput pc f x) with
    | ok l0 => exact absurd hal (hno l0)
    | err => rfl
    | panic => rfl

/-- pins the removed peer does not hold are not touched by `PeerRemove` -/
theorem vacate_untouched_not_held (pc : PeerCfg) (f : Nat) (ch : Chosen) (pre : PinMap) (hw : pre.wf = true)
    (x : Pin) (hx : pre.get x.cid = some x) (hnot : x.allocs.contains f = false) :
    forCid x.cid (vacate pc f ch pre).log = [] ∧ (vacate pc f ch pre).st.get x.cid = some x := by
  obtain ⟨s1, s2⟩ := vacate_spec pc f ch pre hw x.cid
  rw [hx] at s2
  simp only [hnot, Bool.and_false, Bool.false_eq_true, if_false] at s2
  refine ⟨s2, ?_⟩
  rw [s1, get_commitAll hw, s2, hx]; rfl

/-- **`PeerRemove` never removes a pin**: the key set of the pinset is preserved -/
theorem vacate_never_removes (pc : PeerCfg) (f : Nat) (ch : Chosen) (rmOk : Bool) (members : List Nat) (pre : PinMap)
    (hw : pre.wf = true) (c : Nat) :
    ((peerRemove pc f ch rmOk members pre).st.get c).isSome = (pre.get c).isSome :=
  vacate_keys pc f ch pre hw c

/-- **Every re-home precedes the membership change**, which is attempted last whatever the re-pins did:
    the trace is the committed LogPins in order, then `RmPeer`. -/
theorem vacate_then_remove_order (pc : PeerCfg) (f : Nat) (ch : Chosen) (rmOk : Bool) (members : List Nat) (pre : PinMap) :
    (peerRemove pc f ch rmOk members pre).trace =
      (peerRemove pc f ch rmOk members pre).log.map RmEv.op ++ [.rmPeer f rmOk] ∧
    ∀ (i j : Nat) (e : C04.LogEntry), (peerRemove pc f ch rmOk members pre).trace[i]? = some (RmEv.op e) →
      (peerRemove pc f ch rmOk members pre).trace[j]? = some (RmEv.rmPeer f rmOk) → i < j := by
  refine ⟨rfl, ?_⟩
  intro i j e hi hj
  unfold peerRemove at hi hj
  simp only at hi hj
  by_contra hlt
  have hji : j ≤ i := Nat.le_of_not_lt hlt
  have hjlen : j < ((vacate pc f ch pre).log.map RmEv.op).length := by
    by_contra hge
    have hge' : ((vacate pc f ch pre).log.map RmEv.op).length ≤ i := by omega
    rw [List.getElem?_append_right hge'] at hi
    cases hk : i - ((vacate pc f ch pre).log.map RmEv.op).length with
    | zero => rw [hk] at hi; simp at hi
    | succ n => rw [hk] at hi; simp at hi
  rw [List.getElem?_append_left hjlen, List.getElem?_map] at hj
  cases hg : (vacate pc f ch pre).log[j]? with
  | none => rw [hg] at hj; simp at hj
  | some e' => rw [hg] at hj; simp at hj

/-- the removal is not aborted by a failed re-pin: what `PeerRemove` returns, and the peerset afterwards,
    depend on `RmPeer` alone -/
theorem peerRemove_not_aborted (pc : PeerCfg) (f : Nat) (ch : Chosen) (rmOk : Bool) (members : List Nat) (pre : PinMap) :
    (peerRemove pc f ch rmOk members pre).err = !rmOk ∧
    (rmOk = true → f ∉ (peerRemove pc f ch rmOk members pre).members) ∧
    (rmOk = false → (peerRemove pc f ch rmOk members pre).members = members) := by
  refine ⟨rfl, ?_, ?_⟩
  · intro h; unfold peerRemove; simp [h]
  · intro h; unfold peerRemove; simp [h]

/-! ### expiry: the sweep of `StateSync` reaching every member -/

/-- the round composition for the expiry sweep (pinsets of plain data pins; sharded content is removed with its
    root by C04's unpin) -/
theorem sync_round_cid (w : World) (sched : List Actor) (pre : PinMap)
    (hA : AgreedRound w none sched) (hI : allData pre) (c : Nat) :
    (∃ d ∈ sched, isClosest w d.pc.self none c = true ∧
      roundFor c (roundSync sched pre).2 = (forCid c (syncAct d pre).log).map (fun e => (d.pc.self, e)) ∧
      (roundSync sched pre).1.get c = (syncAct d pre).st.get c ∧
      roundFor c (snapLogsSync sched pre) = roundFor c (roundSync sched pre).2) ∨
    ((∀ a ∈ sched, isClosest w a.pc.self none c = false) ∧
      roundFor c (roundSync sched pre).2 = [] ∧ (roundSync sched pre).1.get c = pre.get c ∧
      roundFor c (snapLogsSync sched pre) = []) := by
  rw [roundSync_eq, snapLogsSync_eq]
  rcases decider_split hA c with h | ⟨s1, d, s2, e, hd, h1, h2⟩
  · right
    have hid : ∀ a ∈ sched, ∀ x : Pin, x.cid = c → syncSweeper.cond a x = false :=
      fun a ha => sync_idle (hA.view a ha) (h a ha)
    obtain ⟨j1, j2⟩ := roundWith_idle syncSweeper c sched pre hI hid
    exact ⟨h, j1, j2, snap_idle syncSweeper c sched pre hI hid⟩
  · left
    subst e
    have hid1 : ∀ a ∈ s1, ∀ x : Pin, x.cid = c → syncSweeper.cond a x = false :=
      fun a ha => sync_idle (hA.view a (by simp [ha])) (h1 a ha)
    have hid2 : ∀ a ∈ s2, ∀ x : Pin, x.cid = c → syncSweeper.cond a x = false :=
      fun a ha => sync_idle (hA.view a (by simp [ha])) (h2 a ha)
    obtain ⟨j1, j2⟩ := roundWith_decider syncSweeper c s1 s2 d pre hI hid1 hid2
    refine ⟨d, by simp, hd, j1, j2, ?_⟩
    rw [snap_decider syncSweeper c s1 s2 d pre hI hid1 hid2, j1]

/-- one member's expiry sweep, cid by cid -/
theorem syncAct_spec (a : Actor) (pre : PinMap) (hI : allData pre) (c : Nat) :
    (syncAct a pre).st.get c = (forCid c (syncAct a pre).log).foldl effect (pre.get c) ∧
    forCid c (syncAct a pre).log =
      match pre.get c with
      | some x => if syncCondFull a x then (if a.pc.follower then [] else [.logUnpin c]) else []
      | none => [] := by
  rw [syncSweeper.eq]
  have hl := syncSweeper.isLocal a
  refine ⟨by rw [(sweepAll_spec hl _ pre hI).2.1, get_commitAll hI.1], ?_⟩
  rw [sweepAll_forCid hl _ pre hI c]
  cases hg : pre.get c with
  | none => rfl
  | some x =>
    simp only
    have hxc := (get_some_mem hg).2
    by_cases hc : syncSweeper.cond a x = true
    · have hc' : syncCondFull a x = true := hc
      rw [if_pos hc, if_pos hc']
      show (unpinOut a.pc pre x).log = _
      unfold unpinOut
      rw [unpinOp_data _ _ _ hI.2, hxc, hg]
      by_cases hf : a.pc.follower = true
      · have : a.pc.cfg.follower = true := hf
        rw [if_pos this, if_pos hf]; rfl
      · have : ¬ a.pc.cfg.follower = true := hf
        rw [if_neg this, if_neg hf]
    · have hc' : ¬ syncCondFull a x = true := hc
      rw [if_neg hc, if_neg hc']

/-- **An expired pin is unpinned by exactly one peer and an unexpired pin by none** — in every order of the
    members and under both commit disciplines. The one is the member closest to the cid (if it is a follower,
    nobody unpins: followers skip the sweep). -/
theorem expiry_once (w : World) (sched : List Actor) (pre : PinMap)
    (hA : AgreedRound w none sched) (hI : allData pre) (x : Pin) (hx : pre.get x.cid = some x) :
    (expired x = false →
      roundFor x.cid (roundSync sched pre).2 = [] ∧ (roundSync sched pre).1.get x.cid = some x ∧
      roundFor x.cid (snapLogsSync sched pre) = []) ∧
    (expired x = true → ∀ d ∈ sched, isClosest w d.pc.self none x.cid = true →
      (d.pc.follower = false →
        roundFor x.cid (roundSync sched pre).2 = [(d.pc.self, .logUnpin x.cid)] ∧
        (roundSync sched pre).1.get x.cid = none ∧
        roundFor x.cid (snapLogsSync sched pre) = [(d.pc.self, .logUnpin x.cid)]) ∧
      (d.pc.follower = true →
        roundFor x.cid (roundSync sched pre).2 = [] ∧ (roundSync sched pre).1.get x.cid = some x)) := by
  constructor
  · intro hne
    have hlog : ∀ a : Actor, forCid x.cid (syncAct a pre).log = [] := by
      intro a
      rw [(syncAct_spec a pre hI x.cid).2, hx]
      have : syncCondFull a x = false := by unfold syncCondFull syncCond; rw [hne]; simp
      simp [this]
    rcases sync_round_cid w sched pre hA hI x.cid with ⟨d, _, _, r1, r2, r3⟩ | ⟨_, r1, r2, r3⟩
    · refine ⟨by rw [r1, hlog d]; rfl, ?_, by rw [r3, r1, hlog d]; rfl⟩
      rw [r2, (syncAct_spec d pre hI x.cid).1, hlog d, hx]; rfl
    · exact ⟨r1, by rw [r2, hx], r3⟩
  · intro he d hd hc
    have hdd : ∀ d' ∈ sched, isClosest w d'.pc.self none x.cid = true → d' = d := by
      intro d' hd' hc'
      exact List.inj_on_of_nodup_map hA.once hd' hd (agreed_unique hA x.cid d' hd' d hd hc' hc)
    rcases sync_round_cid w sched pre hA hI x.cid with ⟨d', hd', hc', r1, r2, r3⟩ | ⟨hn, _⟩
    · have := hdd d' hd' hc'; subst this
      have hcond : syncCond d'.w d'.pc x = true := by
        unfold syncCond; rw [hA.view d' hd, he, hc]; rfl
      constructor
      · intro hf
        have hlog : forCid x.cid (syncAct d' pre).log = [.logUnpin x.cid] := by
          rw [(syncAct_spec d' pre hI x.cid).2, hx]
          simp [syncCondFull, hf, hcond]
        refine ⟨by rw [r1, hlog]; rfl, ?_, by rw [r3, r1, hlog]; rfl⟩
        rw [r2, (syncAct_spec d' pre hI x.cid).1, hlog]; rfl
      · intro hf
        have hlog : forCid x.cid (syncAct d' pre).log = [] := by
          rw [(syncAct_spec d' pre hI x.cid).2, hx]
          simp [syncCondFull, hf]
        refine ⟨by rw [r1, hlog]; rfl, ?_⟩
        rw [r2, (syncAct_spec d' pre hI x.cid).1, hlog, hx]; rfl
    · rw [hn d hd] at hc; cases hc

/-- the expiry sweep never removes an unexpired pin and never adds one; the whole round's pinset is the
    commit of the logged unpins -/
theorem sync_state_is_commit (sched : List Actor) (pre : PinMap) (hI : allData pre) :
    allData (roundSync sched pre).1 ∧ (roundSync sched pre).1 = commitAll pre (allEntries (roundSync sched pre).2) :=
  roundWith_commit syncSweeper sched pre hI

/-! ### the clock: `ExpiredAt` for every value of now -/

/-- the abstract instants of the pin model are exactly what the clock says, for every clock value -/
theorem expired_iff_clock (now : Int) (s : Stamp) (p : Pin) (h : p.opts.expire = s.abs now) :
    expired p = expiredAt now s := by
  unfold expired; rw [h]
  cases s with
  | zero => rfl
  | «at» t =>
    unfold Stamp.abs expiredAt
    by_cases h0 : t = 0
    · subst h0; rfl
    · have : (t == 0) = false := by simpa using h0
      by_cases hlt : t < now
      · simp [this, hlt, h0]
      · simp [this, hlt]

/-- boundary: a pin whose expiry equals the clock has not expired (`Before` is strict); one nanosecond earlier it has;
    the zero time and the unix epoch never expire -/
theorem expiry_boundary (now : Int) :
    expiredAt now (.at now) = false ∧ (now ≠ 1 → expiredAt now (.at (now - 1)) = true) ∧
    expiredAt now .zero = false ∧ expiredAt now (.at 0) = false := by
  refine ⟨by simp [expiredAt], ?_, rfl, by simp [expiredAt]⟩
  intro h
  have : now - 1 ≠ 0 := by omega
  simp [expiredAt, this]
  omega

/-! ### per-member facts that hold whatever the other members do or see -/

/-- A member only logs a pin for a CID it is closest to (in its own view). -/
theorem onAlert_log_closest (w : World) (pc : PeerCfg) (f : Nat) (ch : Chosen) (pre : PinMap) (hw : pre.wf = true) (q : Pin)
    (h : C04.LogEntry.logPin q ∈ (onAlert w pc f ch pre).log) : isClosest w pc.self (some f) q.cid = true := by
  have hmem : C04.LogEntry.logPin q ∈ forCid q.cid (alertAct f ⟨w, pc, ch⟩ pre).log := mem_forCid.2 ⟨h, rfl⟩
  rw [(onAlert_spec ⟨w, pc, ch⟩ f pre hw q.cid).2] at hmem
  cases hg : pre.get q.cid with
  | none => rw [hg] at hmem; cases hmem
  | some x =>
    rw [hg] at hmem
    simp only at hmem
    split_ifs at hmem with hc
    · unfold alertCondFull alertCond at hc
      simp only [Bool.and_eq_true] at hc
      rw [← (get_some_mem hg).2]; exact hc.2.2
    · cases hmem

/-- Two different trusted members never both log a pin for the same CID for one failed peer, whatever pinsets
    they read (any discipline, any lag), as long as they share the view of the peerset (distinct hashes). -/
theorem alert_at_most_one_repinner (w : World) (f : Nat) (a b : PeerCfg) (cha chb : Chosen) (sa sb : PinMap)
    (hwa : sa.wf = true) (hwb : sb.wf = true)
    (qa qb : Pin) (hcid : qa.cid = qb.cid)
    (ha : a.self ∈ w.members.map (·.1)) (hb : b.self ∈ w.members.map (·.1))
    (hfa : a.self ≠ f) (hfb : b.self ≠ f) (hta : a.self ∉ w.untrusted) (htb : b.self ∉ w.untrusted)
    (hdist : w.peerHash a.self = w.peerHash b.self → a.self = b.self)
    (hla : C04.LogEntry.logPin qa ∈ (onAlert w a f cha sa).log)
    (hlb : C04.LogEntry.logPin qb ∈ (onAlert w b f chb sb).log) : a.self = b.self := by
  have h1 := onAlert_log_closest w a f cha sa hwa qa hla
  have h2 := onAlert_log_closest w b f chb sb hwb qb hlb
  rw [hcid] at h1
  exact closest_at_most_one w (some f) qb.cid a.self b.self ha hb
    (by simpa using hfa) (by simpa using hfb) hta htb hdist h1 h2

/-- the expiry sweep only ever unpins expired pins -/
theorem stateSync_only_expired (w : World) (pc : PeerCfg) (pre : PinMap) (c : Nat) (hI : allData pre)
    (h : C04.LogEntry.logUnpin c ∈ (stateSync w pc pre).log) :
    ∃ p ∈ pre, p.cid = c ∧ expired p = true := by
  have hmem : C04.LogEntry.logUnpin c ∈ forCid c (syncAct ⟨w, pc, fun _ => []⟩ pre).log := mem_forCid.2 ⟨h, rfl⟩
  rw [(syncAct_spec ⟨w, pc, fun _ => []⟩ pre hI c).2] at hmem
  cases hg : pre.get c with
  | none => rw [hg] at hmem; cases hmem
  | some x =>
    rw [hg] at hmem
    simp only at hmem
    split_ifs at hmem with hc
    · cases hmem
    · unfold syncCondFull syncCond at hc
      simp only [Bool.and_eq_true] at hc
      exact ⟨x, (get_some_mem hg).1, (get_some_mem hg).2, hc.2.1⟩
    · cases hmem

/-- a re-pin keeps every option of the pin (any type of pin, any outcome): only allocations may change -/
theorem repin_preserves_options (pc : PeerCfg) (f : Nat) (ch : Chosen) (st : PinMap) (p : Pin)
    (hw : st.wf = true) (hget : st.get p.cid = some p) (hst : p.stored = p)
    (h1 : p.opts.rmin ≠ 0) (h2 : p.opts.rmax ≠ 0) :
    ∃ al, (repinOut pc f ch st p).post.get p.cid = some { p with allocs := al } := by
  unfold repinOut C04.pinOp
  by_cases hf : pc.cfg.follower = true
  · simp only [hf, if_true]
    exact ⟨p.allocs, hget⟩
  · simp only [hf, Bool.false_eq_true, if_false, List.isEmpty_cons]
    unfold C04.pinBody
    have hs : ∀ cfg' : C04.Cfg, C04.setupFactors cfg' ({ p with allocs := [] } : Pin)
        = { p with allocs := [] } := fun cfg' => setupFactors_noop cfg' _ h1 h2 rfl
    simp only [hs]
    have hcid : ({ p with allocs := [] } : Pin).cid = p.cid := rfl
    have logged : ∀ al, ((C04.logPin st ({ p with allocs := al } : Pin)).post.get p.cid)
        = some { p with allocs := al } := by
      intro al
      show (PinMap.put ({ p with allocs := al } : Pin).stored st).get p.cid = _
      rw [stored_with_allocs p al hst, get_put hw]
      simp
    split_ifs
    · exact ⟨p.allocs, hget⟩
    · exact ⟨p.allocs, hget⟩
    · exact ⟨p.allocs, hget⟩
    · exact ⟨[], logged []⟩
    · have hk : C04.keepOrNew (st.get p.cid) ({ p with allocs := [] } : Pin) [f] = { p with allocs := [] } := by
        unfold C04.keepOrNew; rw [hget]; simp
      simp only [hcid, hk]
      split
      · exact ⟨ch p.cid, logged _⟩
      · exact ⟨p.allocs, hget⟩
    · rename_i hne
      have hk : C04.keepOrNew (st.get p.cid) ({ p with allocs := [] } : Pin) [f] = { p with allocs := [] } := by
        unfold C04.keepOrNew; rw [hget]; simp
      simp only [hk] at hne
      exact absurd rfl hne

/-- a re-pin touches only that CID's entry -/
theorem repin_other_untouched (pc : PeerCfg) (f : Nat) (ch : Chosen) (st : PinMap) (p : Pin)
    (hw : st.wf = true) (c : Nat) (hc : c ≠ p.cid) : (repinOut pc f ch st p).post.get c = st.get c := by
  unfold repinOut
  have hsh := C04.shape_pinOp pc.cfg st { p with allocs := [] } [f] (ch p.cid)
  exact C04.shape_frame hsh hw c (by simpa using hc)

/-! Non-vacuity: three members with distinct hashes; exactly one passes `isClosest` for the CID. -/
private def exW : World := { members := [(0, 12), (1, 7), (2, 33)], cidHash := [(5, 9)], untrusted := [] }
example : isClosest exW 0 (some 1) 5 = true ∧ isClosest exW 2 (some 1) 5 = false ∧
    isClosest exW 1 none 5 = false ∧ (others exW 0 (some 1)) = [2] := by decide


/-! Non-vacuity of the round theorems: a three-member agreed round in which member 0 is the decider for cid 5,
    the pin (held by the failed member 1 only, min 1) is re-pinnable and an allocation exists. -/
private def exBase2 : C04.Cfg :=
  { follower := false, defMin := 1, defMax := 1, desc := false,
    peers := [(0, .valid 1), (2, .valid 2)], paths := [], blocks := [] }
private def exPin : Pin :=
  { cid := 5, type := .dataT, depth := -1, allocs := [1], ref := none,
    opts := { rmin := 1, rmax := 1, name := 0, mode := .recursive, shard := 0, expire := .zero,
              metadata := [], update := none, origins := [], ualloc := [] } }
private def exA0 : Actor := { w := exW, pc := { self := 0, follower := false, disableRepin := false, base := exBase2 }, ch := fun _ => [0] }
private def exA2 : Actor := { w := exW, pc := { self := 2, follower := false, disableRepin := false, base := exBase2 }, ch := fun _ => [2] }
example : roundFor 5 (roundSeq 1 [exA2, exA0] [exPin]).2 = [(0, .logPin { exPin with allocs := [0] })] ∧
    (roundSeq 1 [exA2, exA0] [exPin]).1 = [{ exPin with allocs := [0] }] ∧
    (roundSeq 1 [exA0, exA2] [exPin]).1 = [{ exPin with allocs := [0] }] ∧
    C03.allocate (repinInput exA0.pc 1 exPin) = .ok [0] ∧ canAct exA0.pc = true ∧
    (C03.curIds (repinInput exA0.pc 1 exPin)).length = 0 := by decide
example : (peerRemove exA0.pc 1 exA0.ch true [0, 1, 2] [exPin]).trace =
    [.op (.logPin { exPin with allocs := [0] }), .rmPeer 1 true] := by decide
private def exOld : Pin := { exPin with opts := { exPin.opts with expire := .past } }
example : roundFor 5 (roundSync [exA2, exA0] [exOld]).2 = [(0, .logUnpin 5)] ∧ (roundSync [exA2, exA0] [exOld]).1 = [] := by decide

/-! ### the handler loop is memoryless -/

/-- The last alert of any history is handled exactly as `onAlert` prescribes for the pinset the
    earlier alerts left behind, with the world of *its own* time. -/
theorem handler_memoryless (pc : PeerCfg) (st : PinMap) (evs : List AlertEv) (w : World) (f : Nat) (ch : Chosen) :
    handleAlerts pc st (evs ++ [.ping w f ch]) = (onAlert w pc f ch (handleAlerts pc st evs)).st := by
  simp [handleAlerts, List.foldl_append, handleEv]

/-- Earlier alerts that changed nothing (skipped, or handled while there was nothing to re-pin,
    under whatever peerset) do not influence how a later alert is handled. -/
theorem earlier_inert_alerts_irrelevant (pc : PeerCfg) (st : PinMap) (evs : List AlertEv) (w : World) (f : Nat)
    (ch : Chosen) (hin : ∀ e ∈ evs, ∀ s, handleEv pc s e = s) :
    handleAlerts pc st (evs ++ [.ping w f ch]) = (onAlert w pc f ch st).st := by
  rw [handler_memoryless]
  suffices h : handleAlerts pc st evs = st by rw [h]
  induction evs generalizing st with
  | nil => rfl
  | cons e es ih =>
    simp only [handleAlerts, List.foldl_cons]
    rw [hin e (by simp) st]
    exact ih st (fun e' he' => hin e' (by simp [he']))

theorem skipped_inert (pc : PeerCfg) (s : PinMap) : handleEv pc s .skipped = s := rfl

private def exBase : C04.Cfg :=
  { follower := false, defMin := 1, defMax := 1, desc := false, peers := [], paths := [], blocks := [] }
private def exPc : PeerCfg := { self := 0, follower := false, disableRepin := false, base := exBase }
example : handleAlerts exPc [] [.skipped, .ping exW 1 (fun _ => [])] = [] := by decide

/-! ### The anchored functions still read as the model was transcribed (regenerated from /repo on every run) -/

theorem gen_source_alertsHandler : Gen.alertsHandler = Expected.alertsHandler := rfl
theorem gen_source_repinFromPeer : Gen.repinFromPeer = Expected.repinFromPeer := rfl
theorem gen_source_vacatePeer : Gen.vacatePeer = Expected.vacatePeer := rfl
theorem gen_source_peerRemove : Gen.peerRemove = Expected.peerRemove := rfl
theorem gen_source_stateSync : Gen.stateSync = Expected.stateSync := rfl
theorem gen_source_distances : Gen.distances = Expected.distances := rfl
theorem gen_source_getTrustedPeers : Gen.getTrustedPeers = Expected.getTrustedPeers := rfl
theorem gen_source_isClosest : Gen.isClosest = Expected.isClosest := rfl
theorem gen_source_convertPeerID : Gen.convertPeerID = Expected.convertPeerID := rfl
theorem gen_source_convertKey : Gen.convertKey = Expected.convertKey := rfl



/-! ## Byte level of the distance checker (util.go): `distance` arrays, `xor`, `bytes.Compare`, the per-checker cache -/
section ByteLevel
open CV.C10.Dist

/-- `xor()` on two equal-length byte arrays, read big-endian, is Nat `^^^` of the two values -/
theorem bytes_xor_is_numeric_xor (a b : Bytes) (hl : a.length = b.length) (ha : isBytes a = true) (hb : isBytes b = true) :
    beVal (xorB a b) = beVal a ^^^ beVal b := beVal_xorB a b hl ha hb

/-- `bytes.Compare` on two equal-length byte arrays is the numeric order of their big-endian values (all three outcomes) -/
theorem bytes_compare_is_numeric_order (a b : Bytes) (hl : a.length = b.length) (ha : isBytes a = true) (hb : isBytes b = true) :
    cmpB a b = if beVal a < beVal b then .lt else if beVal a > beVal b then .gt else .eq := cmpB_eq a b hl ha hb

example : cmpB [0x7f, 0xff] [0x80, 0x00] = .lt ∧ beVal [0x7f, 0xff] = 32767 ∧ beVal (xorB [0x7f, 0xff] [0x80, 0x00]) = 65535 := by decide

/-- the big-endian value is injective on byte strings of one length: distinct arrays are distinct numbers -/
theorem beVal_injective (a b : Bytes) (hl : a.length = b.length) (ha : isBytes a = true) (hb : isBytes b = true)
    (hv : beVal a = beVal b) : a = b := by
  induction a generalizing b with
  | nil => cases b with
    | nil => rfl
    | cons y ys => simp at hl
  | cons x xs ih =>
    cases b with
    | nil => simp at hl
    | cons y ys =>
      obtain ⟨_, hxs⟩ := (isBytes_cons x xs).1 ha
      obtain ⟨_, hys⟩ := (isBytes_cons y ys).1 hb
      have hl' : xs.length = ys.length := by simpa using hl
      have hc := cmpB_eq (x :: xs) (y :: ys) hl ha hb
      simp only [hv, Nat.lt_irrefl, gt_iff_lt, if_false] at hc
      simp only [cmpB] at hc
      by_cases hxy : x < y
      · simp [hxy] at hc
      · by_cases hyx : y < x
        · simp [hxy, hyx] at hc
        · have he : x = y := by omega
          subst he
          have h1 := beVal_lt xs hxs
          simp only [beVal, hl'] at hv
          rw [ih ys hl' hxs hys (by omega)]

/-- ONE call of `isClosest` on a checker whose cache holds only what the checker stored itself: the answer is the cache-free
    one, and the cache stays consistent -/
theorem isClosestB_cache_transparent (hashFn : Nat → Bytes) (c : Cache) (self : Nat) (os : List Nat) (ch : Bytes)
    (hc : Consistent hashFn c) :
    (isClosestB hashFn c self os ch).1 = isClosestPure hashFn self os ch ∧ Consistent hashFn (isClosestB hashFn c self os ch).2 := by
  obtain ⟨h1, h2⟩ := convertPeerID_spec hashFn c self hc
  unfold isClosestB isClosestPure
  simp only
  rw [h1]
  exact scan_spec hashFn ch _ os _ h2

/-- a whole run of the handler (any number of cids asked on the same checker, cache shared): every answer is the cache-free one.
    The per-checker cache never changes who is closest. -/
theorem isClosestSeq_cache_transparent (hashFn : Nat → Bytes) (self : Nat) (os : List Nat) (hs : List Bytes) (c : Cache)
    (hc : Consistent hashFn c) :
    (isClosestSeq hashFn c self os hs).1 = hs.map (isClosestPure hashFn self os) ∧
    Consistent hashFn (isClosestSeq hashFn c self os hs).2 := by
  induction hs generalizing c with
  | nil => exact ⟨rfl, hc⟩
  | cons h hs ih =>
    obtain ⟨h1, h2⟩ := isClosestB_cache_transparent hashFn c self os h hc
    obtain ⟨h3, h4⟩ := ih _ h2
    simp only [isClosestSeq, List.map_cons]
    exact ⟨by rw [h1, h3], h4⟩

/-- the empty cache (what `distances()` builds) is consistent -/
theorem empty_cache_consistent (hashFn : Nat → Bytes) : Consistent hashFn [] := by
  intro id h hg
  simp [Cache.get, C04.lookup] at hg

example : (isClosestSeq (fun p => [p, 7]) [] 1 [2, 3] [[0, 0], [3, 3], [2, 0]]).1 = [true, false, false] := by decide

/-- … and it has to be: a cache holding a foreign value (e.g. a "cached distance" instead of the hash, or an entry stored under
    the wrong peer) changes the answer. -/
theorem poisoned_cache_changes_answer :
    ¬ (∀ (hashFn : Nat → Bytes) (c : Cache) (self : Nat) (os : List Nat) (ch : Bytes),
        (isClosestB hashFn c self os ch).1 = isClosestPure hashFn self os ch) := by
  intro h
  have := h (fun p => [p]) [(1, [9])] 1 [2] [0]
  revert this
  decide

/-- **bridge**: the byte-level answer of the code is the answer of the Nat-level model (`isClosest`, about which
    `closest_at_most_one` / `closest_exists` and all round theorems speak) when the world's hashes are the big-endian values of the
    arrays. Replaces the trusted "hashes are passed to the model as numbers". -/
theorem isClosestPure_eq_model (w : World) (hashFn : Nat → Bytes) (self : Nat) (ex : Option Nat) (c : Nat) (ch : Bytes) (L : Nat)
    (hh : ∀ p, (hashFn p).length = L ∧ isBytes (hashFn p) = true) (hcl : ch.length = L) (hcb : isBytes ch = true)
    (hw : ∀ p, w.peerHash p = beVal (hashFn p)) (hcw : w.hashOf c = beVal ch) :
    isClosestPure hashFn self (others w self ex) ch = isClosest w self ex c := by
  unfold isClosestPure isClosest
  apply List.all_congr rfl
  intro p
  have l1 : (xorB ch (hashFn self)).length = (xorB (hashFn p) ch).length := by
    rw [length_xorB _ _ (by rw [hcl, (hh self).1]), length_xorB _ _ (by rw [hcl, (hh p).1]), hcl, (hh p).1]
  rw [cmpB_gt_iff _ _ l1 (isBytes_xorB _ _ hcb (hh self).2) (isBytes_xorB _ _ (hh p).2 hcb),
    beVal_xorB _ _ (by rw [hcl, (hh self).1]) hcb (hh self).2, beVal_xorB _ _ (by rw [hcl, (hh p).1]) (hh p).2 hcb,
    hw self, hw p, hcw, Nat.xor_comm (beVal ch)]

/-- with the real cache: what the code answers during a whole run = the Nat-level model, cid by cid -/
theorem isClosestB_eq_model (w : World) (hashFn : Nat → Bytes) (cache : Cache) (self : Nat) (ex : Option Nat) (c : Nat) (ch : Bytes) (L : Nat)
    (hc : Consistent hashFn cache)
    (hh : ∀ p, (hashFn p).length = L ∧ isBytes (hashFn p) = true) (hcl : ch.length = L) (hcb : isBytes ch = true)
    (hw : ∀ p, w.peerHash p = beVal (hashFn p)) (hcw : w.hashOf c = beVal ch) :
    (isClosestB hashFn cache self (others w self ex) ch).1 = isClosest w self ex c := by
  rw [(isClosestB_cache_transparent hashFn cache self _ ch hc).1]
  exact isClosestPure_eq_model w hashFn self ex c ch L hh hcl hcb hw hcw

/-! ### what realistic wrong edits of util.go do to "exactly one member is closest" (32-byte hashes, pairwise distinct) -/

def hA : Bytes := List.replicate 31 0 ++ [1]
def hB : Bytes := List.replicate 31 0 ++ [2]
def hC : Bytes := List.replicate 32 0
def twoPeers : Nat → Bytes := fun p => if p == 1 then hA else hB

/-- comparing only a prefix of the distance (the first 8 bytes "as one uint64"): two members with distinct hashes both closest -/
theorem prefix_compare_two_closest :
    hA ≠ hB ∧ isClosestPrefix 8 twoPeers 1 [2] hC = true ∧ isClosestPrefix 8 twoPeers 2 [1] hC = true ∧
    ¬ (isClosestPure twoPeers 1 [2] hC = true ∧ isClosestPure twoPeers 2 [1] hC = true) := by decide

/-- an `xor` that stops one byte early: again two members with distinct hashes both closest -/
theorem short_xor_two_closest :
    hA ≠ hB ∧ isClosestShortXor twoPeers 1 [2] hC = true ∧ isClosestShortXor twoPeers 2 [1] hC = true := by decide

end ByteLevel

/-! ## Semantic tie (round 8b): `getTrustedPeers`, `distances`, `isClosest`, the two callers — go/ast → `Gen/C10Sem.lean`,
interpreted by `Model/C10Sem.lean`. The candidate set of the closest-peer test is a function of the agreed peerset only. -/
section SemanticTie
open CV.C10.Sem

theorem gen_sem_getTrustedPeers : GenSem.getTrustedPeers = Sem.Expected.getTrustedPeers := rfl
theorem gen_sem_distances : GenSem.distances = Sem.Expected.distances := rfl
theorem gen_sem_isClosest : GenSem.isClosest = Sem.Expected.isClosest := rfl
theorem gen_sem_alertSite : GenSem.alertSite = Sem.Expected.alertSite := rfl
theorem gen_sem_syncSite : GenSem.syncSite = Sem.Expected.syncSite := rfl
theorem gen_sem_xor : GenSem.xor = Sem.Expected.xor := rfl
/-- `distances()` reads nothing of the receiver but the agreed peerset (through `getTrustedPeers`) and the own id -/
theorem gen_sem_distances_reads_agreed_only : GenSem.distances.reads = Sem.Expected.agreedReads := rfl

/-- the translated `getTrustedPeers`, interpreted, is `others` of the model — for every world, member, excluded peer, local view -/
theorem sem_filter_eq_others (w : World) (l : Local) (self : Nat) (ex : Option Nat) :
    filterCands GenSem.getTrustedPeers w l self ex = some (others w self ex) := by
  rw [gen_sem_getTrustedPeers]
  simp only [filterCands, Sem.Expected.getTrustedPeers, allKnown, List.all_cons, List.all_nil, List.isEmpty_nil, Bool.and_self,
    beq_self_eq_true, if_true, others]
  congr 1
  apply List.filter_congr
  intro p _
  simp only [evalSkip, evalAtom, Option.getD_some, Bool.or_false, Bool.not_or, bne, Bool.and_assoc]

/-- the checker `distances(exclude)` builds at `self`: own id and `others` -/
theorem sem_checker_eq_others (w : World) (l : Local) (self : Nat) (ex : Option Nat) :
    checkerOf GenSem.distances GenSem.getTrustedPeers w l self ex = some (self, others w self ex) := by
  have h := sem_filter_eq_others w l self ex
  rw [gen_sem_distances]
  simp only [checkerOf, Sem.Expected.distances, candsOf, evalArg, Option.bind_some, h, Option.map_some, beq_self_eq_true,
    List.isEmpty_nil, Bool.and_self, if_true]

/-- **the candidate set is a function of the agreed peerset only**: whatever two members' private views (`Local`: the peers
their own monitors hold valid pings for) are, the translated `distances()` hands the same list to the checker -/
theorem sem_candidates_agreed_only (w : World) (l l' : Local) (self : Nat) (ex : Option Nat) :
    checkerOf GenSem.distances GenSem.getTrustedPeers w l self ex = checkerOf GenSem.distances GenSem.getTrustedPeers w l' self ex := by
  rw [sem_checker_eq_others, sem_checker_eq_others]

theorem closestLoop_expected (hc hl : Nat) (hs : List Nat) :
    closestLoop Sem.Expected.isClosest hc hl (hc ^^^ hl) hs = some (hs.all (fun h => !decide (hl ^^^ hc > h ^^^ hc))) := by
  induction hs with
  | nil => rfl
  | cons h t ih =>
    simp only [closestLoop, Sem.Expected.isClosest, opndVal, xor2, cmpHolds, List.all_cons]
    by_cases hgt : hc ^^^ hl > h ^^^ hc
    · have : hl ^^^ hc > h ^^^ hc := by rw [Nat.xor_comm hl hc]; exact hgt
      simp [hgt, this]
    · have : ¬ hl ^^^ hc > h ^^^ hc := by rw [Nat.xor_comm hl hc]; exact hgt
      simp only [hgt, this, decide_false, Bool.not_false, Bool.true_and]
      exact ih

/-- the translated `isClosest`, interpreted over the hash values: no candidate strictly closer -/
theorem sem_closest_eq_model (hc hl : Nat) (hs : List Nat) :
    closestOf GenSem.isClosest hc hl hs = some (hs.all (fun h => !decide (hl ^^^ hc > h ^^^ hc))) := by
  rw [gen_sem_isClosest]
  have := closestLoop_expected hc hl hs
  simp only [closestOf, Sem.Expected.isClosest, opndVal, xor2, List.isEmpty_nil, Bool.and_self, if_true] at this ⊢
  exact this

/-- **the whole decision as translated = `isClosest` of the model**, for every agreed world, every private view, every member,
excluded peer and cid: the round theorems speak about what the translated code decides -/
theorem sem_decision_eq_isClosest (w : World) (l : Local) (self : Nat) (ex : Option Nat) (c : Nat) :
    Sem.decide? GenSem.distances GenSem.getTrustedPeers GenSem.isClosest w l self ex c = some (isClosest w self ex c) := by
  simp only [Sem.decide?, sem_checker_eq_others, sem_closest_eq_model, isClosest, List.all_map]
  rfl

/-- two members of an agreed round (same world, ANY private views) with distinct hashes are never both closest — the
statement of `closest_at_most_one` about the translated code -/
theorem sem_at_most_one_decides (w : World) (la lb : Local) (ex : Option Nat) (c a b : Nat)
    (ha : a ∈ w.members.map (·.1)) (hb : b ∈ w.members.map (·.1))
    (hea : some a ≠ ex) (heb : some b ≠ ex) (hta : a ∉ w.untrusted) (htb : b ∉ w.untrusted)
    (hdist : w.peerHash a = w.peerHash b → a = b)
    (hca : Sem.decide? GenSem.distances GenSem.getTrustedPeers GenSem.isClosest w la a ex c = some true)
    (hcb : Sem.decide? GenSem.distances GenSem.getTrustedPeers GenSem.isClosest w lb b ex c = some true) : a = b := by
  rw [sem_decision_eq_isClosest] at hca hcb
  exact closest_at_most_one w ex c a b ha hb hea heb hta htb hdist (Option.some.inj hca) (Option.some.inj hcb)

/-- a 3-member world: hashes 1, 2, 4; every cid hashes to 0, so member 1 is closest -/
def semW : World := { members := [(1, 1), (2, 2), (3, 4)], cidHash := [(7, 0)], untrusted := [] }

example : Sem.decide? GenSem.distances GenSem.getTrustedPeers GenSem.isClosest semW ⟨[3]⟩ 1 none 7 = some true := by decide
example : Sem.decide? GenSem.distances GenSem.getTrustedPeers GenSem.isClosest semW ⟨[3]⟩ 2 none 7 = some false := by decide

/-- refutation (shape of seeded change C10g): when `distances()` keeps only the trusted peers its LOCAL monitor holds a valid
ping for, the candidate set is NOT a function of the agreed peerset: same world, two private views, two lists -/
theorem sem_local_ping_filter_not_agreed_only :
    ¬ (∀ (w : World) (l l' : Local) (self : Nat) (ex : Option Nat),
        checkerOf Sem.Expected.localPingCtor Sem.Expected.getTrustedPeers w l self ex
          = checkerOf Sem.Expected.localPingCtor Sem.Expected.getTrustedPeers w l' self ex) := by
  intro h
  have := h semW ⟨[1, 3]⟩ ⟨[3]⟩ 2 none
  revert this
  decide

/-- … and then two members that agree on the peerset are both closest to the same cid (member 2 holds no valid ping of
member 1): the "exactly one peer acts" rule no longer follows from agreement -/
theorem sem_local_ping_filter_two_closest :
    Sem.decide? Sem.Expected.localPingCtor Sem.Expected.getTrustedPeers Sem.Expected.isClosest semW ⟨[2, 3]⟩ 1 none 7 = some true ∧
    Sem.decide? Sem.Expected.localPingCtor Sem.Expected.getTrustedPeers Sem.Expected.isClosest semW ⟨[3]⟩ 2 none 7 = some true ∧
    (1 : Nat) ≠ 2 ∧ semW.peerHash 1 ≠ semW.peerHash 2 := by decide

/-- refutations for the guard of `getTrustedPeers`: without the `p == exclude` atom the failed peer is a candidate (and, being
closest, makes everybody else answer "not me"); without `notTrusted` an untrusted member is -/
theorem sem_filter_without_exclude_keeps_failed :
    filterCands { Sem.Expected.getTrustedPeers with skip := [.eqSelf, .notTrusted] } semW ⟨[]⟩ 2 (some 1) = some [1, 3] ∧
    filterCands Sem.Expected.getTrustedPeers semW ⟨[]⟩ 2 (some 1) = some [3] := by decide

/-- an unrecognised shape is refused, not guessed -/
theorem sem_unknown_shape_refused (s : String) (w : World) (l : Local) (self : Nat) (ex : Option Nat) (c : Nat) :
    Sem.decide? { Sem.Expected.distances with others := .other s } Sem.Expected.getTrustedPeers Sem.Expected.isClosest w l self ex c = none := by
  simp [Sem.decide?, checkerOf, candsOf, Sem.Expected.distances]

end SemanticTie

/-! ## Whole histories (round 8b): every alert sequence at one handler; expiry over several sweep rounds -/
section Sequences

/-- one alert of any kind (ping for any peer under any peerset view, or skipped) keeps well-formedness and the key set -/
theorem handleEv_keys (pc : PeerCfg) (st : PinMap) (hw : st.wf = true) (e : AlertEv) (c : Nat) :
    (handleEv pc st e).wf = true ∧ ((handleEv pc st e).get c).isSome = (st.get c).isSome := by
  cases e with
  | skipped => exact ⟨hw, rfl⟩
  | ping w f ch =>
    exact ⟨act_inv (alertSweeper f) ⟨w, pc, ch⟩ st hw, onAlert_keys w pc f ch st hw c⟩

/-- **every alert sequence** (hint 4): whatever alerts a member's handler receives — several failed peers, the same peer
repeatedly, non-members, alerts it can do nothing about, each seen under another peerset view — no cid leaves the pinset
and none is added -/
theorem alerts_never_remove (pc : PeerCfg) (evs : List AlertEv) (st : PinMap) (hw : st.wf = true) (c : Nat) :
    (handleAlerts pc st evs).wf = true ∧ ((handleAlerts pc st evs).get c).isSome = (st.get c).isSome := by
  induction evs generalizing st with
  | nil => exact ⟨hw, rfl⟩
  | cons e es ih =>
    obtain ⟨h1, h2⟩ := handleEv_keys pc st hw e c
    obtain ⟨i1, i2⟩ := ih (handleEv pc st e) h1
    exact ⟨i1, by rw [← h2]; exact i2⟩

/-- a follower, or a member with re-pinning disabled, leaves the pinset as it is for every alert sequence -/
theorem alerts_inert_when_disabled (pc : PeerCfg) (h : (pc.follower || pc.disableRepin) = true) (evs : List AlertEv) (st : PinMap) :
    handleAlerts pc st evs = st := by
  induction evs generalizing st with
  | nil => rfl
  | cons e es ih =>
    have : handleEv pc st e = st := by
      cases e with
      | skipped => rfl
      | ping w f ch => simp only [handleEv, onAlert, h, if_true]
    simp only [handleAlerts, List.foldl_cons, this]
    exact ih st

example : ((handleAlerts exA0.pc [exPin] [.skipped, .ping exW 1 exA0.ch, .ping exW 2 exA0.ch, .ping exW 9 exA0.ch]).get 5).isSome = true := by decide

/-- a cid the pinset does not hold gets no operation in a sync round (any schedule, both disciplines) and stays absent -/
theorem sync_round_absent (w : World) (sched : List Actor) (pre : PinMap)
    (hA : AgreedRound w none sched) (hI : allData pre) (c : Nat) (hc : pre.get c = none) :
    roundFor c (roundSync sched pre).2 = [] ∧ (roundSync sched pre).1.get c = none ∧
    roundFor c (snapLogsSync sched pre) = [] := by
  rcases sync_round_cid w sched pre hA hI c with ⟨d, _, _, h1, h2, h3⟩ | ⟨_, h1, h2, h3⟩
  · obtain ⟨s1, s2⟩ := syncAct_spec d pre hI c
    simp only [hc] at s2
    rw [s2] at s1 h1
    simp only [List.map_nil] at h1
    refine ⟨h1, ?_, by rw [h3, h1]⟩
    rw [h2, s1, hc]; rfl
  · exact ⟨h1, by rw [h2, hc], h3⟩

/-- **expiry once over several sweeps** (hint 2): an expired pin whose closest member is not a follower is unpinned exactly
once by the first sweep round; a later sweep round — other members, other schedule, another agreed peerset, any clock — logs
nothing for it and it stays gone -/
theorem expiry_once_over_rounds (w w' : World) (s1 s2 : List Actor) (pre : PinMap)
    (hA : AgreedRound w none s1) (hA' : AgreedRound w' none s2) (hI : allData pre)
    (x : Pin) (hx : pre.get x.cid = some x) (hexp : expired x = true)
    (d : Actor) (hd : d ∈ s1) (hc : isClosest w d.pc.self none x.cid = true) (hf : d.pc.follower = false) :
    roundFor x.cid (roundSync s1 pre).2 = [(d.pc.self, .logUnpin x.cid)] ∧
    roundFor x.cid (roundSync s2 (roundSync s1 pre).1).2 = [] ∧
    (roundSync s2 (roundSync s1 pre).1).1.get x.cid = none := by
  obtain ⟨r1, r2, _⟩ := ((expiry_once w s1 pre hA hI x hx).2 hexp d hd hc).1 hf
  obtain ⟨q1, q2, _⟩ := sync_round_absent w' s2 _ hA' (sync_state_is_commit s1 pre hI).1 x.cid r2
  exact ⟨r1, q1, q2⟩

example : roundFor 5 (roundSync [exA2, exA0] [exOld]).2 = [(0, .logUnpin 5)] ∧
    roundFor 5 (roundSync [exA0, exA2] (roundSync [exA2, exA0] [exOld]).1).2 = [] := by decide

end Sequences

end CV.C10
